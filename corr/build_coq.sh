#!/bin/bash
# Full .vo build of the whole Coq development (no -vos/-vok). Incremental through make's dependency tracking.
set -euo pipefail
VERIF="$(cd "$(dirname "$0")/.." && pwd)"
cd "$VERIF/coq"
mkdir -p "$VERIF/build"
exec 8>"$VERIF/build/.coq.lock"
flock 8
{
  echo "-R . Exo"
  echo "-arg -w -arg -notation-overridden,-deprecated-hint-without-locality,-deprecated-instance-without-locality,-ambiguous-paths,-redundant-canonical-projection"
  find . -name '*.v' ! -path './cases/*' | sed 's|^\./||' | LC_ALL=C sort
} > _CoqProject.new
if ! cmp -s _CoqProject.new _CoqProject 2>/dev/null; then
  mv _CoqProject.new _CoqProject
  coq_makefile -f _CoqProject -o Makefile >/dev/null
else
  rm _CoqProject.new
  [ -f Makefile ] || coq_makefile -f _CoqProject -o Makefile >/dev/null
fi
timeout "${VERIF_COQ_TIMEOUT:-3000}" make -j"${VERIF_JOBS:-16}" "$@"
