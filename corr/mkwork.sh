#!/bin/bash
# mkwork.sh <name>: private workspace /work/<name>/{verif,repo} for a builder (copy of /verif, worktree of /repo HEAD)
set -euo pipefail
N="$1"; W=/work/$N
mkdir -p "$W"
if [ ! -d "$W/repo" ]; then git -C /repo worktree add --detach "$W/repo" HEAD >/dev/null 2>&1; fi
if [ ! -d "$W/verif" ]; then
  mkdir -p "$W/verif"
  rsync -a --exclude build/runs --exclude build/cases --exclude .git /verif/ "$W/verif/"
  rm -f "$W/verif/build/.harness.stamp"
fi
echo "$W"
