#!/bin/bash
# MANIFEST.setup_cmd: build everything the checks need from files on disk only (offline).
set -uo pipefail
VERIF="$(cd "$(dirname "$0")/.." && pwd)"
export GOFLAGS=-mod=mod GOPROXY=off GOSUMDB=off GOTOOLCHAIN=local
cd "$VERIF"
rc=0
echo "[setup] building Go harness against ${VERIF_REPO:-/repo}"
corr/build_harness.sh || { echo "[setup] harness build failed"; rc=1; }
echo "[setup] building tools/sitescan (C08 site scanner)"
mkdir -p "$VERIF/build"
( cd "$VERIF/tools/sitescan" && timeout 600 go build -o "$VERIF/build/sitescan" . ) \
  || echo "[setup] tools/sitescan did not build (the C08 check builds it on demand)"
if [ -x corr/gen_kernels.sh ]; then
  echo "[setup] generating Gen/Kernels.v"
  corr/gen_kernels.sh || { echo "[setup] kernel translation failed"; rc=1; }
fi
echo "[setup] building Coq development (full .vo)"
corr/build_coq.sh || { echo "[setup] coq build failed"; rc=1; }
exit $rc
