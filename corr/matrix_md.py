#!/usr/bin/env python3
"""Regenerate seeded/MATRIX.md from seeded/*/meta.json."""
import json, os
S = "/verif/seeded"
rows = []
for n in sorted(os.listdir(S)):
    mp = os.path.join(S, n, "meta.json")
    if not os.path.exists(mp): continue
    m = json.load(open(mp)); d = m.get("detected_by")
    if not isinstance(d, dict):
        verdict, first = "not yet evaluated", ""
    else:
        caught = d.get("caught_by", []); conc = d.get("with_concrete_replay", [])
        verdict = ("CAUGHT by " + ",".join(caught) + (" — concrete replay" if conc else " — broken proof/correspondence, no-failing-input-found")) if caught else "MISSED"
        v = d["checks_run"].get(m["property"], {}).get("violations", [])
        first = (v[0].split("replay=")[-1].split("/")[-1] if v else "")
        verdict += " (at /repo %s)" % d.get("evaluated_at_repo_head", "?")
    rows.append((n, m["property"], (m.get("title") or "")[:110].replace("|", "/"), verdict, first))
with open(os.path.join(S, "MATRIX.md"), "w") as f:
    f.write("# Seeded changes vs checks\n\nEach seed was written by an independent sub-agent that saw only the property text and a scratch worktree; "
            "confirmed by corr/confirm_seed.sh (demo passes clean / fails patched, builds, existing tests pass); evaluated by corr/seed_matrix.py "
            "(apply → quick check of the seed's own property → undo).\n\n| seed | property | change | verdict | replay file |\n|---|---|---|---|---|\n")
    for r in rows: f.write("| " + " | ".join(r) + " |\n")
    c = sum("CAUGHT" in r[3] for r in rows); cc = sum("concrete" in r[3] for r in rows); ms = sum("MISSED" in r[3] for r in rows)
    f.write("\n%d seeds: %d caught (%d with a concrete failing input), %d missed, %d not yet evaluated.\n" % (len(rows), c, cc, ms, len(rows) - c - ms))
print(open(os.path.join(S, "MATRIX.md")).read()[-200:])
