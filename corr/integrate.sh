#!/bin/bash
# integrate.sh <group> [--apply]: copy ONLY the files a builder group owns from /work/<group>/verif into /verif.
# (Workspaces are full copies of /verif and contain stale copies of everybody else's packages.)
set -euo pipefail
G="$1"; APPLY="${2:-}"
SRC=/work/$G/verif
case "$G" in
  gA)  OWN="coq/C01 coq/C03 coq/Ledger harness/s_c01*.go harness/s_c03*.go corr/props/c01.py corr/props/c03.py design/C01*.md design/C03*.md known_findings.d/C01.json known_findings.d/C03.json repo_patches/*c01* repo_patches/*c03*";;
  gB)  OWN="coq/C02 coq/Gen coq/Base/IntDec2.v harness/s_c02*.go harness/s_kernels*.go corr/props/c02.py corr/gen_kernels.sh design/C02*.md known_findings.d/C02.json tools/kernel2v repo_patches/*c02*";;
  gC)  OWN="coq/C04 coq/C05 harness/s_c04*.go harness/s_c05*.go corr/props/c04.py corr/props/c05.py design/C04*.md design/C05*.md known_findings.d/C04.json known_findings.d/C05.json repo_patches/*c04* repo_patches/*c05*";;
  gD1) OWN="coq/C06 harness/s_c06*.go corr/props/c06.py design/C06*.md known_findings.d/C06.json";;
  gD2) OWN="coq/C07 coq/C16 coq/Dogfood harness/s_c07*.go harness/s_c16*.go corr/props/c07.py corr/props/c16.py design/C07* design/C16* known_findings.d/C07.json known_findings.d/C16.json repo_patches/fix-dogfood* repo_patches/fix-operator* repo_patches/*c07* repo_patches/*c16*";;
  gE)  OWN="coq/C12 coq/C13 coq/Oracle harness/s_c12*.go harness/s_c13*.go corr/props/c12.py corr/props/c13.py design/C12*.md design/C13*.md known_findings.d/C12.json known_findings.d/C13.json repo_patches/*c12* repo_patches/*c13*";;
  gF)  OWN="coq/C14 harness/s_c14*.go corr/props/c14.py design/C14* known_findings.d/C14.json repo_patches/*c14*";;
  gG)  OWN="coq/C17 harness/s_c17*.go corr/props/c17.py design/C17*.md known_findings.d/C17.json repo_patches/*c17*";;
  gH)  OWN="coq/C19 harness/s_c19*.go corr/props/c19.py design/C19*.md known_findings.d/C19.json repo_patches/fix-evm* repo_patches/*c19*";;
  gI)  OWN="coq/C20 harness/s_c20*.go corr/props/c20.py design/C20*.md known_findings.d/C20.json repo_patches/*c20* repo_patches/fix-avs*";;
  gJ)  OWN="coq/C10 harness/s_c10*.go corr/props/c10.py design/C10*.md known_findings.d/C10.json tools/c10scan repo_patches/*c10*";;
  gK)  OWN="coq/C08 harness/s_c08*.go corr/props/c08.py design/C08*.md known_findings.d/C08.json tools/sitescan repo_patches/*c08*";;
  gL)  OWN="coq/C09 coq/C11 harness/s_c09*.go harness/s_c11*.go corr/props/c09.py corr/props/c11.py design/C09*.md design/C11*.md known_findings.d/C09.json known_findings.d/C11.json repo_patches/*c09* repo_patches/*c11*";;
  gM)  OWN="coq/C18 harness/s_c18*.go corr/props/c18.py design/C18*.md known_findings.d/C18.json repo_patches/*c18*";;
  gN)  OWN="coq/C15 harness/s_c15*.go corr/props/c15.py design/C15* known_findings.d/C15.json";;
  *) echo "unknown group"; exit 2;;
esac
cd "$SRC"
FILES=$(for pat in $OWN; do for f in $pat; do if [ -e "$f" ]; then find "$f" -type f ! -name '*.vo' ! -name '*.vok' ! -name '*.vos' ! -name '*.glob' ! -name '.*.aux' ! -name '.lia.cache' ! -name '.nia.cache'; fi; done; done | sort -u)
for f in $FILES; do
  if [ ! -f "/verif/$f" ] || ! cmp -s "$f" "/verif/$f"; then
    echo "$f"
    if [ "$APPLY" = "--apply" ]; then mkdir -p "/verif/$(dirname "$f")"; cp -p "$f" "/verif/$f"; fi
  fi
done
# files the group deleted from its own directories
for pat in $OWN; do for f in /verif/$pat; do [ -e "$f" ] || continue; find "$f" -type f ! -name '*.vo' ! -name '*.vok' ! -name '*.vos' ! -name '*.glob' ! -name '.*.aux' ! -name '.lia.cache' ! -name '.nia.cache' | while read x; do r="${x#/verif/}"; if [ ! -e "$SRC/$r" ]; then echo "DELETED in workspace: $r"; [ "$APPLY" = "--apply" ] && rm -f "$x"; fi; done; done; done
