#!/bin/bash
# integrate.sh <group> [--apply]: show (or copy) what a builder workspace /work/<group>/verif adds/changes relative to /verif.
set -euo pipefail
G="$1"; APPLY="${2:-}"
SRC=/work/$G/verif/
OPTS=(-rlpt --checksum --exclude=.git --exclude=build --exclude='*.vo' --exclude='*.vok' --exclude='*.vos' --exclude='*.glob' --exclude='.*.aux' --exclude='.lia.cache' --exclude='.nia.cache'
      --exclude=coq/Makefile --exclude=coq/Makefile.conf --exclude=coq/.Makefile.d --exclude=coq/_CoqProject --exclude=harness/go.mod --exclude=harness/go.sum
      --exclude=__pycache__ --exclude='*.pyc' --exclude=evidence --exclude=MANIFEST.json --exclude=DESIGN.md --exclude=BUILDING.md --exclude=properties.jsonl
      --exclude=known_findings.json --exclude=corr/lib.py --exclude=corr/run_check.py --exclude=corr/build_coq.sh --exclude=corr/build_harness.sh --exclude=corr/setup.sh
      --exclude=corr/gen_manifest.py --exclude=corr/run_all.py --exclude=corr/try_patch.sh --exclude=corr/mkwork.sh --exclude=corr/integrate.sh --exclude=corr/confirm_seed.sh
      --exclude=harness/main.go --exclude=harness/env.go --exclude=harness/coqfmt.go --exclude=coq/Base/Store.v --exclude=coq/Base/IntDec.v --exclude=coq/Base/Util.v --exclude=seeded)
if [ "$G" != gN ]; then OPTS+=(--exclude=coq/C15 --exclude=harness/s_c15.go --exclude=corr/props/c15.py --exclude=corr/props/common.py); fi
if [ "$APPLY" = "--apply" ]; then rsync "${OPTS[@]}" -v "$SRC" /verif/ | grep -v '/$' ; else rsync "${OPTS[@]}" -n -v "$SRC" /verif/ | grep -v '/$'; fi
echo "--- shared files the group modified (NOT copied; review by hand):"
for f in corr/lib.py corr/run_check.py corr/build_coq.sh corr/build_harness.sh harness/main.go harness/env.go harness/coqfmt.go coq/Base/Store.v coq/Base/IntDec.v coq/Base/Util.v corr/props/common.py; do
  if [ -f "$SRC$f" ] && ! cmp -s "$SRC$f" "/verif/$f"; then echo "  CHANGED: $f"; fi
done
