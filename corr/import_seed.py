#!/usr/bin/env python3
"""import_seed.py <seed out dir>... : copy a CONFIRMED seeded change into /verif/seeded/<Cxx-k>/ (patch.diff, demo, meta.json)."""
import json, os, shutil, sys
for d in sys.argv[1:]:
    d = os.path.abspath(d); name = os.path.basename(d)
    cj = os.path.join(d, "confirm.json")
    if not os.path.exists(cj):
        print(name, "not confirmed yet"); continue
    c = json.load(open(cj))
    ok = c.get("demo_on_clean_tree") == "pass" and c.get("patch_applies") == "yes" and c.get("builds") == "yes" and c.get("demo_with_patch") == "fails-as-expected" and c.get("existing_tests", "pass") == "pass"
    if not ok:
        print(name, "NOT KEPT:", c); continue
    out = os.path.join("/verif/seeded", name); os.makedirs(out, exist_ok=True)
    for f in ("patch.diff", "zz_seed_demo_test.go", "demo_path.txt"):
        if os.path.exists(os.path.join(d, f)): shutil.copy(os.path.join(d, f), out)
    if os.path.isdir(os.path.join(d, "demo")): shutil.copytree(os.path.join(d, "demo"), os.path.join(out, "demo"), dirs_exist_ok=True)
    m = json.load(open(os.path.join(d, "meta.json")))
    meta = {"property": m.get("property"), "title": m.get("title"), "breaks": m.get("breaks"), "needs_to_manifest": m.get("needs"),
            "files": m.get("files"), "author": "independent sub-agent given only the property text and a scratch worktree",
            "author_ran": m.get("ran"),
            "confirmed_by_me": {"how": "corr/confirm_seed.sh in a fresh scratch worktree of /repo HEAD: demo on clean tree, git apply, go build ./..., demo with patch, existing tests", **c},
            "detected_by": (json.load(open(os.path.join(out, "meta.json"))).get("detected_by") if os.path.exists(os.path.join(out, "meta.json")) else None) or "not yet evaluated"}
    json.dump(meta, open(os.path.join(out, "meta.json"), "w"), indent=1)
    print(name, "kept")
