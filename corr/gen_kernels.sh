#!/bin/bash
# Regenerate coq/Gen/Kernels.v from the CURRENT sources under $VERIF_REPO with the kernel translator
# (tools/kernel2v, standard library only). The file is rewritten only when its content changed, so make
# does not rebuild the dependent proofs needlessly. Exit status != 0 = a whitelisted pure kernel left the
# translatable subset (correspondence broken); the previous Kernels.v is then left in place so that the
# model can still be run.
set -euo pipefail
export GOFLAGS=-mod=mod GOPROXY=off GOSUMDB=off GOTOOLCHAIN=local CGO_ENABLED=0
VERIF="$(cd "$(dirname "$0")/.." && pwd)"
REPO="${VERIF_REPO:-/repo}"
T="$VERIF/tools/kernel2v"
mkdir -p "$VERIF/build" "$VERIF/coq/Gen"
exec 7>"$VERIF/build/.kernels.lock"
flock 7
BIN="$VERIF/build/kernel2v"
STAMP="$VERIF/build/.kernel2v.stamp"
NEW="$(cat "$T"/*.go "$T/go.mod" | sha1sum | cut -d' ' -f1)"
if [ ! -x "$BIN" ] || [ ! -f "$STAMP" ] || [ "$(cat "$STAMP")" != "$NEW" ]; then
  (cd "$T" && timeout 600 go build -o "$BIN" .)
  echo "$NEW" > "$STAMP"
fi
if [ "${1:-}" = "--snapshot" ]; then
  # by hand, after a reviewed change of the Go kernels: freeze the current translation as the last good one
  "$BIN" -repo "$REPO" -out "$VERIF/coq/Gen/KernelsSnapshot.v"
  sed -i '1,3c (* Gen/KernelsSnapshot.v — LAST GOOD output of tools/kernel2v (corr/gen_kernels.sh --snapshot); never written by a check. *)' "$VERIF/coq/Gen/KernelsSnapshot.v"
  echo "gen_kernels: coq/Gen/KernelsSnapshot.v refreshed"
  exit 0
fi
OUT="$VERIF/build/Kernels.v.new"
rm -f "$OUT"
"$BIN" -repo "$REPO" -out "$OUT"
if ! cmp -s "$OUT" "$VERIF/coq/Gen/Kernels.v" 2>/dev/null; then
  mv "$OUT" "$VERIF/coq/Gen/Kernels.v"
  echo "gen_kernels: coq/Gen/Kernels.v regenerated (content changed)"
else
  rm -f "$OUT"
fi
