#!/usr/bin/env python3
"""Regenerate DESIGN.md §9.4 (defect lists) from known_findings.json + known_findings.d/*.json."""
import json, glob, re, subprocess
p = '/verif/DESIGN.md'
s = open(p).read()
a = s.index("### 9.4 Genuine defects found on the unchanged tree")
b = s.index("### 9.5 Alarms that were not defects")
fixed = json.load(open('/verif/known_findings.json'))["fixed"]
kf = []
for f in sorted(glob.glob('/verif/known_findings.d/*.json')):
    x = json.load(open(f)); x = x if isinstance(x, list) else x.get("findings", [])
    seen = set()
    for e in x:
        base = re.sub(r"-(mem|abci|final|wf|reexport)$", "", e["id"])
        if base in seen: continue
        seen.add(base); kf.append((e["property"], base, e["what"]))
nfix = int(subprocess.run("git -C /repo log --oneline | grep -c ' fix:'", shell=True, capture_output=True, text=True).stdout)
txt = "### 9.4 Genuine defects found on the unchanged tree\n\n"
txt += ("Every item below was first demonstrated on the real code (harness run or scratch test), then either repaired by one unguarded `fix:` commit\n"
        "in /repo or recorded as a known finding with a narrow match (suite + monitor + tag of a directed scenario). With all %d fix commits the\n"
        "existing test suite, unedited, passes (only the two tests that already fail on the pinned tree fail: `client::TestInitConfigNonNotExistError`,\n"
        "`x/oracle/keeper/aggregator::TestAggregatorContext`). The models describe the *repaired* code; each repaired behaviour is kept as a directed\n"
        "regression scenario (reverting any fix makes the owning check report VIOLATION with a concrete replay — verified for each), and most packages\n"
        "keep the pre-repair model with a `…_refuted` theorem or a regression `Example`. One proposed repair was NOT applied because it needs an edit of\n"
        "an existing test assertion and changes consensus state (`design/C14-proposed-persist-finalizing-message.patch.txt`).\n\n" % nfix)
txt += "**Repaired** (`git -C /repo log --oneline`; one line per commit, as recorded in `known_findings.json`):\n\n"
for f in fixed:
    m = re.match(r"fixed: property=(\S+) (\S+) (.*)", f)
    txt += "* %s `%s` — %s\n" % (m.group(1), m.group(2), m.group(3))
txt += "\n**Recorded, not repaired** (`known_findings.d/`; each prints one `KNOWN-FINDING:` line per matching monitor on every run):\n\n"
for pid, i, w in kf:
    txt += "* %s `%s` — %s\n" % (pid, i, w)
txt += "\n"
open(p, 'w').write(s[:a] + txt + s[b:])
print(len(fixed), "fixed lines;", nfix, "fix commits;", len(kf), "known findings")
