#!/usr/bin/env python3
"""Shared machinery of all checks.

One run of a check = grep gate -> rebuild harness from /repo's working tree -> (re)generate Gen/Kernels.v
-> full .vo `make` of the Coq development -> Print Assumptions harvest for the property's theorems ->
harness runs the REAL code on generated histories -> the Coq model / monitors are evaluated on the same
cases inside coqc (vm_compute, sharded over the cores) -> verdict -> evidence file.
"""
import concurrent.futures
import hashlib
import json
import os
import re
import shutil
import subprocess
import sys
import time

VERIF = os.path.dirname(os.path.dirname(os.path.abspath(__file__)))
REPO = os.environ.get("VERIF_REPO", "/repo")
BUILD = os.path.join(VERIF, "build")
COQ = os.path.join(VERIF, "coq")
EVID = os.path.join(VERIF, "evidence")
REPLAY_DIR = os.path.join(EVID, "replay")
JOBS = int(os.environ.get("VERIF_JOBS", "16"))

GOENV = dict(os.environ, GOFLAGS="-mod=mod", GOPROXY="off", GOSUMDB="off", GOTOOLCHAIN="local")

FORBIDDEN = re.compile(
    r"\b(Admitted|admit|Axiom|Axioms|Parameter|Parameters|Conjecture|Conjectures|Admit Obligations|"
    r"Unset Guard Checking|Unset Positivity Checking|Unset Universe Checking|bypass_check|"
    r"type-in-type|impredicative-set|native_compute)\b")


def log(*a):
    print(*a, flush=True)


def sh(cmd, **kw):
    return subprocess.run(cmd, shell=isinstance(cmd, str), stdout=subprocess.PIPE, stderr=subprocess.STDOUT,
                          text=True, **kw)


# --------------------------------------------------------------------------------------------
def grep_gate():
    """No Admitted/admit/Axiom/Parameter/... anywhere in the development (comments are stripped first).
    `Variable`/`Hypothesis`/`Context` are only allowed inside a Section."""
    bad = []
    for root, _, files in os.walk(COQ):
        for f in files:
            if not f.endswith(".v"):
                continue
            p = os.path.join(root, f)
            src = open(p).read()
            src_nc = strip_comments(src)
            for m in FORBIDDEN.finditer(src_nc):
                bad.append("%s: forbidden token %r" % (os.path.relpath(p, VERIF), m.group(0)))
            depth = 0
            for line in src_nc.splitlines():
                s = line.strip()
                if re.match(r"Section\s+\w+", s):
                    depth += 1
                elif re.match(r"End\s+\w+", s) and depth > 0:
                    depth -= 1
                elif depth == 0 and re.match(r"(Variable|Variables|Hypothesis|Hypotheses)\b", s):
                    bad.append("%s: %s outside a Section" % (os.path.relpath(p, VERIF), s.split()[0]))
    return bad


def strip_comments(src):
    out = []
    depth = 0
    i = 0
    in_str = False
    while i < len(src):
        if depth == 0 and src[i] == '"':
            in_str = not in_str
            out.append(src[i])
            i += 1
            continue
        if not in_str and src.startswith("(*", i):
            depth += 1
            i += 2
            continue
        if not in_str and depth > 0 and src.startswith("*)", i):
            depth -= 1
            i += 2
            continue
        if depth == 0:
            out.append(src[i])
        elif src[i] == "\n":
            out.append("\n")
        i += 1
    return "".join(out)


# --------------------------------------------------------------------------------------------
def build_harness():
    t = time.time()
    r = sh([os.path.join(VERIF, "corr", "build_harness.sh")], env=GOENV)
    return r.returncode == 0, r.stdout, time.time() - t


def gen_kernels():
    """Regenerate coq/Gen/Kernels.v from /repo's current source (kernel translator)."""
    script = os.path.join(VERIF, "corr", "gen_kernels.sh")
    if not os.path.exists(script):
        return True, "", 0.0
    t = time.time()
    r = sh([script], env=GOENV)
    return r.returncode == 0, r.stdout, time.time() - t


def build_coq():
    t = time.time()
    r = sh([os.path.join(VERIF, "corr", "build_coq.sh")])
    return r.returncode == 0, r.stdout, time.time() - t


def theorems_in(props_file):
    src = strip_comments(open(os.path.join(VERIF, props_file)).read())
    return re.findall(r"^\s*(?:Theorem|Corollary)\s+([A-Za-z0-9_']+)", src, re.M)


def print_assumptions(prop_id, logical_module, theorems):
    """coqc a throw-away file that loads the compiled Props module and prints the assumptions of each
    theorem; returns {theorem: 'Closed under the global context' | axiom text} for those that loaded."""
    d = os.path.join(BUILD, "cases", prop_id)
    os.makedirs(d, exist_ok=True)
    p = os.path.join(d, "assump_%s.v" % prop_id)
    with open(p, "w") as f:
        f.write("From Exo Require Import %s.\n" % logical_module)
        for th in theorems:
            f.write('Goal True. idtac "@@BEGIN %s". Abort.\nPrint Assumptions %s.\nGoal True. idtac "@@END". Abort.\n' % (th, th))
    r = sh(["coqc", "-noglob", "-R", COQ, "Exo", p], cwd=d)
    res = {}
    if r.returncode != 0:
        return res, r.stdout
    for m in re.finditer(r"@@BEGIN (\S+)\n(.*?)@@END", r.stdout, re.S):
        res[m.group(1)] = " ".join(m.group(2).split())
    return res, r.stdout


# --------------------------------------------------------------------------------------------
def run_harness(suite, seed, n, out, tier, extra=None, timeout=3000):
    if os.path.exists(out):
        shutil.rmtree(out)
    os.makedirs(out)
    cmd = [os.path.join(BUILD, "exoharness"), suite, "-seed", str(seed), "-n", str(n), "-out", out, "-tier", tier]
    if extra:
        cmd += extra
    t = time.time()
    try:
        r = sh(cmd, timeout=timeout)
    except subprocess.TimeoutExpired:
        return False, "harness timeout", time.time() - t
    return r.returncode == 0, r.stdout, time.time() - t


def _run_shard(args):
    d, name, header, case_type, lines, checks, offset = args
    p = os.path.join(d, name + ".v")
    with open(p, "w") as f:
        f.write(header + "\n")
        for i, l in enumerate(lines):
            f.write("Definition c%d : %s := %s.\n" % (i, case_type, l))
        f.write("Definition cases : list %s := [%s].\n" % (case_type, "; ".join("c%d" % i for i in range(len(lines)))))
        for cname, fn in checks.items():
            f.write('Definition bad_%s := Eval vm_compute in failing (%s) cases 0.\n' % (cname, fn))
            f.write('Goal True. idtac "@@BEGIN %s". Abort.\nPrint bad_%s.\nGoal True. idtac "@@END". Abort.\n' % (cname, cname))
    try:
        r = sh(["coqc", "-noglob", "-R", COQ, "Exo", p], cwd=d, timeout=3000)
    except subprocess.TimeoutExpired:
        return {"error": "coqc timeout on shard %s" % name}
    if r.returncode != 0:
        return {"error": "coqc failed on shard %s:\n%s" % (name, r.stdout[-3000:])}
    out = {}
    for m in re.finditer(r"@@BEGIN (\S+)\n(.*?)@@END", r.stdout, re.S):
        body = m.group(2)
        body = body.split("=", 1)[1] if "=" in body else body
        body = body.rsplit(":", 1)[0]
        pairs = re.findall(r"\(\s*(\d+)\s*,\s*(\d+)\s*\)", body)
        out[m.group(1)] = [(int(a) + offset, int(b)) for a, b in pairs]
        if not pairs and "[]" not in body:
            return {"error": "unparsable coq output in shard %s: %s" % (name, body[:500])}
    for cname in checks:
        if cname not in out:
            return {"error": "missing output for %s in shard %s" % (cname, name)}
    return out


def eval_cases(prop_id, suite_name, header, case_type, case_lines, checks):
    """Evaluate boolean/option-nat checkers (Coq functions case -> option nat) on all cases, sharded.
    Returns ({check: [(case_index, step)]}, error or None)."""
    d = os.path.join(BUILD, "cases", prop_id, suite_name)
    if os.path.exists(d):
        shutil.rmtree(d)
    os.makedirs(d)
    n = len(case_lines)
    if n == 0:
        return {c: [] for c in checks}, None
    total = sum(len(l) for l in case_lines)
    nshards = max(1, min(JOBS, n, total // 20000 + 1))
    # contiguous shards balanced by size
    shards = []
    target = total / nshards
    cur, cur_sz, start = [], 0, 0
    for i, l in enumerate(case_lines):
        cur.append(l)
        cur_sz += len(l)
        if cur_sz >= target and len(shards) < nshards - 1:
            shards.append((start, cur))
            start = i + 1
            cur, cur_sz = [], 0
    if cur:
        shards.append((start, cur))
    jobs = [(d, "shard%d" % k, header, case_type, lines, checks, off) for k, (off, lines) in enumerate(shards)]
    res = {c: [] for c in checks}
    with concurrent.futures.ThreadPoolExecutor(max_workers=JOBS) as ex:
        for out in ex.map(_run_shard, jobs):
            if "error" in out:
                return res, out["error"]
            for c in checks:
                res[c] += out[c]
    return res, None


# --------------------------------------------------------------------------------------------
def load_known_findings():
    """known_findings.json + known_findings.d/*.json (committed files, never written at run time)."""
    out = []
    p = os.path.join(VERIF, "known_findings.json")
    if os.path.exists(p):
        out += json.load(open(p)).get("findings", [])
    d = os.path.join(VERIF, "known_findings.d")
    if os.path.isdir(d):
        for f in sorted(os.listdir(d)):
            if f.endswith(".json"):
                j = json.load(open(os.path.join(d, f)))
                out += j if isinstance(j, list) else j.get("findings", [])
    return out


def coqchk(modules, timeout=3000):
    """Independent re-check of the compiled property modules (thorough tier)."""
    t = time.time()
    try:
        r = sh(["coqchk", "-silent", "-o", "-R", COQ, "Exo"] + modules, timeout=timeout)
    except subprocess.TimeoutExpired:
        return None, "coqchk timeout", time.time() - t
    return r.returncode == 0, r.stdout[-4000:], time.time() - t


def write_evidence(prop_id, ev):
    os.makedirs(EVID, exist_ok=True)
    with open(os.path.join(EVID, prop_id + ".json"), "w") as f:
        json.dump(ev, f, indent=1, sort_keys=False)
        f.write("\n")


def write_replay(prop_id, tag, obj):
    os.makedirs(REPLAY_DIR, exist_ok=True)
    p = os.path.join(REPLAY_DIR, "%s-%s.json" % (prop_id, tag))
    with open(p, "w") as f:
        json.dump(obj, f, indent=1)
        f.write("\n")
    return p


def case_hash(line):
    return hashlib.sha1(line.encode()).hexdigest()
