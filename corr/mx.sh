#!/bin/bash
# mx.sh <seed names...>: run the seed matrix in an isolated copy (/work/mx) so /repo and /verif stay usable meanwhile.
set -euo pipefail
MXW="${MXW:-/work/mx}"; mkdir -p $MXW
if [ ! -d $MXW/repo ]; then git -C /repo worktree add --detach $MXW/repo HEAD >/dev/null 2>&1; fi
git -C $MXW/repo checkout -q --detach "$(git -C /repo rev-parse HEAD)"
rsync -a --delete --exclude .git --exclude build/runs --exclude build/cases --exclude build/logs --exclude build/.harness.stamp /verif/ $MXW/verif/
export VERIF_REPO=$MXW/repo GOFLAGS=-mod=mod GOPROXY=off GOSUMDB=off GOTOOLCHAIN=local
cd $MXW/verif && python3 corr/seed_matrix.py "$@"
for n in "$@"; do cp $MXW/verif/seeded/$n/meta.json /verif/seeded/$n/meta.json; done
echo MXDONE
