#!/bin/bash
# mx.sh <seed names...>: run the seed matrix in an isolated copy (/work/mx) so /repo and /verif stay usable meanwhile.
set -euo pipefail
mkdir -p /work/mx
if [ ! -d /work/mx/repo ]; then git -C /repo worktree add --detach /work/mx/repo HEAD >/dev/null 2>&1; fi
git -C /work/mx/repo checkout -q --detach "$(git -C /repo rev-parse HEAD)"
rsync -a --delete --exclude .git --exclude build/runs --exclude build/cases --exclude build/logs --exclude build/.harness.stamp /verif/ /work/mx/verif/
export VERIF_REPO=/work/mx/repo GOFLAGS=-mod=mod GOPROXY=off GOSUMDB=off GOTOOLCHAIN=local
cd /work/mx/verif && python3 corr/seed_matrix.py "$@"
for n in "$@"; do cp /work/mx/verif/seeded/$n/meta.json /verif/seeded/$n/meta.json; done
echo MXDONE
