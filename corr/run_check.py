#!/usr/bin/env python3
"""run_check.py Cxx [--tier quick|thorough] [--replay FILE]

Exit 0: property held on everything explored (KNOWN-FINDING lines may be printed).
Exit 1: a line `VIOLATION property=<id> replay=<path>[ no-failing-input-found]` was printed.
"""
import argparse
import importlib
import json
import os
import sys
import time

sys.path.insert(0, os.path.dirname(os.path.abspath(__file__)))
import lib  # noqa: E402
from lib import log  # noqa: E402


TIE_TARGETS = {
    "C01": ["Gen/TieShares.vo"], "C03": ["Gen/TieShares.vo"], "C04": ["Gen/TieUsd.vo", "Gen/TieSlash.vo"],
    "C05": ["Gen/TieUsd.vo", "Gen/TieShares.vo"], "C06": ["Gen/TieValset.vo"], "C12": ["Gen/TieOracle.vo"],
    "C13": ["Gen/TieOracle.vo"], "C14": ["Gen/TieOracle.vo"], "C15": ["Gen/TieEpochs.vo"], "C17": ["Gen/TieFees.vo"],
    "C19": ["Gen/TieGas.vo"],
}


def main():
    ap = argparse.ArgumentParser()
    ap.add_argument("prop")
    ap.add_argument("--tier", default=os.environ.get("VERIF_TIER", "quick"))
    ap.add_argument("--replay")
    a = ap.parse_args()
    tier = a.tier if a.tier in ("quick", "thorough") else "quick"
    seed = int(os.environ.get("VERIF_SEED", "1") or "1")
    pid = a.prop.upper()
    P = importlib.import_module("props." + pid.lower()).PROP
    t0 = time.time()

    violations = []   # (replay_path, no_input_found: bool, what)
    known_lines = []
    notes = []
    known = [k for k in lib.load_known_findings() if k.get("property") == pid]

    replay_req = None
    if a.replay:
        replay_req = json.load(open(a.replay))
        seed = replay_req.get("seed", seed)
        tier = replay_req.get("tier", tier)

    # 1. grep gate --------------------------------------------------------------------------
    gate = lib.grep_gate()
    if gate:
        p = lib.write_replay(pid, "gate", {"property": pid, "broken": "grep gate", "details": gate})
        violations.append((p, True, "forbidden construct in the Coq development"))

    # 2. harness from /repo's current tree ------------------------------------------------------
    ok_h, out_h, t_h = lib.build_harness()
    log("[%s] harness build: %s (%.0fs)" % (pid, "ok" if ok_h else "FAILED", t_h))
    if not ok_h:
        p = lib.write_replay(pid, "harness-build", {"property": pid,
                             "broken": "correspondence: the harness no longer builds against /repo",
                             "output": out_h[-6000:]})
        violations.append((p, True, "harness does not build against the current tree"))

    # 3. kernels + coq --------------------------------------------------------------------------
    ok_k, out_k, t_k = lib.gen_kernels()
    if not ok_k and (P.get("uses_kernels") or pid in TIE_TARGETS):
        p = lib.write_replay(pid, "kernel-translation", {"property": pid,
                             "broken": "translator: a pure kernel left the translatable subset", "output": out_k[-6000:]})
        violations.append((p, True, "kernel translation failed"))
    lib.sh([os.path.join(lib.VERIF, "corr", "build_coq.sh"), "-k"])
    targets = [t for t in P["coq_targets"]]
    # kernel ties: lemmas (coq/Gen/Tie*.v) proving that a package's hand-written arithmetic equals the kernels
    # REGENERATED from the Go source on this run; a change of the Go kernel breaks the tie of every package using it
    for t in TIE_TARGETS.get(pid, []):
        if t not in targets and os.path.exists(os.path.join(lib.COQ, t[:-1])):
            targets.append(t)
    r = lib.sh([os.path.join(lib.VERIF, "corr", "build_coq.sh")] + targets)
    ok_c = r.returncode == 0
    log("[%s] coq make %s: %s" % (pid, " ".join(targets), "ok" if ok_c else "FAILED"))
    proofs_broken = None
    if not ok_c:
        proofs_broken = r.stdout[-6000:]

    theorems = lib.theorems_in(P["props_file"])
    assumptions = {}
    if ok_c:
        assumptions, _ = lib.print_assumptions(pid, P["props_module"], theorems)
    discharged = [t for t in theorems if t in assumptions]
    allowed_axioms = P.get("allowed_axioms", [])
    for th, txt in assumptions.items():
        if txt.startswith("Closed under the global context"):
            continue
        import re as _re
        names = _re.findall(r"(?<![\(\w.'])([A-Za-z_][\w.']*) :", txt.replace("Axioms:", " "))
        extra = [n for n in names if n not in allowed_axioms]
        if extra or not names:
            p = lib.write_replay(pid, "axioms", {"property": pid, "theorem": th, "assumptions": txt, "not_in_trusted_base": extra})
            violations.append((p, True, "theorem %s depends on assumptions outside the declared trusted base" % th))
    if ok_c and len(discharged) != len(theorems):
        p = lib.write_replay(pid, "missing-theorems", {"property": pid, "theorems": theorems, "loaded": discharged})
        violations.append((p, True, "some theorems of %s did not load" % P["props_file"]))

    chk_txt = None
    if ok_c and tier == "thorough" and not os.environ.get("VERIF_NO_COQCHK"):
        ok_chk, chk_txt, t_chk = lib.coqchk(["Exo." + P["props_module"]])
        log("[%s] coqchk: %s (%.0fs)" % (pid, {True: "ok", False: "FAILED", None: "timeout"}[ok_chk], t_chk))
        if ok_chk is False:
            p = lib.write_replay(pid, "coqchk", {"property": pid, "broken": "coqchk rejects the compiled development", "output": chk_txt})
            violations.append((p, True, "coqchk rejects %s" % P["props_module"]))

    # 4. correspondence + monitors on the implementation ---------------------------------------------
    total_eval = 0
    distinct_nt = set()
    samples = []
    distributions = {}
    traces_validated = 0
    corr_broken = []     # (suite, check, case idx, step)
    monitor_fail = []    # (suite, check, case idx, step, case json)
    suite_errors = []
    t_suites = time.time()
    if ok_h:
        for S in P["suites"]:
            n = S["n_thorough"] if tier == "thorough" else S["n_quick"]
            rounds = [(seed, n)]
            if replay_req and replay_req.get("suite") == S["name"]:
                rounds = [(replay_req["seed"], replay_req["n"])]
            elif replay_req and replay_req.get("suite"):
                continue
            attempt = 0
            while attempt < len(rounds):
                sd, nn = rounds[attempt]
                attempt += 1
                out = os.path.join(lib.BUILD, "runs", pid, S["name"])
                ok, hout, th_ = lib.run_harness(S["harness"], sd, nn, out, tier, S.get("extra"))
                if not ok:
                    suite_errors.append((S["name"], "harness run failed: " + hout[-3000:]))
                    break
                lines = open(os.path.join(out, "cases.coq")).read().splitlines()
                descs = [json.loads(l) for l in open(os.path.join(out, "cases.jsonl"))]
                stats = json.load(open(os.path.join(out, "stats.json")))
                distributions[S["name"]] = stats.get("distribution", {})
                res, err = lib.eval_cases(pid, S["name"], S["header"], S["case_type"], lines, S["checks"])
                if err:
                    suite_errors.append((S["name"], err))
                    break
                total_eval += len(lines)
                for l, d in zip(lines, descs):
                    if d.get("nt", True):
                        distinct_nt.add(lib.case_hash(l))
                if len(samples) < 3 and descs:
                    samples.append(_shrink_sample(descs[0]))
                corr_here = []
                for cname, kind in S["kinds"].items():
                    for (ci, step) in res[cname]:
                        if kind == "corr":
                            corr_here.append((S["name"], cname, ci, step))
                        else:
                            monitor_fail.append((S["name"], cname, ci, step, descs[ci], sd, nn))
                corr_broken += [(s, c, ci, st, descs[ci], sd, nn) for (s, c, ci, st) in corr_here]
                bad_idx = {ci for (_, _, ci, _) in corr_here}
                traces_validated += len(lines) - len(bad_idx)
                log("[%s] suite %s seed=%d: %d cases, harness %.1fs, corr mismatches=%d, monitor failures so far=%d"
                    % (pid, S["name"], sd, len(lines), th_, len(corr_here), len(monitor_fail)))
                # search: correspondence or proofs broke but no failing input yet -> more seeds, monitors decide
                # (bounded: at most 2 extra rounds, at most 2000 cases each, and only while the time budget lasts)
                if ((corr_here or proofs_broken) and not monitor_fail and attempt == len(rounds) and attempt < 3 and not replay_req
                        and time.time() - t0 < float(os.environ.get("VERIF_SEARCH_BUDGET_S", "420"))):
                    rounds.append((sd + 1000 * attempt, min(nn * 2, max(nn, 2000))))
    t_suites = time.time() - t_suites

    # 5. verdict ----------------------------------------------------------------------------------
    def known_match(suite, check, step, desc):
        for k in known:
            m = k.get("match", {})
            if m.get("suite") not in (None, suite):
                continue
            if m.get("check") not in (None, check):
                continue
            if "step" in m and m["step"] != step:
                continue
            if "tag" in m and m["tag"] not in desc.get("tags", []):
                continue
            return k
        return None

    reported_known = set()
    nviol = 0
    for (suite, check, ci, step, desc, sd, nn) in monitor_fail:
        if replay_req and replay_req.get("index") is not None and ci != replay_req["index"]:
            continue
        k = known_match(suite, check, step, desc)
        if k:
            if k["id"] not in reported_known:
                reported_known.add(k["id"])
                known_lines.append("KNOWN-FINDING: property=%s %s" % (pid, k["what"]))
            continue
        nviol += 1
        if nviol > 3:
            continue
        p = lib.write_replay(pid, "%s-%s-%d" % (suite, check, ci), {
            "property": pid, "suite": suite, "check": check, "seed": sd, "n": nn, "tier": tier, "index": ci,
            "failing_step": step, "what": "property monitor %s is false on the implementation's observed behaviour" % check,
            "case": desc})
        violations.append((p, False, "monitor %s failed on case %d step %d" % (check, ci, step)))

    if not monitor_fail or all(known_match(s, c, st, d) for (s, c, _, st, d, _, _) in monitor_fail):
        # nothing concrete found: broken proof / correspondence is still a violation, without failing input
        if proofs_broken:
            p = lib.write_replay(pid, "proof", {"property": pid, "broken": "proof obligation",
                                 "targets": targets, "coqc_output": proofs_broken})
            violations.append((p, True, "a theorem of %s no longer checks" % P["props_file"]))
        seen = set()
        for (suite, check, ci, step, desc, sd, nn) in corr_broken:
            k = known_match(suite, check, step, desc)
            if k:
                if k["id"] not in reported_known:
                    reported_known.add(k["id"])
                    known_lines.append("KNOWN-FINDING: property=%s %s" % (pid, k["what"]))
                continue
            if (suite, check) in seen:
                continue
            seen.add((suite, check))
            p = lib.write_replay(pid, "corr-%s-%s-%d" % (suite, check, ci), {
                "property": pid, "suite": suite, "check": check, "seed": sd, "n": nn, "tier": tier, "index": ci,
                "failing_step": step,
                "broken": "correspondence %s/%s: model and implementation disagree (first at step %d)" % (suite, check, step),
                "case": desc})
            violations.append((p, True, "correspondence %s/%s no longer checks" % (suite, check)))
        for (sname, err) in suite_errors:
            p = lib.write_replay(pid, "suite-%s" % sname, {"property": pid, "suite": sname, "broken": "suite could not be evaluated", "error": err})
            violations.append((p, True, "suite %s could not be evaluated" % sname))

    # 6. evidence -----------------------------------------------------------------------------------
    wall = time.time() - t0
    tb = list(P["trusted_base"])
    tb.append("Print Assumptions: " + "; ".join("%s: %s" % (t, assumptions.get(t, "<not loaded>")) for t in theorems))
    ev = {
        "property_id": pid,
        "tier": tier,
        "seed": seed,
        "level": "proof",
        "coverage": {
            "obligations": len(theorems),
            "discharged": len(discharged),
            "checker_cmd": "corr/build_coq.sh %s  (coq_makefile + make, full .vo, coqc 8.16.1); Print Assumptions via coqc on build/cases/%s/assump_%s.v" % (" ".join(targets), pid, pid),
            "trusted_base": tb,
            "theorems": theorems,
            "refuted_or_partial": [t for t in theorems if t.endswith("_refuted") or t.endswith("_partial")],
            "traces_validated_against_impl": traces_validated,
            "evaluations": total_eval,
            "distinct_nontrivial": len(distinct_nt),
            "rule": P["rule"],
            "samples": samples if samples else [{"note": "no case was generated in this run"}],
            "input_distribution": distributions,
            "explanation": P["explanation"],
            "known_findings_reported": sorted(reported_known),
            "coqchk": chk_txt,
            "timing_s": {"harness_build": round(t_h, 1), "suites": round(t_suites, 1)},
        },
        "assumptions": P["assumptions"],
        "wall_s": round(wall, 1),
        "violations": len(violations),
    }
    lib.write_evidence(pid, ev)

    for l in known_lines:
        log(l)
    for (p, nfif, what) in violations:
        log("[%s] %s" % (pid, what))
        log("VIOLATION property=%s replay=%s%s" % (pid, p, " no-failing-input-found" if nfif else ""))
    log("[%s] %s tier=%s seed=%d theorems=%d/%d cases=%d wall=%.0fs" % (
        pid, "FAIL" if violations else "PASS", tier, seed, len(discharged), len(theorems), total_eval, wall))
    sys.exit(1 if violations else 0)


def _shrink_sample(d, limit=2500):
    s = json.dumps(d)
    if len(s) <= limit:
        return d
    # keep the head of long lists so that the sample stays readable
    def cut(x, depth=0):
        if isinstance(x, list):
            y = [cut(v, depth + 1) for v in x[:3]]
            if len(x) > 3:
                y.append("... (%d more)" % (len(x) - 3))
            return y
        if isinstance(x, dict):
            return {k: cut(v, depth + 1) for k, v in x.items()}
        return x
    return cut(d)


if __name__ == "__main__":
    main()
