#!/usr/bin/env python3
"""Regenerate /verif/MANIFEST.json from corr/props/*.py (claimed checks) + corr/not_applicable.json.
Run by hand after adding/removing a package; the result is committed."""
import importlib
import json
import os
import subprocess
import sys

HERE = os.path.dirname(os.path.abspath(__file__))
VERIF = os.path.dirname(HERE)
sys.path.insert(0, HERE)

props = [json.loads(l) for l in open(os.path.join(VERIF, "properties.jsonl"))]
na_path = os.path.join(HERE, "not_applicable.json")
na = json.load(open(na_path)) if os.path.exists(na_path) else {}

hooks_commits = []
hp = os.path.join(HERE, "hook_commits.txt")
if os.path.exists(hp):
    hooks_commits = [l.split()[0] for l in open(hp) if l.strip() and not l.startswith("#")]

checks, not_app, claimed = [], [], []
for p in props:
    pid = p["id"]
    modpath = os.path.join(HERE, "props", pid.lower() + ".py")
    if pid in na or not os.path.exists(modpath):
        not_app.append({"property_id": pid, "reason": na.get(pid, "check not built yet (work in progress; planned model and theorems in DESIGN.md §3)")})
        continue
    P = importlib.import_module("props." + pid.lower()).PROP
    claimed.append(pid)
    checks.append({
        "property_id": pid,
        "quick_cmd": "python3 corr/run_check.py %s --tier quick" % pid,
        "thorough_cmd": "python3 corr/run_check.py %s --tier thorough" % pid,
        "evidence_file": "/verif/evidence/%s.json" % pid,
        "replay_cmd_template": "python3 corr/run_check.py %s --replay {path}" % pid,
        "engine": "coq-proof+correspondence",
        "level_claimed": {
            "category": "proof",
            "text": P.get("level_text") or P["explanation"],
            "design_ref": "DESIGN.md §3 %s, §9; design/%s.md" % (pid, pid),
        },
        "level_note": P.get("level_note") or ("Trusted: Coq 8.16.1 kernel; Go harness + generators; hand-written Gallina transcription tied to the code by "
                                               "differential execution only. " + " | ".join(P.get("assumptions", []))[:900]),
        "technique": P.get("technique") or "Rocq/Coq machine-checked proof about an executable model + model/implementation correspondence check",
    })

m = {
    "version": 1,
    "setup_cmd": "corr/setup.sh",
    "hooks": {
        "guard": "verif",
        "enable": "go build -tags verif (harness module /verif/harness with `replace github.com/ExocoreNetwork/exocore => /repo`); hook files are add-only zz_verif_*.go with //go:build verif",
        "baseline_off_cmd": "cd /repo && GOFLAGS=-mod=mod go test -vet=off -count=1 -timeout 25m ./...",
        "source_commits": hooks_commits,
        "add_only": True,
    },
    "engines": [{
        "name": "coq-proof+correspondence",
        "path": "corr/run_check.py",
        "serves_properties": claimed,
        "kind_free_text": "Coq 8.16.1 theorems about executable Gallina models; models tied to /repo by differential execution of the real code (Go harness, build tag verif) against the model evaluated in coqc (vm_compute), and for pure kernels by a Go-AST→Gallina translator re-run on every check; property monitors evaluated on the implementation's observations give the replay",
    }],
    "checks": checks,
    "not_applicable": not_app,
    "notes": "Every check: grep gate (no admits/axioms) → rebuild harness from /repo's working tree → regenerate kernels → full .vo make → Print Assumptions → correspondence + monitors → evidence. See DESIGN.md.",
}
with open(os.path.join(VERIF, "MANIFEST.json"), "w") as f:
    json.dump(m, f, indent=1)
    f.write("\n")
print("claimed:", " ".join(claimed))
print("not_applicable:", " ".join(x["property_id"] for x in not_app))
