#!/usr/bin/env python3
"""Regenerate /verif/MANIFEST.json from corr/props/*.py (claimed checks) + corr/not_applicable.json.
Run by hand after adding/removing a package; the result is committed."""
import importlib
import json
import os
import subprocess
import sys

HERE = os.path.dirname(os.path.abspath(__file__))
VERIF = os.path.dirname(HERE)
sys.path.insert(0, HERE)

props = [json.loads(l) for l in open(os.path.join(VERIF, "properties.jsonl"))]
na_path = os.path.join(HERE, "not_applicable.json")
na = json.load(open(na_path)) if os.path.exists(na_path) else {}

hooks_commits = []
hp = os.path.join(HERE, "hook_commits.txt")
if os.path.exists(hp):
    hooks_commits = [l.split()[0] for l in open(hp) if l.strip() and not l.startswith("#")]

TECH = {
 "C01": "Rocq/Coq proof: conservation / non-negativity / escrow invariants by induction over all ledger op histories (incl. NST adjustments); model tied to the real keepers by a per-op store-level correspondence check; share kernels tied to the Go source by a regenerated translation",
 "C02": "Rocq/Coq proof: rounding laws over the whole numeric domain about share kernels REGENERATED from the Go source on every run (Go-AST -> Gallina translator) + share-ledger invariants by induction over histories; correspondence check against the real keepers",
 "C03": "Rocq/Coq proof: key-string-level index / never-early / release-exact / aggregate invariants by induction over histories, prefix-scan exactness lemma; correspondence check on raw store dumps of the real delegation module",
 "C04": "Rocq/Coq proof: per-call slash statement (proportion, reductions, frame, idempotence) proved of the model for all states and lifted over histories; the same boolean evaluated on before/after dumps of the real keepers",
 "C05": "Rocq/Coq proof: closed-form voting-power statement at every epoch end over all histories, monotonicity / rounding bounds over the whole domain; correspondence check through the real epoch hooks",
 "C06": "Rocq/Coq proof: `apply prev (diff) = top-k eligible` for all inputs with a verified sort, lifted over histories and linked to the proved key-registry model; monitor applies the real CometBFT UpdateWithChangeSet",
 "C07": "Rocq/Coq proof: 18-clause registry invariant preserved by every operation over all histories (injectivity, index agreement, slashable-until-matured traces); correspondence check on raw operator/dogfood store dumps",
 "C08": "Rocq/Coq proof: order-independence of every inventoried map-range site for ALL permutations (schedule as explicit list); inventory tied to the source by a go/types site scanner with AST fingerprints; replicated-process execution as correspondence (partial: runtime scheduling outside the model)",
 "C09": "Rocq/Coq proof: atomicity characterisation of check/write scripts under the msg / precompile / per-item-cache wrappers, instantiated per entry point; byte-level store + oracle-memory digests around failing calls on the real app",
 "C10": "Rocq/Coq proof: finite case analysis over all entry points x caller classes lifted over payloads/states (accepted => authorized), entry-point inventory scanner; correspondence through the real ante handler, msg router and EVM calls",
 "C11": "Rocq/Coq proof: no-panic theorems under explicit guard invariants for each block-level path (bitmap parser total for all byte strings, slash, AVS statistics, fee allocation, maturity); recover()-instrumented runs of the real app incl. malformed tx streams (partial: decoding/SDK only fuzzed)",
 "C12": "Rocq/Coq proof: threshold / median / once-per-round / closed-form no-gap (any number of feeders, successor feeders, params updates) / retention over all histories; correspondence through the real ante chain, msg server, EndBlock and ABCI",
 "C13": "Rocq/Coq proof: admission and counting implications, not-admitted-no-change frame, per-(validator,feeder,round) bound over all histories; correspondence through the real fee-less ante branch and CreatePrice",
 "C14": "Rocq/Coq proof: bisimulation between live oracle memory and memory rebuilt from the committed store (restart_safe_iff for all never-stopped histories, side condition band_clear); twin execution of the real app restarted at every height",
 "C15": "Rocq/Coq proof: epoch clock theorems (first, tick, start-time law, hook log = expected log, independence) by induction over all block-time sequences; correspondence against the real keeper and the full app with wrapped hooks",
 "C16": "Rocq/Coq proof: queue invariants and trace theorems (registered on time, not released early, no stranded, drained) over all histories incl. parameter changes and downtime; correspondence on raw dogfood/delegation store dumps",
 "C17": "Rocq/Coq proof: supply / moved / booked = moved / solvency / proportionality over all histories of epochs for arbitrary validator and staker lists on scaled integers; correspondence through the real epoch hooks observing bank and module state",
 "C18": "Rocq/Coq proof: generic export/import round-trip lemma over prefixed stores instantiated per module (full for 6 modules, characterised loss for the rest); real Export/Validate/InitGenesis at every height with continuation comparison",
 "C19": "Rocq/Coq proof: per-tx and per-block accounting (sender, collector, gas bounds, nonce, zero-sum, solvency, failed => no effect) for single and multi-message txs and base-fee chains, interpreter as measured oracle input; real ABCI DeliverTx of signed txs (partial: opcode semantics trusted)",
 "C20": "Rocq/Coq proof: registry uniqueness invariants, accept <=> window/guard conjunctions at exact boundaries, statistics of the whole epoch-end step over all histories; correspondence through the real AVS precompile methods and msg server with real BLS keys",
}

checks, not_app, claimed = [], [], []
for p in props:
    pid = p["id"]
    modpath = os.path.join(HERE, "props", pid.lower() + ".py")
    if pid in na or not os.path.exists(modpath):
        not_app.append({"property_id": pid, "reason": na.get(pid, "check not built yet (work in progress; planned model and theorems in DESIGN.md §3)")})
        continue
    P = importlib.import_module("props." + pid.lower()).PROP
    claimed.append(pid)
    checks.append({
        "property_id": pid,
        "quick_cmd": "python3 corr/run_check.py %s --tier quick" % pid,
        "thorough_cmd": "python3 corr/run_check.py %s --tier thorough" % pid,
        "evidence_file": "/verif/evidence/%s.json" % pid,
        "replay_cmd_template": "python3 corr/run_check.py %s --replay {path}" % pid,
        "engine": "coq-proof+correspondence",
        "level_claimed": {
            "category": "proof",
            "text": P.get("level_text") or P["explanation"],
            "design_ref": "DESIGN.md §3 %s, §9; design/%s.md" % (pid, pid),
        },
        "level_note": P.get("level_note") or ("Trusted: Coq 8.16.1 kernel; Go harness + generators; hand-written Gallina transcription tied to the code by "
                                               "differential execution only. " + " | ".join(P.get("assumptions", []))[:900]),
        "technique": TECH.get(pid) or P.get("technique") or "Rocq/Coq machine-checked proof about an executable model + model/implementation correspondence check",
    })

m = {
    "version": 1,
    "setup_cmd": "corr/setup.sh",
    "hooks": {
        "guard": "verif",
        "enable": "go build -tags verif (harness module /verif/harness with `replace github.com/ExocoreNetwork/exocore => /repo`); hook files are add-only zz_verif_*.go with //go:build verif",
        "baseline_off_cmd": "cd /repo && GOFLAGS=-mod=mod go test -vet=off -count=1 -timeout 25m ./...",
        "source_commits": hooks_commits,
        "add_only": True,
    },
    "engines": [{
        "name": "coq-proof+correspondence",
        "path": "corr/run_check.py",
        "serves_properties": claimed,
        "kind_free_text": "Coq 8.16.1 theorems about executable Gallina models; models tied to /repo by differential execution of the real code (Go harness, build tag verif) against the model evaluated in coqc (vm_compute), and for pure kernels by a Go-AST→Gallina translator re-run on every check; property monitors evaluated on the implementation's observations give the replay",
    }],
    "checks": checks,
    "not_applicable": not_app,
    "notes": "Every check: grep gate (no admits/axioms) → rebuild harness from /repo's working tree → regenerate kernels → full .vo make → Print Assumptions → correspondence + monitors → evidence. See DESIGN.md.",
}
with open(os.path.join(VERIF, "MANIFEST.json"), "w") as f:
    json.dump(m, f, indent=1)
    f.write("\n")
print("claimed:", " ".join(claimed))
print("not_applicable:", " ".join(x["property_id"] for x in not_app))
