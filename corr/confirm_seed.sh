#!/bin/bash
# confirm_seed.sh <seed out dir (…/out/Cxx-k)> : independent confirmation of a seeded change in a scratch worktree:
#   demo passes on the clean tree, patch applies, tree builds, demo fails with the patch, existing tests still pass.
# Writes confirm.json into the seed dir. Scratch worktree is removed afterwards.
set -uo pipefail
export GOFLAGS=-mod=mod GOPROXY=off GOSUMDB=off GOTOOLCHAIN=local
D="$(realpath "$1")"; NAME="$(basename "$D")"
WT=/tmp/confirm/$NAME
rm -rf "$WT"; git -C /repo worktree prune; mkdir -p /tmp/confirm
git -C /repo worktree add --detach "$WT" HEAD >/dev/null 2>&1 || { echo "worktree failed"; exit 2; }
cleanup(){ git -C /repo worktree remove --force "$WT" >/dev/null 2>&1; rm -rf "$WT"; }
trap cleanup EXIT
cd "$WT"
DEMO_DIR="$(grep -oE '(x|precompiles|app|utils|types|testutil)/[A-Za-z0-9_/]*' "$D/demo_path.txt" | head -1 | sed 's|/zz_seed_demo_test.go||; s|/$||')"
[ -d "$DEMO_DIR" ] || DEMO_DIR="$(dirname "$DEMO_DIR")"
RUNPAT="$(grep -oE "\-run[ =]+'?[^' ]+'?" "$D/demo_path.txt" | head -1 | sed -E "s/-run[ =]+//; s/'//g")"
[ -n "$RUNPAT" ] || RUNPAT="Seed"
DEMOFILE="$D/zz_seed_demo_test.go"
res(){ python3 - "$@" <<'PY'
import json,sys
d,k,v=sys.argv[1],sys.argv[2],sys.argv[3]
p=d+"/confirm.json"
try: j=json.load(open(p))
except Exception: j={}
j[k]=v
json.dump(j,open(p,"w"),indent=1)
PY
}
rm -f "$D/confirm.json"
res "$D" demo_dir "$DEMO_DIR"; res "$D" run_pattern "$RUNPAT"; res "$D" repo_head "$(git -C /repo log --format=%h -1)"
if [ ! -f "$DEMOFILE" ]; then res "$D" error "no zz_seed_demo_test.go"; exit 3; fi
cp "$DEMOFILE" "$DEMO_DIR/zz_seed_demo_test.go"
nice -n 19 go test -vet=off -count=1 "./$DEMO_DIR/" -run "$RUNPAT" > "$D/confirm_demo_clean.log" 2>&1; rc=$?
res "$D" demo_on_clean_tree "$([ $rc = 0 ] && echo pass || echo FAIL)"
git apply --check "$D/patch.diff" 2>/dev/null || { res "$D" patch_applies no; exit 4; }
git apply "$D/patch.diff"; res "$D" patch_applies yes
nice -n 19 go build ./... > "$D/confirm_build.log" 2>&1; res "$D" builds "$([ $? = 0 ] && echo yes || echo NO)"
nice -n 19 go test -vet=off -count=1 "./$DEMO_DIR/" -run "$RUNPAT" > "$D/confirm_demo_patched.log" 2>&1; rc=$?
res "$D" demo_with_patch "$([ $rc = 0 ] && echo PASS-unexpected || echo fails-as-expected)"
rm -f "$DEMO_DIR/zz_seed_demo_test.go"
if [ "${FULL:-1}" = 1 ]; then
  nice -n 19 go test -p 6 -vet=off -count=1 -timeout 40m ./... 2>&1 | grep -E "^(ok|FAIL|---|panic)" > "$D/confirm_tests.log"
  bad="$(grep -E '^(--- FAIL|FAIL)' "$D/confirm_tests.log" | grep -v 'TestInitConfigNonNotExistError\|TestAggregatorContext\|exocore/client\|keeper/aggregator\|^FAIL$' | head -5 | tr '\n' ';')"
  res "$D" existing_tests "$([ -z "$bad" ] && echo pass || echo "FAIL: $bad")"
fi
cat "$D/confirm.json"
