#!/bin/bash
# try_patch.sh <patch.diff> [ids...] : apply a seeded change to /repo, run the given checks (default all), undo it.
set -uo pipefail
V="$(cd "$(dirname "$0")/.." && pwd)"; P="$(realpath "$1")"; shift
git -C /repo apply --check "$P" || { echo "patch does not apply"; exit 2; }
git -C /repo apply "$P"
trap 'git -C /repo checkout -- . ; git -C /repo clean -fdq -- x app precompiles utils types testutil 2>/dev/null; true' EXIT
python3 "$V/corr/run_all.py" -j "${J:-3}" "$@"
