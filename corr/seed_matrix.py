#!/usr/bin/env python3
"""seed_matrix.py [seed names...] : apply each seeded change to /repo, run the check of ITS property (quick tier), undo,
and record whether it was caught (exit 1 + VIOLATION line) in seeded/<name>/meta.json and seeded/MATRIX.md.
Developer tool; evidence files are dirtied by this — re-run the checks on the clean tree afterwards."""
import json, os, subprocess, sys, time
V = os.path.dirname(os.path.dirname(os.path.abspath(__file__)))
REPO = os.environ.get("VERIF_REPO", "/repo")
S = os.path.join(V, "seeded")
names = sys.argv[1:] or sorted(d for d in os.listdir(S) if os.path.isdir(os.path.join(S, d)))
claimed = {c["property_id"] for c in json.load(open(os.path.join(V, "MANIFEST.json")))["checks"]}
rows = []
for n in names:
    mp = os.path.join(S, n, "meta.json"); m = json.load(open(mp)); pid = m["property"]
    if pid not in claimed:
        rows.append((n, pid, "no check yet", "")); continue
    patch = os.path.join(S, n, "patch.diff")
    if subprocess.run(["git", "-C", REPO, "apply", "--check", patch]).returncode != 0:
        rows.append((n, pid, "patch does not apply to current /repo", "")); continue
    subprocess.run(["git", "-C", REPO, "apply", patch], check=True)
    t = time.time()
    try:
        extra = m.get("also_check", [])
        res = {}
        for p in [pid] + [e for e in extra if e in claimed]:
            r = subprocess.run([sys.executable, os.path.join(V, "corr", "run_check.py"), p, "--tier", "quick"], cwd=V, stdout=subprocess.PIPE, stderr=subprocess.STDOUT, text=True)
            viol = [l for l in r.stdout.splitlines() if l.startswith("VIOLATION")]
            res[p] = {"exit": r.returncode, "violations": viol[:3]}
    finally:
        subprocess.run(["git", "-C", REPO, "checkout", "--", "."]); subprocess.run(["git", "-C", REPO, "clean", "-fdq", "--", "x", "app", "precompiles", "utils", "types"])
    caught = [p for p, v in res.items() if v["exit"] == 1 and v["violations"]]
    concrete = [p for p in caught if any("no-failing-input-found" not in l for l in res[p]["violations"])]
    m["detected_by"] = {"checks_run": res, "caught_by": caught, "with_concrete_replay": concrete, "evaluated_at_repo_head": subprocess.run(["git", "-C", REPO, "log", "--format=%h", "-1"], capture_output=True, text=True).stdout.strip(), "wall_s": round(time.time() - t)}
    json.dump(m, open(mp, "w"), indent=1)
    rows.append((n, pid, "CAUGHT by " + ",".join(caught) + (" (concrete replay)" if concrete else " (no-failing-input-found)") if caught else "MISSED", res[pid]["violations"][0][:140] if res[pid]["violations"] else ""))
    print(rows[-1], flush=True)
# merge into MATRIX.md
mx = os.path.join(S, "MATRIX.md"); old = {}
if os.path.exists(mx):
    for l in open(mx):
        if l.startswith("| C"):
            c = [x.strip() for x in l.strip().strip("|").split("|")]; old[c[0]] = c
for n, pid, verdict, first in rows:
    title = json.load(open(os.path.join(S, n, "meta.json"))).get("title", "")
    old[n] = [n, pid, (title or "")[:90].replace("|", "/"), verdict, first.replace("|", "/")]
with open(mx, "w") as f:
    f.write("# Seeded changes vs checks (written by corr/seed_matrix.py)\n\n| seed | property | change | verdict of the property's quick check | first VIOLATION line |\n|---|---|---|---|---|\n")
    for k in sorted(old): f.write("| " + " | ".join(old[k]) + " |\n")
