#!/bin/bash
# Rebuild the Go harness against /repo's CURRENT working tree (build tag verif).
# go.mod is regenerated from /repo/go.mod on every call so dependency pins always follow the repo.
set -euo pipefail
export GOFLAGS=-mod=mod GOPROXY=off GOSUMDB=off GOTOOLCHAIN=local CGO_ENABLED=1
VERIF="$(cd "$(dirname "$0")/.." && pwd)"
REPO="${VERIF_REPO:-/repo}"
H="$VERIF/harness"
mkdir -p "$VERIF/build"
exec 9>"$VERIF/build/.harness.lock"
flock 9
{
  echo "module verifharness"
  echo
  echo "go 1.21.12"
  echo
  echo "require github.com/ExocoreNetwork/exocore v0.0.0"
  echo
  # copy every require(...) and replace(...) block of the repo's go.mod verbatim
  awk '/^require \(/{p=1} /^replace \(/{p=1} p{print} /^\)/{if(p){print ""};p=0}' "$REPO/go.mod"
  echo "replace github.com/ExocoreNetwork/exocore => $REPO"
} > "$H/go.mod.new"
if ! cmp -s "$H/go.mod.new" "$H/go.mod" 2>/dev/null; then mv "$H/go.mod.new" "$H/go.mod"; else rm "$H/go.mod.new"; fi
cp "$REPO/go.sum" "$H/go.sum"
cd "$H"
# skip the (10 s) go staleness walk when no Go source / module file changed since the last successful build
STAMP="$VERIF/build/.harness.stamp"
NEW="$( { find "$REPO" -path "$REPO/.git" -prune -o \( -name '*.go' -o -name 'go.mod' -o -name 'go.sum' -o -name '*.json' -o -name '*.sol' \) -printf '%p %s %T@\n' 2>/dev/null | LC_ALL=C sort; find "$H" -maxdepth 1 -name '*.go' -printf '%p %s %T@\n' | LC_ALL=C sort; echo "$REPO"; } | sha1sum | cut -d' ' -f1)"
if [ -x "$VERIF/build/exoharness" ] && [ -f "$STAMP" ] && [ "$(cat "$STAMP")" = "$NEW" ]; then
  exit 0
fi
rm -f "$STAMP"
go build -tags verif -o "$VERIF/build/exoharness" .
echo "$NEW" > "$STAMP" 
