#!/usr/bin/env python3
"""run_all.py [-j N] [--tier quick] [ids...] : run the registered checks (default: all claimed in MANIFEST.json),
print one summary line per check. Exit 1 if any check failed. Developer convenience; not a registered command."""
import argparse, json, os, subprocess, sys, time, concurrent.futures
V = os.path.dirname(os.path.dirname(os.path.abspath(__file__)))
ap = argparse.ArgumentParser(); ap.add_argument("-j", type=int, default=4); ap.add_argument("--tier", default="quick"); ap.add_argument("ids", nargs="*")
a = ap.parse_args()
ids = [i.upper() for i in a.ids] or [c["property_id"] for c in json.load(open(os.path.join(V, "MANIFEST.json")))["checks"]]
# build once up front so parallel checks do not queue on the locks
subprocess.run([os.path.join(V, "corr", "setup.sh")], stdout=subprocess.DEVNULL, stderr=subprocess.DEVNULL)
def run(i):
    t = time.time()
    r = subprocess.run([sys.executable, os.path.join(V, "corr", "run_check.py"), i, "--tier", a.tier], cwd=V, stdout=subprocess.PIPE, stderr=subprocess.STDOUT, text=True)
    os.makedirs(os.path.join(V, "build", "logs"), exist_ok=True)
    open(os.path.join(V, "build", "logs", i + ".log"), "w").write(r.stdout)
    viol = [l for l in r.stdout.splitlines() if l.startswith("VIOLATION")]
    kf = [l for l in r.stdout.splitlines() if l.startswith("KNOWN-FINDING")]
    return i, r.returncode, time.time() - t, viol, kf
bad = 0
with concurrent.futures.ThreadPoolExecutor(max_workers=a.j) as ex:
    for i, rc, dt, viol, kf in ex.map(run, ids):
        print("%s rc=%d %.0fs known=%d %s" % (i, rc, dt, len(kf), " | ".join(viol)[:300]), flush=True)
        bad += rc != 0
sys.exit(1 if bad else 0)
