from .common import KERNEL_TB

PROP = {
    "id": "C15",
    "props_file": "coq/C15/Props.v",
    "props_module": "C15.Props",
    "coq_targets": ["C15/Props.vo"],
    "uses_kernels": False,
    "allowed_axioms": [],
    "suites": [{
        "name": "epochs",
        "harness": "c15",
        "header": "From Coq Require Import List String ZArith.\nFrom Exo Require Import Base.Store Base.Util C15.Model.\nImport ListNotations.",
        "case_type": "case",
        "checks": {"corr": "check_case", "monitor": "monitor_case", "monitor_hist": "monitor_hist_case"},
        "kinds": {"corr": "corr", "monitor": "monitor", "monitor_hist": "monitor"},
        "n_quick": 200,
        "n_thorough": 3000,
    }, {
        "name": "app",
        "harness": "c15app",
        "header": "From Coq Require Import List String ZArith.\nFrom Exo Require Import Base.Store Base.Util C15.Model.\nImport ListNotations.",
        "case_type": "acase",
        "checks": {"corr": "check_acase", "monitor": "monitor_acase"},
        "kinds": {"corr": "corr", "monitor": "monitor"},
        "n_quick": 100,
        "n_thorough": 600,
    }],
    "rule": ("suite epochs: each case = random epoch configuration (1-4 identifiers from a pool incl. the app's own, durations 1ns..24h, start time "
             "zero/past/now/future, mid-count genesis entries, started entries whose StartTime is still ahead, entries rejected by genesis, entries that "
             "fail Validate written straight into the store) + 3..30 block times (equal, sub-duration, multi-duration, exactly on / 1ns around an epoch "
             "boundary) run through the real x/epochs keeper with one recording hook per app subscriber. suite app: one real ExocoreApp driven through "
             "EndBlock/Commit/BeginBlock (all five real hooks) with block times crossing the minute/hour/day/week boundaries of the app genesis plus 8 "
             "extra genesis identifiers; the history is cut into cases of 6-14 consecutive blocks, each starting from the observed state. distinct = "
             "distinct sha1 of the whole case; non-trivial = at least one hook notification was delivered; the per-(block,identifier) branch of the "
             "model's tick that each input exercises is counted in input_distribution (branch=...)"),
    "explanation": ("Theorems (Coq, 13, all closed under the global context) about the executable model of BeginBlocker/AddEpochInfo/MultiEpochHooks "
                    "for ALL stores with distinct identifiers and ALL block lists: first tick, tick iff t > start+duration (catch-up one per block), "
                    "start-time law, exact shape / order / exactly-once of the per-identifier hook log with fan-out, independence of identifiers, "
                    "monotonicity, frozen invalid entries, whole-run catch-up (k blocks each more than k durations late: number +k, log exactly end(n),start(n+1) per block). The model is tied to the code by running both on the same generated histories (state after "
                    "every block and every hook call compared; on the full app: state + epoch_end/epoch_start ABCI events). The property itself is "
                    "evaluated on the implementation's observations only: step_ok per block and identifier (proved of the model: "
                    "C15_tick_meets_statement) and hook_hist_ok per identifier over the whole history (proved of the model: C15_hooks_monitor), plus the "
                    "subscriber order read by reflection from the app."),
    "trusted_base": KERNEL_TB + [
        "modelled, not verified: x/epochs/keeper/abci.go BeginBlocker, epoch_infos.go AddEpochInfo/IterateEpochInfos/setEpochInfoUnchecked, genesis.go "
        "InitGenesis, types/genesis.go Validate, types/hooks.go MultiEpochHooks (hand-written Gallina transcription, tied by differential execution)",
        "subscriber order read by reflection from app.EpochsKeeper.Hooks() of a real ExocoreApp",
        "suite app observes notifications through the epoch_end/epoch_start ABCI events of BeginBlock (one per notification), not through the real hooks' effects",
        "not modelled: int64 overflow of CurrentEpoch and of time.Time.Add (durations/times in generated cases stay far below 2^62 ns), protobuf time encoding",
    ],
    "assumptions": [
        "the hooks themselves (distribution, operator, dogfood, mint, AVS) are replaced by recorders in suite epochs and run for real in suite app; "
        "their behaviour belongs to C05/C06/C16/C17",
        "block times are those of the block header; CometBFT guarantees monotonicity; block heights are >= 0",
        "identifiers in the store are pairwise distinct (the store is keyed by identifier)",
    ],
}
