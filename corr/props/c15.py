from .common import KERNEL_TB

PROP = {
    "id": "C15",
    "props_file": "coq/C15/Props.v",
    "props_module": "C15.Props",
    "coq_targets": ["C15/Props.vo"],
    "uses_kernels": False,
    "allowed_axioms": [],
    "suites": [{
        "name": "epochs",
        "harness": "c15",
        "header": "From Coq Require Import List String ZArith.\nFrom Exo Require Import Base.Store Base.Util C15.Model.\nImport ListNotations.",
        "case_type": "case",
        "checks": {"corr": "check_case", "monitor": "monitor_case"},
        "kinds": {"corr": "corr", "monitor": "monitor"},
        "n_quick": 200,
        "n_thorough": 4000,
    }],
    "rule": ("each case = random epoch configuration (1-4 identifiers from a pool incl. the app's own, durations 1ns..24h, start time zero/"
             "past/now/future, mid-count genesis entries, occasionally invalid entries) + 3..30 block times (equal, sub-duration, multi-duration, "
             "exactly on / 1ns around an epoch boundary) run through the real x/epochs keeper with recording hooks; distinct = distinct sha1 of the "
             "whole case; non-trivial = at least one hook notification was delivered"),
    "explanation": ("Theorems (Coq) about the executable model of BeginBlocker/AddEpochInfo/MultiEpochHooks for ALL block-time sequences and "
                    "configurations; the model is tied to the code by running both on the same generated histories (state after every block and "
                    "every hook call compared), and the property's per-block statement step_ok — proved of the model for all inputs — is "
                    "evaluated directly on the implementation's observed behaviour."),
    "trusted_base": KERNEL_TB + [
        "modelled, not verified: x/epochs/keeper/abci.go BeginBlocker, epoch_infos.go AddEpochInfo/IterateEpochInfos, genesis.go InitGenesis, "
        "types/genesis.go Validate, types/hooks.go MultiEpochHooks (hand-written Gallina transcription, tied by differential execution)",
        "subscriber order read by reflection from app.EpochsKeeper.Hooks() of a real ExocoreApp",
        "not modelled: int64 overflow of CurrentEpoch and of time.Time.Add (durations/times in generated cases stay far below 2^62 ns), protobuf time encoding",
    ],
    "assumptions": [
        "the hooks themselves (distribution, operator, dogfood, mint, AVS) are replaced by recorders in the bulk histories; their behaviour belongs to C05/C06/C16/C17",
        "block times are those of the block header; CometBFT guarantees monotonicity",
    ],
}
