from .common import KERNEL_TB

_HEADER = ("From Coq Require Import List String ZArith.\n"
           "From Exo Require Import Base.Store Base.Util C20.Model.\n"
           "Import ListNotations.")

PROP = {
    "id": "C20",
    "props_file": "coq/C20/Props.v",
    "props_module": "C20.Props",
    "coq_targets": ["C20/Props.vo"],
    "uses_kernels": False,
    "allowed_axioms": [],
    "suites": [{
        "name": "avs",
        "harness": "c20",
        "header": _HEADER,
        "case_type": "case",
        # corr: model step == implementation step (result class + every AVS sub-store + opted-in records);
        # the four monitors are the property's clauses evaluated on the implementation's observations only
        "checks": {"corr": "check_case", "registry": "mon_registry", "optin": "mon_optin",
                   "accept": "mon_accept", "stats": "mon_stats"},
        "kinds": {"corr": "corr", "registry": "monitor", "optin": "monitor", "accept": "monitor", "stats": "monitor"},
        "n_quick": 170,
        "n_thorough": 2000,
    }],
    "rule": ("each case = one history of 12..90 operations on a real ExocoreApp (5 genesis operators with self stakes 101/100/150/120/0 USD "
             "+ 1 unregistered address, 3 AVS contracts, 3 task contracts, 3 owners, real BLS keys): AVS register/update/deregister through "
             "the precompile methods (colliding task addresses, foreign callers, malformed arguments, non-existent epoch identifier), operator "
             "opt-in/out (min self delegation from the boundary pool 0/100/101/102/120/121/150/151/1000), registerBLSPublicKey (valid, wrong key, "
             "garbage), createTask with response/statistical/challenge periods from {0,1,2}, SubmitTaskResult messages (both phases, after a "
             "protobuf round trip; wrong stage, nil/other signature, response with another id / another sum / not JSON, lowercase task address, "
             "from != operator, bad bech32, nil info, explicitly encoded empty byte fields) and challenges (wrong task hash / response hash / "
             "operator) attempted at EVERY epoch offset from task creation to past the challenge period; the epoch clock is advanced through the "
             "real x/epochs BeginBlocker with all five subscribers. 25 directed cases first (10 minimum-self-delegation boundary scenarios with oracle price decimals 0..18 and exact base-unit stakes: self value exactly at / 1e-18 below / a fraction of 1e-18 below / just above the minimum, 2 with three AVSs of different stake whose tasks end in the same epoch, 2 empty-signature regression scenarios, 1 signer-not-opted-in regression scenario, 6 deregister-timing boundaries, "
             "4 window sweeps with all-zero / mixed periods and colliding task addresses on register and update); 4 of 5 generated cases follow "
             "the life cycle (register, keys, opt-in, epoch, tasks, then targeted phase one/two/challenge per epoch), 1 of 5 is an unstructured "
             "stream. distinct = distinct sha1 of the whole case; non-trivial = at least two accepted operations of two different kinds"),
    "explanation": ("Theorems (Coq, all Closed under the global context) about an executable model of UpdateAVSInfo / OperatorOptAction+OptIn / "
                    "CreateAVSTask+GetTaskID / RegisterBLSPublicKey / SetTaskResultInfo / RaiseAndResolveChallenge / the AVS AfterEpochEnd hook, "
                    "for ALL operation histories: AVS address and task-contract address uniqueness (invariant by induction over histories), task "
                    "ids per contract consecutive from 1, opt-in requirements, and accept <-> condition characterisations of phase one, phase two "
                    "and challenge whose right-hand sides (phase1_cond, phase2_cond, challenge_cond) are the very booleans the monitors evaluate on "
                    "the implementation's observed states. Statistics are proved in full for the whole epoch-end step over all histories (C20_statistics: signers = exactly the operators with a stored result due now, "
                    "non-signers = exactly snapshot minus signers, never panics), using injectivity of the key encodings (C20_key_encoding_injective) and the "
                    "invariants C20_tasks_keyed / C20_results_in_snapshot / C20_results_always_signed; the two former refutations are regression Examples after the repairs "
                    "(/repo 6c134d2, repo_patches/fix-c20-signer-must-be-opted-in.patch). The model is tied to the code by running both on the same generated histories and "
                    "comparing result class and every AVS sub-store after every operation."),
    "trusted_base": KERNEL_TB + [
        "modelled, not verified (hand-written Gallina transcription, tied by differential execution): x/avs/keeper/{keeper,avs,task,"
        "impl_epoch_hook,msg_server}.go, x/avs/types/types.go (Difference), precompiles/avs/{tx,types}.go (argument and owner checks), "
        "x/operator/keeper/opt.go (OptIn/OptOut requirements), x/operator/keeper/operator.go (GetOptedInOperatorListByAVS, IsOptedIn)",
        "the operator's pools / shares / oracle price / decimals are read from the stores right before every opt-in; mon_optin recomputes the self value from them in exact rational arithmetic and check_case ties the reported value to the truncating closed form", "inputs of the model taken from the real libraries/keepers by the harness, not modelled: BLS signature verification and public-key "
        "parsing (prysm blst), bech32 validity, the operator's self USD value (GetOrCalculateOperatorUSDValues), per-operator and per-AVS USD "
        "values written by the operator module's epoch hook, the list of ended epochs of each BeginBlocker (C15 covers the epoch clock)",
        "hash functions are opaque and assumed collision free: a stored TaskResponseHash is compared as 'keccak of the stored response', a "
        "challenge's response hash as 'ABI hash of (id, sum)'",
        "precompile methods are invoked directly (same ctx / contract / method / args as Precompile.Run passes) without the EVM around them; "
        "SubmitTaskResult goes through ValidateBasic + the module's MsgServer after a protobuf marshal/unmarshal, not through ante/DeliverTx",
        "epoch ends are driven by EpochsKeeper.BeginBlocker on a cache context (all five subscribers run), not by full ABCI blocks",
        "the BLS-key store is presented sorted by bech32 key (its raw order is never used by the code)",
    ],
    "assumptions": [
        "AVS / task-contract / operator address strings are the canonical forms the precompile produces (EIP-55 hex, bech32); the code compares "
        "them as strings and so does the model; the theorems ask only that the AVS address string is non-empty (op_wf)",
        "uint64/int64 wrap-around of epoch numbers and periods is not modelled (generated values are small)",
        "statistics monitor scope: tasks that received at least one accepted phase-one result (the hook never visits a task without results, "
        "whose lists therefore stay empty - reported in design/C20.md, not monitored)",
        "operators are not frozen/jailed in the generated histories (VirtualSlashKeeper.IsOperatorFrozen is constantly false in this app)",
    ],
}
