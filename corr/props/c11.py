from .common import KERNEL_TB

PROP = {
    "id": "C11",
    "props_file": "coq/C11/Props.v",
    "props_module": "C11.Props",
    "coq_targets": ["C11/Props.vo"],
    "uses_kernels": False,
    "allowed_axioms": [],
    "suites": [{
        "name": "liveness",
        "harness": "c11",
        "header": "From Coq Require Import List String ZArith.\nFrom Exo Require Import Base.Util C11.Model.\nImport ListNotations.",
        "case_type": "case",
        "checks": {"corr": "check_case", "monitor": "monitor_case"},
        "kinds": {"corr": "corr", "monitor": "monitor"},
        "n_quick": 260,
        "n_thorough": 5000,
    }],
    "rule": ("each case = one block-level path of a real ExocoreApp executed under recover(): UpdateNSTByBalanceChange (the function oracle "
             "EndBlock reaches through GrowRoundID/AppendPriceTR) on a random or structured balance-change bitmap (0-10 stakers with 1-2 validators, "
             "indexes inside/beyond the list, 1-15 value bits, zero length field, truncated / short / random tails, the same bitmap again after the "
             "staker list shrank), Keeper.Slash + SlashWithInfractionReason for operators with positive / unbonding / zero value, AVS task results with "
             "absent / empty / non-empty signature followed by the statistics epoch end (also with an injected signature-less stored result), the "
             "fee-distribution epoch end with an operator in one or two AVSs, or a batch of 6-15 malformed transactions (random bytes, truncations, "
             "bit flips, duplicated / oversized encodings of oracle, AVS, operator and delegation messages with non-numeric prices, nil sub-messages) "
             "through CheckTx and DeliverTx followed by 3 full blocks; model-guided histories for each refuted statement come first; distinct = "
             "distinct sha1 of the case; every case is non-trivial"),
    "explanation": ("Theorems (Coq): the transcribed bitmap parser with the added bounds checks never indexes out of range for ALL byte strings and "
                    "list lengths and agrees with the original wherever that does not panic; slash, AVS statistics, fee allocation and round "
                    "arithmetic cannot panic (under the proved-preserved Interval > 0 invariant); NO history of the modelled transactions and "
                    "block events halts the repaired model, while four short histories halt the original one. The model is tied to the code by "
                    "running the real paths on the same inputs (result class and NST balances compared); the property (no panic in a block-level "
                    "step, later blocks processed) is evaluated on the observations only."),
    "trusted_base": KERNEL_TB + [
        "modelled, not verified: x/oracle/keeper/native_token.go parseBalanceChange + UpdateNSTByBalanceChange, x/operator/keeper/slash.go SlashAssets "
        "(divisor), x/avs/keeper/impl_epoch_hook.go + task.go phase one, x/feedistribution/keeper/allocation.go AllocateTokensToStakers, "
        "x/oracle/keeper/aggregator/context.go PrepareRoundEndBlock (% Interval), x/oracle/keeper/params.go interval defaulting (hand transcription, "
        "tied by differential execution where the harness drives the path)",
        "NOT modelled, exercised by the malformed-transaction stream only: protobuf/amino decoding, ante handlers, go-ethereum, CometBFT, IAVL, the SDK "
        "modules (slashing/evidence BeginBlockers are not driven with real evidence: Keeper.Slash / SlashWithInfractionReason are called directly)",
        "block-level paths are called at keeper/hook level on cache contexts (a recovered panic cannot corrupt the live application), full ABCI blocks "
        "run after every malformed batch and after the histories",
    ],
    "assumptions": [
        "repo_patches/fix-c11-*.patch and the C17 allocation patches (fix-c17-*.patch of group gG) are applied: the model checked against the code is the repaired one",
        "feeder Interval > 0 is an invariant of both writers of Interval (proved of the model; genesis validation is assumed)",
    ],
}
