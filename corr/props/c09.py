from .common import KERNEL_TB

PROP = {
    "id": "C09",
    "props_file": "coq/C09/Props.v",
    "props_module": "C09.Props",
    "coq_targets": ["C09/Props.vo"],
    "uses_kernels": False,
    "allowed_axioms": [],
    "suites": [{
        "name": "atomic",
        "harness": "c09",
        "header": "From Coq Require Import List String ZArith.\nFrom Exo Require Import Base.Util C09.Model.\nImport ListNotations.",
        "case_type": "case",
        "checks": {"corr": "check_case", "monitor": "monitor_case"},
        "kinds": {"corr": "corr", "monitor": "monitor"},
        "n_quick": 300,
        "n_thorough": 5000,
    }, {
        "name": "oraclemem",
        "harness": "c09mem",
        "header": "From Coq Require Import List String ZArith.\nFrom Exo Require Import Base.Util C09.Model.\nImport ListNotations.",
        "case_type": "case",
        "checks": {"corr": "check_case", "monitor": "monitor_case"},
        "kinds": {"corr": "corr", "monitor": "monitor"},
        "n_quick": 120,
        "n_thorough": 1500,
    }],
    "rule": ("each case = ONE call issued in a random reachable state of a real ExocoreApp (state evolved by the successful calls of the same "
             "stream: LST/NST deposits and withdrawals, delegations, undelegations, associations, token/client-chain registrations, slashes, "
             "blocks): assets/delegation precompile Run with gateway or foreign caller (valid, malformed and unsatisfiable arguments: amount = "
             "withdrawable/+1/-1/0/2^200, unknown chain/asset/operator, bad bech32, short/empty addresses, missing tx hash, a repeated gateway message - "
             "every second accepted undelegation is repeated in the same block with the same LayerZero nonce, tx hash and operator -, decimals > 18, bad "
             "oracle info), Keeper.Slash (duplicate id, proportion nil/negative/>1, power <= 0, future height, wrong slash contract), operator "
             "messages inside a runTx-style cache, or delegation EndBlock over 2-4 matured records with a fault injected into one of them; "
             "directed scenarios reproducing each refuted model statement come first; distinct = distinct sha1 of the whole case; every case "
             "is non-trivial (a real call with a digest of nine module stores before and after)"),
    "explanation": ("Theorems (Coq) about scripts of checks and writes for ALL scripts/stores: message/cached wrappers are atomic, the precompile "
                    "wrapper is atomic exactly for checks-first shapes, per-item caches isolate failing items; every entry point's actual "
                    "check/write order is transcribed and proved atomic under the wrapper the code gives it (or refuted with the failing "
                    "path). The scripts are tied to the code by running the real entry points: the model, fed with facts read from the real "
                    "pre-state, must predict success/failure and the set of key classes left changed; the property itself (reported failure "
                    "=> byte-identical module stores) is evaluated on the observed digests only."),
    "trusted_base": KERNEL_TB + [
        "modelled, not verified: precompiles/assets/{assets,tx,types}.go, precompiles/delegation/{delegation,tx,types}.go, x/assets/keeper/"
        "{bank,staker_asset,operator_asset,client_chain_asset}.go, x/delegation/keeper/{delegation,share,delegation_state,un_delegation_state,abci}.go, "
        "x/oracle/keeper/{native_token,params}.go, x/operator/keeper/{slash,operator_slash_state,opt,operator,msg_server}.go (hand-written scripts of "
        "checks and writes, tied by differential execution)",
        "the fact extractor and the store digest in harness/s_c09.go (which keys belong to which class)",
        "message path: the runTx cache of baseapp is emulated by ctx.CacheContext around the message server call (ante handlers, fees and sequence "
        "numbers are not exercised by this suite)",
        "oracle in-memory state: suite oraclemem delivers validator-signed MsgCreatePrice transactions (1-2 messages) through BaseApp.DeliverTx of a "
        "running chain and digests the store AND the process memory (verif hook VerifC14DumpMem: aggregator context, caches, updated feeder ids); "
        "which message failed is read from the DeliverTx response, the oracle's own admission logic is not modelled here (C12/C13)",
        "updateAVS, challenge, registerBLSPublicKey and the reward/slash precompile stubs are covered by the generic theorems and by reading only (see design/C09.md)",
    ],
    "assumptions": [
        "delegateTo is atomic under 'pool amount is zero only if pool share is zero' and non-negative stored amounts (C01/C02 invariants); "
        "UndelegateFrom under 'completion height not in the past' and 'hold count below MaxUint64'; both are stated as hypotheses and the "
        "statements without them are refuted in Props.v",
        "the two fix patches repo_patches/fix-c09-*.patch are applied to the tree (the model describes the repaired behaviour)",
    ],
}
