from .common import KERNEL_TB

_CLASSES = ["epochs", "exomint", "assets", "delegation_core", "delegation_hold", "operator_info", "operator_lookup",
            "operator_slash_assets", "operator_core", "dogfood_queues", "dogfood_core", "oracle_nonce", "oracle_core",
            "feedist_params", "feedist_rewards"]
_checks = {"corr": "check_case", "wf": "check_wf", "mon_valid": "monitor_valid", "mon_idem": "monitor_idem", "mon_behaviour": "monitor_behaviour"}
_kinds = {"corr": "corr", "wf": "corr", "mon_valid": "monitor", "mon_idem": "monitor", "mon_behaviour": "monitor"}
for _c in _CLASSES:
    _checks["mon_" + _c] = '(monitor_class "%s"%%string)' % _c
    _kinds["mon_" + _c] = "monitor"

PROP = {
    "id": "C18",
    "props_file": "coq/C18/Props.v",
    "props_module": "C18.Props",
    "coq_targets": ["C18/Props.vo"],
    "uses_kernels": False,
    "allowed_axioms": [],
    "suites": [{
        "name": "genesis",
        "harness": "c18",
        "header": "From Coq Require Import List String ZArith.\nFrom Exo Require Import Base.Store Base.Util C18.Model.\nImport ListNotations.",
        "case_type": "case",
        "checks": _checks,
        "kinds": _kinds,
        "n_quick": 200,
        "n_thorough": 2400,
    }, {
        "name": "validate",
        "harness": "c18v",
        "header": "From Coq Require Import List String ZArith.\nFrom Exo Require Import Base.Store Base.Util C18.Model.\nImport ListNotations.",
        "case_type": "vcase",
        "checks": {"corr": "check_vcase"},
        "kinds": {"corr": "corr"},
        "n_quick": 150,
        "n_thorough": 3000,
    }],
    "rule": ("one real ExocoreApp is driven through a seeded history (scripted opening that fills every dogfood queue: opt-out of an active "
             "validator, key replacement of an active validator, undelegations from active / opting-out / inactive operators, slash, and the exact-boundary states of the genesis validators: a second token whose single depositor owns the whole staked supply and delegates all of it to one operator, a validator with exactly the minimum self delegation, a full validator set (max_validators = 2), opt-in and opt-out in one block, slash at the submitted height; then random "
             "deposits, withdrawals, delegations, undelegations, opt-in/out, key replacements, slashes, NST validator-list updates, oracle price submissions inside the open window of a round, block-time steps "
             "that stay inside / cross one / cross several epochs). After the Commit of every block, for each of the 8 modules: raw store dump -> real "
             "AppModule.ExportGenesis -> real ValidateGenesis -> all module stores wiped in a cache context and the real InitGenesis of every module "
             "in app.go's order -> raw dump -> second export; then both branches are continued for 16 blocks (epoch hooks, dogfood / operator / delegation end blockers) and compared block by block. One case = (module, height); distinct = sha1 of the case; non-trivial = the module store "
             "has more than 3 entries"),
    "explanation": ("Coq theorems: a generic round-trip theorem for exporters that iterate a prefix and importers that write each row back under it "
                    "(instantiated for assets, epochs, exomint, the exported parts of oracle / feedistribution), whole-module round-trip theorems for "
                    "operator (what survives for every state + exact round trip on op_wf states), dogfood (queues with reverse indexes, validators, total power) and delegation (records with both indexes, hold counts re-taken by "
                    "the dogfood import) under boolean well-formedness invariants that are themselves evaluated on every reached state (check_wf), "
                    "validation and idempotence corollaries, and vm_compute refutations with witness states for every store no exporter covers and "
                    "for each of the four repaired defects. The model is tied to the code by differential execution at every height (predicted store after import, "
                    "validation verdict, import outcome, second-export equality); the monitors evaluate the round-trip statement per module and "
                    "store class on the implementation's dumps only."),
    "trusted_base": KERNEL_TB + [
        "modelled, not verified: x/{assets,delegation,operator,dogfood,epochs,exomint,feedistribution}/keeper/genesis.go, x/oracle/genesis.go and the "
        "getters/setters they call (hand-written Gallina transcription at key-prefix level, tied by differential execution)",
        "values the importer only copies are compared as sha256 digests of the stored bytes; undelegation records, operator infos, dogfood lists and "
        "hold counts are decoded with the module codec by the harness (c18Decode)",
        "consensus address of a consensus key (sha256) is supplied with each case as an explicit input of the model",
        "not modelled: protobuf/JSON encoding of the genesis document itself (the harness passes the real JSON from export to import), the avs, evm, "
        "bank, slashing stores touched by the importers, ValidateGenesis of modules other than dogfood (its verdict is observed and monitored)",
    ],
    "assumptions": [
        "export happens at a block boundary (committed state), as app/export.go does; the import context is height+1 at the block time of the export",
        "the re-import is performed inside a cache context of the same application after wiping the stores of the modules in scope and of x/avs "
        "(which exports nothing), not in a second process; continuing both chains block by block is not part of the quick tier",
        "dogfood validator updates (0x0f) and historical info (0x0c) are rewritten before they are read in every block and are excluded from the "
        "comparison; a hold count 0 and an empty fee-distribution record are identified with an absent entry (the getters do the same)",
    ],
}
