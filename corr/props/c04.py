from .common import KERNEL_TB

PROP = {
    "id": "C04",
    "props_file": "coq/C04/Props.v",
    "props_module": "C04.Props",
    "coq_targets": ["C04/Props.vo"],
    "uses_kernels": False,
    "allowed_axioms": [],
    "suites": [{
        "name": "slash",
        "harness": "c04",
        "header": "From Coq Require Import List ZArith.\nFrom Exo Require Import Base.Util C04.Model.\nImport ListNotations.",
        "case_type": "case",
        "checks": {"corr": "check_case", "monitor": "monitor_case"},
        "kinds": {"corr": "corr", "monitor": "monitor"},
        "n_quick": 220,
        "n_thorough": 2200,
    }],
    "rule": ("each case = one operator ledger built with the real keepers inside a cache context (1-4 stakers, deposits in up to 5 assets with "
             "decimals 0/2/6/8/18, delegations to the target and to other operators, optional self-association, 0-4 undelegations started at "
             "heights infraction-1 / infraction / infraction+1 / current / random; oracle prices with 0..18 price decimals, missing round, zero "
             "price, one asset unknown to the oracle) followed by 1-3 slash calls through OperatorKeeper.Slash, OperatorKeeper."
             "SlashWithInfractionReason or dogfood SlashWithInfractionReason (by consensus address, known or unknown), with power aimed at "
             "value/20, value/3, value, value+1, 2*value+1, 1, random; factor from {0, 1e-18, 1/3, 5%, 1, 0.999.., random, 1.5, 1+1e-18, negative, nil}; "
             "infraction height before/at/after the undelegations, in the current block, in the future; client-chain balance decreases (UpdateNSTBalance < 0) that eat into pending undelegations between undelegation and slash (one case in three), with the ghost original Amount of every record (basis_ok); pending undelegations maturing between slashes through the real delegation EndBlock (one time in three); replayed identifiers (same and other "
             "entry point); directed scenarios first (same-block undelegation regression, zero-operator-value regression, replay through each entry point); "
             "distinct = distinct sha1 of the case; non-trivial = at least one call changed the dumped state"),
    "explanation": ("Theorems (Coq) about the executable model of CheckSlashParameter / SlashAssets / SlashFromUndelegation / Slash / "
                    "UpdateOperatorSlashInfo / SlashWithInfractionReason for ALL states, prices, heights and calls: the model's step satisfies the "
                    "boolean statement step_ok (C04_step_meets_statement, lifted to histories), 0<=p<=1, cap, floor rounding, failed calls change "
                    "nothing, no panic outcome, zero value is an error, idempotence under any later history. The model is tied to the code by running both on the same generated ledgers "
                    "(pools, undelegation records, delegation rows, staker lists, slash records compared after every call; every other key of every "
                    "store must be unchanged), and step_ok itself is evaluated on the implementation's before/after dumps."),
    "trusted_base": KERNEL_TB + [
        "modelled, not verified: x/operator/keeper/slash.go (CheckSlashParameter, SlashAssets, SlashFromUndelegation, Slash, SlashWithInfractionReason), "
        "operator_slash_state.go UpdateOperatorSlashInfo, usd_value.go CalculateUSDValueForOperator(isForSlash), common_func.go CalculateUSDValue, "
        "x/delegation/keeper/un_delegation_state.go IterateUndelegationsByOperator, delegation_state.go SetStakerShareToZero/DeleteStakersListForOperator, "
        "x/assets/keeper/operator_asset.go IterateAssetsForOperator, x/dogfood/keeper/impl_sdk.go SlashWithInfractionReason "
        "(hand-written Gallina transcription, tied by differential execution)",
        "oracle prices are inputs of the model and the monitor: resolved by the harness itself (asset id -> token by comma-split + equality over the stored oracle params, latest round "
        "from the price store, default 1 when absent / non-positive), not through GetSpecifiedAssetsPrice; asset decimals from the harness's own decode of the stored StakingAssetInfo",
        "identities (operator, asset, staker, AVS, record key) are mapped to integers by the harness; every field of an undelegation record other than "
        "ActualCompletedAmount is compared through a 48-bit fingerprint of its protobuf encoding",
        "not modelled: the 256-bit Int / 315-bit LegacyDec overflow panics (generated amounts stay below 2^120), int64 range of Power",
        "staker-list lookups during the pool walk are modelled against the lists at slash start (each (operator, asset) pool is one KV key and is "
        "visited once; check_case verifies key uniqueness of every dump)",
    ],
    "assumptions": [
        "the former known finding (infraction in the current block: undelegations started in it were skipped by `SlashEventHeight < BlockHeight`) is "
        "repaired by repo_patches/fix-c04-same-block-undelegation.patch (`<=`); the model has the repaired condition, the theorems carry no exclusion "
        "any more, and the directed scenario (tag regress-C04-same-block-undelegation) plus every random case with that configuration act as regression",
        "operator value not positive: SlashAssets returns ErrValueIsNilOrZero before anything is written (repaired division by zero); the model returns an "
        "error there (C04_zero_value_is_an_error, C04_never_panics) and the monitor accepts no panic at all; regression: directed scenario with tag "
        "regress-C04-zero-value",
    ],
}
