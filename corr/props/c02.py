from .common import KERNEL_TB

_HDR_K = ("From Coq Require Import List String ZArith.\nFrom Exo Require Import Base.IntDec Base.IntDec2 Base.Util Gen.Kernels Gen.KernelsCheck.\n"
          "Import ListNotations.")
_HDR_L = ("From Coq Require Import List String ZArith.\nFrom Exo Require Import Base.IntDec Base.IntDec2 Base.Util Gen.Kernels C02.Model.\n"
          "Import ListNotations.\nLocal Open Scope string_scope.")

PROP = {
    "id": "C02",
    "props_file": "coq/C02/Props.v",
    "props_module": "C02.Props",
    "coq_targets": ["Gen/KernelsCheck.vo", "C02/Model.vo", "C02/Laws.vo", "C02/Proofs.vo", "C02/ProofsOp.vo", "C02/Interleaved.vo", "C02/Props.vo"],
    "uses_kernels": True,
    "allowed_axioms": [],
    "suites": [{
        # validates the kernel translator (tools/kernel2v): real Go kernels vs the GENERATED Gallina definitions
        "name": "kernels",
        "harness": "kernels",
        "header": _HDR_K,
        "case_type": "kcase",
        "checks": {"corr": "check_kcase", "snapshot": "check_ksnapshot", "monitor": "monitor_kcase"},
        "kinds": {"corr": "corr", "snapshot": "corr", "monitor": "monitor"},
        "n_quick": 150,
        "n_thorough": 1500,
    }, {
        "name": "ledger",
        "harness": "c02",
        "header": _HDR_L,
        "case_type": "case",
        "checks": {"corr": "check_case", "monitor": "monitor_case", "monitor_opshare": "monitor_opshare_case",
                   "monitor_zero_pool": "monitor_zero_pool_case"},
        "kinds": {"corr": "corr", "monitor": "monitor", "monitor_opshare": "monitor", "monitor_zero_pool": "monitor"},
        "n_quick": 180,
        "n_thorough": 2000,
    }],
    "rule": ("suite kernels: each case = 20 calls of the real exported Go kernels (TokensFromShares, SharesFromTokens, CalculateUSDValue, "
             "SlashFromUndelegation, GasToRefund, ExceedsThreshold), of the keeper-embedded kernels (decision part of x/epochs BeginBlocker through the real keeper, utils.SortByPower's comparator, the slash proportion of SlashAssets), of the LegacyDec method table (Quo/QuoTruncate/QuoRoundUp/Mul/MulTruncate) and of three keeper-style compositions (RoundTrip, BystanderD, BystanderU) on "
             "boundary-biased inputs (0, 1, 10^18 +-1, 10^18/2 ties, 10^36, 2^63, 2^64-1, 2^255 +-1, 2^256-1, 2^314/2^315 Dec guard, primes, "
             "negative values, pools after 0/50/99.99 % slashes, S = 2*P*T tie family, pools outside the exchange-rate guard); results are compared "
             "as value / registered error name / panic. suite ledger: each case = 6..30 operations (Deposit, Delegate, Undelegate, Associate, "
             "Dissociate, Slash, NstBalance = UpdateNSTBalance) through the real keepers of one ExocoreApp on 3 operators x 6 stakers x 2 assets, after a regime prelude (pool after "
             "50 %, 99.99 %, 1-10^-18, 100 % slash; 4*10^18-unit pool with 1..3-unit co-delegator; prime amounts), amounts from a boundary pool "
             "(1, position value, value +-1, half, pool amount, primes, 4*10^18+1, 10^30, 0, negative, unknown operator, unregistered chain); two "
             "directed tagged scenarios come first. distinct = distinct sha1 of the case term; non-trivial = at least one accepted share-moving "
             "operation and >= 2 operation kinds"),
    "explanation": ("Pure laws (mint never over-issues, floor/ceil bounds, totality inside the guards, first delegation, round trip <= x and >= x-1 under "
                    "rate_ok, bystander +-1, and their lift to arbitrary interleavings of foreign delegations/undelegations) are Coq theorems about the Gallina definitions that tools/kernel2v GENERATES from x/delegation/keeper/share.go "
                    "on every run, so a change of the Go kernels re-checks them; the translation itself is validated by running the real Go functions "
                    "and the generated definitions on the same boundary inputs, and a frozen snapshot of the last good translation reports the concrete "
                    "input on which a kernel's behaviour changed. Ledger invariants (totalShare = sum of shares, staker list = stakers with non-zero "
                    "share without duplicates, amount <= 10^18*shares i.e. rate_ok reachable, operatorShare = sum over associated stakers for all histories "
                    "over well-formed ('/'-free) staker ids) are proved by induction over ALL operation lists of the executable model C02/Model.v; the model is tied "
                    "to the code by differential execution (every raw share field, list, association and withdrawable amount compared after every "
                    "operation) and the invariant booleans proved of the model are evaluated on the implementation's dumps, together with the bystander "
                    "and round-trip bounds on the values the real TokensFromShares reports. One clause is FALSE of the faithful model and of the code "
                    "(C02_zero_pool_refuted): it is reproduced by a directed scenario on the real keepers and listed as a known finding with a narrow "
                    "match. The operator-share clause was false before the repair of the staker-id prefix scan (fix commit in /repo); the former "
                    "refutation witness is kept as a regression Example and the clause is now the full theorem C02_operator_share."),
    "trusted_base": KERNEL_TB + [
        "kernel translator tools/kernel2v (Go AST -> Gallina, standard library only) and its fixed method table onto Base/IntDec.v + Base/IntDec2.v; "
        "validated on every run by suite kernels (real Go function vs generated definition on the same inputs, incl. panics and error names)",
        "Base/IntDec.v transcription of cosmossdk.io/math v1.2.0 LegacyDec (Quo with banker's rounding, MulInt, QuoInt, TruncateInt, 315-bit / 256-bit guards)",
        "modelled, not verified: x/delegation/keeper/{share.go (CalculateShare, ValidateUndelegationAmount, RemoveShare, RemoveShareFromOperator), "
        "delegation.go (delegateTo, UndelegateFrom, Associate/DissociateOperator...), delegation_state.go (UpdateDelegationState, staker lists, "
        "IterateDelegationsForStaker prefix scan, SetStakerShareToZero)}, x/assets/keeper/{operator_asset.go UpdateOperatorAssetState, bank.go}, "
        "x/assets/types/general.go UpdateAsset(Dec)Value, x/operator/keeper/slash.go SlashAssets (pool part) — hand-written Gallina, tied by differential execution",
        "the proportion a slash applies is an input of the model (observed from SlashAssets' execution info; its USD-value computation belongs to C04/C05)",
        "every keeper call is run in a cache context committed only on success (message semantics); partial writes of failing calls are C09's subject",
        "NstBalance: the staker's pending-undelegation total and TotalDepositAmount before the call are inputs of the model (observed by the harness; undelegation records and the staker-asset ledger belong to C03/C01)",
        "not modelled: undelegation records / completion, hooks of other modules, pending-undelegation amounts, the frozen-operator check (always false in the harness), NST assets",
    ],
    "assumptions": [
        "identifiers (staker ids, asset ids, bech32 operator addresses) contain no '/'",
        "amounts stay inside the 256-bit Int guard; overflow panics of the kernels are explicit KPanic outcomes in the generated definitions and never occur in the ledger histories",
        "round-trip and delegate-bystander bounds are stated under rate_ok (pool amount <= 10^18 * share total), which C02_rate_ok_reachable proves for every reachable pool of the model",
    ],
}
