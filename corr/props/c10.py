from .common import KERNEL_TB

PROP = {
    "id": "C10",
    "props_file": "coq/C10/Props.v",
    "props_module": "C10.Props",
    "coq_targets": ["C10/Props.vo"],
    "uses_kernels": False,
    "allowed_axioms": [],
    "suites": [{
        "name": "auth",
        "harness": "c10",
        "header": "From Coq Require Import List String ZArith NArith.\nFrom Exo Require Import Base.Util C10.Model.\nImport ListNotations.\nLocal Open Scope string_scope.",
        "case_type": "case",
        "checks": {"corr": "check_case", "monitor": "monitor_case"},
        "kinds": {"corr": "corr", "monitor": "monitor"},
        "n_quick": 400,
        "n_thorough": 5000,
    }, {
        "name": "inventory",
        "harness": "c10inv",
        "header": "From Coq Require Import List String ZArith NArith.\nFrom Exo Require Import Base.Util C10.Model.\nImport ListNotations.\nLocal Open Scope string_scope.",
        "case_type": "inv_case",
        "checks": {"inventory": "check_inv"},
        "kinds": {"inventory": "corr"},
        "n_quick": 1,
        "n_thorough": 1,
    }],
    "rule": ("each case = one privileged entry point (37: every state-changing precompile method and every Msg service method) called by one "
             "caller identity with a well-formed payload on a cache of the same prepared block of a real ExocoreApp: precompiles through a real "
             "EVM Call from the gateway / another contract / an EOA / an AVS contract / the gateway address +-1 bit / the zero address, AVS methods "
             "with listed and unlisted sender arguments; Cosmos messages through the application's real ante handler and Msg router signed by the "
             "right key, without public key, by another account, with a signature of another key, garbage, wrong chain id, no signer info, no "
             "signature, wrong sequence; price submissions attributed to each validator with 8 authentication variants, replayed/skipped nonces, "
             "non-validator keys; UpdateParams as the gov module (router) and as ordinary accounts under 7 chain ids around the mainnet prefix. "
             "SubmitTaskResult in both stages x own/foreign operator name; every entry point also with its rightful caller and a payload the business logic refuses; "
             "coverage matrix cov:<ep>|<class>|<accepted/rejected> in the distribution. Observed: result class, sha256 of every module store and of auth+bank before/after, gateway / owner list / nonce after. "
             "distinct = distinct sha1 of the case; non-trivial = the call was accepted or a module store changed"),
    "explanation": ("Coq theorems about dispatch (guards transcribed from the code, repaired oracle branch) for ALL entry points x callers x payloads "
                    "x states and over arbitrary call sequences; tied to the code by running each generated call on the real application and "
                    "comparing verdict, change flag and post-state with the model (check_case); the property's own sentence (authorized) is "
                    "evaluated on the implementation's observed behaviour by monitor_case, independently of dispatch; the entry-point inventory is "
                    "re-derived from the repository on every run by tools/c10scan and diffed with the constructor list."),
    "trusted_base": KERNEL_TB + [
        "modelled, not verified: precompiles/{assets,delegation,avs,reward,slash}/tx.go|methods.go guards, x/avs/keeper UpdateAVSInfo/CreateAVSTask/"
        "OperatorOptAction/RaiseAndResolveChallenge/RegisterBLSPublicKey owner checks, app/ante/cosmos/sigverify.go (standard and oracle branches), "
        "x/oracle/keeper/nonce.go CheckAndIncreaseNonce, the UpdateParams handlers of oracle/dogfood/assets/exomint/feedistribution "
        "(hand-written Gallina transcription, tied by differential execution)",
        "a public key is identified with the address derived from it (address derivation assumed injective); signature validity is an input "
        "(ta_signed_by = the key that really signed the expected sign bytes); the harness decides that input from how it built the transaction",
        "business logic behind a guard is an input (biz_ok), fixed per entry point by the harness and confirmed by the rightful-caller cases",
        "tools/c10scan (Go, stdlib): lists IsTransaction methods of every precompile package, nonpayable ABI methods, RegisterMsgServer call sites and "
        "Msg service methods; coq/C10/entry_points.txt is checked against it and against the constructors of entry_point in Model.v",
        "not modelled: ABI/protobuf decoding, fee deduction and sequence bookkeeping of the SDK (observed only as 'accounts changed'), EIP-712 and "
        "multisig signing modes, authz.MsgExec wrapping (AuthzLimiterDecorator), the Ethereum-transaction ante chain (C19)",
    ],
    "assumptions": [
        "the gov module only executes messages whose signer is the gov module account (SDK x/gov behaviour)",
        "one message and one signer per transaction in the generated cases",
    ],
}
