from .common import KERNEL_TB

_HEADER = ("From Coq Require Import List String ZArith.\n"
           "From Exo Require Import Base.Store Base.Util Ledger.Ledger C03.Model.\n"
           "Import ListNotations.\nOpen Scope string_scope.")

PROP = {
    "id": "C03",
    "props_file": "coq/C03/Props.v",
    "props_module": "C03.Props",
    "coq_targets": ["C03/Props.vo"],
    "uses_kernels": False,
    "allowed_axioms": [],
    "suites": [{
        "name": "ledger",
        "harness": "c03",
        "header": _HEADER,
        "case_type": "Ledger.case",
        "checks": {"corr": "Ledger.check_case", "mon_index": "mon_index", "mon_never_early": "mon_never_early",
                   "mon_release": "mon_release", "mon_aggregates": "mon_aggregates", "mon_accept": "mon_accept",
                   "mon_pending_slash": "mon_pending_slash"},
        "kinds": {"corr": "corr", "mon_index": "monitor", "mon_never_early": "monitor", "mon_release": "monitor",
                  "mon_aggregates": "monitor", "mon_accept": "monitor", "mon_pending_slash": "monitor"},
        "n_quick": 160,
        "n_thorough": 2000,
    }, {
        # REAL blocks of the whole application (module order of app.go, dogfood places and releases the holds): monitors only
        "name": "fullapp",
        "harness": "c03app",
        "header": _HEADER,
        "case_type": "Ledger.case",
        "checks": {"mon_release_app": "mon_release_app", "mon_index": "mon_index", "mon_never_early": "mon_never_early",
                   "mon_aggregates": "mon_aggregates"},
        "kinds": {"mon_release_app": "monitor", "mon_index": "monitor", "mon_never_early": "monitor", "mon_aggregates": "monitor"},
        "n_quick": 12,
        "n_thorough": 60,
    }, {
        # the real message server (MsgDelegation / MsgUndelegation, native token): no model correspondence (the native-token
        # branch is outside the Coq model), monitors on the implementation's raw stores only
        "name": "msgserver",
        "harness": "c03msg",
        "header": _HEADER,
        "case_type": "Ledger.case",
        "checks": {"mon_index": "mon_index", "mon_never_early": "mon_never_early"},
        "kinds": {"mon_index": "monitor", "mon_never_early": "monitor"},
        "n_quick": 3,
        "n_thorough": 3,
    }],
    "rule": ("each case = one history of 6..70 operations on a real ExocoreApp (3 registered operators: 2 active dogfood validators for which the "
             "real AfterUndelegationStarted hook places a hold + 1 plain operator; 2-4 fresh stakers; 2 LST assets): deposit, withdraw, delegate, "
             "undelegate (amount aimed at position / position+-1 / 1 / 0 / -1 / random / primes), genesis-loaded pending undelegation with completion "
             "height = now, now+1, 16*now+k, 256*now+k (hex(now) is a proper prefix of hex(completion)), now-1 (rejected), operator slash with the "
             "event height around now, bursts of 2-3 slashes of one operator over pending records with an exactly chosen effective proportion (0.6+0.6, 0.5+0.5, 1+0.5, 3x0.34 ...), hold increment/decrement on live record keys, asset meta-information updates (UpdateStakingAssetMetaInfo on both LSTs, the native entry and an unregistered id), native-restaking balance adjustments (UpdateNSTBalance: decreases sized to end in the withdrawable "
             "balance / inside the pending undelegations / in the delegated shares; increases capped at earlier decreases), 1..11 delegation EndBlocks; start height from "
             "{1,2,3,9,15,16,17,255,256,4095,10^6}; nonces and tx hashes unique per case except in the directed tagged scenarios (which come first and "
             "reproduce the known findings: 3 index collisions; plus the regression scenarios of the repaired opt-out-before-activation and deep-slash-acceptance defects, an NST scenario and a native-token scenario); the prefix-scan "
             "scenarios (record completing at 0x13 loaded at height 1, ...) are untagged and "
             "must pass. distinct = sha1 of the case; non-trivial = at least two different op kinds changed the stores"),
    "explanation": ("Coq theorems about the executable key-string-level model of the undelegation life cycle (Ledger/Ledger.v) for ALL histories: "
                    "exactness of the '/'-terminated pending-index prefix scan (hexutil encoding proved injective and '/'-free), never-early, "
                    "exact release / re-queue of every due record at EndBlock, exact credit per staker row, aggregates; acceptance is refuted by a witness "
                    "(and proved for the share check under a rate bound); refutation witness for the index-bijection defect. The model is tied to "
                    "the code by running the real keepers and the model on the same generated histories and comparing the result class and every "
                    "raw store entry (assets + delegation stores incl. the three undelegation indexes and the hold counts) after every operation; "
                    "the property monitors evaluate the statement of C03 on the implementation's observed stores only."),
    "trusted_base": KERNEL_TB + [
        "modelled, not verified (hand-written Gallina transcription, tied by differential execution): x/delegation/keeper/{delegation,share,"
        "delegation_state,un_delegation_state,abci,genesis}.go, x/delegation/types/keys.go, x/assets/keeper/{bank,staker_asset,operator_asset,"
        "client_chain_asset}.go, x/assets/types/general.go, the asset/record walk of x/operator/keeper/slash.go SlashAssets, the hold decision of "
        "x/dogfood/keeper/impl_delegation_hooks.go AfterUndelegationStarted",
        "hexutil.EncodeUint64 is modelled by Coq's NilEmpty.string_of_uint (N.to_hex_uint n) prefixed with 0x; every key the implementation writes is compared with the model's key",
        "the slash proportion newSlashProportion (USD-value computation, CheckSlashParameter) is an input of the Slash op read back from the stored "
        "SlashExecutionInfo; it belongs to C04/C05",
        "entry points run in a cache context committed on success only (message-server mode); precompile partial-write mode belongs to C09",
        "suite fullapp drives real blocks of the whole application (env.NextBlock: app.EndBlock in the configured module order, real dogfood holds and epoch ends); it is monitor-only: dogfood's scheduling is not in the ledger model",
        "not modelled: NST deposits, staker-operator association (stakers in the generated histories have no associated operator), "
        "operator lifecycle beyond {plain, active validator}; UpdateNSTBalance is inside the theorem fragment",
    ],
    "assumptions": [
        "identifiers (staker ids, asset ids, operator addresses, tx hashes) contain no '/' (fixed-format hex / bech32 strings)",
        "theorems about release assume EndBlock runs at every height (one per block), as CometBFT guarantees",
        "never_early / aggregates are proved for histories in which every new record key is fresh (tx hashes are unique); the overwrite of a record by a second record with the same key is accounted as GLost in C01",
    ],
}
