from .common import KERNEL_TB

PROP = {
    "id": "C05",
    "props_file": "coq/C05/Props.v",
    "props_module": "C05.Props",
    "coq_targets": ["C05/Props.vo"],
    "uses_kernels": False,
    "allowed_axioms": [],
    "suites": [{
        "name": "votingpower",
        "harness": "c05",
        "header": "From Coq Require Import List ZArith.\nFrom Exo Require Import Base.Util C05.Model.\nImport ListNotations.",
        "case_type": "case",
        "checks": {"corr": "check_case", "monitor": "monitor_case"},
        "kinds": {"corr": "corr", "monitor": "monitor"},
        "n_quick": 200,
        "n_thorough": 2000,
    }],
    "rule": ("each case = ledgers of 2-4 of 6 operators built with the real keepers in a cache context (deposits / delegations / self-association / "
             "undelegations in 7 assets with decimals 6/18/0/8/2/4/0 (the two 0-decimals assets sort before resp. after all the others) (the sixth is the first one's token contract on a second client chain whose hex id 0x6 is a prefix of 0x65, with its own oracle token), optional slash (half of them full 100 % slashes that empty the operator's pools), optional amount-without-shares pool), oracle prices with 0..18 price "
             "decimals set through SetPrices (positive, missing round, zero price; one asset has no oracle token), 1-3 AVSs (+ the dogfood AVS) with random "
             "asset lists (rarely an unregistered asset id), epoch identifier minute/hour/day/week, starting epoch at num / num+1 (boundary) / num+2 / "
             "random, registered through UpdateAVSInfo or SetAVSInfo, real OptIn of random operators, then minimum self delegation set to 0 / small / "
             "floor(self value) of some operator -1/0/+1 / huge; 1-3 epoch ends per case, each preceded by ledger / price changes and opt-in or opt-out, and (one time in three) by a change of an AVS's supported-asset list to the empty list or another subset (UpdateAVSInfo UpdateAction or SetAVSInfo) whose identifier then ends next, "
             "triggered either through OperatorKeeper.EpochsHooks().AfterEpochEnd(identifier, number) or through the real x/epochs BeginBlocker (61 s / "
             "3601 s / 86401 s later, every subscribed hook runs); the directed AVS-address-case regression scenario comes first; OptIn calls (a quarter of them, and all attempts with another letter case of the AVS address) are recorded with the rows before/after; distinct = distinct sha1 of the case; "
             "non-trivial = at least one trigger changed a stored value"),
    "explanation": ("Theorems (Coq) about the executable model of AfterEpochEnd / GetEpochEndAVSs / UpdateVotingPower / CalculateUSDValueForOperator / "
                    "TokensFromShares / CalculateUSDValue / GetOperatorOptedUSDValue for ALL ledgers, price tables, AVS registries and stored states: the "
                    "model's block step satisfies the boolean statement step_ok (closed-form sums, active/AVS-sum, failure keeps old, frame), usd formula, "
                    "non-negativity, monotonicity, not-opted-zero. The model is tied to the code by running both on the same generated histories (all "
                    "OperatorOptedUSDValue rows and AVS values compared after every trigger, GetOperatorOptedUSDValue and GetVotePowerForChainID for every "
                    "pair), and step_ok is evaluated on the implementation's before/after dumps."),
    "trusted_base": KERNEL_TB + [
        "modelled, not verified: x/operator/keeper/impl_epoch_hook.go AfterEpochEnd, abci.go UpdateVotingPower, usd_value.go CalculateUSDValueForOperator / "
        "IterateOperatorsForAVS / SetAVSUSDValue / DeleteAllOperatorsUSDValueForAVS / DeleteAVSUSDValue / GetOperatorOptedUSDValue / GetVotePowerForChainID, "
        "common_func.go CalculateUSDValue, x/delegation/keeper/share.go TokensFromShares, x/avs/keeper/avs.go GetEpochEndAVSs / GetAVSSupportedAssets / "
        "GetAVSMinimumSelfDelegation, x/assets/keeper/operator_asset.go IterateAssetsForOperator (hand-written Gallina transcription, tied by differential execution)",
        "the oracle price per asset (ok / default / hard error) is an input of the model and the monitor, resolved by the harness itself (asset id -> token by comma-split + "
        "equality over the stored oracle params, latest round from the price store), not through GetMultipleAssetsPrices; asset decimals by the harness's own decode of the stored StakingAssetInfo; IsOptedIn and the AVS registry are "
        "read from the real keepers",
        "identities (operator, asset, AVS key string, epoch identifier) are mapped to integers by the harness; AVS key strings case-sensitively, with the "
        "other spellings of a registered AVS address reported as aliases",
        "not modelled: Int/LegacyDec overflow panics, the uint64->int64 conversion of MinSelfDelegation, TruncateInt64 overflow (generated values stay far below)",
    ],
    "assumptions": [
        "the former known finding C05-avs-address-case is repaired by repo_patches/fix-c05-avs-address-case.patch (x/avs IsAVS accepts only the registered "
        "spelling); the model's opt_in has the repaired check, alias_free (nothing stored under another spelling) is proved invariant and is the hypothesis of the "
        "statement theorems; every recorded OptIn call is compared (check_optin) and monitored (optin_ok)",
        "in BeginBlocker-driven steps the feedistribution hook (runs before the operator hook) sometimes panics with 'negative coin amount' "
        "(AllocateTokensToStakers, finding owned by C17/C11); those triggers are counted (trigger.panic) and the case ends there",
    ],
}
