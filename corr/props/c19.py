from .common import KERNEL_TB

PROP = {
    "id": "C19",
    "props_file": "coq/C19/Props.v",
    "props_module": "C19.Props",
    "coq_targets": ["C19/Props.vo", "C19/Multi.vo", "C19/MultiTx.vo", "C19/ProofsMulti.vo", "C19/BaseFee.vo", "C19/ProofsBaseFee.vo", "C19/ProofsAgree.vo"],
    "uses_kernels": False,
    "allowed_axioms": [],
    "suites": [{
        "name": "evmfee",
        "harness": "c19",
        "header": "From Coq Require Import List String ZArith.\nFrom Exo Require Import Base.IntDec Base.Util C19.Model C19.MultiTx C19.Multi.\nImport ListNotations.",
        "case_type": "case",
        # corr    : model (fed the interpreter oracle measured on a throw-away branch) vs real DeliverTx, tx by tx
        # monitor : the C19 statement (step_ok) on the observed before/after states only
        # gasrule : GasUsed of the response = interpreter consumption - capped refund, floored at the minimum
        # agree   : Model.deliver and MultiTx.deliver_multi on a one-element list give the same result and state
        "checks": {"corr": "check_case", "monitor": "monitor_case", "gasrule": "gasrule_case", "agree": "agree_case",
                   # blockgas: a tx refused by a named admission check leaves the block gas meter alone (finding F2)
                   "blockgas": "blockgas_case",
                   # mustrun: an admitted tx is dropped with its whole gas limit burnt only for intrinsic gas / blocked recipient /
                   # block gas overflow; otherwise it executes, whoever proposed the block (jailed, key replaced, opted out ...)
                   "mustrun": "mustrun_case"},
        "kinds": {"corr": "corr", "monitor": "monitor", "gasrule": "monitor", "agree": "corr", "blockgas": "monitor",
                  "mustrun": "monitor"},
        "n_quick": 200,
        "n_thorough": 3000,
    }, {
        # one cosmos tx carrying 2-4 MsgEthereumTx (same or mixed senders): corr = MultiTx.deliver_multi vs real DeliverTx;
        # monitor = the statement summed over the messages; noncerule = sequence rule (as found or repaired)
        "name": "evmmulti",
        "harness": "c19multi",
        "header": "From Coq Require Import List String ZArith.\nFrom Exo Require Import Base.IntDec Base.Util C19.Model C19.Multi.\nImport ListNotations.",
        "case_type": "mcase",
        "checks": {"corr": "mcheck_case", "monitor": "mmonitor_case", "noncerule": "mnonce_case", "mustrun": "mmustrun_case"},
        "kinds": {"corr": "corr", "monitor": "monitor", "noncerule": "corr", "mustrun": "monitor"},
        "n_quick": 120,
        "n_thorough": 1500,
    }, {
        # block A (transfers aimed at the gas target), its EndBlock (block gas wanted) and the BeginBlock of A+1 (new base fee)
        "name": "basefee",
        "harness": "c19basefee",
        "header": "From Coq Require Import List String ZArith.\nFrom Exo Require Import Base.IntDec Base.Util C19.Model C19.BaseFee.\nImport ListNotations.",
        "case_type": "bfcase",
        "checks": {"corr": "bfcheck_case", "monitor": "bfmonitor_case"},
        "kinds": {"corr": "corr", "monitor": "monitor"},
        "n_quick": 150,
        "n_thorough": 2000,
    }],
    "rule": ("each case = one block of a real ExocoreApp chain (state carries over from case to case); the block's proposer is each genesis "
             "validator in turn, put into a mid-epoch proposer state with the real keepers (active / jailed via dogfood Jail / consensus key just "
             "replaced or replaced earlier / just opted out or unbonding); fee-market params drawn per block "
             "(base fee on/off and value, MinGasPrice 0 / 1e-18 / 1500000000.5 / random integer, MinGasMultiplier 0, 1/3, 0.5, 1, random permille), "
             "consensus MaxGas -1 / 100000 / random 150k..1.05M; 1-7 signed Ethereum transactions (legacy / access-list / dynamic-fee, with and "
             "without access-list entries) delivered through ABCI DeliverTx: transfers to EOA / self / fresh address, calls to hand-assembled "
             "contracts (store one slot, store three slots so that the EIP-3529 refund cap binds, REVERT, infinite loop), contract creations "
             "(store+return, REVERT, loop), calls through a proxy contract to the assets precompile (depositLST) and the delegation precompile "
             "(delegate) followed by STOP or REVERT; boundary pools: gas limit = intrinsic-1/intrinsic/intrinsic+1/0/block limit-1,+0,+1, price = "
             "base fee-1/+0/+1, floor(min gas price)+0/+1/+2, one more than affordable, tip = 0/cap/cap+1/cap-base/cap-base+1, value = balance-fee "
             "(+0,+1)/balance/balance+1, nonce +-1, sender without account; one case in four starts with a valid set-three-slots / clear-three-slots "
             "pair. Suite evmmulti: one cosmos tx with 2-4 MsgEthereumTx (one or mixed senders; transfers, store calls, revert, out of "
             "gas, creation, precompile deposit +- revert; nonce gap / intrinsic-gas error / price below base fee now and then); first 4 cases = "
             "directed scenario [create, then more messages of the same sender] tagged regress-C19-multimsg-create-nonce-reset, the random stream never "
             "produces that shape (since the repair e884872 it does). Suite evmfee case 0 = directed scenario of finding F2 (fee above balance, then a "
             "transfer that exactly fits the block), cases containing a fee-above-balance tx carry tag regress-C19-rejected-consumes-block-gas. Suite "
             "basefee: per case fee-market params (NoBaseFee, base fee, elasticity 1-4, denominator 1/2/8/50, MinGasPrice, MinGasMultiplier), "
             "consensus MaxGas -1/200k-600k, block A with 0-3 real transfers whose gas limits land the wanted gas on target/+-1/anywhere, then "
             "EndBlock and the next BeginBlock. distinct = sha1 of the case; non-trivial = at least one transaction was included"),
    "explanation": ("Theorems (Coq, no axioms) about an executable model of DeliverTx for one Ethereum transaction (baseapp block-gas gate and "
                    "cache branches, evm ante chain, ApplyTransaction tail, GasToRefund, minimum gas, RefundGas, tmpCtx commit rule) and for "
                    "sequences of transactions sharing the block gas meter and the fee collector: sender/collector/recipient deltas, gas bounds, "
                    "nonce +1, zero sum, failed => nothing else changes, rejected => nothing changes, solvency; arithmetic lemmas over all of Z. "
                    "The EVM interpreter is an input of the model step; the harness measures it by running the same message on a discarded "
                    "branch of the deliver state with a vm.EVMLogger. The model is tied to the code by differential execution against real "
                    "ABCI DeliverTx of signed transactions (every observed balance, sequence, block gas, response and store digest compared), "
                    "and the statement step_ok - proved of every model step - is evaluated directly on the implementation's observations. "
                    "Multi-message transactions have their own transition model (MultiTx.v: ante over all messages, per-message ApplyTransaction, "
                    "error return fails the whole tx) with the accounting/nonce/zero-sum/solvency theorems lifted to lists of such transactions, "
                    "tied by suite evmmulti (corr + summed statement as monitor); the as-found sequence rule is refuted (F1, fixed e884872). "
                    "Blocks are chained by a model of the fee market (BaseFee.v: EndBlock gas wanted, CalculateBaseFee) tied by suite basefee; "
                    "every included tx of every block pays at least the base fee derived from the previous block. Finding F2 (fixed 07834a8): a tx refused for "
                    "balance-below-fee consumed block gas; monitor blockgas now demands 0 for every named admission check, the directed case is a "
                    "regression scenario, C19_rejected_block_gas is full; validateBasic refusals (reason 2) still move the block gas meter by "
                    "the oracle input o_ctxgas (cosmos-sdk baseapp, observation R3)."),
    "trusted_base": KERNEL_TB + [
        "modelled, not verified (hand-written Gallina transcription tied by differential execution): cosmos-sdk baseapp.runTx (block gas gate, "
        "ante/msg cache branches, deferred consumeBlockGas), app/ante/evm/{eth.go,fees.go,setup_ctx.go,fee_market.go}, evmos x/evm/keeper.VerifyFee "
        "and app/ante/utils.ClaimStakingRewardsIfNecessary as called from eth.go, x/evm/keeper/{state_transition.go ApplyTransaction+"
        "ApplyMessageWithConfig tail, gas.go GasToRefund/RefundGas, fees.go DeductTxCostsFromUserBalance, msg_server.go}",
        "oracle input of the model step, measured not modelled: go-ethereum interpreter and gas table, statedb journal, precompile bodies "
        "(gas burnt, refund counter, failed flag, digest of the stores the execution would leave); measured by executing the same message "
        "beforehand on a cache branch with the ante effects applied by hand (fee moved to the collector, sequence incremented)",
        "sha256 digest over raw KV stores evm, assets, delegation, operator, avs, dogfood, erc20 stands for 'every other store'",
        "x/feemarket (evmos fork) CalculateBaseFee / EndBlock / GetBaseFee and app/ante/evm/fee_market.go GasWantedDecorator: hand-transcribed in "
        "BaseFee.v, tied by suite basefee; the single-message model is PROVED to be the one-element case of the multi-message model "
        "(C19_single_is_multi); the agree check re-evaluates it on every evmfee transaction",
        "not modelled: signature recovery, protobuf/RLP encoding, inner value transfers made by contract code "
        "(generated contracts make none), uint64 overflow of gas arithmetic, PostTxProcessing hook failure (no erc20 token pair registered), "
        "London always active (default chain config), CheckTx/ReCheckTx-only branches",
    ],
    "assumptions": [
        "feemarket MinGasMultiplier in [0,1], base fee >= 0, MinGasPrice >= 0 (enforced by feemarket Params.Validate); env_ok in the theorems",
        "interpreter report within the gas limit (oracle_ok): intrinsic + evm gas <= gas limit, refund counter >= 0",
        "fee collector balance and all balances non-negative initially (state_ok, proved invariant)",
        "an admitted transaction whose message branch is dropped (intrinsic-gas error, block gas exceeded) is read as 'failed, gas used = gas limit'",
    ],
}
