from .common import KERNEL_TB

_HDR = ("From Coq Require Import List String ZArith.\nFrom Exo Require Import Base.Util C08.Model.\n"
        "Import ListNotations.\nLocal Open Scope string_scope.")

PROP = {
    "id": "C08",
    "props_file": "coq/C08/Props.v",
    "props_module": "C08.Props",
    "coq_targets": ["C08/Props.vo"],
    "uses_kernels": False,
    "allowed_axioms": [],
    # order matters: the determ suite looks at the sitescan result of the same run and samples 3x as many
    # schedules when a site without a lemma was found
    "suites": [
        {
            # (ii) inventory of schedule-injection sites tied to the CURRENT source
            "name": "sitescan",
            "harness": "c08scan",
            "header": _HDR,
            "case_type": "scase",
            "checks": {"covered": "scan_check"},
            "kinds": {"covered": "corr"},
            "n_quick": 1,
            "n_thorough": 1,
        },
        {
            # (i') the per-site Gallina models against the real functions containing the loops
            "name": "sites",
            "harness": "c08sites",
            "header": _HDR,
            "case_type": "site_case",
            "checks": {"model": "site_check"},
            "kinds": {"model": "corr"},
            "n_quick": 300,
            "n_thorough": 6000,
        },
        {
            # (iii) the property itself, on the real app: N >= 3 separate processes, byte-for-byte
            "name": "determ",
            "harness": "c08",
            "header": _HDR,
            "case_type": "dcase",
            "checks": {"shape": "determinism_check", "monitor": "determinism_monitor"},
            "kinds": {"shape": "corr", "monitor": "monitor"},
            "n_quick": 24,
            "n_thorough": 60,
        },
    ],
    "rule": ("sitescan: one case per `range`-over-map / call of a map-ordered-slice producer / time.Now / math|crypto rand / go / select / float site that go/types finds in "
             "x/**, app, app/ante/**, precompiles/**, utils, types/** of the current tree (covered = listed in coq/C08/sites.txt with the same "
             "statement+function fingerprint and a lemma of Props.v or a benign reason). "
             "sites: 7 families x n/7 generated inputs (small id universes so that keys collide, ties, boundary heights exactly on / one off the "
             "nonce window and the feeder end block, uint64 wrap) run through the real Difference, GroupTasksByIDAndAddress, BigIntList.Median, "
             "Cache.AddCache/GetCache, SetValidatorPowers/GetValidators, PrepareRoundEndBlock+SealRound(x2), RemoveNonceWithFeederIDForAll on ordered nonce rows of a real store, and compared with the Gallina site model. "
             "determ: each case = (seed, 30-block script [thorough: 120]) with 2-7 operations per block out of: signed bank send, EVM value transfer (dynamic-fee MsgEthereumTx), signed oracle "
             "create-price by one or both validators (inside and outside the nonce window, agreeing or not: final price, forced seal on validator-set "
             "change, failed round), RegisterOperator, OptIntoAVS, LST deposit / delegate / undelegate of two assets by six stakers (ties in staker "
             "power, incl. two tail stakers with equal value through different assets), dogfood slash, tasks of two extra AVSs (different assets / operator sets, real OptIn) whose statistical "
             "periods end in the same epoch; one price round in three is left unanswered; oracle UpdateParams (MaxSizePrices, new tokens with unanswered feeders), dogfood UpdateParams (MaxValidators), AVS challenge records; block times 5s..7d so that minute/hour/day/week epochs end (fee distribution to stakers every minute epoch, "
             "voting-power update and validator-set change at day epochs, undelegation maturity); executed by 3 [thorough: 5] SEPARATE processes "
             "with GOMAXPROCS 1,2,4[,3,8]; process 1 additionally serves Simulate + CheckTx for every signed tx before its DeliverTx (node-local traffic) and ~200 requests per case that no block ever delivers (eth_call of the gateway's registerToken/updateToken through EvmKeeper.EthCall, "
             "Simulate of oracle/dogfood MsgUpdateParams, Simulate+CheckTx of create-price txs); "
             "six extra unanswered oracle feeders with staggered starts make several rounds seal in the same EndBlock; the last process re-creates the oracle's memory from the store (C14 restart hook) at seed-drawn "
             "heights after a quiet window (~3 restarts per case, biased to the end of a submission window); plus one directed regression scenario (unpriced AVS asset, failing OptIntoAVS). distinct = sha1 of the "
             "whole case line; non-trivial = all cases (every script changes state in every block)."),
    "explanation": ("A Gallina function is deterministic by construction, so the theorems are about the places where Go injects a schedule into "
                    "consensus code: every range over a map is modelled as a fold over a list whose order is the schedule, and 41 theorems state "
                    "for ALL permutations that what reaches the store / ABCI response is the same (writes to distinct keys as finite maps, "
                    "additive updates, lists compared after the code's sort, early-exit loops incl. their read count), or refute it with a witness "
                    "where it is false (returned slices of SealRound, deleted keys / leftover variable in recache, unstable sort with ties, early "
                    "exit gas) together with the theorem about the consumer that makes the difference unobservable. The inventory of such places is "
                    "re-derived from the current source by a go/types scan on every run and compared with coq/C08/sites.txt; the site models are "
                    "run against the real functions; and the property statement itself (byte-identical app hash, tx code/data/gas, validator "
                    "updates, consensus-param updates) is evaluated by the Coq monitor on the observations of >= 3 separate OS processes that "
                    "executed the same blocks on a real ExocoreApp. PARTIAL: goroutine scheduling, wall clock, restart and everything inside "
                    "CometBFT / IAVL / cosmos-sdk / go-ethereum are outside any executable model; the scan flags their presence in consensus "
                    "packages and the replicated runs sample them, which is a test, not a proof."),
    "trusted_base": KERNEL_TB + [
        "modelled, not verified: the loop bodies listed in coq/C08/sites.txt (hand-written Gallina transcription; tied by tools/sitescan "
        "fingerprints of statement + enclosing function, and for Difference / GroupTasksByIDAndAddress / Median / cacheValidator.add / "
        "SetValidatorPowers / PrepareRoundEndBlock+SealRound by differential execution against the real functions)",
        "tools/sitescan (go/packages + go/types): decides what counts as a schedule-injection site; it cannot see map iteration hidden behind "
        "reflection, encoding libraries or dependencies outside the scanned packages, nor slices that inherit a map's order through a call chain "
        "it does not follow (the latter are covered only where the model follows them: SealRound -> EndBlock consumers, GetValidators)",
        "identifiers are abstracted to integers (order-preserving codes); log lines and error texts are not compared",
        "the replicated-process suite samples schedules (Go randomises map iteration per loop and per process); it cannot enumerate them",
    ],
    "assumptions": [
        "keys of a Go map are distinct (NoDup hypotheses); NST balance-change hook inside GrowRoundID and the slashing/evidence hooks are not part "
        "of the per-site models (they are exercised by the replicated runs only)",
        "the tx stream contains validly signed oracle price transactions only (no forged signatures); of the EVM only plain value transfers "
        "are driven (contract calls / precompile calls through the gateway belong to C19 / C09)",
        "restarts: one process per case restarts the oracle's memory, only after 4 blocks without price submission and validator-set change "
        "(restart equivalence in general, with its listed defects, is C14's; the recache loops it relies on are proved schedule-independent here)",
    ],
}
