from .common import KERNEL_TB

PROP = {
    "id": "C17",
    "props_file": "coq/C17/Props.v",
    "props_module": "C17.Props",
    "coq_targets": ["C17/Props.vo"],
    "uses_kernels": False,
    "allowed_axioms": [],
    "suites": [{
        "name": "feedist",
        "harness": "c17",
        "header": "From Coq Require Import List String ZArith.\nFrom Exo Require Import Base.IntDec Base.Util C17.Model.\nImport ListNotations.",
        "case_type": "case",
        "checks": {"corr": "check_case", "monitor": "monitor_case"},
        "kinds": {"corr": "corr", "monitor": "monitor"},
        "n_quick": 220,
        "n_thorough": 2000,
    }],
    "rule": ("each case = 5 directed scenarios first (single staker paid; one staker reached through 3 AVSs / 2 assets; distribution and "
             "mint on the same identifier; zero power / zero fees / zero reward; opted-in key error), one last scenario of 6 whole blocks through "
             "ABCI EndBlock/Commit/BeginBlock of the real app, and in between random histories of 2-6 blocks run through the REAL "
             "x/epochs BeginBlocker with the application's own hook list (distribution, operator, dogfood, exomint, avs) behind an observer; "
             "between blocks: fee income 0..10^30 (bank send to the fee collector), 1-5 dogfood validator records with powers 0/1/3/2^40/random "
             "and matching last total power (or 0), commission rates and community tax from {0, 1, 10^-18, 1-10^-18, 0.5, 0.03, n/100, random}, "
             "distribution identifier in {minute,hour,day}, mint identifier in {minute,hour,day,week} (1 in 8: one of the look-alike identifiers "
             "hou/hourly/Hour added to the epochs store), validator records with an unregistered consensus key (1 in 6), last total power above the "
             "sum of the records (1 in 10), epoch reward 0/20/1..10^30, jailing of an operator (1 in 10), opt-ins of "
             "operators into 2 further AVSs (asset sets {USDT}, {USDT,USDC}), deposits+delegations of USDT/USDC by 6 stakers to 5 operators through "
             "the real assets/delegation keepers; block steps 10s/61s/1h/1d/1w so that 0-4 identifiers end in one block. Parameter updates through the REAL exomint / feedistribution UpdateParams handlers (3 in 4 after "
             "ValidateBasic, 1 in 8 with a wrong authority) with identifiers exact / with leading, trailing, surrounding blanks / capitalised / upper "
             "case / a letter dropped or appended / empty / blank / unrelated, rewards incl. negative; the monitor follows the configured params "
             "through the updates and evaluates each epoch end against them. One model step per "
             "observed epoch end (every distribution / mint epoch end and the first three no-op epoch ends per case go into the Coq case); distinct = distinct sha1 of the case; non-trivial = supply or distribution balance changed in some epoch end"),
    "explanation": ("Theorems (Coq) about an executable model of exomint AfterEpochEnd, feedistribution AfterEpochEnd / AllocateTokens / "
                    "AllocateTokensToValidator / AllocateTokensToStakers (as repaired by repo_patches/fix-c17-*.patch) and their hook order, for ALL "
                    "histories of epoch ends and fee payments with arbitrary validator lists, powers, rates, tax and staker lists: supply moves only "
                    "by the epoch reward once per mint-epoch end; the whole fee-collector balance moves; booked claims grow by exactly the amount "
                    "moved (no guard); solvency over all histories; no DecCoins panic under stated guards; no claim ever shrinks; the community tax is collected; closed form and bounds of every "
                    "validator's portion and commission; and C17_step_meets_statement: the very boolean monitor_event that the check evaluates on the "
                    "implementation's observations is true of every guarded model step. The model is tied to the code by running both on the same generated epoch ends (bank supply, 3 module "
                    "balances, fee pool, every commission / outstanding / staker reward entry and raw-store totals compared), and the property's own "
                    "statement is evaluated on the implementation's observations alone (monitor). The pre-repair code is refuted in the model "
                    "(C17_legacy_*_refuted) and is reported as VIOLATION by the monitor when the fix is reverted."),
    "trusted_base": KERNEL_TB + [
        "modelled, not verified: x/exomint/keeper/impl_epochs_hooks.go AfterEpochEnd, keeper.go MintCoins/AddCollectedFees; "
        "x/exomint/keeper/msg_server.go UpdateParams, types/params.go OverrideIfRequired/Validate, types/msg.go ValidateBasic; "
        "x/feedistribution/keeper/msg_update_params.go UpdateParams; x/epochs/types/identifier.go ValidateEpochIdentifierString, "
        "x/epochs/keeper/epoch_infos.go GetEpochInfo (lookup by exact bytes); "
        "x/feedistribution/keeper/hooks.go AfterEpochEnd, allocation.go AllocateTokens/AllocateTokensToValidator/AllocateTokensToStakers/"
        "AllocateTokensToSingleStaker (hand-written Gallina transcription, tied by differential execution)",
        "the inputs of every epoch end (params, last total power, validator records, operator resolution, commission rate, the (staker, USD value) "
        "list per operator over opted-in AVSs x supported assets x listed stakers) are read by the harness observer through the same keeper "
        "getters the code uses, immediately before the application's hook fan-out",
        "hook order read by reflection from app.EpochsKeeper.Hooks(); x/epochs BeginBlocker itself is C15's",
        "bank module (MintCoins, SendCoinsFromModuleToModule) modelled as exact integer arithmetic on supply and three balances",
        "one denom: DecCoins operations act per denom; the mint denom is the fee denom in every generated case; the 315-bit LegacyDec guard is "
        "not modelled (fees < 2^190)",
        "the order in which stakers are paid (Go map range + unstable sort) is not modelled: payments are non-negative, so totals and the "
        "panic condition are order-independent (order effects are C08's)",
    ],
    "assumptions": [
        "community tax and commission rates in [0,1] (feedistribution Params.Validate returns nil and UpdateParams never validates: a tax outside "
        "[0,1] is settable; outside the property's quantifier, only guarded here)",
        "sum of the powers of the stored validators <= LastTotalPower (kept by dogfood EndBlock; C06's)",
        "dogfood validator records, last total power and commission rates are written through keeper setters / the operator-info store "
        "record (there is no EditOperator message), not evolved through whole blocks",
    ],
}
