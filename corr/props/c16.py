from .common import KERNEL_TB

_HEADER = ("From Coq Require Import List ZArith Bool.\nFrom Exo Require Import Base.Util Dogfood.Model C16.Model.\n"
           "Import ListNotations.\nSet Printing Width 1000000.")

PROP = {
    "id": "C16",
    "props_file": "coq/C16/Props.v",
    "props_module": "C16.Props",
    "coq_targets": ["C16/Props.vo"],
    "uses_kernels": False,
    "allowed_axioms": [],
    "suites": [{
        "name": "queues",
        "harness": "c16",
        "header": _HEADER,
        "case_type": "case_type",
        "checks": {"corr": "c16_check_case", "monitor": "monitor_case"},
        "kinds": {"corr": "corr", "monitor": "monitor"},
        "n_quick": 160,
        "n_thorough": 480,
    }],
    "rule": ("one real ExocoreApp (4 genesis operators validating with keys 0..3, each also holding pools of assets the dogfood AVS does not accept: USDC priced / DAI never priced, pool of 6 consensus keys, dogfood epoch = 'minute'); "
             "7 directed scenarios first (opt-out before activation, replace-then-opt-out, opt-in while removing, A->B->C->A in one epoch, deselected key kept, jail/slash/unjail around a key replacement, epoch identifier exchange), "
             "then random segments of 18..41 steps of the running chain (40% undelegations, 10% parameter changes, 10% multi-epoch gaps): "
             "operator messages OptIntoAVS(with key)/SetConsKey/OptOutOfAVS (alternately through the application's registered MsgServiceRouter handler and a msg server on app.OperatorKeeper), Keeper.OptIn, Keeper.SetOperatorConsKeyForChainID, UndelegateFrom (alternately through DelegationKeeper and through the delegation precompile instance registered with the EVM keeper, caller = gateway), dogfood Keeper.Jail / Unjail / SlashWithInfractionReason by consensus address, dogfood UpdateParams(EpochsUntilUnbonded 1..3, MaxValidators, EpochIdentifier), EndBlock/Commit/BeginBlock with block gaps inside an epoch, "
             "across one epoch end, or several epochs behind; keys drawn from the whole pool so that collisions with other operators' current, "
             "previous and not-yet-pruned keys are frequent; distinct = distinct case line; non-trivial = at least 3 op kinds"),
    "explanation": ("Theorems (Coq) about the executable model Dogfood/Model.v of the key registry and the dogfood queues for ALL histories; the "
                    "model is tied to the code by running both on the same histories and comparing the raw stores after every step; the "
                    "property's boolean statement (C16/Model.v c16_state_ok: no stranded key, pending lists only in the closing block, hold count = queue "
                    "mentions; c16_step_ok: tick moves exactly queue(e), EndBlock releases each pending entry once, transactions only register at "
                    "cur+unb / the opt-out finish epoch, no-hold rule) is evaluated on the implementation's observed states only."),
    "trusted_base": KERNEL_TB + [
        "modelled, not verified: x/operator/keeper/consensus_keys.go, opt.go, msg_server.go (OptIntoAVS/OptOutOfAVS/SetConsKey), "
        "x/dogfood/keeper/{impl_operator_hooks,opt_out,unbonding,pending,impl_epochs_hooks,impl_delegation_hooks,abci}.go "
        "(hand-written Gallina transcription for one chain, tied by differential execution)",
        "consensus address = injective function of the consensus key (sha256 truncation not modelled); identifiers are opaque integers",
        "the selection of validators by vote power (sel of EndBlock) is an input of the model: it is C06's subject",
    ],
    "assumptions": [
        "operators are registered, not frozen and keep a self-delegation above the AVS minimum (slashes are tiny: power 1, factor 1e-4)",
        "staking hooks called by ApplyValidatorChanges (slashing module) succeed",
        "a change of the dogfood epoch identifier is modelled as SetClock (accepted only while nothing is scheduled); the epochs module itself is C15's subject",
    ],
}
