from .common import KERNEL_TB

PROP = {
    "id": "C14",
    "props_file": "coq/C14/Props.v",
    "props_module": "C14.Props",
    "coq_targets": ["C14/Props.vo"],
    "uses_kernels": False,
    "allowed_axioms": [],
    "suites": [{
        "name": "twin",
        "harness": "c14",
        "header": "From Coq Require Import List String ZArith.\nFrom Exo Require Import Base.Util C14.Model.\nImport ListNotations.",
        "case_type": "case",
        "checks": {"corr": "check_case", "pred": "pred_case", "conj": "conj_case", "thm": "thm_case", "monitor": "monitor_case", "monitor_mem": "monitor_mem"},
        "kinds": {"corr": "corr", "pred": "corr", "conj": "corr", "thm": "corr", "monitor": "monitor", "monitor_mem": "monitor"},
        "n_quick": 320,
        "n_thorough": 3000,
    }],
    "rule": ("one case = (history, restart height(s)). A history is 14-25 blocks on a real ExocoreApp (2-4 validators with boundary power splits, params.MaxNonce 2/3/4, "
             "2-3 token feeders with different intervals/start blocks, 0-12 create-price submissions per block through the real nonce check + "
             "CreatePrice msg server incl. wrong nonce / wrong based block / duplicate det-ids / second message of the same validator / outsider, "
             "optionally one UpdateParams or token registration (RegisterNewTokenAndSetTokenFeeder: new token / existing token with a new asset id), one stake increase (validator power change) and one undelegation below MinSelfDelegation (removal-only validator update) that dogfood turns into validator updates at the next epoch end). The history is "
             "run once without stopping; then for EVERY height r the multistore is rolled back to version r, the oracle's process-local state is "
             "dropped (verif hook) and blocks r+1.. are re-executed: the restarted twin. One extra twin per history is restarted three times. "
             "Every sixth generated history runs on legal non-default params where feeder 2's rule demands the deterministic source AND a non-deterministic one (messages carry both parts, validators disagree on the non-deterministic price). 12 directed histories come first: two reproducing the remaining known findings (finalized round reopened; reverted params update) and ten regression scenarios (repaired defects, removal-only validator update, token registrations, a rule with a non-deterministic source; untagged). Observed per block also: GetSpecifiedAssetsPrice of every registered asset id. One history runs on a testnet-type chain id and has extra twins that answer one BaseApp.Simulate(MsgUpdateParams) after their restart. distinct = distinct sha1 of the Coq case; all cases count as non-trivial "
             "(every case re-executes at least one block on a rebuilt aggregator)"),
    "explanation": ("Main theorem C14_restart_safe_iff: for all never-stopped histories over valid params, a block boundary (outside the narrow 'band' of feeders that just left their window with items still in the replay window; C14_restart_safe_iff_weak narrows the band further: such items are allowed if the replay starts at a validator-set change, if they lie in one block, or if those before the last item block carry at most the 2/3 threshold power) is restart-safe iff every round still inside its window is open or older than the last validator-set change; observational corollary C14_restart_safe; refutation C14_restart_refuted_final for the remaining defect class. Coq theorems about an executable model of the oracle's in-memory state, of what EndBlock persists and of "
                    "recacheAggregatorContext, for all histories; the model is tied to the code by differential execution (codes, store "
                    "projection and live memory after every block, and recache(model store) vs the memory the restarted implementation "
                    "rebuilt). The property itself (restarted twin == never-stopped run: result codes, prices/round ids, whole oracle store "
                    "digest, app hash, no crash; and the simulation invariant on the normalised memory dump) is evaluated on the "
                    "implementation's observed behaviour for every (history, restart height) pair."),
    "trusted_base": KERNEL_TB + [
        "modelled, not verified: x/oracle/keeper/single.go recacheAggregatorContext/initAggregatorContext, x/oracle/module.go EndBlock, "
        "x/oracle/keeper/aggregator/{context,worker,filter,calculator,aggregator}.go for ONE deterministic source, x/oracle/keeper/cache/caches.go "
        "cacheMsgs.commit/cacheValidator.commit, x/oracle/keeper/nonce.go, prices.go AppendPriceTR/GrowRoundID (hand-written Gallina, tied by differential execution)",
        "verif hooks x/oracle/**/zz_verif_c14_*.go (read-only dumps + singleton reset) and the harness' restart simulation: rootmulti.RollbackToVersion(r) "
        "on the same MemDB + dropping the oracle package singletons and re-arming the BeginBlock sync.Once; no OS process is actually killed",
        "DeliverTx is emulated: CheckAndIncreaseNonce (ante) in its own cache context, then the real msg server in a second cache context; signatures, gas and tx size decorators are not run (C13)",
        "not modelled: params updates (recent-params window), non-deterministic sources, more than one source per message, CheckTx copy (agcCheckTx); histories on params with a non-deterministic source (every sixth generated one + the directed reg-ns-source) are therefore checked by the property monitors only (c_modelled = false)",
        "the normalised memory dump drops the filter's nonce sets (unobservable: theorem C14_lockstep) and closed rounds of ended feeders",
    ],
    "assumptions": [
        "validator updates and the dogfood validator set are explicit inputs of the model's EndBlock (C06 owns their computation)",
        "a restart happens at a block boundary (after Commit); a crash inside a block is CometBFT/IAVL territory",
    ],
}
