from .common import KERNEL_TB
from .c03 import PROP as _C03

_HEADER = ("From Coq Require Import List String ZArith.\n"
           "From Exo Require Import Base.Store Base.Util Ledger.Ledger C01.Model.\n"
           "Import ListNotations.\nOpen Scope string_scope.")

PROP = {
    "id": "C01",
    "props_file": "coq/C01/Props.v",
    "props_module": "C01.Props",
    "coq_targets": ["C01/Props.vo"],
    "uses_kernels": False,
    "allowed_axioms": [],
    "suites": [{
        "name": "ledger",
        "harness": "c01",
        "header": _HEADER,
        "case_type": "Ledger.case",
        "checks": {"corr": "Ledger.check_case", "mon_conservation": "mon_conservation", "mon_only_deposit": "mon_only_deposit",
                   "mon_nonneg": "mon_nonneg", "mon_escrow": "mon_escrow"},
        "kinds": {"corr": "corr", "mon_conservation": "monitor", "mon_only_deposit": "monitor", "mon_nonneg": "monitor", "mon_escrow": "monitor"},
        "n_quick": 160,
        "n_thorough": 2000,
    }],
    "rule": _C03["rule"],
    "explanation": ("Coq theorems about the executable ledger model (Ledger/Ledger.v) for ALL operation lists: the value of every asset "
                    "(sum of withdrawable balances + operator pools + amounts owed by pending undelegation records) changes exactly by deposits - "
                    "withdrawals - slashed (- amounts of overwritten records), only a deposit increases it, the published staking total follows "
                    "deposits - withdrawals, no figure is negative. The model is tied to the code by running the real keepers and the model on the same "
                    "histories and comparing every raw store entry after every op; the monitors evaluate the conservation equality on the "
                    "implementation's stores with ghost totals the harness derives from the implementation's own results (accepted amounts, slash "
                    "execution info)."),
    "trusted_base": _C03["trusted_base"],
    "assumptions": [
        "identifiers contain no '/'",
        "native token: modelled incl. x/bank balances of the native stakers and of the escrow module account (C01_escrow); NST deposits as such are not modelled; UpdateNSTBalance is modelled, correspondence-checked, monitored and inside the theorem fragment",
    ],
}
