KERNEL_TB = [
    "Coq 8.16.1 kernel (coqc, full .vo build; vm_compute used for refutation witnesses and for evaluating the model on harness cases; no native_compute)",
    "no Axiom/Parameter/Conjecture/Admitted anywhere (grep gate inside every check); Print Assumptions of every property theorem is harvested on every run",
    "Go harness /verif/harness (decides which real entry points are driven and what is observed), its generators, and the Go->Coq term printer harness/coqfmt.go",
    "Python orchestration corr/lib.py, corr/run_check.py (sharding, parsing of coqc output)",
]
