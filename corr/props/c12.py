from .common import KERNEL_TB

_HEADER = ("From Coq Require Import List String ZArith.\n"
           "From Exo Require Import Base.Util Oracle.Model C12.Model.\nImport ListNotations.")

PROP = {
    "id": "C12",
    "props_file": "coq/C12/Props.v",
    "props_module": "C12.Props",
    "coq_targets": ["C12/Props.vo"],
    "uses_kernels": False,
    "allowed_axioms": [],
    "suites": [{
        "name": "oracle",
        "harness": "c12",
        "header": _HEADER,
        "case_type": "case",
        "checks": {"corr": "c12_check_case", "monitor": "c12_monitor_case"},
        "kinds": {"corr": "corr", "monitor": "monitor"},
        "n_quick": 160,
        "n_thorough": 2000,
    }, {
        "name": "abci",
        "harness": "c12abci",
        "header": _HEADER,
        "case_type": "case",
        "checks": {"corr": "c12_check_case", "monitor": "c12_monitor_case"},
        "kinds": {"corr": "corr", "monitor": "monitor"},
        "n_quick": 6,
        "n_thorough": 60,
    }, {
        "name": "kernels",
        "harness": "c12k",
        "header": _HEADER,
        "case_type": "kcase",
        "checks": {"corr": "c12_check_kcase", "monitor": "c12_monitor_kcase"},
        "kinds": {"corr": "corr", "monitor": "monitor"},
        "n_quick": 240,
        "n_thorough": 5000,
    }],
    "rule": 'suite oracle: each case = a branch of the block-1 state of one real ExocoreApp with generated oracle params (1-3 feeders with a random feeder->token assignment, in a third of the multi-feeder cases a successor feeder continuing the token of an ended feeder, intervals 2*MaxNonce..10, start before/at/after the case, optional EndBlock, MaxNonce 1-3, MaxDetID 1/2/5, MaxSizePrices 1/2/3/100, thresholds 2/3 1/2 3/4 1/1), generated initial price lists (consistent / off by one / latest missing / absent), 3-6 validators from power pools that contain exactly-2/3 and +-1 splits, 8-29 blocks of signed create-price txs (valid, every single admission/counting clause violated in turn, boundary values, duplicates, equivocation, outsiders, 1000/1001-byte txs, two-message txs; in a quarter of the cases a real MsgUpdateParams in the middle of the case: new feeder for a new token / EndBlock for a running feeder) run through the real ante chain + message handler + oracle EndBlock with injected validator-set updates; 4 directed scenarios first; suite abci: the same generators on one continuous chain through app.DeliverTx/EndBlock/Commit/BeginBlock; suite kernels: BigIntList.Median and ExceedsThreshold on boundary-biased inputs. distinct = distinct sha1 of the case term; non-trivial = at least one submission was counted',
    "explanation": "Coq theorems about the executable model of the oracle (threshold, median, one final price per round for ALL message sequences; carry-forward; round numbering for ALL block/tx histories of one feeder with single-message txs; refutation witnesses for the full no-gap statement and for invalid intervals). The model is tied to the code by running the real ante chain, message server and EndBlock (and, in suite abci, the real ABCI path) on generated histories and comparing prices, nonce rows and the verif-hook dump of the in-memory aggregator after every tx and block; the property's own statement (writes only with a logged super-majority on one det-ID value, one write per round, carried price = previous, closed-form round numbering, retention) is evaluated on the implementation's observations independently of the model's step functions.",
    "trusted_base": KERNEL_TB + ['modelled, not verified: x/oracle/keeper/aggregator/{context,worker,filter,calculator,aggregator}.go, keeper/common/types.go, keeper/{prices,nonce,msg_server_create_price}.go, module.go EndBlock, the oracle branches of app/ante/cosmos/{txsize_gas,sigverify}.go (hand-written Gallina transcription in coq/Oracle/Model.v, tied by differential execution)', 'verif hook (add-only, build tag verif): x/oracle/keeper/aggregator/zz_verif_c12_dump.go, keeper/common/zz_verif_c12_set.go, keeper/zz_verif_c12_dump.go - canonical sorted dump of the unexported aggregator context', 'suite oracle emulates baseapp.runTx (ante cache written iff ante ok, message cache written iff all messages ok, panics recovered) around the real ante handler and message handler; suite abci runs the real baseapp and agrees with it (0 mismatches)', 'validator-set updates of suite oracle are injected into the dogfood store (StakingKeeper.SetValidatorUpdates) instead of being produced by a dogfood epoch', 'scope of the model: DefaultParams source/rule tables (one deterministic source); model params are constant inside a case - parameter updates are exercised (MsgUpdateParams adding a feeder / setting an EndBlock, token registration) by running the model with the post-update params, which must and does agree because such updates have no effect before the new start / end block; updates of MaxNonce, thresholds, MaxSizePrices or of token decimals are not exercised; no CheckTx-mode aggregator copy, numeric price strings only, one signer per tx'],
    "assumptions": ['params_valid (Interval >= 2*MaxNonce etc.) is a hypothesis of the round-numbering theorem; its reachability (token registration stores params without Validate) is not decided here - C12_no_gap_needs_valid_interval_refuted shows it is necessary', 'per-validator values are equal whenever a price is final in the modelled single-source configuration; Median is therefore also checked on its own (suite kernels)', 'the repaired signature check (fix-c10-oracle-sigverify.patch, group gJ) is part of the tree this package models'],
}
