from .common import KERNEL_TB

PROP = {
    "id": "C06",
    "props_file": "coq/C06/Props.v",
    "props_module": "C06.Props",
    "coq_targets": ["C06/Props.vo"],
    "uses_kernels": False,
    "allowed_axioms": [],
    "suites": [{
        "name": "valset",
        "harness": "c06",
        "header": "From Coq Require Import List String ZArith.\nFrom Exo Require Import Base.Util C06.Model.\nImport ListNotations.\nLocal Open Scope string_scope.",
        "case_type": "case",
        "checks": {"corr": "check_case", "monitor": "monitor_case"},
        "kinds": {"corr": "corr", "monitor": "monitor"},
        "n_quick": 300,
        "n_thorough": 3000,
    }],
    "rule": ("each case = a history of 2-5 consecutive dogfood epochs (dogfood epoch = `hour`; 0-2 ordinary blocks per epoch, some crossing a "
             "`minute` epoch end or landing exactly on the hour boundary, + one epoch-end block at boundary+1ns / +minutes / +2h so that the "
             "following blocks are epoch-end blocks too) on a real ExocoreApp with 6 genesis operators: random operator-keeper operations "
             "between blocks (consensus-key replacement from a pool of 8 keys, opt-out, opt-in, jail, unjail, deposit+delegate / undelegate "
             "through the ledger, MaxValidators in {1..6,100} through dogfood SetParams) and, inside epoch-end blocks, direct writes of USD "
             "value records from a boundary pool (0, 0.5, 1-1e-18, 1, 1+1e-18, ties at 3/5/100/200, 2^53+1, active=0 with total>0); 90% of "
             "the cases run on a CacheContext branch with the module Begin/EndBlock functions in app order, 10% are consecutive windows of "
             "one committed chain driven through the real ABCI BeginBlock/EndBlock/Commit; distinct = distinct sha1 of the case; "
             "non-trivial = at least one epoch-end block returned a non-empty update list. MinSelfDelegation / MaxValidators are changed through the real "
             "dogfood MsgUpdateParams handler; 8 + N/30 cases (params family) have no direct USD writes: every epoch end is priced by the real "
             "operator hook after MinSelfDelegation updates and self-delegation changes across / onto the minimum. 6 + N/40 cases are large sets (13-20 operators, the extra ones "
             "registered through the real entry points with equal stakes; every epoch-end block has a tie group of 13..n operators and "
             "MaxValidators strictly inside it: sort.Slice leaves insertion sort above 12 elements). The first three cases are directed observations "
             "(tag obs-C06-empty-validator-set: all operators opt out / fall below the minimum self delegation / are jailed in one epoch: EndBlock "
             "removes every validator and the real CometBFT code refuses the list) - they satisfy C06 and are reported for C11"),
    "explanation": ("Theorems (Coq) about the executable model of dogfood EndBlock / ApplyValidatorChanges / SortByPower for ALL previous "
                    "validator sets, candidate lists and maxima; the model is tied to the code by running both on the same generated "
                    "histories (returned updates in order, stored set, total power, stored updates, marker compared after every block), "
                    "and the property's own statement (CometBFT-style application of the returned updates to the previous set = top-k of "
                    "the eligible operators recomputed from the raw operator registry dump) is evaluated on the implementation's "
                    "observed behaviour."),
    "trusted_base": KERNEL_TB + [
        "modelled, not verified: x/dogfood/keeper/abci.go EndBlock (vote-power diff), validators.go ApplyValidatorChanges / SetValidatorUpdates / "
        "SetLastTotalPower, utils/utils.go SortByPower, x/operator/keeper GetActiveOperatorsForChainID / IsActive / GetVotePowerForChainID "
        "(hand-written Gallina transcription, tied by differential execution)",
        "consensus keys are identified by the text tmproto PublicKey.String(); the map key -> consensus address (sha256) is taken to be injective",
        "Go's sort.Slice is modelled by a verified insertion sort; they agree whenever the comparator is a strict total order on the elements "
        "(distinct operator addresses / distinct (power,key) pairs)",
        "the SDK slashing hooks called by ApplyValidatorChanges are assumed to return nil",
        "CometBFT's validator-set update rules (duplicate / negative / unknown removal / empty result) are transcribed as cmt_apply / cmt_code; the harness also runs the REAL cometbft types.ValidatorSet.UpdateWithChangeSet on (previous set, returned updates) of every block and the monitor requires both to agree",
    ],
    "assumptions": [
        "the consensus-key registry is injective (no two operators share a key) and every registered key has its reverse lookup: property C07. "
        "Discharged for every reachable state of the registry model coq/Dogfood (C06/Link.v: C06_result_reachable, C06_stored_agree_reachable); "
        "without them the statement is refuted (C06_shared_key_refuted, C06_missing_reverse_lookup_refuted)",
        "GetVotePowerForChainID does not fail (every active operator has a USD value record); the failing branch is modelled and refuted "
        "(C06_power_error_refuted) but not reachable through the generated operations",
        "active USD values are below 2^63 (TruncateInt64 panics otherwise: a halted chain, C11)",
    ],
}
