package main

// Suite c16: same driver as c07 (harness/s_c07.go) with a mix that stresses the epoch-scheduled queues:
// many undelegations per epoch, frequent EpochsUntilUnbonded changes, more multi-epoch gaps.

func init() {
	register("c16", func(a *Args) error { return c07Run(a, "c16") })
}
