package main

import (
	"crypto/sha256"
	"encoding/json"
	"fmt"
	"time"

	"cosmossdk.io/math"
	abci "github.com/cometbft/cometbft/abci/types"
	"github.com/cometbft/cometbft/crypto/tmhash"
	tmproto "github.com/cometbft/cometbft/proto/tendermint/types"
	"github.com/cosmos/cosmos-sdk/crypto/keys/ed25519"
	pruningtypes "github.com/cosmos/cosmos-sdk/store/pruning/types"
	sdk "github.com/cosmos/cosmos-sdk/types"
	authtypes "github.com/cosmos/cosmos-sdk/x/auth/types"
	banktypes "github.com/cosmos/cosmos-sdk/x/bank/types"
	stakingtypes "github.com/cosmos/cosmos-sdk/x/staking/types"
	"github.com/ethereum/go-ethereum/common"
	"github.com/ethereum/go-ethereum/common/hexutil"
	"github.com/evmos/evmos/v16/crypto/ethsecp256k1"
	evmostestutil "github.com/evmos/evmos/v16/testutil"
	evmostypes "github.com/evmos/evmos/v16/types"
	evmtypes "github.com/evmos/evmos/v16/x/evm/types"

	exocoreapp "github.com/ExocoreNetwork/exocore/app"
	keytypes "github.com/ExocoreNetwork/exocore/types/keys"
	"github.com/ExocoreNetwork/exocore/utils"
	assetstypes "github.com/ExocoreNetwork/exocore/x/assets/types"
	avstypes "github.com/ExocoreNetwork/exocore/x/avs/types"
	delegationtypes "github.com/ExocoreNetwork/exocore/x/delegation/types"
	dogfoodtypes "github.com/ExocoreNetwork/exocore/x/dogfood/types"
	distributiontypes "github.com/ExocoreNetwork/exocore/x/feedistribution/types"
	operatortypes "github.com/ExocoreNetwork/exocore/x/operator/types"
	oracletypes "github.com/ExocoreNetwork/exocore/x/oracle/types"
)

// ---- deterministic keys --------------------------------------------------------------------

func seedBytes(tag string, i int) []byte {
	h := sha256.Sum256([]byte(fmt.Sprintf("verif/%s/%d", tag, i)))
	return h[:]
}

// DetEthKey returns a deterministic eth secp256k1 key and its address.
func DetEthKey(tag string, i int) (*ethsecp256k1.PrivKey, common.Address) {
	priv := &ethsecp256k1.PrivKey{Key: seedBytes(tag, i)}
	addr := common.BytesToAddress(priv.PubKey().Address().Bytes())
	return priv, addr
}

// DetConsKey returns a deterministic ed25519 consensus key.
func DetConsKey(tag string, i int) (*ed25519.PrivKey, keytypes.WrappedConsKey) {
	priv := ed25519.GenPrivKeyFromSecret(seedBytes(tag, i))
	w := keytypes.NewWrappedConsKeyFromHex(hexutil.Encode(priv.PubKey().Bytes()))
	return priv, w
}

// ---- environment ---------------------------------------------------------------------------

type OperatorCfg struct {
	Deposit int64 // in whole tokens of asset 0 (decimals 6), self-delegated by a staker with the same address; 0 = none
}

type EnvCfg struct {
	ChainID   string
	Operators []OperatorCfg // genesis operators (all opted into the dogfood AVS with a consensus key when Deposit>0)
	InitTime  time.Time
	// MutGenesis lets a suite edit the genesis map before InitChain.
	MutGenesis func(app *exocoreapp.ExocoreApp, gs map[string]json.RawMessage)
	ExtraAccs  int // number of funded EOA accounts (deterministic keys, tag "acc")
}

type Env struct {
	App       *exocoreapp.ExocoreApp
	Ctx       sdk.Context
	Cfg       EnvCfg
	ChainID   string
	Operators []sdk.AccAddress
	OpPrivs   []*ethsecp256k1.PrivKey
	ConsKeys  []keytypes.WrappedConsKey
	ConsPrivs []*ed25519.PrivKey
	AccPrivs  []*ethsecp256k1.PrivKey
	AccAddrs  []common.Address
	AssetID   string
	AssetAddr string
	LzID      uint64
	Header    tmproto.Header
	InitTime  time.Time
}

var defaultInitTime = time.Date(2024, 1, 1, 0, 0, 0, 0, time.UTC)

// NewEnv builds a fresh ExocoreApp (MemDB, real IAVL multistore, real codec) the way
// testutil.BaseTestSuite does, parameterised and with deterministic keys.
// After it returns the app is in the middle of block 1 (BeginBlock done).
func NewEnv(cfg EnvCfg) *Env {
	if cfg.ChainID == "" {
		cfg.ChainID = utils.DefaultChainID
	}
	if cfg.Operators == nil {
		cfg.Operators = []OperatorCfg{{Deposit: 101}, {Deposit: 100}}
	}
	if cfg.InitTime.IsZero() {
		cfg.InitTime = defaultInitTime
	}
	e := &Env{Cfg: cfg, ChainID: cfg.ChainID, InitTime: cfg.InitTime}
	pruneOpts := pruningtypes.NewPruningOptionsFromString(pruningtypes.PruningOptionDefault)
	appI, genesisState := exocoreapp.SetupTestingApp(cfg.ChainID, &pruneOpts, false)()
	app := appI.(*exocoreapp.ExocoreApp)
	e.App = app

	// accounts
	var genAccs []authtypes.GenesisAccount
	var balances []banktypes.Balance
	nacc := cfg.ExtraAccs
	if nacc < 1 {
		nacc = 1
	}
	for i := 0; i < nacc; i++ {
		priv, addr := DetEthKey("acc", i)
		e.AccPrivs = append(e.AccPrivs, priv)
		e.AccAddrs = append(e.AccAddrs, addr)
		baseAcc := authtypes.NewBaseAccount(addr.Bytes(), priv.PubKey(), 0, 0)
		acc := &evmostypes.EthAccount{BaseAccount: baseAcc, CodeHash: common.BytesToHash(evmtypes.EmptyCodeHash).Hex()}
		genAccs = append(genAccs, acc)
		amount := sdk.TokensFromConsensusPower(5, evmostypes.PowerReduction)
		balances = append(balances, banktypes.Balance{Address: acc.GetAddress().String(), Coins: sdk.NewCoins(sdk.NewCoin(utils.BaseDenom, amount))})
	}
	authGenesis := authtypes.NewGenesisState(authtypes.DefaultParams(), genAccs)
	genesisState[authtypes.ModuleName] = app.AppCodec().MustMarshalJSON(authGenesis)

	clientChains := []assetstypes.ClientChainInfo{{
		Name: "ethereum", MetaInfo: "ethereum blockchain", ChainId: 1, FinalizationBlocks: 10, LayerZeroChainID: 101, AddressLength: 20,
	}}
	assets := []assetstypes.AssetInfo{{
		Name: "Tether USD", Symbol: "USDT", Address: "0xdAC17F958D2ee523a2206206994597C13D831ec7", Decimals: 6,
		LayerZeroChainID: 101, MetaInfo: "Tether USD token",
	}}
	e.LzID = 101
	e.AssetAddr = assets[0].Address
	_, assetID := assetstypes.GetStakerIDAndAssetIDFromStr(101, "", assets[0].Address)
	e.AssetID = assetID

	chainIDWithoutRevision := avstypes.ChainIDWithoutRevision(cfg.ChainID)
	avsAddr := avstypes.GenerateAVSAddr(chainIDWithoutRevision)

	var depositsByStaker []assetstypes.DepositsByStaker
	var operatorAssets []assetstypes.AssetsByOperator
	var operatorInfos []operatortypes.OperatorDetail
	var operatorConsKeys []operatortypes.OperatorConsKeyRecord
	var optStates []operatortypes.OptedState
	var operatorUSDValues []operatortypes.OperatorUSDValue
	var delegationStates []delegationtypes.DelegationStates
	var associations []delegationtypes.StakerToOperator
	var stakersByOperator []delegationtypes.StakersByOperator
	var genVals []dogfoodtypes.GenesisValidator
	total := math.ZeroInt()
	totalUSD := math.LegacyZeroDec()
	totalPower := int64(0)
	for i, oc := range cfg.Operators {
		priv, addr := DetEthKey("operator", i)
		op := sdk.AccAddress(addr.Bytes())
		e.Operators = append(e.Operators, op)
		e.OpPrivs = append(e.OpPrivs, priv)
		cpriv, ckey := DetConsKey("cons", i)
		e.ConsKeys = append(e.ConsKeys, ckey)
		e.ConsPrivs = append(e.ConsPrivs, cpriv)
		operatorInfos = append(operatorInfos, operatortypes.OperatorDetail{
			OperatorAddress: op.String(),
			OperatorInfo: operatortypes.OperatorInfo{
				EarningsAddr: op.String(), OperatorMetaInfo: fmt.Sprintf("operator%d", i+1),
				Commission: stakingtypes.NewCommission(sdk.ZeroDec(), sdk.ZeroDec(), sdk.ZeroDec()),
			},
		})
		if oc.Deposit <= 0 {
			continue
		}
		stakerID, _ := assetstypes.GetStakerIDAndAssetIDFromStr(101, common.Address(op.Bytes()).String(), "")
		dep := math.NewIntWithDecimal(oc.Deposit, 6)
		usd := math.LegacyNewDec(oc.Deposit)
		total = total.Add(dep)
		totalUSD = totalUSD.Add(usd)
		totalPower += oc.Deposit
		depositsByStaker = append(depositsByStaker, assetstypes.DepositsByStaker{
			StakerID: stakerID,
			Deposits: []assetstypes.DepositByAsset{{AssetID: assetID, Info: assetstypes.StakerAssetInfo{
				TotalDepositAmount: dep, WithdrawableAmount: dep, PendingUndelegationAmount: sdk.ZeroInt(),
			}}},
		})
		operatorAssets = append(operatorAssets, assetstypes.AssetsByOperator{
			Operator: op.String(),
			AssetsState: []assetstypes.AssetByID{{AssetID: assetID, Info: assetstypes.OperatorAssetInfo{
				TotalAmount: dep, PendingUndelegationAmount: sdk.ZeroInt(),
				TotalShare: sdk.NewDecFromBigInt(dep.BigInt()), OperatorShare: sdk.NewDecFromBigInt(dep.BigInt()),
			}}},
		})
		operatorConsKeys = append(operatorConsKeys, operatortypes.OperatorConsKeyRecord{
			OperatorAddress: op.String(),
			Chains:          []operatortypes.ChainDetails{{ChainID: chainIDWithoutRevision, ConsensusKey: ckey.ToHex()}},
		})
		optStates = append(optStates, operatortypes.OptedState{
			Key:     string(assetstypes.GetJoinedStoreKey(op.String(), avsAddr)),
			OptInfo: operatortypes.OptedInfo{OptedInHeight: 1, OptedOutHeight: operatortypes.DefaultOptedOutHeight},
		})
		operatorUSDValues = append(operatorUSDValues, operatortypes.OperatorUSDValue{
			Key:           string(assetstypes.GetJoinedStoreKey(avsAddr, op.String())),
			OptedUSDValue: operatortypes.OperatorOptedUSDValue{SelfUSDValue: usd, TotalUSDValue: usd, ActiveUSDValue: usd},
		})
		delegationStates = append(delegationStates, delegationtypes.DelegationStates{
			Key: string(assetstypes.GetJoinedStoreKey(stakerID, assetID, op.String())),
			States: delegationtypes.DelegationAmounts{
				WaitUndelegationAmount: math.NewInt(0), UndelegatableShare: math.LegacyNewDecFromBigInt(dep.BigInt()),
			},
		})
		associations = append(associations, delegationtypes.StakerToOperator{Operator: op.String(), StakerID: stakerID})
		stakersByOperator = append(stakersByOperator, delegationtypes.StakersByOperator{
			Key: string(assetstypes.GetJoinedStoreKey(op.String(), assetID)), Stakers: []string{stakerID},
		})
		genVals = append(genVals, dogfoodtypes.GenesisValidator{PublicKey: ckey.ToHex(), Power: oc.Deposit})
	}
	assetsGenesis := assetstypes.NewGenesis(assetstypes.DefaultParams(), clientChains,
		[]assetstypes.StakingAssetInfo{{AssetBasicInfo: assets[0], StakingTotalAmount: total}}, depositsByStaker, operatorAssets)
	genesisState[assetstypes.ModuleName] = app.AppCodec().MustMarshalJSON(assetsGenesis)

	oracleDefaultParams := oracletypes.DefaultParams()
	oracleDefaultParams.Tokens[1].AssetID = "0xdac17f958d2ee523a2206206994597c13d831ec7_0x65"
	oracleDefaultParams.TokenFeeders[1].StartBaseBlock = 1
	oracleDefaultParams.Tokens = append(oracleDefaultParams.Tokens, &oracletypes.Token{
		Name: "USDT", ChainID: 1, ContractAddress: "0x", Decimal: 0, Active: true,
		AssetID: "0xa0b86991c6218b36c1d19d4a2e9eb0ce3606eb48_0x65",
	})
	oracleDefaultParams.TokenFeeders = append(oracleDefaultParams.TokenFeeders, &oracletypes.TokenFeeder{
		TokenID: 2, RuleID: 1, StartRoundID: 1, StartBaseBlock: 1, Interval: 10,
	})
	oracleGenesis := oracletypes.NewGenesisState(oracleDefaultParams)
	oracleGenesis.PricesList = []oracletypes.Prices{
		{TokenID: 1, NextRoundID: 2, PriceList: []*oracletypes.PriceTimeRound{{Price: "1", Decimal: 0, RoundID: 1}}},
		{TokenID: 2, NextRoundID: 2, PriceList: []*oracletypes.PriceTimeRound{{Price: "1", Decimal: 0, RoundID: 1}}},
	}
	genesisState[oracletypes.ModuleName] = app.AppCodec().MustMarshalJSON(oracleGenesis)

	avsUSDValues := []operatortypes.AVSUSDValue{{AVSAddr: avsAddr, Value: operatortypes.DecValueField{Amount: totalUSD}}}
	operatorGenesis := operatortypes.NewGenesisState(operatorInfos, operatorConsKeys, optStates, operatorUSDValues, avsUSDValues, nil, nil, nil)
	genesisState[operatortypes.ModuleName] = app.AppCodec().MustMarshalJSON(operatorGenesis)

	delegationGenesis := delegationtypes.NewGenesis(associations, delegationStates, stakersByOperator, nil)
	genesisState[delegationtypes.ModuleName] = app.AppCodec().MustMarshalJSON(delegationGenesis)

	dogfoodGenesis := dogfoodtypes.NewGenesis(dogfoodtypes.DefaultParams(), genVals,
		[]dogfoodtypes.EpochToOperatorAddrs{}, []dogfoodtypes.EpochToConsensusAddrs{},
		[]dogfoodtypes.EpochToUndelegationRecordKeys{}, math.NewInt(totalPower))
	dogfoodGenesis.Params.MinSelfDelegation = math.NewInt(100)
	genesisState[dogfoodtypes.ModuleName] = app.AppCodec().MustMarshalJSON(dogfoodGenesis)
	distributionGenesis := distributiontypes.NewGenesisState(distributiontypes.DefaultParams())
	genesisState[distributiontypes.ModuleName] = app.AppCodec().MustMarshalJSON(distributionGenesis)

	totalSupply := sdk.NewCoins()
	for _, b := range balances {
		totalSupply = totalSupply.Add(b.Coins...)
	}
	bankGenesis := banktypes.NewGenesisState(banktypes.DefaultParams(), balances, totalSupply, []banktypes.Metadata{}, []banktypes.SendEnabled{})
	genesisState[banktypes.ModuleName] = app.AppCodec().MustMarshalJSON(bankGenesis)

	if cfg.MutGenesis != nil {
		cfg.MutGenesis(app, genesisState)
	}

	stateBytes, err := json.MarshalIndent(genesisState, "", " ")
	if err != nil {
		panic(err)
	}
	app.InitChain(abci.RequestInitChain{
		Time: cfg.InitTime, ChainId: cfg.ChainID, Validators: []abci.ValidatorUpdate{},
		ConsensusParams: exocoreapp.DefaultConsensusParams, AppStateBytes: stateBytes,
	})
	var proposer sdk.ConsAddress
	if len(e.ConsKeys) > 0 {
		proposer = e.ConsKeys[0].ToConsAddr()
	}
	header := evmostestutil.NewHeader(1, cfg.InitTime.Add(time.Second), cfg.ChainID, proposer,
		tmhash.Sum([]byte("App")), tmhash.Sum([]byte("Validators")))
	app.BeginBlock(abci.RequestBeginBlock{Header: header})
	e.Header = header
	e.Ctx = app.BaseApp.NewContext(false, header)
	return e
}

// NextBlock: EndBlock + Commit of the current block, BeginBlock of the next one at time +d.
func (e *Env) NextBlock(d time.Duration) abci.ResponseEndBlock {
	res := e.App.EndBlock(abci.RequestEndBlock{Height: e.Header.Height})
	e.App.Commit()
	h := e.Header
	h.Height++
	h.Time = h.Time.Add(d)
	h.AppHash = e.App.LastCommitID().Hash
	e.App.BeginBlock(abci.RequestBeginBlock{Header: h})
	e.Header = h
	e.Ctx = e.App.BaseApp.NewContext(false, h)
	return res
}
