package main

// Suite c03msg: the message-server path of x/delegation (MsgDelegation / MsgUndelegation, native token). The server
// uses the sender's account sequence as LzNonce for EVERY operator named in one message, so one MsgUndelegation with two
// operators creates two records that share one staker-index key and one pending-index key. The native-token branch
// (bank escrow) is not part of the Coq ledger model, therefore this suite has no model correspondence: the cases carry
// the implementation's raw store changes only and are evaluated by the index / never-early monitors. The message ops are
// written as placeholder ops (HoldDec "msg:...") which those monitors do not interpret; block ends are real EndBlock ops.

import (
	"fmt"

	sdkmath "cosmossdk.io/math"
	sdk "github.com/cosmos/cosmos-sdk/types"

	assetstypes "github.com/ExocoreNetwork/exocore/x/assets/types"
	delegationtypes "github.com/ExocoreNetwork/exocore/x/delegation/types"
)

func init() { register("c03msg", c03MsgRun) }

func c03MsgRun(a *Args) error {
	w := c03NewWorld()
	cw := NewCaseWriter(a.Out)
	defer cw.Close()
	k := &w.env.App.DelegationKeeper
	scen := func(h0 int64, acc int, amounts [][2]int64, und [][2]int64, tags []string) {
		r := w.newRunner(cw, "c03msg", h0, tags, nil)
		from := sdk.AccAddress(w.env.AccAddrs[acc].Bytes()).String()
		mk := func(xs [][2]int64) []delegationtypes.KeyValue {
			var kv []delegationtypes.KeyValue
			for _, x := range xs {
				kv = append(kv, delegationtypes.KeyValue{Key: w.opStrs[x[0]], Value: &delegationtypes.ValueField{Amount: sdkmath.NewInt(x[1])}})
			}
			return kv
		}
		res := r.exec(func(ctx sdk.Context) error {
			_, err := k.DelegateAssetToOperator(sdk.WrapSDKContext(ctx), &delegationtypes.MsgDelegation{
				AssetID: assetstypes.ExocoreAssetID, BaseInfo: &delegationtypes.DelegationIncOrDecInfo{FromAddress: from, PerOperatorAmounts: mk(amounts)}})
			return err
		})
		r.record(c03Op{Kind: "MsgDelegation", Height: r.ctx.BlockHeight(), Tx: fmt.Sprint(amounts)}, cApp("HoldDec", cStr("msg:delegation")), res, nil)
		res = r.exec(func(ctx sdk.Context) error {
			_, err := k.UndelegateAssetFromOperator(sdk.WrapSDKContext(ctx), &delegationtypes.MsgUndelegation{
				AssetID: assetstypes.ExocoreAssetID, BaseInfo: &delegationtypes.DelegationIncOrDecInfo{FromAddress: from, PerOperatorAmounts: mk(und)}})
			return err
		})
		r.record(c03Op{Kind: "MsgUndelegation", Height: r.ctx.BlockHeight(), Tx: fmt.Sprint(und)}, cApp("HoldDec", cStr("msg:undelegation")), res, nil)
		for _, rk := range r.recordKeys() {
			r.holdOp(rk, false)
		}
		for i := 0; i < 12; i++ {
			r.endBlock()
		}
		r.init = w.dumpTerm(r.initDump(), r.extra)
		r.finish()
	}
	// one message, two operators: both index keys shared
	scen(5, 0, [][2]int64{{0, 5000}, {1, 7000}}, [][2]int64{{0, 300}, {1, 400}}, []string{"kf-C03-staker-index-collision"})
	// one message, one operator: no collision, must pass
	scen(9, 0, [][2]int64{{0, 5000}}, [][2]int64{{0, 300}}, nil)
	// one message, three operators
	scen(16, 0, [][2]int64{{0, 100}, {1, 100}, {2, 100}}, [][2]int64{{2, 10}, {0, 20}, {1, 30}}, []string{"kf-C03-staker-index-collision"})
	return nil
}
