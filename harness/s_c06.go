package main

// Suite c06: validator-set updates handed to consensus.
//
// Drives the REAL dogfood EndBlock (x/dogfood/keeper/abci.go + validators.go) over consecutive epochs of a real
// ExocoreApp: the epochs BeginBlocker (which fires the real hook chain feedistribution -> operator -> dogfood ->
// exomint -> avs, i.e. the operator module recomputes USD values and the dogfood module sets the epoch-end marker),
// real operator-keeper entry points between the blocks (consensus-key replacement, opt-out, opt-in, jail, unjail,
// delegation / undelegation through the delegation keeper, MaxValidators through dogfood SetParams) and, inside the
// epoch-end block, direct writes of operator USD values (ties, zero, sub-unit, active != total).
// Two drivers: "cached" cases run on a CacheContext branch of the post-genesis state and call the module
// Begin/EndBlock functions in app order; "chain" cases use the real ABCI BeginBlock/EndBlock/Commit of the app and
// read ResponseEndBlock.ValidatorUpdates.
// Per block the harness records: marker, MaxValidators, stored validator set + total power before, a raw dump of
// the operator registry (key, opt state, jailed, USD value record), keys without reverse lookup; and after EndBlock:
// the returned updates in order, the stored set, LastTotalPower, stored ValidatorUpdates, marker.

import (
	"bytes"
	"encoding/hex"
	"fmt"
	"math/big"
	"math/rand"
	"os"
	"sort"
	"strings"
	"time"

	sdkmath "cosmossdk.io/math"
	abci "github.com/cometbft/cometbft/abci/types"
	cryptoenc "github.com/cometbft/cometbft/crypto/encoding"
	tmprotocrypto "github.com/cometbft/cometbft/proto/tendermint/crypto"
	tmtypes "github.com/cometbft/cometbft/types"
	cryptocodec "github.com/cosmos/cosmos-sdk/crypto/codec"
	sdk "github.com/cosmos/cosmos-sdk/types"
	authtypes "github.com/cosmos/cosmos-sdk/x/auth/types"
	govtypes "github.com/cosmos/cosmos-sdk/x/gov/types"
	stakingtypes "github.com/cosmos/cosmos-sdk/x/staking/types"
	"github.com/ethereum/go-ethereum/common"

	exocoreapp "github.com/ExocoreNetwork/exocore/app"
	keytypes "github.com/ExocoreNetwork/exocore/types/keys"
	assetskeeper "github.com/ExocoreNetwork/exocore/x/assets/keeper"
	assetstypes "github.com/ExocoreNetwork/exocore/x/assets/types"
	avstypes "github.com/ExocoreNetwork/exocore/x/avs/types"
	delegationtypes "github.com/ExocoreNetwork/exocore/x/delegation/types"
	dogfoodtypes "github.com/ExocoreNetwork/exocore/x/dogfood/types"
	operatortypes "github.com/ExocoreNetwork/exocore/x/operator/types"

	"encoding/json"
)

func init() { register("c06", runC06) }

// ---- observation records -------------------------------------------------------------------------------------

type c06KV struct {
	Key   string `json:"key"` // tmproto PublicKey.String() (printable ASCII): identity AND sort string of the final ordering
	Power int64  `json:"power"`
}

type c06Oper struct {
	Addr    string `json:"addr"` // hex of the 20 address bytes (byte order = string order)
	HasKey  bool   `json:"has_key"`
	Key     string `json:"key"`
	HasOpt  bool   `json:"has_opt"`  // an OptedInfo record exists
	OptedIn bool   `json:"opted_in"` // OptedOutHeight == DefaultOptedOutHeight
	Jailed  bool   `json:"jailed"`
	HasUSD  bool   `json:"has_usd"`
	Active  string `json:"active"` // LegacyDec raw (scaled by 10^18)
	Total   string `json:"total"`
	Self    string `json:"self"` // SelfUSDValue raw
}

type c06Step struct {
	Ops         []string  `json:"ops"`
	EpochEnded  bool      `json:"epoch_ended"` // the dogfood epoch number advanced in this block's BeginBlock (read from x/epochs)
	Marker      bool      `json:"marker"`
	Max         int64     `json:"max"`
	MinSelf     string    `json:"min_self"`     // dogfood params.MinSelfDelegation at EndBlock
	AvsMinSelf  int64     `json:"avs_min_self"` // MinSelfDelegation of the dogfood AVS record (what the operator module's hook reads)
	HookMin     string    `json:"hook_min"`     // dogfood params.MinSelfDelegation when this block's epoch hook ran (-1: no hook)
	Fresh       bool      `json:"fresh"`        // the USD records are as the operator module's epoch hook of THIS block left them
	Prev        []c06KV   `json:"prev"`
	PrevTotal   string    `json:"prev_total"`
	Opers       []c06Oper `json:"opers"`
	NoRev       []string  `json:"norev"`
	Panicked    bool      `json:"panicked"`
	Cmt         int       `json:"cmt"` // real CometBFT ValidatorSet.UpdateWithChangeSet(prev, upd): 0 ok, 1 "would result in empty set", 2 other error
	Upd         []c06KV   `json:"upd"`
	After       []c06KV   `json:"after"`
	TotalAfter  string    `json:"total_after"`
	StoredUpd   []c06KV   `json:"stored_upd"`
	MarkerAfter bool      `json:"marker_after"`
}

type c06Case struct {
	Mode  string    `json:"mode"`
	Steps []c06Step `json:"steps"`
	Tags  []string  `json:"tags,omitempty"`
	NT    bool      `json:"nt"`
}

// Strings (keys, addresses) are bound once per case by `let` and referred to by name: parsing string literals is
// what costs time in coqc, and every key occurs dozens of times in a case.
type c06Intern struct {
	names map[string]string
	order []string
}

func (in *c06Intern) name(s string) string {
	if n, ok := in.names[s]; ok {
		return n
	}
	n := fmt.Sprintf("zk%d", len(in.order))
	in.names[s] = n
	in.order = append(in.order, s)
	return n
}

func c06KVs(in *c06Intern, xs []c06KV) string {
	ss := make([]string, len(xs))
	for i, x := range xs {
		ss[i] = cTuple(in.name(x.Key), cZ(x.Power))
	}
	return cList(ss)
}

func (o c06Oper) coq(in *c06Intern) string {
	return cApp("mkOper", in.name(o.Addr), cOpt(o.HasKey, in.name(o.Key)), cBool(o.HasOpt), cBool(o.OptedIn), cBool(o.Jailed),
		cBool(o.HasUSD), cZstr(o.Active), cZstr(o.Total), cZstr(o.Self))
}

func (s c06Step) coq(in *c06Intern) string {
	os := make([]string, len(s.Opers))
	for i, o := range s.Opers {
		os[i] = o.coq(in)
	}
	nr := make([]string, len(s.NoRev))
	for i, k := range s.NoRev {
		nr[i] = in.name(k)
	}
	return cApp("mkStep", cBool(s.EpochEnded), cBool(s.Marker), cZ(s.Max), cZstr(s.MinSelf), cZ(s.AvsMinSelf), cZstr(s.HookMin), cBool(s.Fresh), c06KVs(in, s.Prev), cZstr(s.PrevTotal), cList(os), cList(nr),
		cBool(s.Panicked), cZ(int64(s.Cmt)), c06KVs(in, s.Upd), c06KVs(in, s.After), cZstr(s.TotalAfter), c06KVs(in, s.StoredUpd), cBool(s.MarkerAfter))
}

func (c c06Case) coq() string {
	in := &c06Intern{names: map[string]string{}}
	ss := make([]string, len(c.Steps))
	for i, s := range c.Steps {
		ss[i] = s.coq(in)
	}
	var sb strings.Builder
	sb.WriteString("(")
	for i, str := range in.order {
		sb.WriteString(fmt.Sprintf("let zk%d := %s in ", i, cStr(str)))
	}
	sb.WriteString(cApp("mkCase", cList(ss)))
	sb.WriteString(")")
	return sb.String()
}

// ---- harness state -------------------------------------------------------------------------------------------

type c06H struct {
	env       *Env
	app       *exocoreapp.ExocoreApp
	rng       *rand.Rand
	w         *CaseWriter
	chainID   string
	avsAddr   string
	pool      []keytypes.WrappedConsKey
	nonce     uint64
	operators []sdk.AccAddress // the operators the operations of the current family address (genesis ones, or the large set)
	epochID   string
	ended     bool   // set by beginNext
	hookMin   string // dogfood params.MinSelfDelegation right after BeginBlock, when the dogfood epoch ended in it
	usdDirty  bool   // a USD record was written directly since this block's BeginBlock
	authority string
	paramBias bool // the params family: no direct USD writes, many MinSelfDelegation updates and self-stake changes
	dead      bool // BeginBlock panicked: the history stops here
	// block driver
	real   bool
	ctx    sdk.Context
	height int64
	now    time.Time
}

func c06KeyStr(pk *tmprotocrypto.PublicKey) string { return pk.String() }

func c06UpdKVs(us []abci.ValidatorUpdate) []c06KV {
	out := make([]c06KV, 0, len(us))
	for _, u := range us {
		pk := u.PubKey
		out = append(out, c06KV{c06KeyStr(&pk), u.Power})
	}
	return out
}

func (h *c06H) vals(ctx sdk.Context) []c06KV {
	out := []c06KV{}
	for _, v := range h.app.StakingKeeper.GetAllExocoreValidators(ctx) {
		pk, err := v.ConsPubKey()
		if err != nil {
			panic(err)
		}
		tm, err := cryptocodec.ToTmProtoPublicKey(pk)
		if err != nil {
			panic(err)
		}
		out = append(out, c06KV{c06KeyStr(&tm), v.Power})
	}
	return out
}

// raw dump of the operator registry as far as eligibility is concerned
func (h *c06H) opers(ctx sdk.Context) ([]c06Oper, []keytypes.WrappedConsKey) {
	k := h.app.OperatorKeeper
	usd := map[string]operatortypes.OperatorOptedUSDValue{}
	all, err := k.GetAllOperatorUSDValues(ctx)
	if err != nil {
		panic(err)
	}
	for _, u := range all {
		usd[u.Key] = u.OptedUSDValue
	}
	var addrs []sdk.AccAddress
	for _, d := range k.AllOperators(ctx) {
		a, err := sdk.AccAddressFromBech32(d.OperatorAddress)
		if err != nil {
			panic(err)
		}
		addrs = append(addrs, a)
	}
	sort.Slice(addrs, func(i, j int) bool { return bytes.Compare(addrs[i], addrs[j]) < 0 })
	out := []c06Oper{}
	var keys []keytypes.WrappedConsKey
	for _, a := range addrs {
		o := c06Oper{Addr: hex.EncodeToString(a.Bytes()), Active: "0", Total: "0", Self: "0"}
		found, wk, err := k.GetOperatorConsKeyForChainID(ctx, a, h.chainID)
		if err == nil && found && wk != nil {
			o.HasKey = true
			o.Key = c06KeyStr(wk.ToTmProtoKey())
			keys = append(keys, wk)
		}
		info, err := k.GetOptedInfo(ctx, a.String(), h.avsAddr)
		if err == nil && info != nil {
			o.HasOpt = true
			o.OptedIn = info.OptedOutHeight == operatortypes.DefaultOptedOutHeight
			o.Jailed = info.Jailed
		}
		if u, ok := usd[string(assetstypes.GetJoinedStoreKey(h.avsAddr, a.String()))]; ok {
			o.HasUSD = true
			o.Active = u.ActiveUSDValue.BigInt().String()
			o.Total = u.TotalUSDValue.BigInt().String()
			o.Self = u.SelfUSDValue.BigInt().String()
		}
		out = append(out, o)
	}
	return out, keys
}

// what the real CometBFT code (types.ValidatorSet.UpdateWithChangeSet, called by state.updateState for every block with a
// non-empty update list) answers for (previous set, updates)
func c06CometApply(prev []*tmtypes.Validator, upd []abci.ValidatorUpdate) (code int) {
	defer func() {
		if r := recover(); r != nil {
			code = 2
		}
	}()
	for _, u := range upd {
		if u.Power < 0 {
			return 2 // state.validateValidatorUpdates
		}
	}
	vs := tmtypes.NewValidatorSet(prev)
	changes, err := tmtypes.PB2TM.ValidatorUpdates(upd)
	if err != nil {
		return 2
	}
	if len(changes) == 0 {
		return 0 // updateState does not call UpdateWithChangeSet for an empty list
	}
	if err := vs.UpdateWithChangeSet(changes); err != nil {
		if strings.Contains(err.Error(), "would result in empty set") {
			return 1
		}
		return 2
	}
	return 0
}

// ---- block drivers -------------------------------------------------------------------------------------------

func (h *c06H) epochNow() (int64, bool) {
	ei, ok := h.app.EpochsKeeper.GetEpochInfo(h.ctx, h.epochID)
	if !ok {
		panic("no epoch info")
	}
	return ei.CurrentEpoch, ei.EpochCountingStarted
}

// time left until the current dogfood epoch can end (block time must be strictly later than that)
func (h *c06H) untilEpochEnd() time.Duration {
	ei, _ := h.app.EpochsKeeper.GetEpochInfo(h.ctx, h.epochID)
	return ei.CurrentEpochStartTime.Add(ei.Duration).Sub(h.now)
}

func (h *c06H) beginNext(d time.Duration) (ok bool) {
	n0, started := h.epochNow()
	ok = true
	defer func() {
		if r := recover(); r != nil {
			// a panic in BeginBlock halts a real chain (C11); for this suite the history simply ends
			h.dead = true
			h.w.Count("beginblock/panicked")
			ok = false
			return
		}
		n1, _ := h.epochNow()
		h.ended = started && n1 > n0
		h.usdDirty = false
		h.hookMin = "-1"
		if h.ended {
			h.hookMin = h.app.StakingKeeper.GetMinSelfDelegation(h.ctx).String()
		}
	}()
	if h.real {
		e := h.env
		e.App.Commit()
		hd := e.Header
		hd.Height++
		hd.Time = hd.Time.Add(d)
		hd.AppHash = e.App.LastCommitID().Hash
		e.App.BeginBlock(abci.RequestBeginBlock{Header: hd})
		e.Header = hd
		e.Ctx = e.App.BaseApp.NewContext(false, hd)
		h.ctx = e.Ctx
		h.height = hd.Height
		h.now = hd.Time
		return true
	}
	h.height++
	h.now = h.now.Add(d)
	hd := h.ctx.BlockHeader()
	hd.Height = h.height
	hd.Time = h.now
	h.ctx = h.ctx.WithBlockHeader(hd)
	// app order of the modules that matter here: epochs (hooks) ... staking(dogfood)
	h.app.EpochsKeeper.BeginBlocker(h.ctx)
	h.app.StakingKeeper.BeginBlock(h.ctx)
	return true
}

func (h *c06H) endBlock() (upd []abci.ValidatorUpdate, panicked bool) {
	defer func() {
		if r := recover(); r != nil {
			panicked = true
			upd = nil
		}
	}()
	if h.real {
		res := h.env.App.EndBlock(abci.RequestEndBlock{Height: h.height})
		return res.ValidatorUpdates, false
	}
	req := abci.RequestEndBlock{Height: h.height}
	// app order: operator, staking(dogfood), delegation
	h.app.OperatorKeeper.EndBlock(h.ctx, req)
	upd = h.app.StakingKeeper.EndBlock(h.ctx)
	h.app.DelegationKeeper.EndBlock(h.ctx, req)
	return upd, false
}

// run EndBlock of the current block and record everything
func (h *c06H) step(ops []string) c06Step {
	ctx := h.ctx
	sk := h.app.StakingKeeper
	s := c06Step{Ops: ops, EpochEnded: h.ended}
	s.Marker = sk.IsEpochEnd(ctx)
	s.Max = int64(sk.GetMaxValidators(ctx))
	s.MinSelf = sk.GetMinSelfDelegation(ctx).String()
	s.AvsMinSelf = -1
	if ai, err := h.app.AVSManagerKeeper.GetAVSInfo(ctx, h.avsAddr); err == nil && ai != nil && ai.Info != nil {
		s.AvsMinSelf = int64(ai.Info.MinSelfDelegation)
	}
	s.HookMin = h.hookMin
	if s.HookMin == "" {
		s.HookMin = "-1"
	}
	s.Fresh = h.ended && !h.usdDirty
	s.Prev = h.vals(ctx)
	s.PrevTotal = sk.GetLastTotalPower(ctx).String()
	var keys []keytypes.WrappedConsKey
	s.Opers, keys = h.opers(ctx)
	// keys (of the registry and of the previous set) whose reverse lookup consAddr -> operator is missing
	seen := map[string]bool{}
	s.NoRev = []string{}
	chk := func(str string, ca sdk.ConsAddress) {
		if seen[str] {
			return
		}
		seen[str] = true
		if found, _ := h.app.OperatorKeeper.GetOperatorAddressForChainIDAndConsAddr(ctx, h.chainID, ca); !found {
			s.NoRev = append(s.NoRev, str)
		}
	}
	for _, wk := range keys {
		chk(c06KeyStr(wk.ToTmProtoKey()), wk.ToConsAddr())
	}
	for _, v := range sk.GetAllExocoreValidators(ctx) {
		pk, _ := v.ConsPubKey()
		tm, _ := cryptocodec.ToTmProtoPublicKey(pk)
		chk(c06KeyStr(&tm), sdk.GetConsAddress(pk))
	}
	// the previous set as CometBFT holds it (built before EndBlock changes the store)
	var tmPrev []*tmtypes.Validator
	for _, v := range sk.GetAllExocoreValidators(ctx) {
		pk, _ := v.ConsPubKey()
		tm, _ := cryptocodec.ToTmProtoPublicKey(pk)
		tpk, err := cryptoenc.PubKeyFromProto(tm)
		if err != nil {
			panic(err)
		}
		tmPrev = append(tmPrev, tmtypes.NewValidator(tpk, v.Power))
	}
	upd, panicked := h.endBlock()
	s.Panicked = panicked
	s.Upd = c06UpdKVs(upd)
	s.Cmt = c06CometApply(tmPrev, upd)
	if h.real {
		ctx = h.app.BaseApp.NewContext(false, h.env.Header)
	}
	s.After = h.vals(ctx)
	s.TotalAfter = sk.GetLastTotalPower(ctx).String()
	s.StoredUpd = c06UpdKVs(sk.GetValidatorUpdates(ctx))
	s.MarkerAfter = sk.IsEpochEnd(ctx)
	return s
}

// ---- operations (each one atomic like a transaction: cache context, written on success only) -------------------

func (h *c06H) atomic(f func(ctx sdk.Context) error) (res string) {
	cc, write := h.ctx.CacheContext()
	defer func() {
		if r := recover(); r != nil {
			res = "panic"
		}
	}()
	if err := f(cc); err != nil {
		if os.Getenv("C06_DEBUG") != "" {
			fmt.Fprintln(os.Stderr, "C06_DEBUG op error:", err)
		}
		return "err"
	}
	write()
	return "ok"
}

func (h *c06H) selfStaker(i int) []byte { return h.operators[i].Bytes() }

func (h *c06H) opDeposit(staker []byte, amt int64) string {
	return h.atomic(func(ctx sdk.Context) error {
		return h.app.AssetsKeeper.PerformDepositOrWithdraw(ctx, &assetskeeper.DepositWithdrawParams{
			ClientChainLzID: h.env.LzID, Action: assetstypes.DepositLST, StakerAddress: staker,
			AssetsAddress: common.HexToAddress(h.env.AssetAddr).Bytes(), OpAmount: sdkmath.NewInt(amt),
		})
	})
}

func (h *c06H) opDelegate(staker []byte, i int, amt int64) string {
	h.nonce++
	return h.atomic(func(ctx sdk.Context) error {
		return h.app.DelegationKeeper.DelegateTo(ctx, &delegationtypes.DelegationOrUndelegationParams{
			ClientChainID: h.env.LzID, LzNonce: h.nonce, AssetsAddress: common.HexToAddress(h.env.AssetAddr).Bytes(),
			StakerAddress: staker, OperatorAddress: h.operators[i], OpAmount: sdkmath.NewInt(amt),
			TxHash: common.BytesToHash(seedBytes("c06tx", int(h.nonce))),
		})
	})
}

func (h *c06H) opUndelegate(staker []byte, i int, amt int64) string {
	h.nonce++
	return h.atomic(func(ctx sdk.Context) error {
		return h.app.DelegationKeeper.UndelegateFrom(ctx, &delegationtypes.DelegationOrUndelegationParams{
			ClientChainID: h.env.LzID, LzNonce: h.nonce, AssetsAddress: common.HexToAddress(h.env.AssetAddr).Bytes(),
			StakerAddress: staker, OperatorAddress: h.operators[i], OpAmount: sdkmath.NewInt(amt),
			TxHash: common.BytesToHash(seedBytes("c06tx", int(h.nonce))),
		})
	})
}

func (h *c06H) opSetKey(i, j int) string {
	return h.atomic(func(ctx sdk.Context) error {
		if !h.app.OperatorKeeper.IsOptedIn(ctx, h.operators[i].String(), h.avsAddr) {
			return fmt.Errorf("not opted in") // msg server check
		}
		return h.app.OperatorKeeper.SetOperatorConsKeyForChainID(ctx, h.operators[i], h.chainID, h.pool[j])
	})
}

func (h *c06H) opOptOut(i int) string {
	return h.atomic(func(ctx sdk.Context) error {
		return h.app.OperatorKeeper.OptOut(ctx, h.operators[i], h.avsAddr)
	})
}

func (h *c06H) opOptIn(i, j int) string {
	return h.atomic(func(ctx sdk.Context) error {
		return h.app.OperatorKeeper.OptInWithConsKey(ctx, h.operators[i], h.avsAddr, h.pool[j])
	})
}

func (h *c06H) opJail(i int, jail bool) string {
	return h.atomic(func(ctx sdk.Context) error {
		found, wk, err := h.app.OperatorKeeper.GetOperatorConsKeyForChainID(ctx, h.operators[i], h.chainID)
		if err != nil || !found || wk == nil {
			return fmt.Errorf("no key")
		}
		if jail {
			h.app.OperatorKeeper.Jail(ctx, wk.ToConsAddr(), h.chainID)
		} else {
			h.app.OperatorKeeper.Unjail(ctx, wk.ToConsAddr(), h.chainID)
		}
		return nil
	})
}

func (h *c06H) opSetMax(m uint32) string {
	if h.rng.Intn(2) == 0 {
		return h.opUpdateParams(func(p *dogfoodtypes.Params) { p.MaxValidators = m })
	}
	return h.atomic(func(ctx sdk.Context) error {
		p := h.app.StakingKeeper.GetDogfoodParams(ctx)
		p.MaxValidators = m
		if err := p.Validate(); err != nil {
			return err
		}
		h.app.StakingKeeper.SetParams(ctx, p)
		return nil
	})
}

// the real dogfood MsgUpdateParams handler (authority = gov module): writes the params AND updates the dogfood AVS record
func (h *c06H) opUpdateParams(mod func(p *dogfoodtypes.Params)) string {
	return h.atomic(func(ctx sdk.Context) error {
		p := h.app.StakingKeeper.GetDogfoodParams(ctx)
		mod(&p)
		_, err := h.app.StakingKeeper.UpdateParams(sdk.WrapSDKContext(ctx), &dogfoodtypes.MsgUpdateParams{Authority: h.authority, Params: p})
		return err
	})
}

// self delegation (whole USD, rounded down) of operator i as the ledger has it now
func (h *c06H) selfUSD(i int) int64 {
	assets := h.app.StakingKeeper.GetAssetIDs(h.ctx)
	am := map[string]interface{}{}
	for _, a := range assets {
		am[a] = nil
	}
	dec, err1 := h.app.AssetsKeeper.GetAssetsDecimal(h.ctx, am)
	pr, err2 := h.app.OracleKeeper.GetMultipleAssetsPrices(h.ctx, am)
	if err1 != nil || err2 != nil {
		return 100
	}
	info, err := h.app.OperatorKeeper.CalculateUSDValueForOperator(h.ctx, false, h.operators[i].String(), am, dec, pr)
	if err != nil {
		return 100
	}
	return info.SelfStaking.TruncateInt64()
}

// MinSelfDelegation through MsgUpdateParams: pool values, or exactly on / one around an operator's self delegation
func (h *c06H) opSetMinSelf() string {
	r := h.rng
	v := []int64{0, 1, 99, 100, 101, 119, 120, 121, 150, 151, 199, 200, 201, 300, 301, 1000}[r.Intn(16)]
	if r.Intn(2) == 0 {
		v = h.selfUSD(r.Intn(len(h.operators))) + int64(r.Intn(3)) - 1
		if v < 0 {
			v = 0
		}
	}
	res := h.opUpdateParams(func(p *dogfoodtypes.Params) { p.MinSelfDelegation = sdkmath.NewInt(v) })
	h.w.Count("op/setminself/" + res)
	return fmt.Sprintf("updateparams(minself=%d)=%s", v, res)
}

// direct write of the USD value record of an opted-in operator (only meaningful after the epoch hook ran)
func (h *c06H) opSetUSD(i int, self, total, active sdkmath.LegacyDec) string {
	h.usdDirty = true
	return h.atomic(func(ctx sdk.Context) error {
		if !h.app.OperatorKeeper.IsOptedIn(ctx, h.operators[i].String(), h.avsAddr) {
			return fmt.Errorf("not opted in")
		}
		return h.app.OperatorKeeper.SetAllOperatorUSDValues(ctx, []operatortypes.OperatorUSDValue{{
			Key:           string(assetstypes.GetJoinedStoreKey(h.avsAddr, h.operators[i].String())),
			OptedUSDValue: operatortypes.OperatorOptedUSDValue{SelfUSDValue: self, TotalUSDValue: total, ActiveUSDValue: active},
		}})
	})
}

var c06USDPool = []string{
	"0", "0.5", "0.999999999999999999", "1", "1.000000000000000001", "1.5", "2", "2.9", "3", "3", "5", "5", "100", "100",
	"100.7", "150", "200", "200", "200.999999999999999999", "201", "1000000", "9007199254740993",
}

// an operator that can opt in again (not opted in, no key removal pending), or -1
func (h *c06H) canOptIn() int {
	for _, c := range h.rng.Perm(len(h.operators)) {
		if !h.app.OperatorKeeper.IsOptedIn(h.ctx, h.operators[c].String(), h.avsAddr) &&
			!h.app.OperatorKeeper.IsOperatorRemovingKeyFromChainID(h.ctx, h.operators[c], h.chainID) {
			return c
		}
	}
	return -1
}

// a key of the pool (or a genesis key) that nobody's reverse lookup holds at the moment, else any pool key
func (h *c06H) freeKey() (int, keytypes.WrappedConsKey) {
	for _, j := range h.rng.Perm(len(h.pool)) {
		if found, _ := h.app.OperatorKeeper.GetOperatorAddressForChainIDAndConsAddr(h.ctx, h.chainID, h.pool[j].ToConsAddr()); !found {
			return j, h.pool[j]
		}
	}
	j := h.rng.Intn(len(h.pool))
	return j, h.pool[j]
}

func (h *c06H) randOp(epochEnd bool) string {
	r := h.rng
	n := len(h.operators)
	i := r.Intn(n)
	x := r.Intn(100)
	if h.paramBias {
		epochEnd = false
		switch r.Intn(3) {
		case 0:
			return h.opSetMinSelf()
		case 1:
			// move an operator's self delegation across / onto the configured minimum
			amt := []int64{1000000, 20000000, 21000000, 50000000, 51000000, 100000000}[r.Intn(6)]
			if r.Intn(2) == 0 {
				r1 := h.opDeposit(h.selfStaker(i), amt)
				r2 := h.opDelegate(h.selfStaker(i), i, amt)
				h.w.Count("op/delegate/" + r2)
				return fmt.Sprintf("deposit+delegate(self,%d,%d)=%s,%s", i, amt, r1, r2)
			}
			res := h.opUndelegate(h.selfStaker(i), i, amt)
			h.w.Count("op/undelegate/" + res)
			return fmt.Sprintf("undelegate(self,%d,%d)=%s", i, amt, res)
		}
	}
	if !epochEnd {
		x = 48 + r.Intn(52) // no USD writes outside epoch-end blocks: spread over the other kinds as weighted below
	}
	// opt in again after a completed opt-out: taken half of the times it is possible, because the window is short
	if c := h.canOptIn(); c >= 0 && r.Intn(2) == 0 {
		j, _ := h.freeKey()
		if r.Intn(5) == 0 {
			j = r.Intn(len(h.pool)) // sometimes a key that may be in use / not yet pruned
		}
		res := h.opOptIn(c, j)
		h.w.Count("op/optin-again/" + res)
		if res == "err" && r.Intn(2) == 0 {
			// most likely the self delegation fell below the minimum: top it up so that a later attempt passes
			r1 := h.opDeposit(h.selfStaker(c), 100000000)
			r2 := h.opDelegate(h.selfStaker(c), c, 100000000)
			h.w.Count("op/topup/" + r2)
			return fmt.Sprintf("optin-again(%d,%d)=%s;topup=%s,%s", c, j, res, r1, r2)
		}
		return fmt.Sprintf("optin-again(%d,%d)=%s", c, j, res)
	}
	if epochEnd && x < 45 {
		// direct USD write
		tot := sdkmath.LegacyMustNewDecFromStr(c06USDPool[r.Intn(len(c06USDPool))])
		act := tot
		self := tot
		switch r.Intn(8) {
		case 0:
			act = sdkmath.LegacyZeroDec() // self delegation below the minimum: active = 0 although total > 0
			self = sdkmath.LegacyZeroDec()
		case 1:
			self = sdkmath.LegacyNewDec(100)
		}
		res := h.opSetUSD(i, self, tot, act)
		h.w.Count("op/setusd/" + res)
		return fmt.Sprintf("setusd(%d,%s,%s)=%s", i, tot, act, res)
	}
	switch {
	case x >= 58 && x < 62:
		return h.opSetMinSelf()
	case x < 58:
		m := []uint32{1, 2, 3, 4, 5, 6, 100}[r.Intn(7)]
		res := h.opSetMax(m)
		h.w.Count("op/setmax/" + res)
		return fmt.Sprintf("setmax(%d)=%s", m, res)
	case x < 72:
		j := r.Intn(len(h.pool))
		res := h.opSetKey(i, j)
		h.w.Count("op/setkey/" + res)
		return fmt.Sprintf("setkey(%d,%d)=%s", i, j, res)
	case x < 80:
		res := h.opOptOut(i)
		h.w.Count("op/optout/" + res)
		return fmt.Sprintf("optout(%d)=%s", i, res)
	case x < 85:
		j := r.Intn(len(h.pool))
		// prefer an operator that can opt in again (opt-out completed), when there is one
		if r.Intn(4) > 0 {
			for _, c := range r.Perm(n) {
				if !h.app.OperatorKeeper.IsOptedIn(h.ctx, h.operators[c].String(), h.avsAddr) &&
					!h.app.OperatorKeeper.IsOperatorRemovingKeyFromChainID(h.ctx, h.operators[c], h.chainID) {
					i = c
					break
				}
			}
		}
		res := h.opOptIn(i, j)
		h.w.Count("op/optin/" + res)
		return fmt.Sprintf("optin(%d,%d)=%s", i, j, res)
	case x < 90:
		res := h.opJail(i, true)
		h.w.Count("op/jail/" + res)
		return fmt.Sprintf("jail(%d)=%s", i, res)
	case x < 93:
		res := h.opJail(i, false)
		h.w.Count("op/unjail/" + res)
		return fmt.Sprintf("unjail(%d)=%s", i, res)
	case x < 97:
		// real stake change through the ledger: self staker or an outside staker
		amt := []int64{500000, 999999, 1000000, 1000001, 50000000, 100000000}[r.Intn(6)]
		staker := h.selfStaker(i)
		who := "self"
		if r.Intn(3) == 0 {
			staker = h.env.AccAddrs[0].Bytes()
			who = "ext"
		}
		r1 := h.opDeposit(staker, amt)
		r2 := h.opDelegate(staker, i, amt)
		h.w.Count("op/delegate/" + r2)
		return fmt.Sprintf("deposit+delegate(%s,%d,%d)=%s,%s", who, i, amt, r1, r2)
	default:
		amt := []int64{500000, 1000000, 1000001, 50000000, 100000000, 120000000}[r.Intn(6)]
		res := h.opUndelegate(h.selfStaker(i), i, amt)
		h.w.Count("op/undelegate/" + res)
		return fmt.Sprintf("undelegate(self,%d,%d)=%s", i, amt, res)
	}
}

// one history: `epochs` consecutive epochs, each with 0..2 ordinary blocks and one epoch-end block
func (h *c06H) history(epochs int) []c06Step {
	r := h.rng
	steps := []c06Step{}
	for e := 0; e < epochs; e++ {
		for b := r.Intn(3); b > 0; b-- {
			d := time.Duration(1+r.Intn(5)) * time.Second
			switch r.Intn(5) {
			case 0:
				d = 61 * time.Second // the "minute" epoch ends, the dogfood ("hour") epoch does not
			case 1:
				if u := h.untilEpochEnd(); u > 0 {
					d = u // block time exactly ON the epoch boundary: not ended yet
				}
			}
			if u := h.untilEpochEnd(); d > u && u > 0 {
				d = u
			}
			if !h.beginNext(d) {
				return steps
			}
			ops := []string{}
			for k := r.Intn(3); k > 0; k-- {
				ops = append(ops, h.randOp(false))
			}
			steps = append(steps, h.step(ops))
		}
		u := h.untilEpochEnd()
		if u < 0 {
			u = 0
		}
		d := u + time.Duration(1+r.Intn(600))*time.Second
		switch r.Intn(6) {
		case 0:
			d = u + 2*time.Hour + 5*time.Second // behind by two more epochs: the following blocks are epoch-end blocks too
		case 1:
			d = u + time.Nanosecond // first instant after the boundary
		}
		if !h.beginNext(d) {
			return steps
		}
		ops := []string{}
		for k := r.Intn(5); k > 0; k-- {
			ops = append(ops, h.randOp(h.app.StakingKeeper.IsEpochEnd(h.ctx)))
		}
		steps = append(steps, h.step(ops))
	}
	return steps
}

func (h *c06H) emit(mode string, steps []c06Step, tags []string) {
	c := c06Case{Mode: mode, Steps: steps, Tags: tags}
	nEnd, nUpd := 0, 0
	for _, s := range steps {
		if s.Fresh {
			h.w.Count("step/epoch-end/usd-values-as-the-hook-left-them")
		}
		if s.MinSelf != fmt.Sprint(s.AvsMinSelf) {
			h.w.Count("step/avs-min-self-differs-from-params")
		}
		if s.EpochEnded != s.Marker {
			h.w.Count("step/marker-differs-from-epoch-clock")
		}
		if s.Marker {
			nEnd++
			h.w.Count("step/epoch-end")
			if len(s.Upd) > 0 {
				nUpd++
				h.w.Count("step/epoch-end/with-updates")
			}
			elig := 0
			for _, o := range s.Opers {
				if o.HasKey && o.OptedIn && !o.Jailed && o.HasUSD {
					a, _ := new(big.Int).SetString(o.Active, 10)
					if a.Cmp(new(big.Int).Exp(big.NewInt(10), big.NewInt(18), nil)) >= 0 {
						elig++
					}
				}
			}
			if int64(elig) > s.Max {
				h.w.Count("step/epoch-end/more-eligible-than-max")
				// tie in power across the cut?
				ps := []int64{}
				for _, o := range s.Opers {
					if o.HasKey && o.OptedIn && !o.Jailed && o.HasUSD {
						a, _ := new(big.Int).SetString(o.Active, 10)
						q := new(big.Int).Quo(a, new(big.Int).Exp(big.NewInt(10), big.NewInt(18), nil))
						if q.Sign() > 0 && q.IsInt64() {
							ps = append(ps, q.Int64())
						}
					}
				}
				sort.Slice(ps, func(i, j int) bool { return ps[i] > ps[j] })
				if s.Max >= 1 && int(s.Max) < len(ps) && ps[s.Max-1] == ps[s.Max] {
					h.w.Count("step/epoch-end/tie-across-the-cut")
				}
			}
			tie := false
			for i := range s.Upd {
				for j := i + 1; j < len(s.Upd); j++ {
					if s.Upd[i].Power == s.Upd[j].Power {
						tie = true
					}
				}
			}
			if tie {
				h.w.Count("step/epoch-end/equal-powers-in-update-list")
			}
			if len(s.After) == 0 {
				h.w.Count("step/epoch-end/validator-set-empty-after")
			}
			if len(s.After) == int(s.Max) {
				h.w.Count("step/epoch-end/set-full-after")
			}
			for _, u := range s.Upd {
				if u.Power == 0 {
					h.w.Count("upd/removal")
				} else {
					h.w.Count("upd/set")
				}
			}
		} else {
			h.w.Count("step/ordinary")
		}
		if s.Panicked {
			h.w.Count("step/panicked")
		}
		switch s.Cmt {
		case 1:
			h.w.Count("cometbft/refuses-empty-set")
		case 2:
			h.w.Count("cometbft/refuses-other")
		}
		if len(s.NoRev) > 0 {
			h.w.Count("step/has-norev")
		}
	}
	c.NT = nUpd > 0
	h.w.Add(c.coq(), c)
}

// ---- the large-set family: 13..20 operators, big groups of equal power, MaxValidators inside the tie group --------
// Go's sort.Slice switches from insertion sort to pdqsort above 12 elements; a comparator that is not a consistent
// strict order only shows with more elements than that, equal powers and the cut inside the group of equals.

// registerExtra registers operator number idx through the real entry points (operator info, deposit, delegation by
// its own staker, association = self delegation, opt-in with a consensus key) with `usd` whole USD of stake.
func (h *c06H) registerExtra(idx int, usd int64) (sdk.AccAddress, error) {
	_, ea := DetEthKey("c06big", idx)
	op := sdk.AccAddress(ea.Bytes())
	ctx := h.ctx
	if err := h.app.OperatorKeeper.SetOperatorInfo(ctx, op.String(), &operatortypes.OperatorInfo{
		EarningsAddr: op.String(), OperatorMetaInfo: fmt.Sprintf("big%d", idx),
		Commission: stakingtypes.NewCommission(sdk.ZeroDec(), sdk.ZeroDec(), sdk.ZeroDec()),
	}); err != nil {
		return nil, err
	}
	asset := common.HexToAddress(h.env.AssetAddr).Bytes()
	amt := sdkmath.NewIntWithDecimal(usd, 6)
	if err := h.app.AssetsKeeper.PerformDepositOrWithdraw(ctx, &assetskeeper.DepositWithdrawParams{
		ClientChainLzID: h.env.LzID, Action: assetstypes.DepositLST, StakerAddress: op.Bytes(), AssetsAddress: asset, OpAmount: amt,
	}); err != nil {
		return nil, err
	}
	h.nonce++
	if err := h.app.DelegationKeeper.DelegateTo(ctx, &delegationtypes.DelegationOrUndelegationParams{
		ClientChainID: h.env.LzID, LzNonce: h.nonce, AssetsAddress: asset, StakerAddress: op.Bytes(), OperatorAddress: op,
		OpAmount: amt, TxHash: common.BytesToHash(seedBytes("c06tx", int(h.nonce))),
	}); err != nil {
		return nil, err
	}
	if err := h.app.DelegationKeeper.AssociateOperatorWithStaker(ctx, h.env.LzID, op, op.Bytes()); err != nil {
		return nil, err
	}
	_, key := DetConsKey("c06bigkey", idx)
	if err := h.app.OperatorKeeper.OptInWithConsKey(ctx, op, h.avsAddr, key); err != nil {
		return nil, err
	}
	return op, nil
}

// one large-set history: `n` operators in total; every epoch-end block writes a power assignment with one big group
// of equal power and puts MaxValidators inside that group
func (h *c06H) largeHistory(n, epochs int) ([]c06Step, error) {
	r := h.rng
	steps := []c06Step{}
	h.operators = append([]sdk.AccAddress{}, h.env.Operators...)
	if !h.beginNext(5 * time.Second) {
		return steps, nil
	}
	regOps := []string{}
	for idx := 0; len(h.operators) < n; idx++ {
		// equal stakes through the ledger: the first epoch end already has a tie of all the new operators at 150
		op, err := h.registerExtra(idx, 150)
		if err != nil {
			return nil, err
		}
		h.operators = append(h.operators, op)
		regOps = append(regOps, fmt.Sprintf("register+deposit+selfdelegate+optin(big%d,150)", idx))
	}
	if r.Intn(2) == 0 {
		regOps = append(regOps, "setmax="+h.opSetMax(uint32(7+r.Intn(n-8))))
	}
	steps = append(steps, h.step(regOps))
	dec := func(v int64) sdkmath.LegacyDec { return sdkmath.LegacyNewDec(v) }
	for e := 0; e < epochs; e++ {
		u := h.untilEpochEnd()
		if u < 0 {
			u = 0
		}
		if !h.beginNext(u + time.Duration(1+r.Intn(600))*time.Second) {
			return steps, nil
		}
		ops := []string{}
		for k := r.Intn(3); k > 0; k-- {
			ops = append(ops, h.randOp(false))
		}
		if h.app.StakingKeeper.IsEpochEnd(h.ctx) && (e > 0 || r.Intn(2) == 0) {
			// tie group of m operators at value v; the others strictly above or strictly below
			m := 13 + r.Intn(n-12)
			v := []int64{1, 3, 100, 150, 200}[r.Intn(5)]
			perm := r.Perm(n)
			above := 0
			for pos, i := range perm {
				val := v
				if pos >= m {
					if r.Intn(2) == 0 {
						val = v + 1 + int64(r.Intn(50))
						above++
					} else {
						val = v - 1 - int64(r.Intn(3))
						if val < 0 {
							val = 0
						}
					}
				}
				res := h.opSetUSD(i, dec(val), dec(val), dec(val))
				h.w.Count("op/setusd/" + res)
			}
			maxv := above + 1 + r.Intn(m-1) // the cut falls strictly inside the tie group
			ops = append(ops, fmt.Sprintf("tie(m=%d,v=%d,above=%d)", m, v, above), fmt.Sprintf("setmax(%d)=%s", maxv, h.opSetMax(uint32(maxv))))
			h.w.Count("large/tie-group-straddles-cut")
		} else if h.app.StakingKeeper.IsEpochEnd(h.ctx) {
			// the stakes of the ledger as the operator hook priced them (all new operators tied at 150)
			maxv := 7 + r.Intn(n-8)
			ops = append(ops, fmt.Sprintf("setmax(%d)=%s", maxv, h.opSetMax(uint32(maxv))))
		}
		steps = append(steps, h.step(ops))
	}
	return steps, nil
}

func runC06(a *Args) error {
	rng := rand.New(rand.NewSource(a.Seed))
	env := NewEnv(EnvCfg{
		Operators: []OperatorCfg{{Deposit: 300}, {Deposit: 200}, {Deposit: 200}, {Deposit: 150}, {Deposit: 120}, {Deposit: 100}},
		MutGenesis: func(app *exocoreapp.ExocoreApp, gs map[string]json.RawMessage) {
			var dg dogfoodtypes.GenesisState
			app.AppCodec().MustUnmarshalJSON(gs[dogfoodtypes.ModuleName], &dg)
			dg.Params.EpochIdentifier = "hour"
			dg.Params.EpochsUntilUnbonded = 1
			dg.Params.MaxValidators = 100
			gs[dogfoodtypes.ModuleName] = app.AppCodec().MustMarshalJSON(&dg)
		},
		ExtraAccs: 2,
	})
	h := &c06H{env: env, app: env.App, rng: rng, w: NewCaseWriter(a.Out), epochID: "hour", operators: env.Operators}
	defer h.w.Close()
	h.authority = authtypes.NewModuleAddress(govtypes.ModuleName).String()
	h.chainID = avstypes.ChainIDWithoutRevision(env.ChainID)
	h.avsAddr = strings.ToLower(avstypes.GenerateAVSAddr(h.chainID))
	if ok, addr := env.App.AVSManagerKeeper.IsAVSByChainID(env.Ctx, h.chainID); ok {
		h.avsAddr = addr
	} else {
		return fmt.Errorf("dogfood AVS not registered")
	}
	for j := 0; j < 8; j++ {
		_, k := DetConsKey("c06pool", j)
		h.pool = append(h.pool, k)
	}
	nChain := a.N / 10
	if nChain < 2 {
		nChain = 2
	}
	base := env.Ctx
	// directed observations (not violations of C06): transactions that lead to an update list removing EVERY validator.
	// CometBFT refuses such a list ("would result in empty set"): the chain halts.
	nDirected := 0
	directed := func(name string, body func() []c06Step) {
		cc, _ := base.CacheContext()
		h.real = false
		h.ctx = cc
		h.height = env.Header.Height
		h.now = env.Header.Time
		h.nonce = 5000
		h.dead = false
		h.emit("cached", body(), []string{"obs-C06-empty-validator-set", name})
		nDirected++
	}
	// (a) every operator opts out of the dogfood AVS (MsgOptOutOfAVS) inside one epoch
	directed("all-opt-out", func() []c06Step {
		steps := []c06Step{}
		h.beginNext(5 * time.Second)
		ops := []string{}
		for i := range env.Operators {
			ops = append(ops, fmt.Sprintf("optout(%d)=%s", i, h.opOptOut(i)))
		}
		steps = append(steps, h.step(ops))
		h.beginNext(h.untilEpochEnd() + time.Second)
		steps = append(steps, h.step(nil))
		return steps
	})
	// (b) every operator's self delegation drops below MinSelfDelegation (undelegations by the operators' own stakers):
	// the operator module's epoch hook sets every active USD value to 0
	directed("all-below-min-self-delegation", func() []c06Step {
		steps := []c06Step{}
		h.beginNext(5 * time.Second)
		ops := []string{}
		for i, oc := range env.Cfg.Operators {
			amt := (oc.Deposit - 99) * 1000000 // leaves 99 USD of self delegation, minimum is 100
			ops = append(ops, fmt.Sprintf("undelegate(self,%d,%d)=%s", i, amt, h.opUndelegate(h.selfStaker(i), i, amt)))
		}
		steps = append(steps, h.step(ops))
		h.beginNext(h.untilEpochEnd() + time.Second)
		steps = append(steps, h.step(nil))
		return steps
	})
	// (c) every validator is jailed (downtime / double sign reported by the slashing and evidence modules)
	directed("all-jailed", func() []c06Step {
		steps := []c06Step{}
		h.beginNext(5 * time.Second)
		ops := []string{}
		for i := range env.Operators {
			ops = append(ops, fmt.Sprintf("jail(%d)=%s", i, h.opJail(i, true)))
		}
		steps = append(steps, h.step(ops))
		h.beginNext(h.untilEpochEnd() + time.Second)
		steps = append(steps, h.step(nil))
		return steps
	})
	// large sets: a few per run (more in longer runs)
	nLarge := 6 + a.N/40
	for i := 0; i < nLarge; i++ {
		cc, _ := base.CacheContext()
		h.real = false
		h.ctx = cc
		h.height = env.Header.Height
		h.now = env.Header.Time
		h.nonce = 9000
		h.dead = false
		steps, err := h.largeHistory(13+rng.Intn(8), 2+rng.Intn(2))
		h.operators = env.Operators
		if err != nil {
			return fmt.Errorf("large-set family: %w", err)
		}
		h.emit("cached", steps, []string{"large-set"})
		h.w.Count("case/large-set")
	}
	// the params family: MinSelfDelegation through the real MsgUpdateParams handler, epoch ends priced by the real operator hook
	nParams := 8 + a.N/30
	for i := 0; i < nParams; i++ {
		cc, _ := base.CacheContext()
		h.real = false
		h.ctx = cc
		h.height = env.Header.Height
		h.now = env.Header.Time
		h.nonce = 7000
		h.dead = false
		h.paramBias = true
		steps := h.history(3 + rng.Intn(2))
		h.paramBias = false
		h.emit("cached", steps, []string{"params"})
		h.w.Count("case/params")
	}
	nCached := a.N - nChain - nDirected - nLarge - nParams
	for i := 0; i < nCached; i++ {
		cc, _ := base.CacheContext()
		h.real = false
		h.ctx = cc
		h.height = env.Header.Height
		h.now = env.Header.Time
		h.nonce = 1000
		h.dead = false
		steps := h.history(2 + rng.Intn(4))
		h.emit("cached", steps, nil)
	}
	// the real ABCI chain: consecutive windows of one committed history
	h.real = true
	h.ended = false // block 1 (opened by NewEnv) starts the epoch counting, it ends no epoch
	h.ctx = env.Ctx
	h.height = env.Header.Height
	h.now = env.Header.Time
	h.dead = false
	for i := 0; i < nChain && !h.dead; i++ {
		first := []c06Step{}
		if i == 0 {
			// close block 1 (opened by NewEnv)
			first = append(first, h.step(nil))
		}
		steps := append(first, h.history(2+rng.Intn(4))...)
		h.emit("chain", steps, nil)
	}
	return nil
}

// ---- suite c06x (NOT part of the check): directed scenarios that drop an assumption of the theorems, used once to
// replay the refutation witnesses of coq/C06/Props.v on the real code (see design/C06.md). The states are produced with
// exported keeper methods that no transaction reaches in this way.
func init() { register("c06x", runC06X) }

func runC06X(a *Args) error {
	rng := rand.New(rand.NewSource(a.Seed))
	env := NewEnv(EnvCfg{
		Operators: []OperatorCfg{{Deposit: 300}, {Deposit: 200}, {Deposit: 150}},
		MutGenesis: func(app *exocoreapp.ExocoreApp, gs map[string]json.RawMessage) {
			var dg dogfoodtypes.GenesisState
			app.AppCodec().MustUnmarshalJSON(gs[dogfoodtypes.ModuleName], &dg)
			dg.Params.EpochIdentifier = "minute"
			dg.Params.EpochsUntilUnbonded = 2
			gs[dogfoodtypes.ModuleName] = app.AppCodec().MustMarshalJSON(&dg)
		},
	})
	h := &c06H{env: env, app: env.App, rng: rng, w: NewCaseWriter(a.Out), epochID: "minute", operators: env.Operators}
	defer h.w.Close()
	h.chainID = avstypes.ChainIDWithoutRevision(env.ChainID)
	_, h.avsAddr = env.App.AVSManagerKeeper.IsAVSByChainID(env.Ctx, h.chainID)
	dec := sdkmath.LegacyMustNewDecFromStr
	fresh := func() {
		cc, _ := env.Ctx.CacheContext()
		h.real = false
		h.ctx = cc
		h.height = env.Header.Height
		h.now = env.Header.Time
	}
	// (b) missing reverse lookup of an active validator key
	fresh()
	h.beginNext(61 * time.Second)
	h.app.OperatorKeeper.DeleteOperatorAddressForChainIDAndConsAddr(h.ctx, h.chainID, env.ConsKeys[0].ToConsAddr())
	r := h.opSetUSD(0, dec("301"), dec("301"), dec("301"))
	h.emit("cached", []c06Step{h.step([]string{"delete-reverse-lookup(0)", "setusd(0,301)=" + r})}, []string{"x-missing-reverse-lookup"})
	// (c) an active operator without USD value record, in the second of two consecutive epoch-end blocks
	fresh()
	h.beginNext(125 * time.Second)
	r = h.opSetUSD(1, dec("250"), dec("250"), dec("250"))
	s1 := h.step([]string{"setusd(1,250)=" + r})
	h.beginNext(time.Second)
	r = h.opSetUSD(2, dec("170"), dec("170"), dec("170"))
	_ = h.app.OperatorKeeper.DeleteOperatorUSDValue(h.ctx, h.avsAddr, env.Operators[0].String())
	s2 := h.step([]string{"setusd(2,170)=" + r, "delete-usd-record(0)"})
	h.emit("cached", []c06Step{s1, s2}, []string{"x-power-error"})
	return nil
}
