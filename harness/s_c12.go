package main

// Suite c12 (shared by C12 and C13): the price oracle.
//
// What is driven (all REAL code of the ExocoreApp built from $VERIF_REPO):
//   * the application's cosmos ante chain (app/ante.NewAnteHandler with the application's own keepers; the
//     fee-less oracle branch of SetUpContext/MinGasPrice/TxSize/DeductFee/SetPubKey/SigVerification/
//     IncrementSequence decorators) on signed, encoded transactions (SIGN_MODE_DIRECT, ed25519 consensus keys);
//   * the registered Msg service handler of MsgCreatePrice (app.MsgServiceRouter().Handler), i.e. the real
//     msgServer.CreatePrice -> AggregatorContext.NewCreatePrice -> worker/filter/calculator/aggregator -> AppendPriceTR;
//   * the oracle module's EndBlock (validator updates read from the dogfood store, SealRound, GrowRoundID,
//     CommitCache, PrepareRoundEndBlock, nonce rows);
//   * lazy initialisation of the package-level aggregator context (initAggregatorContext).
// The baseapp runTx wrapper is emulated by the harness exactly as baseapp does it: ante on a cache of the block
// state, written iff ante succeeds; all messages on a second cache, written iff every message succeeds; panics
// recovered into a failed tx. (The full ABCI path cannot inject validator-set changes without driving a whole
// dogfood epoch; see design/C12.md.)  One case = a branch (CacheContext) of the block-1 state, so cases are
// independent; the oracle's package singletons are reset at the start of every case.
//
// Observed after every tx and every EndBlock: prices (all tokens), nonce rows, digest of the rest of the oracle
// store, and (verif hook) the canonical dump of the in-memory aggregator context.

import (
	"crypto/sha256"
	"encoding/binary"
	"fmt"
	"math/big"
	"math/rand"
	"sort"
	"strings"
	"time"

	abci "github.com/cometbft/cometbft/abci/types"
	"github.com/cosmos/cosmos-sdk/client"
	cryptocodec "github.com/cosmos/cosmos-sdk/crypto/codec"
	"github.com/cosmos/cosmos-sdk/crypto/keys/ed25519"
	cryptotypes "github.com/cosmos/cosmos-sdk/crypto/types"
	sdk "github.com/cosmos/cosmos-sdk/types"
	"github.com/cosmos/cosmos-sdk/types/tx/signing"
	authsigning "github.com/cosmos/cosmos-sdk/x/auth/signing"
	authtypes "github.com/cosmos/cosmos-sdk/x/auth/types"
	govtypes "github.com/cosmos/cosmos-sdk/x/gov/types"
	ethante "github.com/ExocoreNetwork/exocore/app/ante/evm"
	evmostypes "github.com/evmos/evmos/v16/types"

	exoante "github.com/ExocoreNetwork/exocore/app/ante"
	"github.com/ExocoreNetwork/exocore/x/oracle"
	oraclekeeper "github.com/ExocoreNetwork/exocore/x/oracle/keeper"
	"github.com/ExocoreNetwork/exocore/x/oracle/keeper/aggregator"
	oracletypes "github.com/ExocoreNetwork/exocore/x/oracle/types"
)

func init() {
	register("c12", runC12)
}

const c12Layout = "2006-01-02 15:04:05"

// ---- key table ---------------------------------------------------------------------------------

type c12Key struct {
	priv *ed25519.PrivKey
	pub  cryptotypes.PubKey
	acc  string // msg.Creator
	cons string // validator key in the aggregator context and in the nonce store
}

type c12H struct {
	env     *Env
	keys    []c12Key
	byAcc   map[string]int
	byCons  map[string]int
	ante    sdk.AnteHandler
	txCfg   client.TxConfig
	module  oracle.AppModule
	nGenVal int
	w       *CaseWriter
	rng     *rand.Rand
}

func c12NewH(a *Args) *c12H { return c12NewHWith(a, EnvCfg{}) }

func c12NewHWith(a *Args, cfg EnvCfg) *c12H {
	ops := []OperatorCfg{{Deposit: 100}, {Deposit: 100}, {Deposit: 100}}
	cfg.Operators = ops
	env := NewEnv(cfg)
	h := &c12H{env: env, byAcc: map[string]int{}, byCons: map[string]int{}, nGenVal: len(ops)}
	for i := 0; i < 9; i++ {
		priv, _ := DetConsKey("cons", i)
		pub := priv.PubKey()
		k := c12Key{priv: priv, pub: pub, acc: sdk.AccAddress(pub.Address()).String(), cons: sdk.ConsAddress(pub.Address()).String()}
		h.keys = append(h.keys, k)
		h.byAcc[k.acc] = i
		h.byCons[k.cons] = i
	}
	app := env.App
	h.txCfg = app.GetTxConfig()
	opts := exoante.HandlerOptions{
		Cdc:                    app.AppCodec(),
		AccountKeeper:          app.AccountKeeper,
		BankKeeper:             app.BankKeeper,
		ExtensionOptionChecker: evmostypes.HasDynamicFeeExtensionOption,
		StakingKeeper:          app.StakingKeeper,
		FeegrantKeeper:         app.FeeGrantKeeper,
		DistributionKeeper:     app.RewardKeeper,
		IBCKeeper:              app.IBCKeeper,
		SignModeHandler:        h.txCfg.SignModeHandler(),
		SigGasConsumer:         exoante.SigVerificationGasConsumer,
		MaxTxGasWanted:         0,
		FeeMarketKeeper:        app.FeeMarketKeeper,
		EvmKeeper:              app.EvmKeeper,
		TxFeeChecker:           ethante.NewDynamicFeeChecker(app.EvmKeeper),
		OracleKeeper:           app.OracleKeeper,
	}
	if err := opts.Validate(); err != nil {
		panic(err)
	}
	h.ante = exoante.NewAnteHandler(opts)
	h.module = oracle.NewAppModule(app.AppCodec(), app.OracleKeeper, app.AccountKeeper, app.BankKeeper)
	h.w = NewCaseWriter(a.Out)
	h.rng = rand.New(rand.NewSource(a.Seed))
	return h
}

// ---- model-side data -----------------------------------------------------------------------------

type c12Item struct {
	Det   string `json:"det"`
	Raw   string `json:"raw,omitempty"` // when set: the (non-numeric) price string sent instead of Price
	Price int64  `json:"price"`
	Dec   int32  `json:"dec"`
	TS    string `json:"ts"` // the string put into the message
}

type c12Source struct {
	ID     uint64    `json:"id"`
	Prices []c12Item `json:"prices"`
	Pad    int       `json:"pad,omitempty"` // length of the Desc padding (size tests)
}

type c12Msg struct {
	Creator int         `json:"creator"`
	Feeder  uint64      `json:"feeder"`
	Base    uint64      `json:"base"`
	Nonce   int32       `json:"nonce"`
	Prices  []c12Source `json:"prices"`
}

type c12Tx struct {
	Msgs    []c12Msg `json:"msgs"`
	PubKey  int      `json:"pubkey"` // key index whose public key is put into the signer info
	BadSig  bool     `json:"bad_sig,omitempty"`
	Kind    string   `json:"kind"`
	Size    int      `json:"size"`
	Adm     bool     `json:"admitted"`
	OK      bool     `json:"ok"`
	Changed bool     `json:"changed"`
}

type c12Upd struct {
	Val   int   `json:"val"`
	Power int64 `json:"power"`
}

type c12Block struct {
	Height  int64    `json:"height"`
	Time    string   `json:"time"`
	Txs     []c12Tx  `json:"txs"`
	Updates []c12Upd `json:"updates,omitempty"`
}

type c12Feeder struct {
	ID, Token, Start, Interval, StartRound, End uint64
}

type c12Params struct {
	MaxNonce, ThrA, ThrB, MaxDetID, MaxSize int32
	Feeders                                  []c12Feeder
	TokenDec                                 []int32 // index = token id (0 reserved)
}

type c12Case struct {
	Suite  string     `json:"suite"`
	Tags   []string   `json:"tags,omitempty"`
	NT     bool       `json:"nt"`
	Params c12Params  `json:"params"`
	H0     int64      `json:"h0"`
	Blocks []c12Block `json:"blocks"`
	Final  string     `json:"final_state"`
}

var c12Base = time.Date(2024, 5, 1, 0, 0, 0, 0, time.UTC)

// c12TS: message / stored timestamp string -> seconds relative to c12Base (-1 empty, -2 malformed)
func c12TS(s string) int64 {
	if s == "" {
		return -1
	}
	t, err := time.ParseInLocation(c12Layout, s, time.UTC)
	if err != nil {
		return -2
	}
	return int64(t.Sub(c12Base) / time.Second)
}

// c12Now: block time -> nanoseconds relative to c12Base
func c12Now(t time.Time) int64 { return int64(t.Sub(c12Base)) }

func c12OptZ(s string) string {
	if s == "" {
		return "None"
	}
	b, ok := new(big.Int).SetString(s, 10)
	if !ok {
		return "(Some (-77777)%Z)" // never produced by the generators; makes the comparison fail
	}
	return "(Some " + cZbig(b) + ")"
}

func (p c12Params) coq() string {
	fs := []string{}
	for _, f := range p.Feeders {
		fs = append(fs, cApp("mkFeeder", cZ(int64(f.ID)), cZ(int64(f.Token)), cZ(int64(f.Start)), cZ(int64(f.Interval)), cZ(int64(f.StartRound)), cZ(int64(f.End))))
	}
	ts := []string{}
	for i, d := range p.TokenDec {
		if i == 0 {
			continue
		}
		ts = append(ts, cTuple(cZ(int64(i)), cZ(int64(d))))
	}
	return cApp("mkParams", cZ(int64(p.MaxNonce)), cZ(int64(p.ThrA)), cZ(int64(p.ThrB)), cZ(int64(p.MaxDetID)), cZ(int64(p.MaxSize)), cList(fs), cList(ts))
}

func (m c12Msg) coq() string {
	ss := []string{}
	for _, s := range m.Prices {
		is := []string{}
		for _, it := range s.Prices {
			is = append(is, cApp("mkPI", cStr(it.Det), cZ(it.Price), cZ(int64(it.Dec)), cZ(c12TS(it.TS)), cBool(it.Raw == "")))
		}
		ss = append(ss, cApp("mkPS", cZ(int64(s.ID)), cList(is)))
	}
	return cApp("mkMsg", cZ(int64(m.Creator)), cZ(int64(m.Feeder)), cZ(int64(m.Base)), cZ(int64(m.Nonce)), cList(ss))
}

// ---- state dump ------------------------------------------------------------------------------------

type c12State struct {
	coq    string // Coq term of type state
	parts  [6]string // prices, nonces, (vals,total), rounds, workers, digest
	rounds map[uint64]aggregator.VerifC12Round
	nonces map[int]map[uint64]uint32 // validator id -> feeder -> value
	vals   map[int]int64
	dets   map[uint64]map[int]map[string]bool // feeder -> creator -> det ids seen by the filter
	sealed map[uint64]bool
}

func (h *c12H) dump(ctx sdk.Context) c12State {
	st := c12State{rounds: map[uint64]aggregator.VerifC12Round{}, nonces: map[int]map[uint64]uint32{}, vals: map[int]int64{},
		dets: map[uint64]map[int]map[string]bool{}, sealed: map[uint64]bool{}}
	k := h.env.App.OracleKeeper
	// prices
	var ps []string
	all := k.GetAllPrices(ctx)
	sort.Slice(all, func(i, j int) bool { return all[i].TokenID < all[j].TokenID })
	for _, p := range all {
		var es []string
		for _, e := range p.PriceList {
			es = append(es, cTuple(cZ(int64(e.RoundID)), cApp("mkPtr", cZ(int64(e.RoundID)), c12OptZ(e.Price), cZ(int64(e.Decimal)), cZ(c12TS(e.Timestamp)))))
		}
		ps = append(ps, cTuple(cZ(int64(p.TokenID)), cApp("mkTP", cOpt(true, cZ(int64(p.NextRoundID))), cList(es))))
	}
	// nonces + digest of everything else
	store := ctx.KVStore(h.env.App.GetKey(oracletypes.StoreKey))
	it := store.Iterator(nil, nil)
	hash := sha256.New()
	type nrow struct {
		id  int
		row string
	}
	var rows []nrow
	unknownVal := 0
	for ; it.Valid(); it.Next() {
		key := it.Key()
		if strings.HasPrefix(string(key), oracletypes.NonceKeyPrefix) {
			var vn oracletypes.ValidatorNonce
			h.env.App.AppCodec().MustUnmarshal(it.Value(), &vn)
			id, ok := h.byCons[vn.Validator]
			if !ok {
				unknownVal++
				id = 900 + unknownVal
			}
			var ns []string
			st.nonces[id] = map[uint64]uint32{}
			for _, n := range vn.NonceList {
				ns = append(ns, cTuple(cZ(int64(n.FeederID)), cZ(int64(n.Value))))
				st.nonces[id][n.FeederID] = n.Value
			}
			rows = append(rows, nrow{id, cTuple(cZ(int64(id)), cList(ns))})
			continue
		}
		var l [8]byte
		binary.BigEndian.PutUint64(l[:], uint64(len(key)))
		hash.Write(l[:])
		hash.Write(key)
		binary.BigEndian.PutUint64(l[:], uint64(len(it.Value())))
		hash.Write(l[:])
		hash.Write(it.Value())
	}
	it.Close()
	sort.Slice(rows, func(i, j int) bool { return rows[i].id < rows[j].id })
	var ns []string
	for _, r := range rows {
		ns = append(ns, r.row)
	}
	sum := hash.Sum(nil)
	digest := int64(binary.BigEndian.Uint64(sum[:8]) >> 8)

	// memory
	d, ok := oraclekeeper.VerifC12DumpAgc()
	memC := "(mkMem [] 0%Z [] [])"
	st.parts = [6]string{cList(ps), cList(ns), "([], 0%Z)", "[]", "[]", cZ(digest)}
	if ok {
		type kv struct {
			id int
			s  string
		}
		var vs []kv
		for _, v := range d.Validators {
			id, ok := h.byCons[v.Addr]
			if !ok {
				id = 990
			}
			pw, _ := new(big.Int).SetString(v.Power, 10)
			if pw == nil {
				pw = big.NewInt(-1)
			}
			st.vals[id] = pw.Int64()
			vs = append(vs, kv{id, cTuple(cZ(int64(id)), cZbig(pw))})
		}
		sort.Slice(vs, func(i, j int) bool { return vs[i].id < vs[j].id })
		var vss []string
		for _, v := range vs {
			vss = append(vss, v.s)
		}
		var rs []string
		for _, r := range d.Rounds {
			st.rounds[r.FeederID] = r
			rs = append(rs, cTuple(cZ(int64(r.FeederID)), cApp("mkRound", cZ(int64(r.BasedBlock)), cZ(int64(r.NextRoundID)), cZ(int64(r.Status)))))
		}
		var ws []string
		for _, wk := range d.Workers {
			ws = append(ws, cTuple(cZ(int64(wk.FeederID)), h.workerCoq(wk, &st)))
		}
		tot := cZstr(strings.Replace(d.TotalPower, "nil", "-1", 1))
		memC = cApp("mkMem", cList(vss), tot, cList(rs), cList(ws))
		st.parts[2] = cTuple(cList(vss), tot)
		st.parts[3] = cList(rs)
		st.parts[4] = cList(ws)
	}
	st.coq = cApp("mkState", cApp("mkStore", cList(ps), cList(ns)), memC, cZ(digest))
	return st
}

func (h *c12H) workerCoq(wk aggregator.VerifC12Worker, st *c12State) string {
	anomaly := false
	cZstr := func(x string) string { // a nil *big.Int in memory (dumped as "nil") is outside the model: mark the dump
		if _, ok := new(big.Int).SetString(x, 10); !ok {
			anomaly = true
			return "0%Z"
		}
		return cZbig(func() *big.Int { b, _ := new(big.Int).SetString(x, 10); return b }())
	}
	st.sealed[wk.FeederID] = wk.Sealed
	price := c12OptZ(wk.Price)
	if wk.HasF != wk.HasC || wk.HasC != wk.HasA || wk.Sealed == wk.HasF {
		anomaly = true
	}
	var fn, fd []string
	type kv struct {
		id int
		s  string
	}
	var fnk, fdk []kv
	for _, s := range wk.FilterNonces {
		id, ok := h.byAcc[s.Key]
		if !ok {
			anomaly = true
		}
		var xs []string
		for _, x := range s.Items {
			xs = append(xs, cZ(int64(x)))
		}
		fnk = append(fnk, kv{id, cTuple(cZ(int64(id)), cList(xs))})
	}
	st.dets[wk.FeederID] = map[int]map[string]bool{}
	for _, s := range wk.FilterSources {
		if !strings.HasSuffix(s.Key, "1") {
			anomaly = true
		}
		id, ok := h.byAcc[strings.TrimSuffix(s.Key, "1")]
		if !ok {
			anomaly = true
		}
		var xs []string
		st.dets[wk.FeederID][id] = map[string]bool{}
		for _, x := range s.Items {
			xs = append(xs, cStr(x))
			st.dets[wk.FeederID][id][x] = true
		}
		fdk = append(fdk, kv{id, cTuple(cZ(int64(id)), cList(xs))})
	}
	sort.Slice(fnk, func(i, j int) bool { return fnk[i].id < fnk[j].id })
	sort.Slice(fdk, func(i, j int) bool { return fdk[i].id < fdk[j].id })
	for _, x := range fnk {
		fn = append(fn, x.s)
	}
	for _, x := range fdk {
		fd = append(fd, x.s)
	}
	crounds := "None"
	if len(wk.CalcSources) > 1 || (len(wk.CalcSources) == 1 && wk.CalcSources[0].SourceID != 1) {
		anomaly = true
	}
	if len(wk.CalcSources) == 1 {
		var crs []string
		for _, r := range wk.CalcSources[0].Rounds {
			var pps []string
			for _, pp := range r.Prices {
				pps = append(pps, cTuple(cZstr(pp.Price), cZstr(pp.Power)))
			}
			pr := "None"
			if r.HasPrice {
				pr = "(Some " + cZstr(r.Price) + ")"
			}
			crs = append(crs, cApp("mkCR", cStr(r.DetID), cList(pps), pr, cZ(c12TS(r.Timestamp))))
		}
		crounds = "(Some " + cList(crs) + ")"
	}
	var reps []string
	for _, r := range wk.AggReports {
		id, ok := h.byCons[r.Validator]
		if !ok || r.HasPrice || len(r.Slots) != 1 || r.Slots[0].SourceID != 1 {
			anomaly = true
			continue
		}
		s := r.Slots[0]
		sp := "None"
		if s.HasPrice {
			sp = "(Some " + cZstr(s.Price) + ")"
		}
		reps = append(reps, cApp("mkRep", cZ(int64(id)), cZstr(r.Power), cZ(int64(s.Decimal)), sp, cStr(s.DetRoundID), cZ(c12TS(s.Timestamp))))
	}
	ds := "None"
	if len(wk.AggDS) > 1 || (len(wk.AggDS) == 1 && wk.AggDS[0].SourceID != 1) {
		anomaly = true
	}
	if len(wk.AggDS) == 1 {
		ds = "(Some " + cStr(wk.AggDS[0].DetID) + ")"
	}
	final := "None"
	if wk.AggHasFinal {
		final = "(Some " + cZstr(wk.AggFinal) + ")"
	}
	vlen := int64(wk.CalcValidatorLength)
	total := "0%Z"
	rpower := "0%Z"
	if wk.HasC {
		total = cZstr(wk.CalcTotalPower)
		if wk.AggTotalPower != wk.CalcTotalPower {
			anomaly = true
		}
		rpower = cZstr(wk.AggReportPower)
	}
	if anomaly {
		h.w.Count("dump.anomaly")
		vlen = -999
	}
	return cApp("mkW", cBool(wk.Sealed), price, cList(fn), cList(fd), cZ(vlen), total, crounds, cList(reps), rpower, ds, final)
}

// obsDiff renders the observation `after` as a difference to `before` (Coq term of type obs).
func c12ObsDiff(before, after c12State) string {
	var xs []string
	for i := range after.parts {
		if after.parts[i] == before.parts[i] {
			xs = append(xs, "None")
		} else {
			xs = append(xs, "(Some "+after.parts[i]+")")
		}
	}
	return cApp("mkObs", xs...)
}

// ---- transactions ------------------------------------------------------------------------------------

func (h *c12H) buildMsg(m c12Msg) *oracletypes.MsgCreatePrice {
	msg := &oracletypes.MsgCreatePrice{Creator: h.keys[m.Creator].acc, FeederID: m.Feeder, BasedBlock: m.Base, Nonce: m.Nonce}
	for _, s := range m.Prices {
		ps := &oracletypes.PriceSource{SourceID: s.ID, Desc: strings.Repeat("x", s.Pad)}
		for _, it := range s.Prices {
			priceStr := fmt.Sprintf("%d", it.Price)
			if it.Raw != "" {
				priceStr = it.Raw
			}
			ps.Prices = append(ps.Prices, &oracletypes.PriceTimeDetID{Price: priceStr, Decimal: it.Dec, Timestamp: it.TS, DetID: it.Det})
		}
		msg.Prices = append(msg.Prices, ps)
	}
	return msg
}

// buildTx signs with key `signer` (the creator's key unless a mismatch is intended); pubkey index pk goes into the signer info.
func (h *c12H) buildTx(t *c12Tx, chainID string) (sdk.Tx, []byte) {
	b := h.txCfg.NewTxBuilder()
	var msgs []sdk.Msg
	for _, m := range t.Msgs {
		msgs = append(msgs, h.buildMsg(m))
	}
	if err := b.SetMsgs(msgs...); err != nil {
		panic(err)
	}
	b.SetGasLimit(0)
	key := h.keys[t.PubKey]
	sigData := signing.SingleSignatureData{SignMode: signing.SignMode_SIGN_MODE_DIRECT, Signature: nil}
	sig := signing.SignatureV2{PubKey: key.pub, Data: &sigData, Sequence: 0}
	if err := b.SetSignatures(sig); err != nil {
		panic(err)
	}
	bytesToSign, err := h.txCfg.SignModeHandler().GetSignBytes(signing.SignMode_SIGN_MODE_DIRECT, authsigning.SignerData{ChainID: chainID}, b.GetTx())
	if err != nil {
		panic(err)
	}
	sigBytes, err := key.priv.Sign(bytesToSign)
	if err != nil {
		panic(err)
	}
	if t.BadSig {
		for i := range sigBytes {
			sigBytes[i] ^= 0x5a
		}
	}
	sigData.Signature = sigBytes
	sig = signing.SignatureV2{PubKey: key.pub, Data: &sigData, Sequence: 0}
	if err := b.SetSignatures(sig); err != nil {
		panic(err)
	}
	bz, err := h.txCfg.TxEncoder()(b.GetTx())
	if err != nil {
		panic(err)
	}
	tx, err := h.txCfg.TxDecoder()(bz)
	if err != nil {
		panic(err)
	}
	return tx, bz
}

// deliver emulates baseapp.runTx(runTxModeDeliver) around the real ante handler and the real msg handler.
func (h *c12H) deliver(ctx sdk.Context, tx sdk.Tx, bz []byte) (admitted, ok bool) {
	for _, m := range tx.GetMsgs() { // validateBasicTxMsgs
		if err := m.ValidateBasic(); err != nil {
			return false, false
		}
	}
	anteCtx, writeAnte := ctx.CacheContext()
	anteCtx = anteCtx.WithTxBytes(bz).WithEventManager(sdk.NewEventManager())
	var newCtx sdk.Context
	var err error
	func() {
		defer func() {
			if r := recover(); r != nil {
				err = fmt.Errorf("panic in ante: %v", r)
				h.w.Count("ante.panic")
			}
		}()
		newCtx, err = h.ante(anteCtx, tx, false)
	}()
	if err != nil {
		return false, false
	}
	writeAnte()
	msgCtx, writeMsgs := ctx.CacheContext()
	msgCtx = msgCtx.WithTxBytes(bz).WithGasMeter(newCtx.GasMeter()).WithPriority(newCtx.Priority()).WithEventManager(sdk.NewEventManager())
	okAll := true
	func() {
		defer func() {
			if r := recover(); r != nil {
				okAll = false
				h.w.Count("msg.panic")
			}
		}()
		for _, m := range tx.GetMsgs() {
			handler := h.env.App.MsgServiceRouter().Handler(m)
			if handler == nil {
				okAll = false
				return
			}
			if _, err := handler(msgCtx, m); err != nil {
				okAll = false
				return
			}
		}
	}()
	if okAll {
		writeMsgs()
	}
	return true, okAll
}

func (h *c12H) endBlock(ctx sdk.Context, height int64, ups []c12Upd) {
	var vus []abci.ValidatorUpdate
	for _, u := range ups {
		pk, err := cryptocodec.ToTmProtoPublicKey(h.keys[u.Val].pub)
		if err != nil {
			panic(err)
		}
		vus = append(vus, abci.ValidatorUpdate{PubKey: pk, Power: u.Power})
	}
	h.env.App.StakingKeeper.SetValidatorUpdates(ctx, vus)
	h.module.EndBlock(ctx, abci.RequestEndBlock{Height: height})
	h.env.App.StakingKeeper.SetValidatorUpdates(ctx, []abci.ValidatorUpdate{})
}

// ---- case setup ------------------------------------------------------------------------------------------

func c12ResetSingletons() {
	oraclekeeper.ResetAggregatorContext()
	oraclekeeper.ResetAggregatorContextCheckTx()
	oraclekeeper.ResetCache()
	oraclekeeper.ResetUpdatedFeederIDs()
}

func (p c12Params) toParams() oracletypes.Params {
	op := oracletypes.DefaultParams()
	op.MaxNonce, op.ThresholdA, op.ThresholdB, op.MaxDetId, op.MaxSizePrices = p.MaxNonce, p.ThrA, p.ThrB, p.MaxDetID, p.MaxSize
	op.Tokens = []*oracletypes.Token{{}}
	for i, d := range p.TokenDec {
		if i == 0 {
			continue
		}
		op.Tokens = append(op.Tokens, &oracletypes.Token{Name: fmt.Sprintf("T%d", i), ChainID: 1, ContractAddress: "0x", Decimal: d, Active: true,
			AssetID: fmt.Sprintf("0x%040x_0x65", i+0x1000)})
	}
	op.TokenFeeders = []*oracletypes.TokenFeeder{{}}
	for _, f := range p.Feeders {
		op.TokenFeeders = append(op.TokenFeeders, &oracletypes.TokenFeeder{TokenID: f.Token, RuleID: 1, StartRoundID: f.StartRound,
			StartBaseBlock: f.Start, Interval: f.Interval, EndBlock: f.End})
	}
	return op
}

type c12Price struct {
	Round uint64
	Price string
	Dec   int32
	TS    string
}

// setup prepares the branch ctx: params, wiped nonce rows and prices, initial prices; resets the singletons
// and triggers the lazy initialisation of the aggregator context at height h0.
func (h *c12H) setup(p c12Params, h0 int64, t0 time.Time, init map[uint64][]c12Price, next map[uint64]uint64) sdk.Context {
	ctx, _ := h.env.Ctx.CacheContext()
	ctx = ctx.WithBlockHeight(h0).WithBlockTime(t0)
	k := h.env.App.OracleKeeper
	store := ctx.KVStore(h.env.App.GetKey(oracletypes.StoreKey))
	var del [][]byte
	it := store.Iterator(nil, nil)
	for ; it.Valid(); it.Next() {
		key := string(it.Key())
		if strings.HasPrefix(key, oracletypes.NonceKeyPrefix) || strings.HasPrefix(key, oracletypes.PricesKeyPrefix) {
			del = append(del, append([]byte{}, it.Key()...))
		}
	}
	it.Close()
	for _, d := range del {
		store.Delete(d)
	}
	k.SetParams(ctx, p.toParams())
	for tok, n := range next {
		ps := oracletypes.Prices{TokenID: tok, NextRoundID: n}
		for _, e := range init[tok] {
			ps.PriceList = append(ps.PriceList, &oracletypes.PriceTimeRound{Price: e.Price, Decimal: e.Dec, Timestamp: e.TS, RoundID: e.Round})
		}
		k.SetPrices(ctx, ps)
	}
	c12ResetSingletons()
	_ = oraclekeeper.GetAggregatorContext(ctx, k)
	return ctx
}

// ---- generators ------------------------------------------------------------------------------------------

var c12PowerPools = [][]int64{
	{100, 100, 100}, {34, 33, 33}, {33, 33, 34}, {50, 25, 25}, {1, 1, 1}, {2, 1, 1},
	{100, 100, 100, 100}, {2, 2, 1, 1}, {40, 20, 20, 20}, {25, 25, 25, 26}, {3, 3, 3, 3},
	{20, 20, 20, 20, 20}, {3, 3, 2, 1, 1}, {34, 33, 11, 11, 11},
	{10, 10, 10, 10, 10, 10}, {4, 4, 4, 4, 1, 1}, {30, 30, 7, 7, 7, 7},
}

func (h *c12H) genParams(h0 int64) c12Params {
	r := h.rng
	p := c12Params{ThrA: 2, ThrB: 3, TokenDec: []int32{0, 8, 0, 18}}
	p.MaxNonce = []int32{1, 2, 3, 3, 3}[r.Intn(5)]
	p.MaxDetID = []int32{1, 2, 5, 5}[r.Intn(4)]
	p.MaxSize = []int32{1, 2, 3, 100}[r.Intn(4)]
	switch r.Intn(10) {
	case 0:
		p.ThrA, p.ThrB = 1, 2
	case 1:
		p.ThrA, p.ThrB = 3, 4
	case 2:
		p.ThrA, p.ThrB = 1, 1
	}
	nf := 1 + r.Intn(3)
	// which token each feeder serves: usually a permutation (so that feeder id != token id occurs), and in a third
	// of the cases feeder 2 CONTINUES the token of feeder 1 after feeder 1's end block (Params.Validate: the
	// successor starts after the predecessor's EndBlock and its StartRoundID continues the numbering)
	toks := []uint64{1, 2, 3}
	if r.Intn(2) == 0 {
		r.Shuffle(3, func(i, j int) { toks[i], toks[j] = toks[j], toks[i] })
	}
	successor := nf >= 2 && r.Intn(3) == 0
	for i := 1; i <= nf; i++ {
		mn := uint64(p.MaxNonce)
		iv := []uint64{2 * mn, 2*mn + 1, 7, 10}[r.Intn(4)]
		if iv < 2*mn {
			iv = 2 * mn
		}
		f := c12Feeder{ID: uint64(i), Token: toks[i-1], Interval: iv, StartRound: []uint64{1, 1, 4}[r.Intn(3)]}
		s := h0 - 14 + int64(r.Intn(20))
		if s < 1 {
			s = 1
		}
		f.Start = uint64(s)
		if r.Intn(4) == 0 || (successor && i == 1) {
			// EndBlock: not inside a window ((E-S)%I >= MaxNonce), somewhere around the case's blocks
			k := uint64(r.Intn(4))
			base := f.Start + k*iv
			for base+iv < uint64(h0) {
				base += iv
			}
			f.End = base + mn + uint64(r.Intn(int(iv-mn)))
		}
		if successor && i == 2 {
			prev := p.Feeders[0]
			f.Token = prev.Token
			f.Start = prev.End + 1 + uint64(r.Intn(5))
			f.StartRound = prev.StartRound + (prev.End-prev.Start)/prev.Interval + 1
			f.End = 0
		}
		if successor && i == 3 {
			f.Token = toks[1]
		}
		p.Feeders = append(p.Feeders, f)
	}
	return p
}

// c12Current: the feeder responsible for a token at block b (latest started; before any start: the first to start)
func c12Current(p c12Params, tok uint64, b int64) (c12Feeder, bool) {
	var cur c12Feeder
	found, started := false, false
	for _, f := range p.Feeders {
		if f.Token != tok {
			continue
		}
		fs := int64(f.Start) <= b
		switch {
		case !found:
			cur, found, started = f, true, fs
		case fs && (!started || f.Start > cur.Start):
			cur, started = f, true
		case !fs && !started && f.Start < cur.Start:
			cur = f
		}
	}
	return cur, found
}

// expected stored NextRoundID after EndBlock of block b for a chain that ran from the feeder's start
func c12ExpectedNext(f c12Feeder, mn uint64, b int64) uint64 {
	if b < int64(f.Start) {
		return f.StartRound
	}
	ub := uint64(b)
	if f.End > 0 && ub >= f.End {
		klast := (f.End - 1 - f.Start) / f.Interval
		return f.StartRound + klast + 1
	}
	k := (ub - f.Start) / f.Interval
	left := (ub - f.Start) % f.Interval
	n := f.StartRound + k
	if left >= mn {
		n++
	}
	return n
}

func c12TSOf(t time.Time) string { return t.UTC().Format(c12Layout) }

type c12Gen struct {
	h      *c12H
	p      c12Params
	truth  map[string]int64 // det id -> "true" price for the current case
	active []int            // key ids allowed to send (validators + outsiders)
	quiet  map[int]bool     // senders that must stay silent (stale nonce rows: directed scenario only)
}

func (g *c12Gen) price(det string) int64 {
	r := g.h.rng
	if v, ok := g.truth[det]; ok && r.Intn(5) != 0 {
		return v
	}
	v := []int64{100, 101, 99, 2500, 0, 7}[r.Intn(6)]
	if _, ok := g.truth[det]; !ok {
		g.truth[det] = v
	}
	if r.Intn(2) == 0 {
		return g.truth[det]
	}
	return v
}

var c12DetPool = []string{"1", "2", "3", "9", "10", "11", "a"}

// validMsg builds a message that the generator expects to be counted (given the observed state).
func (g *c12Gen) validMsg(st c12State, v int, fid uint64, now time.Time, nonceOff int) (c12Msg, bool) {
	r := g.h.rng
	rd, ok := st.rounds[fid]
	if !ok {
		return c12Msg{}, false
	}
	var f *c12Feeder
	for i := range g.p.Feeders {
		if g.p.Feeders[i].ID == fid {
			f = &g.p.Feeders[i]
		}
	}
	if f == nil {
		return c12Msg{}, false
	}
	nonce := int32(1)
	if row, ok := st.nonces[v]; ok {
		if val, ok := row[fid]; ok {
			nonce = int32(val) + 1
		}
	}
	nonce += int32(nonceOff)
	n := 1 + r.Intn(int(g.p.MaxDetID))
	if n > 2 && r.Intn(3) != 0 {
		n = 1 + r.Intn(2)
	}
	var items []c12Item
	used := map[string]bool{}
	for i := 0; i < n; i++ {
		det := c12DetPool[r.Intn(len(c12DetPool))]
		if r.Intn(3) != 0 { // bias towards few det ids so that validators agree
			det = c12DetPool[r.Intn(2)]
		}
		if used[det] {
			continue
		}
		used[det] = true
		ts := c12TSOf(now.Add(-time.Duration(r.Intn(20)) * time.Second))
		items = append(items, c12Item{Det: det, Price: g.price(det), Dec: g.p.TokenDec[f.Token], TS: ts})
	}
	return c12Msg{Creator: v, Feeder: fid, Base: rd.BasedBlock, Nonce: nonce, Prices: []c12Source{{ID: 1, Prices: items}}}, true
}

// freshMsg: a valid message with exactly one det-ID this validator has not reported for the feeder yet, and only
// when the validator's det-ID set for the feeder is not full.
func (g *c12Gen) freshMsg(st c12State, v int, fid uint64, now time.Time) (c12Msg, bool) {
	m, ok := g.validMsg(st, v, fid, now, 0)
	if !ok {
		return m, false
	}
	seen := st.dets[fid][v]
	if len(seen) >= int(g.p.MaxDetID) {
		return m, false
	}
	for _, d := range c12DetPool {
		if !seen[d] {
			it := m.Prices[0].Prices[0]
			it.Det = d
			it.Price = g.price(d)
			m.Prices[0].Prices = []c12Item{it}
			return m, true
		}
	}
	return m, false
}

// mutate turns a valid message into a boundary / malformed one; returns the kind label.
func (g *c12Gen) mutate(m *c12Msg, st c12State, now time.Time) string {
	r := g.h.rng
	mn := g.p.MaxNonce
	switch r.Intn(23) {
	case 22:
		// a price string that is not a number
		k := len(m.Prices[0].Prices) - 1
		m.Prices[0].Prices[k].Raw = []string{"abc", " ", "1e5", "0x10", "12.5"}[r.Intn(5)]
		return "price=non-numeric"
	case 0:
		m.Base++
		return "base+1"
	case 1:
		if m.Base > 0 {
			m.Base--
		}
		return "base-1"
	case 2:
		m.Nonce--
		return "nonce=stored"
	case 3:
		m.Nonce++
		return "nonce=stored+2"
	case 4:
		m.Nonce = mn + 1
		return "nonce=max+1"
	case 5:
		m.Nonce = 0
		return "nonce=0"
	case 6:
		m.Nonce = -1
		return "nonce=-1"
	case 7:
		m.Feeder = uint64(len(g.p.Feeders) + 1 + r.Intn(2))
		return "feeder=unknown"
	case 8:
		m.Feeder = 0
		return "feeder=0"
	case 9:
		m.Prices[0].ID = 0
		return "source=0(ds-shaped)"
	case 10:
		m.Prices[0].ID = 0
		m.Prices[0].Prices = m.Prices[0].Prices[:1]
		m.Prices[0].Prices[0].Det = ""
		return "source=0(ns)"
	case 11:
		m.Prices[0].ID = 2
		return "source=2"
	case 12:
		m.Prices = append(m.Prices, c12Source{ID: 0, Prices: []c12Item{{Det: "", Price: 5, Dec: m.Prices[0].Prices[0].Dec, TS: m.Prices[0].Prices[0].TS}}})
		return "two-sources"
	case 13:
		m.Prices = nil
		return "no-prices"
	case 14:
		m.Prices[0].Prices = nil
		return "empty-source"
	case 15:
		it := m.Prices[0].Prices[0]
		m.Prices[0].Prices = nil
		for i := 0; i <= int(g.p.MaxDetID); i++ {
			x := it
			x.Det = fmt.Sprintf("%d", 20+i)
			m.Prices[0].Prices = append(m.Prices[0].Prices, x)
		}
		return "detids=max+1"
	case 16:
		m.Prices[0].Prices[len(m.Prices[0].Prices)-1].Det = ""
		return "ds-empty-detid"
	case 17:
		m.Prices[0].Prices[len(m.Prices[0].Prices)-1].Dec++
		return "decimal+1"
	case 18:
		// timestamp boundary: block time + 5s (accepted when the string second <= now+5s), +6s
		off := []int{4, 5, 6}[r.Intn(3)]
		m.Prices[0].Prices[0].TS = c12TSOf(now.Truncate(time.Second).Add(time.Duration(off) * time.Second))
		return fmt.Sprintf("ts=now+%ds", off)
	case 19:
		m.Prices[0].Prices[len(m.Prices[0].Prices)-1].TS = ""
		return "ts=empty"
	case 20:
		m.Prices[0].Prices[0].TS = "2024-13-45 99:00:00"
		return "ts=malformed"
	default:
		// all det ids already reported by this validator (duplicate report)
		if ds, ok := st.dets[m.Feeder][m.Creator]; ok && len(ds) > 0 {
			var items []c12Item
			for d := range ds {
				items = append(items, c12Item{Det: d, Price: g.price(d) + int64(r.Intn(2)), Dec: m.Prices[0].Prices[0].Dec, TS: m.Prices[0].Prices[0].TS})
			}
			sort.Slice(items, func(i, j int) bool { return items[i].Det < items[j].Det })
			if len(items) > int(g.p.MaxDetID) {
				items = items[:g.p.MaxDetID]
			}
			m.Prices[0].Prices = items
			return "all-detids-seen"
		}
		return "valid"
	}
}

func (h *c12H) txSize(t *c12Tx) int {
	_, bz := h.buildTx(t, h.env.ChainID)
	return len(bz)
}

// padTo pads the Desc of the first source so that the encoded tx has exactly `target` bytes (best effort).
func (h *c12H) padTo(t *c12Tx, target int) {
	if len(t.Msgs) == 0 || len(t.Msgs[0].Prices) == 0 {
		return
	}
	for i := 0; i < 6; i++ {
		sz := h.txSize(t)
		if sz == target {
			return
		}
		np := t.Msgs[0].Prices[0].Pad + target - sz
		if np < 0 {
			np = 0
		}
		t.Msgs[0].Prices[0].Pad = np
	}
}

// ---- one case --------------------------------------------------------------------------------------------

type c12Script struct {
	tags        []string
	setupParams *c12Params // params written to the store at setup when they differ from the case's (model) params
	paramsAfter func() c12Params // when set: the params the case is recorded with (decided by what the run observed)
	params      *c12Params
	h0     int64
	powers []int64
	// blocks[i] = scripted txs / updates for block i (nil = generated)
	blocks []c12ScriptBlock
	nb     int
}

type c12ScriptBlock struct {
	pre     func(ctx sdk.Context) // runs at the start of the block, outside any tx (e.g. a keeper entry point)
	txs     func(st c12State, now time.Time) []c12Tx
	updates []c12Upd
}

func (h *c12H) runCase(sc *c12Script) {
	r := h.rng
	h0 := int64(20 + r.Intn(30))
	if sc != nil && sc.h0 > 0 {
		h0 = sc.h0
	}
	var p c12Params
	if sc != nil && sc.params != nil {
		p = *sc.params
	} else {
		p = h.genParams(h0)
	}
	// bulk cases: in one case out of four the params are changed in the middle of the case through the real
	// MsgUpdateParams handler (a new feeder for a token that has none yet, or an EndBlock for a running feeder).
	// The model runs with the FINAL params from the start: both kinds of update have no effect before the new
	// feeder's start block / the new end block, so the model with constant params must agree with the code.
	var updBlock = -1
	var updMsg *oracletypes.MsgUpdateParams
	var setupP *c12Params
	if sc == nil && r.Intn(4) == 0 {
		k := 2 + r.Intn(5)
		hk := h0 + int64(k)
		mn := uint64(p.MaxNonce)
		before := p
		before.Feeders = append([]c12Feeder{}, p.Feeders...)
		freeTok := uint64(0)
		for tk := uint64(1); tk <= 3; tk++ {
			if _, used := c12Current(p, tk, 1<<40); !used {
				freeTok = tk
				break
			}
		}
		if len(p.Feeders) < 3 && freeTok != 0 && r.Intn(2) == 0 {
			iv := []uint64{2 * mn, 2*mn + 1, 7}[r.Intn(3)]
			if iv < 2*mn {
				iv = 2 * mn
			}
			nf := c12Feeder{ID: uint64(len(p.Feeders) + 1), Token: freeTok, Start: uint64(hk + 1 + int64(r.Intn(6))), Interval: iv, StartRound: 1}
			p.Feeders = append(append([]c12Feeder{}, p.Feeders...), nf)
			updMsg = &oracletypes.MsgUpdateParams{Params: oracletypes.Params{TokenFeeders: []*oracletypes.TokenFeeder{{
				TokenID: nf.Token, RuleID: 1, StartRoundID: 1, StartBaseBlock: nf.Start, Interval: nf.Interval}}}}
			h.w.Count("case.params-update=new-feeder")
		} else {
			for i := range p.Feeders {
				f := p.Feeders[i]
				if f.End == 0 && f.Start <= uint64(hk) {
					rounds := (uint64(hk)-f.Start)/f.Interval + 1 + uint64(r.Intn(2))
					e := f.Start + rounds*f.Interval + mn + uint64(r.Intn(int(f.Interval-mn)))
					if r.Intn(3) == 0 {
						// an end block ON a round boundary or inside the round's window: Params.Validate must refuse it
						e = f.Start + rounds*f.Interval + uint64(r.Intn(int(mn)))
						h.w.Count("case.params-update=end-block(inside-window)")
					}
					fs := append([]c12Feeder{}, p.Feeders...)
					fs[i].End = e
					p.Feeders = fs
					updMsg = &oracletypes.MsgUpdateParams{Params: oracletypes.Params{TokenFeeders: []*oracletypes.TokenFeeder{{TokenID: f.Token, EndBlock: e}}}}
					h.w.Count("case.params-update=end-block")
					break
				}
			}
		}
		if updMsg != nil {
			updBlock = k
			setupP = &before
			updMsg.Authority = authtypes.NewModuleAddress(govtypes.ModuleName).String()
		}
	}
	t0 := c12Base.Add(10 * time.Hour).Add(time.Duration(r.Intn(1000)) * time.Second)
	if r.Intn(2) == 0 {
		t0 = t0.Add(time.Duration(r.Intn(1_000_000_000)))
	}
	// initial prices
	init := map[uint64][]c12Price{}
	next := map[uint64]uint64{}
	for tokI := 1; tokI < len(p.TokenDec); tokI++ {
		f, okF := c12Current(p, uint64(tokI), h0-1)
		if !okF {
			continue
		}
		n := c12ExpectedNext(f, uint64(p.MaxNonce), h0-1)
		// the round that is open (not yet closed) at h0-1 has not been written
		mode := r.Intn(12)
		if sc != nil {
			mode = 5
		}
		switch mode {
		case 0:
			n++ // inconsistent store: AppendPriceTR will refuse and fall back to GrowRoundID
			h.w.Count("init.next+1")
		case 1:
			if n > 1 {
				n--
				h.w.Count("init.next-1")
			}
		}
		if mode == 2 && n == 1 {
			h.w.Count("init.no-prices-row")
			continue // no Prices row at all
		}
		next[f.Token] = n
		cnt := int(n) - 1
		if cnt > int(p.MaxSize) {
			cnt = int(p.MaxSize)
		}
		if mode == 3 && cnt > 0 {
			cnt-- // latest entry missing
			h.w.Count("init.latest-missing")
		}
		for i := 0; i < cnt; i++ {
			rid := n - 1 - uint64(i)
			if mode == 3 {
				rid--
			}
			if rid < 1 {
				break
			}
			init[f.Token] = append([]c12Price{{Round: rid, Price: fmt.Sprintf("%d", 90+rid), Dec: p.TokenDec[f.Token], TS: c12TSOf(t0.Add(-time.Hour))}}, init[f.Token]...)
		}
	}
	sp := p
	if sc != nil && sc.setupParams != nil {
		sp = *sc.setupParams
	}
	if setupP != nil {
		sp = *setupP
	}
	ctx := h.setup(sp, h0, t0, init, next)
	cs := c12Case{Suite: "c12", Params: p, H0: h0}
	if sc != nil {
		cs.Tags = sc.tags
	}
	st := h.dump(ctx)
	initCoq := st.coq
	g := &c12Gen{h: h, p: p, truth: map[string]int64{}, quiet: map[int]bool{}}

	nb := 8 + r.Intn(22)
	if sc != nil && sc.nb > 0 {
		nb = sc.nb
	}
	// power assignment through a validator-set update in the first block
	var powers []int64
	if sc != nil && sc.powers != nil {
		powers = sc.powers
	} else {
		powers = c12PowerPools[r.Intn(len(c12PowerPools))]
		if r.Intn(3) == 0 { // shuffle which key gets which power
			powers = append([]int64{}, powers...)
			r.Shuffle(len(powers), func(i, j int) { powers[i], powers[j] = powers[j], powers[i] })
		}
	}
	now := t0
	var blocksC []string
	nt := false
	for b := 0; b < nb; b++ {
		height := h0 + int64(b)
		bctx := ctx.WithBlockHeight(height).WithBlockTime(now)
		blk := c12Block{Height: height, Time: timeZ(now).String()}
		var txs []c12Tx
		var scripted *c12ScriptBlock
		if sc != nil && b < len(sc.blocks) {
			scripted = &sc.blocks[b]
		}
		if scripted != nil && scripted.pre != nil {
			scripted.pre(bctx)
			st = h.dump(bctx)
		}
		if b == updBlock && updMsg != nil {
			handler := h.env.App.MsgServiceRouter().Handler(updMsg)
			uctx, write := bctx.CacheContext()
			if _, err := handler(uctx, updMsg); err != nil {
				h.w.Count("params-update.rejected")
				p = *setupP // the case is recorded with the params the chain really has
				g.p = p
			} else {
				write()
				h.w.Count("params-update.applied")
			}
			st = h.dump(bctx)
		}
		if scripted != nil && scripted.txs != nil {
			txs = scripted.txs(st, now)
		} else if scripted == nil {
			txs = g.genTxs(st, now)
		}
		var txC []string
		for i := range txs {
			t := &txs[i]
			tx, bz := h.buildTx(t, bctx.ChainID())
			t.Size = len(bz)
			adm, ok := h.deliver(bctx, tx, bz)
			t.Adm, t.OK = adm, ok
			after := h.dump(bctx)
			t.Changed = after.coq != st.coq
			afterC := "None"
			if t.Changed {
				afterC = "(Some " + c12ObsDiff(st, after) + ")"
			}
			var ms []string
			for _, m := range t.Msgs {
				ms = append(ms, m.coq())
			}
			pkOK := true
			for _, m := range t.Msgs {
				if m.Creator != t.PubKey {
					pkOK = false
				}
			}
			txC = append(txC, cTuple(cApp("mkTx", cList(ms), cZ(int64(t.Size)), cBool(pkOK), cBool(!t.BadSig)),
				cApp("mkTxObs", "None", cBool(adm), cBool(ok), afterC)))
			h.w.Count("tx.kind=" + t.Kind)
			switch {
			case !adm:
				h.w.Count("tx.result=not-admitted")
			case !ok:
				h.w.Count("tx.result=admitted-not-counted")
			default:
				h.w.Count("tx.result=counted")
				nt = true
			}
			if adm && ok && after.parts[0] != st.parts[0] {
				h.w.Count("tx.final-price-written")
			}
			st = after
		}
		blk.Txs = txs
		// validator-set update
		var ups []c12Upd
		if scripted != nil {
			ups = scripted.updates
		} else if b == 0 {
			for i, pw := range powers {
				ups = append(ups, c12Upd{i, pw})
			}
			for i := len(powers); i < h.nGenVal; i++ {
				ups = append(ups, c12Upd{i, 0})
			}
		} else if r.Intn(14) == 0 {
			ups = g.genUpdate(st)
		} else if r.Intn(3) == 0 {
			// boundary pool: a validator-set change in exactly the block in which a round opens
			for _, f := range p.Feeders {
				if uint64(height) >= f.Start && (f.End == 0 || uint64(height) < f.End) && (uint64(height)-f.Start)%f.Interval == 0 {
					ups = g.genUpdate(st)
					h.w.Count("block.valset-update@round-open")
					break
				}
			}
		}
		if len(ups) > 0 {
			h.w.Count("block.valset-update")
		}
		blk.Updates = ups
		before := st
		h.endBlock(bctx, height, ups)
		st = h.dump(bctx)
		if st.parts[0] != before.parts[0] {
			h.w.Count("block.price-carried-forward")
		}
		// senders that keep nonce rows although they are no longer validators stay silent in the bulk stream
		for v := range st.nonces {
			if _, isVal := st.vals[v]; !isVal {
				g.quiet[v] = true
			}
		}
		var upC []string
		for _, u := range ups {
			upC = append(upC, cTuple(cZ(int64(u.Val)), cZ(u.Power)))
		}
		blocksC = append(blocksC, cApp("mkBlock", cZ(height), cZ(c12Now(now)), cList(txC), cList(upC), c12ObsDiff(before, st)))
		cs.Blocks = append(cs.Blocks, blk)
		step := time.Duration(1+r.Intn(6)) * time.Second
		if r.Intn(3) == 0 {
			step += time.Duration(r.Intn(1_000_000_000))
		}
		now = now.Add(step)
	}
	cs.NT = nt
	cs.Final = ""
	if sc != nil && sc.paramsAfter != nil {
		p = sc.paramsAfter()
		cs.Params = p
	}
	term := cApp("mkCase", p.coq(), initCoq, cList(blocksC))
	h.w.Add(term, cs)
	h.w.Count(fmt.Sprintf("case.feeders=%d", len(p.Feeders)))
	h.w.Count(fmt.Sprintf("case.validators=%d", len(powers)))
}

func (g *c12Gen) genUpdate(st c12State) []c12Upd {
	r := g.h.rng
	var ups []c12Upd
	var ids []int
	for v := range st.vals {
		ids = append(ids, v)
	}
	sort.Ints(ids)
	switch r.Intn(4) {
	case 0: // change one power
		v := ids[r.Intn(len(ids))]
		ups = append(ups, c12Upd{v, st.vals[v] + int64(1+r.Intn(3))})
	case 1: // add a validator
		for c := 0; c < 8; c++ {
			if _, ok := st.vals[c]; !ok {
				ups = append(ups, c12Upd{c, int64(1 + r.Intn(50))})
				break
			}
		}
	case 2: // remove one (keep at least two)
		if len(ids) > 2 {
			v := ids[r.Intn(len(ids))]
			ups = append(ups, c12Upd{v, 0})
		} else {
			ups = append(ups, c12Upd{ids[0], st.vals[ids[0]] + 1})
		}
	default: // same powers again (still a forced seal)
		v := ids[r.Intn(len(ids))]
		ups = append(ups, c12Upd{v, st.vals[v]})
	}
	return ups
}

// genTxs: the bulk stream for one block.
func (g *c12Gen) genTxs(st c12State, now time.Time) []c12Tx {
	r := g.h.rng
	var txs []c12Tx
	var vals []int
	for v := range st.vals {
		vals = append(vals, v)
	}
	sort.Ints(vals)
	if len(vals) == 0 {
		return nil
	}
	var open []uint64
	for fid, rd := range st.rounds {
		if rd.Status == 1 {
			open = append(open, fid)
		}
	}
	sort.Slice(open, func(i, j int) bool { return open[i] < open[j] })
	n := r.Intn(2)
	if len(open) > 0 {
		n = 1 + r.Intn(5)
	}
	// local view of nonces so that several txs of one validator in one block stay consecutive
	local := c12State{rounds: st.rounds, nonces: map[int]map[uint64]uint32{}, vals: st.vals, dets: st.dets, sealed: st.sealed}
	for v, row := range st.nonces {
		local.nonces[v] = map[uint64]uint32{}
		for f, x := range row {
			local.nonces[v][f] = x
		}
	}
	for i := 0; i < n; i++ {
		v := vals[r.Intn(len(vals))]
		outsider := false
		if r.Intn(12) == 0 { // a sender that is not a validator
			for c := 8; c >= 0; c-- {
				if _, ok := st.vals[c]; !ok && !g.quiet[c] {
					v = c
					outsider = true
					break
				}
			}
		}
		if g.quiet[v] {
			continue
		}
		var fid uint64
		if len(open) > 0 && r.Intn(8) != 0 {
			fid = open[r.Intn(len(open))]
		} else {
			fid = g.p.Feeders[r.Intn(len(g.p.Feeders))].ID
		}
		m, ok := g.validMsg(local, v, fid, now, 0)
		if !ok {
			// no round object for this feeder: still send something shaped like a message
			m = c12Msg{Creator: v, Feeder: fid, Base: uint64(r.Intn(60)), Nonce: 1, Prices: []c12Source{{ID: 1, Prices: []c12Item{{Det: "1", Price: 100, Dec: 0, TS: c12TSOf(now)}}}}}
		}
		t := c12Tx{Msgs: []c12Msg{m}, PubKey: v, Kind: "valid"}
		if outsider {
			t.Kind = "outsider"
		}
		switch r.Intn(10) {
		case 0, 1, 2:
			t.Kind = g.mutate(&t.Msgs[0], local, now)
			if outsider {
				t.Kind = "outsider+" + t.Kind
			}
		case 3:
			switch r.Intn(4) {
			case 0:
				g.h.padTo(&t, 1000)
				t.Kind = "size=1000"
			case 1:
				g.h.padTo(&t, 1001)
				t.Kind = "size=1001"
			case 2:
				// public key of another key (and that key's valid signature)
				t.PubKey = (v + 1) % len(g.h.keys)
				t.Kind = "pubkey-mismatch"
			default:
				// two messages, the first one fails before touching the aggregator (wrong base block)
				m2, ok2 := g.validMsg(local, v, fid, now, 1)
				if ok2 {
					t.Msgs[0].Base += 3
					t.Msgs = append(t.Msgs, m2)
					t.Kind = "multi(bad-first)"
				}
			}
		case 4:
			// two messages for two different open feeders. Only as the first tx of a block (the observed state is
			// then exactly the state the tx runs in) and only with det-IDs that are new for this validator, so that
			// the second message cannot fail after the first one has been counted: the aggregator memory is not
			// rolled back when a tx fails (directed scenario kf-C13-memory-not-rolled-back covers that).
			if len(open) >= 2 && i == 0 && !outsider {
				f2 := open[(r.Intn(len(open)-1)+1+c12IndexOf(open, fid))%len(open)]
				if f2 != fid && !st.sealed[f2] && !st.sealed[fid] {
					m1, ok1 := g.freshMsg(local, v, fid, now)
					m2, ok2 := g.freshMsg(local, v, f2, now)
					if ok1 && ok2 {
						t.Msgs = []c12Msg{m1, m2}
						t.Kind = "multi(two-feeders)"
					}
				}
			}
		}
		// the generator's own bookkeeping: assume admission when the nonce was the next one
		if len(t.Msgs) == 1 || t.Kind == "multi(two-feeders)" {
			for _, mm := range t.Msgs {
				if row, ok := local.nonces[mm.Creator]; ok {
					if val, ok := row[mm.Feeder]; ok && int32(val)+1 == mm.Nonce && mm.Nonce <= g.p.MaxNonce && t.PubKey == mm.Creator && t.Kind != "size=1001" {
						row[mm.Feeder] = val + 1
					}
				}
			}
		}
		txs = append(txs, t)
	}
	return txs
}

func c12IndexOf(xs []uint64, x uint64) int {
	for i, y := range xs {
		if y == x {
			return i
		}
	}
	return 0
}

// ---- suite entry points -----------------------------------------------------------------------------------

func runC12(a *Args) error {
	h := c12NewH(a)
	defer h.w.Close()
	for _, sc := range h.directed() {
		sc := sc
		h.runCase(&sc)
	}
	for c := 0; c < a.N; c++ {
		h.runCase(nil)
	}
	return nil
}

// directed scenarios (known findings) come first; see s_c12_directed.go
