// exoharness drives the REAL exocore code (keepers, ante handlers, ABCI methods of a real
// ExocoreApp built from /repo's current working tree) on generated histories and writes, per case,
// one line that is a Coq term (the inputs/ops and what the implementation was observed to do) and
// one JSON line describing the same case for humans / replay files.
//
// usage: exoharness <suite> -seed N -n K -out DIR [-replay FILE] [-tier quick|thorough]
package main

import (
	"flag"
	"fmt"
	"os"
	"sort"
)

type Args struct {
	Seed   int64
	N      int
	Out    string
	Replay string
	Tier   string
}

type suiteFn func(a *Args) error

var suites = map[string]suiteFn{}

func register(name string, f suiteFn) { suites[name] = f }

func main() {
	if len(os.Args) < 2 {
		usage()
	}
	name := os.Args[1]
	f, ok := suites[name]
	if !ok {
		usage()
	}
	fs := flag.NewFlagSet(name, flag.ExitOnError)
	a := &Args{}
	fs.Int64Var(&a.Seed, "seed", 1, "PRNG seed")
	fs.IntVar(&a.N, "n", 100, "number of cases")
	fs.StringVar(&a.Out, "out", "", "output directory")
	fs.StringVar(&a.Replay, "replay", "", "replay file")
	fs.StringVar(&a.Tier, "tier", "quick", "tier")
	_ = fs.Parse(os.Args[2:])
	if a.Out == "" {
		fmt.Fprintln(os.Stderr, "-out required")
		os.Exit(2)
	}
	if err := os.MkdirAll(a.Out, 0o755); err != nil {
		panic(err)
	}
	if err := f(a); err != nil {
		fmt.Fprintln(os.Stderr, "harness error:", err)
		os.Exit(3)
	}
}

func usage() {
	names := []string{}
	for k := range suites {
		names = append(names, k)
	}
	sort.Strings(names)
	fmt.Fprintln(os.Stderr, "usage: exoharness <suite> -seed N -n K -out DIR; suites:", names)
	os.Exit(2)
}
