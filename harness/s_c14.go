package main

// Suite c14: oracle restart equivalence by TWIN EXECUTION on the real application.
//
// A history = a list of blocks; every block carries price submissions (driven through the real
// CreatePrice msg server after the real nonce check of the ante decorator), optionally a params update
// (real UpdateParams msg server) and a stake change (real assets/delegation keepers, so that dogfood emits
// validator updates at the next epoch end), followed by the real EndBlock/Commit/BeginBlock of the whole
// app. The history is first run continuously (never stopped) and everything observable is recorded after
// every block. Then, for every restart height r, the committed multistore is rolled back to version r, the
// oracle's process-local state is dropped with the verif hook (what a process exit does) and the remaining
// blocks r+1.. are executed again with the same inputs: that is the restarted twin. One case = one
// (history, restart height) pair: the observations of the never-stopped run and of the restarted twin.

import (
	"crypto/sha256"
	"encoding/binary"
	"encoding/json"
	"fmt"
	"math/rand"
	"os"
	"sort"
	"strings"
	"time"

	sdkmath "cosmossdk.io/math"
	abci "github.com/cometbft/cometbft/abci/types"
	"github.com/cosmos/cosmos-sdk/store/rootmulti"
	sdk "github.com/cosmos/cosmos-sdk/types"
	authtypes "github.com/cosmos/cosmos-sdk/x/auth/types"
	govtypes "github.com/cosmos/cosmos-sdk/x/gov/types"
	"github.com/ethereum/go-ethereum/common"

	exocoreapp "github.com/ExocoreNetwork/exocore/app"
	assetskeeper "github.com/ExocoreNetwork/exocore/x/assets/keeper"
	assetstypes "github.com/ExocoreNetwork/exocore/x/assets/types"
	delegationtypes "github.com/ExocoreNetwork/exocore/x/delegation/types"
	dogfoodtypes "github.com/ExocoreNetwork/exocore/x/dogfood/types"
	"github.com/ExocoreNetwork/exocore/x/oracle"
	exotx "github.com/ExocoreNetwork/exocore/testutil/tx"
	oraclekeeper "github.com/ExocoreNetwork/exocore/x/oracle/keeper"
	oracletypes "github.com/ExocoreNetwork/exocore/x/oracle/types"
)

func init() { register("c14", runC14) }

// ---- inputs ----------------------------------------------------------------------------------

type c14Price struct {
	Det   int64 `json:"det"`
	Price int64 `json:"price"`
}

type c14Tx struct {
	Val    int        `json:"val"` // validator index; >= number of validators = a non-validator key
	Feeder uint64     `json:"feeder"`
	Nonce  int32      `json:"nonce"`
	Based  uint64     `json:"based"`
	Prices []c14Price `json:"prices"`
	NS     int64      `json:"ns,omitempty"` // price reported for the non-deterministic source 2 (0 = the message has no such part)
}

type c14Block struct {
	Txs      []c14Tx `json:"txs"`
	DT       int64   `json:"dt"`        // seconds to the next block
	ParamUpd int     `json:"param_upd"` // 0 none, 1 add token+feeder 3, 2 stop feeder 2
	PURevert bool    `json:"pu_revert"` // the tx carrying the params update fails afterwards: its store writes are reverted
	Deposit  int     `json:"deposit"`   // operator index+1 receiving extra stake (0 = none)
	DepAmt   int64   `json:"dep_amt"`
	Undel    int     `json:"undel"`     // operator index+1 whose self-delegation is reduced (0 = none): below MinSelfDelegation dogfood removes the validator
	UndelAmt int64   `json:"undel_amt"`
}

// ---- observations ------------------------------------------------------------------------------

type c14Round struct {
	Token  uint64 `json:"token"`
	Next   uint64 `json:"next"`
	Latest string `json:"latest"`
}

type c14Obs struct {
	Height   int64                    `json:"height"`
	Codes    []int                    `json:"codes"`
	Rounds   []c14Round               `json:"rounds"`
	StoreDig uint64                   `json:"store_dig"`
	AppHash  uint64                   `json:"app_hash"`
	MemDig   uint64                   `json:"mem_dig"` // digest of the normalised memory dump after BeginBlock(height+1)
	VU       int                      `json:"vu"`      // number of validator updates seen by oracle EndBlock
	MsgIdx   []uint64                 `json:"msg_idx"`
	ParIdx   []uint64                 `json:"par_idx"`
	VUB      uint64                   `json:"vub"`
	ParBlks  []uint64                 `json:"par_blks"` // blocks that really have a RecentParams record
	Vals     [][2]int64               `json:"vals"`     // dogfood validator set (index, power)
	Nonces   [][]int64                `json:"nonces"`   // flattened (validator, feeder, value)
	Panic    bool                     `json:"panic"`
	Px       []string                 `json:"px"`     // GetSpecifiedAssetsPrice for every asset id registered in the stored params
	PxDig    uint64                   `json:"px_dig"`
	Fins     [][]uint64               `json:"fins"`    // (feeder, based) finalised by a tx of this block
	Counted  [][]uint64               `json:"counted"` // (validator, feeder, based) accepted, non-final messages of this block
	Mem      oraclekeeper.VerifC14Mem `json:"-"`
	MemTxt   string                   `json:"-"`
}

func c14Dig(b []byte) uint64 {
	h := sha256.Sum256(b)
	return binary.BigEndian.Uint64(h[:8]) >> 4 // 60 bits
}

// ---- the world ---------------------------------------------------------------------------------

type c14World struct {
	env     *Env
	nVal    int
	creator []string // bech32 acc-form of the consensus address, per key index (validators first, then outsiders)
	cons    []string // consensus address string per key index
	ts      string
	ms      oracletypes.MsgServer
	lzNonce uint64
}

type c14Cfg struct {
	Deposits  []int64
	Intervals [2]uint64
	Starts    [2]uint64
	MaxNonce  int32
	ChainID   string `json:",omitempty"` // "" = the default (mainnet-type) chain id
	NS        uint64 `json:",omitempty"` // feeder id whose rule demands the deterministic source 1 AND a non-deterministic source 2 (0 = chainlink-only params)
}

func c14NewWorld(cfg c14Cfg) *c14World {
	ops := make([]OperatorCfg, len(cfg.Deposits))
	for i, d := range cfg.Deposits {
		ops[i] = OperatorCfg{Deposit: d}
	}
	oracle.VerifC14Restart()
	env := NewEnv(EnvCfg{ChainID: cfg.ChainID, Operators: ops, MutGenesis: func(app *exocoreapp.ExocoreApp, gs map[string]json.RawMessage) {
		var og oracletypes.GenesisState
		app.AppCodec().MustUnmarshalJSON(gs[oracletypes.ModuleName], &og)
		for i := 0; i < 2; i++ {
			og.Params.TokenFeeders[i+1].Interval = cfg.Intervals[i]
			og.Params.TokenFeeders[i+1].StartBaseBlock = cfg.Starts[i]
			og.Params.TokenFeeders[i+1].StartRoundID = 2 // in step with the genesis price list (NextRoundID = 2)
		}
		if cfg.MaxNonce > 0 {
			og.Params.MaxNonce = cfg.MaxNonce
		}
		if cfg.NS != 0 {
			// legal, non-default params: a second, NON-deterministic source; rule 2 = {1, 2} for feeder cfg.NS, rule 3 = {1} for
			// the others (the default rule {0} = "all valid sources" would change meaning with a second valid source)
			og.Params.Sources = append(og.Params.Sources, &oracletypes.Source{Name: "dex spot", Entry: &oracletypes.Endpoint{Offchain: map[uint64]string{0: ""}}, Valid: true, Deterministic: false})
			og.Params.Rules = append(og.Params.Rules, &oracletypes.RuleSource{SourceIDs: []uint64{1, 2}}, &oracletypes.RuleSource{SourceIDs: []uint64{1}})
			for i := 1; i < len(og.Params.TokenFeeders); i++ {
				og.Params.TokenFeeders[i].RuleID = 3
			}
			og.Params.TokenFeeders[cfg.NS].RuleID = 2
		}
		gs[oracletypes.ModuleName] = app.AppCodec().MustMarshalJSON(&og)
		var dg dogfoodtypes.GenesisState
		app.AppCodec().MustUnmarshalJSON(gs[dogfoodtypes.ModuleName], &dg)
		dg.Params.EpochIdentifier = "minute"
		gs[dogfoodtypes.ModuleName] = app.AppCodec().MustMarshalJSON(&dg)
	}})
	w := &c14World{env: env, nVal: len(cfg.Deposits), ts: env.InitTime.UTC().Format("2006-01-02 15:04:05")}
	for i := 0; i < len(cfg.Deposits); i++ {
		ca := env.ConsKeys[i].ToConsAddr()
		w.cons = append(w.cons, ca.String())
		w.creator = append(w.creator, sdk.AccAddress(ca).String())
	}
	_, outsider := DetConsKey("c14outsider", 0)
	w.cons = append(w.cons, outsider.ToConsAddr().String())
	w.creator = append(w.creator, sdk.AccAddress(outsider.ToConsAddr()).String())
	w.ms = oraclekeeper.NewMsgServerImpl(env.App.OracleKeeper)
	return w
}

func (w *c14World) decimalOf(feeder uint64) int32 {
	p := w.env.App.OracleKeeper.GetParams(w.env.Ctx)
	if int(feeder) < len(p.TokenFeeders) {
		t := p.TokenFeeders[feeder].TokenID
		if int(t) < len(p.Tokens) {
			return p.Tokens[t].Decimal
		}
	}
	return 0
}

func (w *c14World) msgOf(tx c14Tx) *oracletypes.MsgCreatePrice {
	dec := w.decimalOf(tx.Feeder)
	ps := &oracletypes.PriceSource{SourceID: 1, Desc: "-"}
	for _, p := range tx.Prices {
		ps.Prices = append(ps.Prices, &oracletypes.PriceTimeDetID{
			Price: fmt.Sprintf("%d", p.Price), Decimal: dec, Timestamp: w.ts, DetID: fmt.Sprintf("%d", p.Det),
		})
	}
	srcs := []*oracletypes.PriceSource{ps}
	if tx.NS != 0 {
		srcs = append(srcs, &oracletypes.PriceSource{SourceID: 2, Desc: "-", Prices: []*oracletypes.PriceTimeDetID{{Price: fmt.Sprintf("%d", tx.NS), Decimal: dec, Timestamp: w.ts}}})
	}
	return &oracletypes.MsgCreatePrice{Creator: w.creator[tx.Val], FeederID: tx.Feeder, Prices: srcs, BasedBlock: tx.Based, Nonce: tx.Nonce}
}

// deliver emulates DeliverTx of a fee-less create-price tx: the ante chain's nonce decorator in its own cache
// (persisted when it passes, also when the message fails afterwards), then the message in a second cache that
// is written only on success. Result classes: 0 ok, 1 nonce rejected, 2 invalid msg, 3 ignored, 4 format, 5 other, 9 panic.
func (w *c14World) deliver(tx c14Tx) (code int) {
	ctx := w.env.Ctx
	k := w.env.App.OracleKeeper
	defer func() {
		if r := recover(); r != nil {
			code = 9
		}
	}()
	ac, awrite := ctx.CacheContext()
	if _, err := k.CheckAndIncreaseNonce(ac, w.cons[tx.Val], tx.Feeder, uint32(tx.Nonce)); err != nil {
		return 1
	}
	awrite()
	mc, mwrite := ctx.CacheContext()
	_, err := w.ms.CreatePrice(sdk.WrapSDKContext(mc), w.msgOf(tx))
	if err != nil {
		switch {
		case oracletypes.ErrInvalidMsg.Is(err):
			return 2
		case oracletypes.ErrPriceProposalIgnored.Is(err):
			return 3
		case oracletypes.ErrPriceProposalFormatInvalid.Is(err):
			return 4
		}
		return 5
	}
	mwrite()
	return 0
}

func (w *c14World) paramUpdate(kind int, revert bool) (code int) {
	ctx := w.env.Ctx
	defer func() {
		if r := recover(); r != nil {
			code = 9
		}
	}()
	h := uint64(ctx.BlockHeight())
	var p oracletypes.Params
	switch kind {
	case 1:
		p.Tokens = []*oracletypes.Token{{Name: "TKC", ChainID: 1, ContractAddress: "0xc", Decimal: 8, Active: true, AssetID: ""}}
		cur := w.env.App.OracleKeeper.GetParams(ctx)
		p.TokenFeeders = []*oracletypes.TokenFeeder{{TokenID: 3, RuleID: 1, StartRoundID: 1, StartBaseBlock: h + 2, Interval: uint64(2 * cur.MaxNonce)}}
	case 2:
		p.TokenFeeders = []*oracletypes.TokenFeeder{{TokenID: 2, EndBlock: h + 4}}
	case 4, 5:
		// token registration as the assets gateway does it (RegisterNewTokenAndSetTokenFeeder): 4 = a new token (new feeder
		// starting 10 blocks later), 5 = an EXISTING token name + chain with a new asset id (only the asset id is bound)
		oi := oracletypes.OracleInfo{}
		oi.Chain.Name, oi.Chain.Desc = "Ethereum", "-"
		if kind == 4 {
			oi.Token.Name, oi.Token.Decimal, oi.Token.Contract = "TKR", "8", "0xr"
			oi.AssetID = fmt.Sprintf("0xc14aaa00000000000000000000000000000000%02x_0x65", h%200)
			oi.Feeder.Interval = "8"
		} else {
			oi.Token.Name, oi.Token.Decimal, oi.Token.Contract = "ETH", "18", "0x"
			oi.AssetID = fmt.Sprintf("0xc14bbb00000000000000000000000000000000%02x_0x65", h%200)
		}
		mc, mwrite := ctx.CacheContext()
		if err := w.env.App.OracleKeeper.RegisterNewTokenAndSetTokenFeeder(mc, &oi); err != nil {
			return 5
		}
		if revert {
			return 7
		}
		mwrite()
		return 0
	default:
		p.MaxSizePrices = 50
	}
	mc, mwrite := ctx.CacheContext()
	_, err := w.ms.UpdateParams(sdk.WrapSDKContext(mc), &oracletypes.MsgUpdateParams{
		Authority: authtypes.NewModuleAddress(govtypes.ModuleName).String(), Params: p,
	})
	if err != nil {
		return 5
	}
	if revert {
		return 7 // a later message of the same tx failed: baseapp drops the tx' cache, nothing is written
	}
	mwrite()
	return 0
}

func (w *c14World) deposit(op int, amt int64) (code int) {
	ctx := w.env.Ctx
	defer func() {
		if r := recover(); r != nil {
			code = 9
		}
	}()
	staker := common.Address(w.env.Operators[op].Bytes())
	asset := common.HexToAddress(w.env.AssetAddr)
	a := sdkmath.NewIntWithDecimal(amt, 6)
	mc, mwrite := ctx.CacheContext()
	if err := w.env.App.AssetsKeeper.PerformDepositOrWithdraw(mc, &assetskeeper.DepositWithdrawParams{
		ClientChainLzID: w.env.LzID, Action: assetstypes.DepositLST, StakerAddress: staker.Bytes(), AssetsAddress: asset.Bytes(), OpAmount: a,
	}); err != nil {
		return 5
	}
	hh := uint64(ctx.BlockHeight())
	if err := w.env.App.DelegationKeeper.DelegateTo(mc, &delegationtypes.DelegationOrUndelegationParams{
		ClientChainID: w.env.LzID, Action: assetstypes.DelegateTo, AssetsAddress: asset.Bytes(), OperatorAddress: w.env.Operators[op],
		StakerAddress: staker.Bytes(), OpAmount: a, LzNonce: 100000 + hh, TxHash: common.BytesToHash(seedBytes("c14dep", int(hh))),
	}); err != nil {
		return 5
	}
	mwrite()
	return 0
}

// undelegate reduces an operator's self-delegation through the real delegation keeper. When the remaining value falls
// below the dogfood MinSelfDelegation the operator leaves the validator set at the next epoch end: a validator update
// that consists of a removal only.
func (w *c14World) undelegate(op int, amt int64) (code int) {
	ctx := w.env.Ctx
	defer func() {
		if r := recover(); r != nil {
			code = 9
		}
	}()
	staker := common.Address(w.env.Operators[op].Bytes())
	asset := common.HexToAddress(w.env.AssetAddr)
	a := sdkmath.NewIntWithDecimal(amt, 6)
	mc, mwrite := ctx.CacheContext()
	// nonce / tx hash are functions of the height: the restarted twin re-executes the block with identical inputs
	hh := uint64(ctx.BlockHeight())
	if err := w.env.App.DelegationKeeper.UndelegateFrom(mc, &delegationtypes.DelegationOrUndelegationParams{
		ClientChainID: w.env.LzID, Action: assetstypes.UndelegateFrom, AssetsAddress: asset.Bytes(), OperatorAddress: w.env.Operators[op],
		StakerAddress: staker.Bytes(), OpAmount: a, LzNonce: 500000 + hh, TxHash: common.BytesToHash(seedBytes("c14undel", int(hh))),
	}); err != nil {
		return 5
	}
	mwrite()
	return 0
}

// simulateUpdateParams makes THIS node answer a gas-estimation request (baseapp Simulate, the path of the simulate RPC) for
// a signed MsgUpdateParams of an ordinary funded account. On a chain id that is not mainnet-type the handler does not
// check the authority, so the message executes - on the check state, whose writes are dropped. Nothing of it may leak
// into the node's consensus behaviour. Returns a class: 0 simulated ok, 1 simulation returned an error, 9 panic.
func (w *c14World) simulateUpdateParams() (code int) {
	defer func() {
		if r := recover(); r != nil {
			code = 9
		}
	}()
	ctx := w.env.Ctx
	h := uint64(ctx.BlockHeight())
	cur := w.env.App.OracleKeeper.GetParams(ctx)
	var p oracletypes.Params
	p.Tokens = []*oracletypes.Token{{Name: "TKS", ChainID: 1, ContractAddress: "0xs", Decimal: 8, Active: true, AssetID: ""}}
	p.TokenFeeders = []*oracletypes.TokenFeeder{{TokenID: uint64(len(cur.Tokens)), RuleID: 1, StartRoundID: 1, StartBaseBlock: h + 1, Interval: uint64(2 * cur.MaxNonce)}}
	msg := &oracletypes.MsgUpdateParams{Authority: sdk.AccAddress(w.env.AccAddrs[0].Bytes()).String(), Params: p}
	txCfg := w.env.App.GetTxConfig()
	tx, err := exotx.PrepareCosmosTx(ctx, w.env.App, exotx.CosmosTxArgs{TxCfg: txCfg, Priv: w.env.AccPrivs[0], ChainID: w.env.ChainID, Gas: 500000, Msgs: []sdk.Msg{msg}})
	if err != nil {
		return 8
	}
	bz, err := txCfg.TxEncoder()(tx)
	if err != nil {
		return 8
	}
	if _, _, err := w.env.App.Simulate(bz); err != nil {
		if os.Getenv("C14_DEBUG") != "" {
			fmt.Fprintln(os.Stderr, "simulate:", err)
		}
		return 1
	}
	return 0
}

// observeCommitted records everything observable about the oracle after Commit(height) (store) — called with
// env already inside block height+1 (BeginBlock done), where the deliver state still equals the committed one
// for the oracle store (oracle BeginBlock writes nothing).
func (w *c14World) observe(height int64, codes []int, vu int) c14Obs {
	o := c14Obs{Height: height, Codes: append([]int{}, codes...), VU: vu}
	ctx := w.env.Ctx
	k := w.env.App.OracleKeeper
	st := ctx.KVStore(w.env.App.GetKey(oracletypes.StoreKey))
	it := st.Iterator(nil, nil)
	h := sha256.New()
	for ; it.Valid(); it.Next() {
		var l [8]byte
		binary.BigEndian.PutUint64(l[:], uint64(len(it.Key())))
		h.Write(l[:])
		h.Write(it.Key())
		binary.BigEndian.PutUint64(l[:], uint64(len(it.Value())))
		h.Write(l[:])
		h.Write(it.Value())
	}
	it.Close()
	sum := h.Sum(nil)
	o.StoreDig = binary.BigEndian.Uint64(sum[:8]) >> 4
	for t := uint64(1); t <= 3; t++ {
		r := c14Round{Token: t, Next: k.GetNextRoundID(ctx, t)}
		if p, ok := k.GetPriceTRLatest(ctx, t); ok {
			r.Latest = p.Price
		}
		o.Rounds = append(o.Rounds, r)
	}
	if idx, ok := k.GetIndexRecentMsg(ctx); ok {
		o.MsgIdx = append(o.MsgIdx, idx.Index...)
	}
	if idx, ok := k.GetIndexRecentParams(ctx); ok {
		o.ParIdx = append(o.ParIdx, idx.Index...)
	}
	if v, ok := k.GetValidatorUpdateBlock(ctx); ok {
		o.VUB = v.Block
	}
	for _, rp := range k.GetAllRecentParams(ctx) {
		o.ParBlks = append(o.ParBlks, rp.Block)
	}
	o.Vals = w.valSet()
	for i := 0; i < w.nVal; i++ {
		if n, ok := k.GetNonce(ctx, w.cons[i]); ok {
			for _, it := range n.NonceList {
				o.Nonces = append(o.Nonces, []int64{int64(i), int64(it.FeederID), int64(it.Value)})
			}
		}
	}
	// what other modules get when they ask the oracle for a price (reads the IN-MEMORY params when an aggregator exists)
	if pp := k.GetParams(ctx); true {
		for _, t := range pp.Tokens {
			for _, aid := range strings.Split(t.AssetID, ",") {
				if aid == "" {
					continue
				}
				pr, err := k.GetSpecifiedAssetsPrice(ctx, aid)
				cls := "ok"
				if err != nil {
					cls = "err"
					if oracletypes.ErrGetPriceAssetNotFound.Is(err) {
						cls = "notfound"
					} else if oracletypes.ErrGetPriceRoundNotFound.Is(err) {
						cls = "noround"
					}
				}
				o.Px = append(o.Px, fmt.Sprintf("%s=%s/%d/%s", aid, pr.Value.String(), pr.Decimal, cls))
			}
		}
	}
	o.PxDig = c14Dig([]byte(strings.Join(o.Px, ";")))
	o.AppHash = c14Dig(w.env.App.LastCommitID().Hash)
	o.Mem = oraclekeeper.VerifC14DumpMem()
	expired := map[uint64]bool{}
	if pp := k.GetParams(ctx); true {
		for fid, f := range pp.TokenFeeders {
			if f.EndBlock > 0 && f.EndBlock <= uint64(height) {
				expired[uint64(fid)] = true
			}
		}
	}
	o.MemTxt = c14NormMem(o.Mem, expired)
	o.MemDig = c14Dig([]byte(o.MemTxt))
	return o
}

// c14NormMem renders the behaviourally relevant part of the memory dump: everything except the filter's nonce
// sets (a live node holds the real nonces, a recached one holds zeros; the ante nonce check in the store is what
// admits messages - theorem C14_lockstep), closed rounds of ended feeders, and pointer/capacity artefacts.
func c14NormMem(m oraclekeeper.VerifC14Mem, expired map[uint64]bool) string {
	var sb strings.Builder
	a := m.Agc
	fmt.Fprintf(&sb, "nil=%v params=%s total=%s g=%d,%d,%d,%d,%d\n", a.Nil, a.ParamsHash, a.TotalPower, m.MaxNonce, m.ThresholdA, m.ThresholdB, m.MaxDetID, m.Mode)
	for _, v := range a.Validators {
		fmt.Fprintf(&sb, "v %s %s\n", v.Price, v.Power)
	}
	for _, r := range a.Rounds {
		if r.Status == 2 && expired[r.FeederID] {
			// a live node keeps the closed round of a feeder that has ended, a rebuilt one has no entry: every reader
			// (checkMsg, SealRound, PrepareRoundEndBlock) treats "closed" and "absent" alike for an ended feeder
			continue
		}
		fmt.Fprintf(&sb, "r %d %d %d %d\n", r.FeederID, r.BasedBlock, r.NextRoundID, r.Status)
	}
	for _, wk := range a.Workers {
		fmt.Fprintf(&sb, "w %d sealed=%v price=%s f=%v a=%v fin=%s rp=%s tp=%s ct=%s cl=%d\n", wk.FeederID, wk.Sealed, wk.Price, wk.HasFilter, wk.HasAgg, wk.FinalPrice, wk.ReportPower, wk.TotalPower, wk.CalcTotal, wk.CalcValLen)
		for _, s := range wk.Seen {
			fmt.Fprintf(&sb, " seen %s %v\n", s.K, s.V)
		}
		for _, c := range wk.Calc {
			for _, r := range c.Rounds {
				fmt.Fprintf(&sb, " calc %d %s conf=%s %v\n", c.SourceID, r.DetID, r.Confirmed, r.Prices)
			}
		}
		for _, r := range wk.Reports {
			fmt.Fprintf(&sb, " rep %s %s %s %v\n", r.Validator, r.Power, r.Price, r.Slots)
		}
		for _, d := range wk.DsPrices {
			fmt.Fprintf(&sb, " ds %s %v\n", d.K, d.V)
		}
	}
	c := m.Cache
	fmt.Fprintf(&sb, "cache nil=%v msgs=%d vup=%v pup=%v params=%s\n", c.Nil, len(c.Msgs), c.ValUpdate, c.ParamsUpdate, c.ParamsHash)
	for _, v := range c.Validators {
		fmt.Fprintf(&sb, "cv %s %s\n", v.Addr, v.Power)
	}
	fmt.Fprintf(&sb, "upd %v\n", m.UpdatedFeederIDs)
	return sb.String()
}

// runBlock executes the transactions of the current block and moves to the next one.
func (w *c14World) runBlock(b c14Block) c14Obs {
	height := w.env.Header.Height
	var codes []int
	var fins, counted [][]uint64
	for _, tx := range b.Txs {
		tok := uint64(0)
		if p := w.env.App.OracleKeeper.GetParams(w.env.Ctx); int(tx.Feeder) < len(p.TokenFeeders) {
			tok = p.TokenFeeders[tx.Feeder].TokenID
		}
		before := w.env.App.OracleKeeper.GetNextRoundID(w.env.Ctx, tok)
		c := w.deliver(tx)
		codes = append(codes, c)
		if c == 0 {
			if w.env.App.OracleKeeper.GetNextRoundID(w.env.Ctx, tok) != before {
				fins = append(fins, []uint64{tx.Feeder, tx.Based})
			} else {
				counted = append(counted, []uint64{uint64(tx.Val), tx.Feeder, tx.Based})
			}
		}
	}
	if b.ParamUpd != 0 {
		codes = append(codes, 100+w.paramUpdate(b.ParamUpd, b.PURevert))
	}
	if b.Deposit != 0 {
		codes = append(codes, 200+w.deposit(b.Deposit-1, b.DepAmt))
	}
	if b.Undel != 0 {
		codes = append(codes, 300+w.undelegate(b.Undel-1, b.UndelAmt))
	}
	crashed := false
	func() {
		defer func() {
			if rec := recover(); rec != nil {
				crashed = true
			}
		}()
		w.env.NextBlock(time.Duration(b.DT) * time.Second)
	}()
	if crashed { // EndBlock/Commit/BeginBlock panicked: on a real node the chain halts here
		return c14Obs{Height: height, Codes: codes, Panic: true}
	}
	vu := len(w.env.App.StakingKeeper.GetValidatorUpdates(w.env.Ctx))
	o := w.observe(height, codes, vu)
	o.Fins, o.Counted = fins, counted
	return o
}

// restartAt rolls the multistore back to version r (all later versions are deleted), drops the oracle's
// process-local state and begins block r+1 with the header the continuous run used.
func (w *c14World) restartAt(r int64, hdr abci.RequestBeginBlock) (panicked bool, err error) {
	rs, ok := w.env.App.CommitMultiStore().(*rootmulti.Store)
	if !ok {
		return false, fmt.Errorf("commit multistore is not rootmulti")
	}
	// the app is inside a begun block: commit it so that baseapp drops its deliver state (which wraps the old
	// store objects); the version created here is deleted by the rollback right away.
	w.env.App.Commit()
	if err := rs.RollbackToVersion(r); err != nil {
		return false, err
	}
	oracle.VerifC14Restart()
	func() {
		defer func() {
			if rec := recover(); rec != nil {
				panicked = true
			}
		}()
		w.env.App.BeginBlock(hdr)
	}()
	w.env.Header = hdr.Header
	w.env.Ctx = w.env.App.BaseApp.NewContext(false, hdr.Header)
	return panicked, nil
}

// valSet returns the dogfood validator set as (index, power), sorted by index.
func (w *c14World) valSet() [][2]int64 {
	var out [][2]int64
	for _, v := range w.env.App.StakingKeeper.GetAllExocoreValidators(w.env.Ctx) {
		ca := sdk.ConsAddress(v.Address).String()
		idx := int64(-1)
		for i, c := range w.cons {
			if c == ca {
				idx = int64(i)
			}
		}
		out = append(out, [2]int64{idx, v.Power})
	}
	sort.Slice(out, func(i, j int) bool { return out[i][0] < out[j][0] })
	return out
}

// ---- generator ---------------------------------------------------------------------------------

type c14Hist struct {
	Cfg    c14Cfg     `json:"cfg"`
	Blocks []c14Block `json:"blocks"` // Blocks[i] is executed in block height i+1
	Tags   []string   `json:"-"`
}

// genBlock generates the submissions of the current block from the live store/params (mostly valid) —
// only the continuous run generates; twins replay the recorded inputs verbatim.
func (w *c14World) genBlock(rng *rand.Rand, wr *CaseWriter, style int) c14Block {
	ctx := w.env.Ctx
	k := w.env.App.OracleKeeper
	h := uint64(ctx.BlockHeight())
	p := k.GetParams(ctx)
	b := c14Block{DT: 20}
	if rng.Intn(6) == 0 {
		b.DT = 1
	}
	for fid := 1; fid < len(p.TokenFeeders); fid++ {
		f := p.TokenFeeders[fid]
		if f.StartBaseBlock >= h || f.Interval == 0 {
			continue
		}
		delta := (h - 1) - f.StartBaseBlock
		based := (h - 1) - delta%f.Interval
		left := h - based // 1.. ; window is left <= MaxNonce
		round := f.StartRoundID + delta/f.Interval
		inWindow := left <= uint64(p.MaxNonce)
		if !inWindow && rng.Intn(8) != 0 {
			continue
		}
		agreed := int64(100 + round%7)
		if fid == 1 { // token 1 prices the staked asset: keep it almost constant so that voting power rarely moves
			agreed = int64(1 + (round/5)%2)
		}
		order := rng.Perm(w.nVal)
		for _, v := range order {
			prob := 45
			if style == 1 {
				prob = 75
			}
			if rng.Intn(100) >= prob {
				continue
			}
			nsub := 1
			if rng.Intn(5) == 0 {
				nsub = 2
			}
			for s := 0; s < nsub; s++ {
				tx := c14Tx{Val: v, Feeder: uint64(fid), Based: based}
				nonce := int32(1)
				hasRow := false
				if n, ok := k.GetNonce(ctx, w.cons[v]); ok {
					for _, it := range n.NonceList {
						if it.FeederID == uint64(fid) {
							nonce = int32(it.Value) + 1 + int32(s)
							hasRow = true
						}
					}
				}
				if !hasRow && rng.Intn(6) != 0 {
					continue // round already decided / not open for this validator: mostly do not bother
				}
				tx.Nonce = nonce
				switch rng.Intn(12) {
				case 0:
					tx.Nonce += int32(rng.Intn(3)) - 1
				case 1:
					tx.Based += uint64(rng.Intn(3)) - 1
				}
				np := 1 + rng.Intn(2)
				if rng.Intn(10) == 0 {
					np = 1 + rng.Intn(5)
				}
				for i := 0; i < np; i++ {
					det := int64(round*10) + int64(rng.Intn(3))
					pr := agreed + det%10
					if fid == 1 {
						pr = agreed
					}
					if rng.Intn(8) == 0 {
						pr += int64(rng.Intn(3)) - 1
					}
					tx.Prices = append(tx.Prices, c14Price{Det: det, Price: pr})
				}
				if int(f.RuleID) < len(p.Rules) && len(p.Rules[f.RuleID].SourceIDs) == 2 && (h+uint64(v)+uint64(s))%7 != 0 {
					// the feeder's rule also demands the non-deterministic source: validators report DIFFERENT prices there (no
					// rng draw: the deterministic-source part of every history stays what it was); 1 in 7 omits it (rejected)
					tx.NS = 200 + 100*int64(v) + int64(round%3)
				}
				b.Txs = append(b.Txs, tx)
				wr.Count("tx")
			}
		}
	}
	if rng.Intn(25) == 0 {
		b.Txs = append(b.Txs, c14Tx{Val: w.nVal, Feeder: 1, Nonce: 1, Based: h - 1, Prices: []c14Price{{Det: 1, Price: 5}}})
		wr.Count("tx_outsider")
	}
	return b
}

func c14Cfgs(rng *rand.Rand) c14Cfg {
	deps := [][]int64{{101, 100}, {101, 100, 100}, {100, 100, 100}, {200, 100, 100, 100}, {150, 150, 100}}
	mn := int32(3)
	switch rng.Intn(6) {
	case 0:
		mn = 2
	case 1:
		mn = 4
	}
	return c14Cfg{
		Deposits:  deps[rng.Intn(len(deps))],
		Intervals: [2]uint64{uint64(2*int(mn) + rng.Intn(3)), uint64(2*int(mn) + rng.Intn(5))},
		Starts:    [2]uint64{uint64(1 + rng.Intn(3)), uint64(1 + rng.Intn(6))},
		MaxNonce:  mn,
	}
}

// ---- Coq rendering ------------------------------------------------------------------------------

func c14OZ(s string) string {
	if s == "" || s == "nil" {
		return "None"
	}
	return "(Some " + cZstr(s) + ")"
}

func c14Pairs(ps [][2]int64) string {
	xs := make([]string, len(ps))
	for i, p := range ps {
		xs[i] = cTuple(cZ(p[0]), cZ(p[1]))
	}
	return cList(xs)
}

func (tx c14Tx) coq() string {
	ps := make([][2]int64, len(tx.Prices))
	for i, p := range tx.Prices {
		ps[i] = [2]int64{p.Det, p.Price}
	}
	return cApp("mkTx", cZ(int64(tx.Val)), cZ(int64(tx.Feeder)), cZ(int64(tx.Nonce)), cZ(int64(tx.Based)), c14Pairs(ps))
}

func (w *c14World) idxOf(addr string) int64 {
	for i := range w.cons {
		if w.cons[i] == addr || w.creator[i] == addr || w.creator[i]+"1" == addr {
			return int64(i)
		}
	}
	return -1
}

func (w *c14World) memProj(m oraclekeeper.VerifC14Mem) string {
	a := m.Agc
	var vals [][2]int64
	for _, v := range a.Validators {
		var pw int64
		fmt.Sscan(v.Power, &pw)
		vals = append(vals, [2]int64{w.idxOf(v.Price), pw})
	}
	sort.Slice(vals, func(i, j int) bool { return vals[i][0] < vals[j][0] })
	var rounds []string
	for _, r := range a.Rounds {
		rounds = append(rounds, cTuple(cZ(int64(r.FeederID)), cTuple(cZ(int64(r.BasedBlock)), cTuple(cZ(int64(r.NextRoundID)), cBool(r.Status == 1)))))
	}
	var workers []string
	for _, wk := range a.Workers {
		type kv struct {
			k int64
			v string
		}
		var seen []kv
		for _, s := range wk.Seen {
			if len(s.V) == 0 {
				continue
			}
			ds := make([]string, len(s.V))
			for i, d := range s.V {
				ds[i] = cZstr(d)
			}
			seen = append(seen, kv{w.idxOf(s.K), cList(ds)})
		}
		sort.Slice(seen, func(i, j int) bool { return seen[i].k < seen[j].k })
		seenS := make([]string, len(seen))
		for i, s := range seen {
			seenS[i] = cTuple(cZ(s.k), s.v)
		}
		var calc []string
		for _, c := range wk.Calc {
			if c.SourceID != 1 {
				continue
			}
			for _, r := range c.Rounds {
				pp := make([]string, len(r.Prices))
				for i, x := range r.Prices {
					pp[i] = cTuple(cZstr(x.Price), cZstr(x.Power))
				}
				calc = append(calc, cTuple(cZstr(r.DetID), cTuple(c14OZ(r.Confirmed), cList(pp))))
			}
		}
		var reps []string
		for _, r := range wk.Reports {
			slot := "None"
			for _, sl := range r.Slots {
				if sl.SourceID == 1 {
					slot = c14OZ(sl.Price)
				}
			}
			reps = append(reps, cTuple(cZ(w.idxOf(r.Validator)), cTuple(cZstr(r.Power), slot)))
		}
		ds := "None"
		for _, d := range wk.DsPrices {
			if d.K == "1" && len(d.V) == 1 {
				ds = c14OZ(d.V[0])
			}
		}
		z := func(s string) string {
			if s == "" || s == "nil" {
				return "0%Z"
			}
			return cZstr(s)
		}
		workers = append(workers, cTuple(cZ(int64(wk.FeederID)), cApp("mkWP", cBool(wk.Sealed), cList(seenS), cList(calc), cList(reps),
			z(wk.ReportPower), ds, z(wk.CalcTotal), cZ(int64(wk.CalcValLen)))))
	}
	return cApp("mkMP", c14Pairs(vals), cList(rounds), cList(workers), cZ(int64(len(m.Cache.Msgs))), cBool(m.Cache.ValUpdate))
}

func c14Rounds(rs []c14Round, maxTok uint64) string {
	var xs []string
	for _, r := range rs {
		if r.Token > maxTok {
			continue
		}
		xs = append(xs, cTuple(cZ(int64(r.Token)), cTuple(cZ(int64(r.Next)), c14OZ(r.Latest))))
	}
	return cList(xs)
}

func (o c14Obs) storeProj() string {
	// nonce rows grouped by validator
	var rows []string
	for i := 0; i < len(o.Nonces); {
		j := i
		var row []string
		for ; j < len(o.Nonces) && o.Nonces[j][0] == o.Nonces[i][0]; j++ {
			row = append(row, cTuple(cZ(o.Nonces[j][1]), cZ(o.Nonces[j][2])))
		}
		rows = append(rows, cTuple(cZ(o.Nonces[i][0]), cList(row)))
		i = j
	}
	idx := make([]string, len(o.MsgIdx))
	for i, b := range o.MsgIdx {
		idx[i] = cZ(int64(b))
	}
	return cApp("mkSP", c14Rounds(o.Rounds, 2), cList(rows), cList(idx), cOpt(o.VUB != 0, cZ(int64(o.VUB))))
}

func (o c14Obs) coq() string {
	cs := make([]string, len(o.Codes))
	for i, c := range o.Codes {
		cs[i] = cZ(int64(c))
	}
	return cApp("mkObs", cZ(o.Height), cList(cs), c14Rounds(o.Rounds, 99), cZ(int64(o.StoreDig)), cZ(int64(o.AppHash)), cZ(int64(o.MemDig)), cZ(int64(o.PxDig)), cBool(o.Panic))
}

func c14ObsList(os []c14Obs) string {
	xs := make([]string, len(os))
	for i, o := range os {
		xs[i] = o.coq()
	}
	return cList(xs)
}

// ---- known-finding predicates (on the inputs / the never-stopped run, not on the twin's outcome) --------


// basedAt returns the based block of the round of feeder f that covers EndBlock(r) (0 = inactive).
func c14BasedAt(start, interval uint64, r int64) (uint64, bool) {
	if uint64(r) < start || interval == 0 {
		return 0, false
	}
	d := uint64(r) - start
	return uint64(r) - d%interval, true
}

// c14Tags: predicates on the inputs / the never-stopped run for the two defects that are not repaired. The histories that
// reproduced the repaired defects (nonce-0 replay, lost forced seal, pruned params, default MaxNonce window, pruning
// underflow) stay in the case list as untagged regression scenarios: any divergence there is a VIOLATION again.
func c14Tags(cfg c14Cfg, blocks []c14Block, cont []c14Obs, r int64) []string {
	tags := map[string]bool{}
	mn := uint64(cfg.MaxNonce)
	for i := int64(0); i < r; i++ {
		if blocks[i].ParamUpd != 0 && blocks[i].PURevert {
			tags["kf-C14-reverted-params"] = true
		}
		// a transaction finalized (feeder, based) at a block <= r and the round's window is still running after block r
		for _, f := range cont[i].Fins {
			if uint64(r)-f[1] < mn {
				tags["kf-C14-final-reopen"] = true
			}
		}
	}
	var out []string
	for t := range tags {
		out = append(out, t)
	}
	sort.Strings(out)
	return out
}

// ---- suite -------------------------------------------------------------------------------------

type c14CaseJSON struct {
	Hist      int      `json:"hist"`
	Kind      string   `json:"kind"`
	Restarts  []int64  `json:"restarts"`
	History   c14Hist  `json:"history"`
	Cont      []c14Obs `json:"cont"`
	Twin      []c14Obs `json:"twin"`
	Equal     bool     `json:"equal"`
	FirstDiff string   `json:"first_diff"`
	MemCont   string   `json:"mem_cont,omitempty"`
	MemTwin   string   `json:"mem_twin,omitempty"`
	Tags      []string `json:"tags,omitempty"`
	NT        bool     `json:"nt"`
}

func c14ObsEq(a, b c14Obs, mem bool) string {
	if a.Panic != b.Panic {
		return "panic"
	}
	if fmt.Sprint(a.Codes) != fmt.Sprint(b.Codes) {
		return "codes"
	}
	if fmt.Sprint(a.Rounds) != fmt.Sprint(b.Rounds) {
		return "rounds"
	}
	if a.StoreDig != b.StoreDig {
		return "store"
	}
	if a.AppHash != b.AppHash {
		return "apphash"
	}
	if a.PxDig != b.PxDig {
		return "prices"
	}
	if mem && a.MemDig != b.MemDig {
		return "mem"
	}
	return ""
}

type c14Plan struct {
	name   string
	cfg    c14Cfg
	blocks []c14Block // fixed prefix (directed); the rest is generated
	n      int
	puAt   int
	puKind int
	depAt  int
	undAt  int
	undOp  int
	undAmt int64
	simTwins bool
	depOp  int
	depAmt int64
	style  int
}

func c14Directed() []c14Plan {
	two := c14Cfg{Deposits: []int64{101, 100}, Intervals: [2]uint64{6, 10}, Starts: [2]uint64{1, 1}, MaxNonce: 3}
	e := func(n int) []c14Block {
		bs := make([]c14Block, n)
		for i := range bs {
			bs[i].DT = 1
		}
		return bs
	}
	px := func(d, p int64) []c14Price { return []c14Price{{Det: d, Price: p}} }
	// feeder 1: start 1, interval 6 -> rounds based 1, 7, 13 ...; messages of round 7 go into blocks 8..10
	d1 := e(14)
	d1[7].Txs = []c14Tx{{Val: 0, Feeder: 1, Nonce: 1, Based: 7, Prices: px(1, 100)}, {Val: 0, Feeder: 1, Nonce: 2, Based: 7, Prices: px(2, 101)}}
	d1[8].Txs = []c14Tx{{Val: 1, Feeder: 1, Nonce: 1, Based: 7, Prices: px(2, 101)}}
	d2 := e(14)
	d2[7].Txs = []c14Tx{{Val: 0, Feeder: 1, Nonce: 1, Based: 7, Prices: px(1, 100)}, {Val: 1, Feeder: 1, Nonce: 1, Based: 7, Prices: px(1, 100)}}
	d4 := e(14)
	d4[9].ParamUpd = 3
	d4[9].Txs = []c14Tx{{Val: 0, Feeder: 1, Nonce: 1, Based: 7, Prices: px(1, 100)}}
	d5 := e(14)
	d5[5].ParamUpd, d5[5].PURevert = 1, true
	// MaxNonce 4: feeder 1 (interval 8, start 1) has rounds based 1, 9, ...; window of round 9 = blocks 10..13
	four := c14Cfg{Deposits: []int64{101, 100}, Intervals: [2]uint64{8, 10}, Starts: [2]uint64{1, 1}, MaxNonce: 4}
	d6 := e(16)
	d6[9].Txs = []c14Tx{{Val: 0, Feeder: 1, Nonce: 1, Based: 9, Prices: px(1, 100)}}
	d6[12].Txs = []c14Tx{{Val: 1, Feeder: 1, Nonce: 1, Based: 9, Prices: px(1, 100)}}
	// MaxNonce 4, messages in blocks 2 and 3 (round based 1): committing block 3 must not wipe block 2 (3 - 4 wraps as uint64)
	d7 := e(12)
	d7[1].Txs = []c14Tx{{Val: 0, Feeder: 1, Nonce: 1, Based: 1, Prices: px(1, 100)}}
	d7[2].Txs = []c14Tx{{Val: 1, Feeder: 1, Nonce: 1, Based: 1, Prices: px(2, 101)}}
	d7[3].Txs = []c14Tx{{Val: 1, Feeder: 1, Nonce: 2, Based: 1, Prices: px(1, 100)}}
	// three validators; validator 2 undelegates below MinSelfDelegation in block 2: dogfood removes it at the next epoch end
	// (a validator update made of a removal only) while rounds are inside their windows; the others keep submitting
	three := c14Cfg{Deposits: []int64{200, 100, 100}, Intervals: [2]uint64{6, 7}, Starts: [2]uint64{1, 2}, MaxNonce: 3}
	d8 := e(18)
	for i := range d8 {
		d8[i].DT = 20
	}
	d8[7].Undel, d8[7].UndelAmt = 3, 30 // block 8; the removal is emitted at the epoch end of block 10, inside the window of feeder 2's round based 9
	d8[9].Txs = []c14Tx{{Val: 0, Feeder: 2, Nonce: 1, Based: 9, Prices: px(1, 100)}}
	d8[10].Txs = []c14Tx{{Val: 1, Feeder: 2, Nonce: 1, Based: 9, Prices: px(1, 100)}}
	// the assets gateway binds a second asset id to the existing token ETH in block 6; feeder 1 keeps running
	d9 := e(14)
	d9[5].ParamUpd = 5
	d9[7].Txs = []c14Tx{{Val: 0, Feeder: 1, Nonce: 1, Based: 7, Prices: px(1, 100)}}
	d10 := e(14)
	d10[4].ParamUpd = 4
	// testnet-type chain id: UpdateParams does not check the authority there, so ANY funded account's message executes
	// when a node simulates it. The history itself has a few submissions; the twins of kind "sim" serve one simulation each.
	testnet := c14Cfg{Deposits: []int64{101, 100}, Intervals: [2]uint64{6, 10}, Starts: [2]uint64{1, 1}, MaxNonce: 3, ChainID: "exocoretestnet_233-1"}
	d11 := e(12)
	d11[7].Txs = []c14Tx{{Val: 0, Feeder: 1, Nonce: 1, Based: 7, Prices: px(1, 100)}}
	d3 := e(16)
	for i := range d3 {
		d3[i].DT = 20
	}
	d3[1].Deposit, d3[1].DepAmt = 1, 77
	// feeder 2 (start 1, interval 10: round based 11, window blocks 12..14) has a rule with a deterministic AND a non-deterministic
	// source; validator 0 reports in block 12 (chainlink 100, dex 200), validator 1 in block 13 (chainlink 100, dex 300): a node
	// restarted in between must rebuild validator 0's report WITH its non-deterministic part and finalize the same price
	nsCfg := c14Cfg{Deposits: []int64{101, 100}, Intervals: [2]uint64{6, 10}, Starts: [2]uint64{1, 1}, MaxNonce: 3, NS: 2}
	d12 := e(16)
	d12[11].Txs = []c14Tx{{Val: 0, Feeder: 2, Nonce: 1, Based: 11, Prices: px(7, 100), NS: 200}}
	d12[12].Txs = []c14Tx{{Val: 1, Feeder: 2, Nonce: 1, Based: 11, Prices: px(7, 100), NS: 300}}
	return []c14Plan{
		{name: "kf-nonce0", cfg: two, blocks: d1, n: 14, puAt: -1, depAt: -1, undAt: -1},
		{name: "kf-final", cfg: two, blocks: d2, n: 14, puAt: -1, depAt: -1, undAt: -1},
		{name: "kf-valset", cfg: c14Cfg{Deposits: []int64{101, 100}, Intervals: [2]uint64{6, 7}, Starts: [2]uint64{1, 2}, MaxNonce: 3}, blocks: d3, n: 16, puAt: -1, depAt: -1, undAt: -1},
		{name: "kf-params", cfg: two, blocks: d4, n: 14, puAt: -1, depAt: -1, undAt: -1},
		{name: "kf-reverted-params", cfg: two, blocks: d5, n: 14, puAt: -1, depAt: -1, undAt: -1},
		{name: "kf-default-maxnonce", cfg: four, blocks: d6, n: 16, puAt: -1, depAt: -1, undAt: -1},
		{name: "reg-window-underflow", cfg: four, blocks: d7, n: 12, puAt: -1, depAt: -1, undAt: -1},
		{name: "reg-register-existing-token", cfg: two, blocks: d9, n: 14, puAt: -1, depAt: -1, undAt: -1},
		{name: "reg-register-new-token", cfg: two, blocks: d10, n: 14, puAt: -1, depAt: -1, undAt: -1},
		{name: "reg-simulate-update-params", cfg: testnet, blocks: d11, n: 12, puAt: -1, depAt: -1, undAt: -1, simTwins: true},
		{name: "reg-valset-removal", cfg: three, blocks: d8, n: 18, puAt: -1, depAt: -1, undAt: -1},
		{name: "reg-ns-source", cfg: nsCfg, blocks: d12, n: 16, puAt: -1, depAt: -1, undAt: -1},
	}
}

func runC14(a *Args) error {
	rng := rand.New(rand.NewSource(a.Seed))
	w := NewCaseWriter(a.Out)
	defer w.Close()
	nCases := 0
	plans := c14Directed()
	for hi := 0; nCases < a.N; hi++ {
		var plan c14Plan
		if hi < len(plans) {
			plan = plans[hi]
		} else {
			plan = c14Plan{name: "random", cfg: c14Cfgs(rng), n: 14 + rng.Intn(12), puAt: -1, depAt: -1, style: rng.Intn(2)}
			if rng.Intn(3) == 0 {
				plan.puAt, plan.puKind = 3+rng.Intn(plan.n-6), 1+rng.Intn(5)
			}
			if rng.Intn(2) == 0 {
				plan.depAt, plan.depOp, plan.depAmt = 1+rng.Intn(plan.n-6), 1+rng.Intn(len(plan.cfg.Deposits)), int64(1+rng.Intn(150))
			}
			plan.undAt = -1
			if len(plan.cfg.Deposits) >= 3 && rng.Intn(3) == 0 {
				// drop a validator below MinSelfDelegation (100): a removal-only validator update at the next epoch end
				op := 1 + rng.Intn(len(plan.cfg.Deposits)-1)
				plan.undAt, plan.undOp, plan.undAmt = 1+rng.Intn(plan.n-6), op+1, plan.cfg.Deposits[op]-99+int64(rng.Intn(40))
			}
			if hi%6 == 5 {
				// every sixth generated history runs on params whose feeder 2 demands a deterministic and a non-deterministic source
				// (no rng draw). Not modelled (the Coq model has one deterministic source): property checks (monitor) only.
				plan.cfg.NS = 2
			}
		}
		world := c14NewWorld(plan.cfg)
		nBlocks := plan.n
		hist := c14Hist{Cfg: plan.cfg}
		// model inputs
		p0 := world.env.App.OracleKeeper.GetParams(world.env.Ctx)
		var fs []string
		for fid := 1; fid < len(p0.TokenFeeders); fid++ {
			f := p0.TokenFeeders[fid]
			fs = append(fs, cApp("mkFeeder", cZ(int64(fid)), cZ(int64(f.TokenID)), cZ(int64(f.StartBaseBlock)), cZ(int64(f.Interval)), cZ(int64(f.StartRoundID)), cZ(int64(f.EndBlock))))
		}
		coqParams := cApp("mkParams", cList(fs), cZ(int64(p0.MaxNonce)))
		coqVals := c14Pairs(world.valSet())
		coqNext0 := "[(1%Z, (2%Z, Some 1%Z)); (2%Z, (2%Z, Some 1%Z))]"
		modelled := plan.cfg.NS == 0
		if plan.cfg.NS != 0 {
			w.Count("hist_ns_source")
		}

		var cont []c14Obs
		var hdrs []abci.RequestBeginBlock // hdrs[i] = BeginBlock request of height i+1
		hdrs = append(hdrs, abci.RequestBeginBlock{Header: world.env.Header})
		var blkCoq []string
		prevVals := world.valSet()
		for b := 0; b < nBlocks; b++ {
			var blk c14Block
			if b < len(plan.blocks) {
				blk = plan.blocks[b]
			} else {
				blk = world.genBlock(rng, w, plan.style)
			}
			if b == plan.puAt {
				blk.ParamUpd = plan.puKind
			}
			if b == plan.depAt {
				blk.Deposit, blk.DepAmt = plan.depOp, plan.depAmt
			}
			if blk.ParamUpd != 0 {
				modelled = false
				w.Count("op_param_update")
			}
			if b == plan.undAt && plan.undAt >= 0 && plan.name == "random" {
				blk.Undel, blk.UndelAmt = plan.undOp, plan.undAmt
			}
			if blk.Deposit != 0 {
				w.Count("op_deposit")
			}
			if blk.Undel != 0 {
				w.Count("op_undelegate")
			}
			hist.Blocks = append(hist.Blocks, blk)
			o := world.runBlock(blk)
			if o.Panic {
				return fmt.Errorf("the never-stopped run panicked at height %d", o.Height)
			}
			cont = append(cont, o)
			hdrs = append(hdrs, abci.RequestBeginBlock{Header: world.env.Header})
			// model block
			txs := make([]string, len(blk.Txs))
			codes := make([]string, len(blk.Txs))
			for i, tx := range blk.Txs {
				txs[i] = tx.coq()
				codes[i] = cZ(int64(o.Codes[i]))
				w.Count(fmt.Sprintf("code_%d", o.Codes[i]))
				if tx.NS != 0 {
					w.Count(fmt.Sprintf("tx_ns_code_%d", o.Codes[i]))
				}
			}
			vu := "None"
			if o.VU > 0 {
				vu = "(Some " + c14Pairs(o.Vals) + ")"
				w.Count("op_validator_update")
			}
			_ = prevVals
			blkCoq = append(blkCoq, cApp("mkBlk", cList(txs), vu, cList(codes), o.storeProj(), world.memProj(o.Mem)))
			w.CountN("fin_rounds", len(o.Fins))
		}
		// restarted twins, highest restart height first (rollback deletes later versions)
		type plannedTwin struct {
			rs  []int64
			sim bool // the twin additionally serves a Simulate(MsgUpdateParams) request right after its restart
		}
		var twins []plannedTwin
		var multi []int64
		if nBlocks > 8 { // one twin that is restarted several times
			r1 := int64(2 + rng.Intn(3))
			multi = []int64{r1, r1 + 1 + int64(rng.Intn(3)), r1 + 5 + int64(rng.Intn(2))}
		}
		for r := int64(nBlocks - 1); r >= 1; r-- {
			twins = append(twins, plannedTwin{rs: []int64{r}})
			if plan.simTwins {
				twins = append(twins, plannedTwin{rs: []int64{r}, sim: true})
			}
			// the multi-restart twin needs the never-stopped run's versions <= its first restart height: run it
			// before any single twin with a lower restart height overwrites them
			if multi != nil && r == multi[0] {
				twins = append(twins, plannedTwin{rs: multi})
			}
		}
		for _, tw := range twins {
			if nCases >= a.N {
				break
			}
			r := tw.rs[0]
			panicked, err := world.restartAt(r, hdrs[r])
			if err != nil {
				return fmt.Errorf("restart at %d: %w", r, err)
			}
			var twin []c14Obs
			first := ""
			memC, memT := "", ""
			tagset := map[string]bool{}
			for _, t := range c14Tags(plan.cfg, hist.Blocks, cont, r) {
				tagset[t] = true
			}
			recached := "(mkMP [] [] [] 0%Z false)"
			if panicked {
				twin = append(twin, c14Obs{Height: r, Panic: true})
				first = fmt.Sprintf("panic@%d", r)
			} else {
				if tw.sim {
					w.Count(fmt.Sprintf("simulate_class_%d", world.simulateUpdateParams()))
				}
				o0 := world.observe(r, cont[r-1].Codes, cont[r-1].VU)
				recached = world.memProj(o0.Mem)
				twin = append(twin, o0)
				if d := c14ObsEq(cont[r-1], o0, true); d != "" {
					first = fmt.Sprintf("%s@%d", d, o0.Height)
					memC, memT = cont[r-1].MemTxt, o0.MemTxt
				}
				next := 1
				for b := r; b < int64(nBlocks); b++ {
					if next < len(tw.rs) && tw.rs[next] == b {
						next++
						for _, t := range c14Tags(plan.cfg, hist.Blocks, cont, b) {
							tagset[t] = true
						}
						pk, err := world.restartAt(b, hdrs[b])
						if err != nil {
							return fmt.Errorf("restart at %d: %w", b, err)
						}
						if pk {
							twin = append(twin, c14Obs{Height: b + 1, Panic: true})
							if first == "" {
								first = fmt.Sprintf("panic@%d", b)
							}
							break
						}
					}
					o := world.runBlock(hist.Blocks[b])
					twin = append(twin, o)
					if o.Panic {
						if first == "" {
							first = fmt.Sprintf("panic@%d", o.Height)
						}
						break
					}
					if first == "" {
						if d := c14ObsEq(cont[b], o, true); d != "" {
							first = fmt.Sprintf("%s@%d", d, o.Height)
							memC, memT = cont[b].MemTxt, o.MemTxt
						}
					}
				}
			}
			var tags []string
			for t := range tagset {
				tags = append(tags, t)
			}
			sort.Strings(tags)
			kind := "single"
			if len(tw.rs) > 1 {
				kind = "multi"
			}
			if tw.sim {
				kind = "sim"
			}
			cj := c14CaseJSON{Hist: hi, Kind: plan.name + "/" + kind, Restarts: tw.rs, History: hist, Cont: cont[r-1:], Twin: twin,
				Equal: first == "", FirstDiff: first, NT: true, MemCont: memC, MemTwin: memT, Tags: tags}
			if first == "" {
				w.Count("twin_equal")
			} else {
				w.Count("twin_diverge_" + strings.Split(first, "@")[0])
			}
			if len(tags) == 0 {
				w.Count("case_untagged")
			}
			for _, t := range tags {
				w.Count("case_" + t)
			}
			w.Count("case_" + kind)
			term := cApp("mkCase", coqParams, coqVals, coqNext0, cBool(modelled && len(tw.rs) == 1 && !tw.sim), cBool(len(tags) > 0), cList(blkCoq[:r]), recached,
				c14ObsList(cont[r-1:]), c14ObsList(twin))
			w.Add(term, cj)
			nCases++
		}
	}
	return nil
}
