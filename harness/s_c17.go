package main

// Suite c17: native supply and fee distribution.
//
// Drives the REAL x/epochs BeginBlocker (a keeper instance on the application's epochs store) whose hook list is
//   [ c17 observer , app.EpochsKeeper.Hooks() ]
// so that for every epoch end the observer records, immediately BEFORE the application's own fan-out
// (feedistribution, operator, dogfood, exomint, avs — the order configured in app/app.go), everything the
// distribution and mint hooks are about to read, and immediately AFTER it (observer's BeforeEpochStart) the resulting
// bank supply, module balances, fee pool, accumulated commissions, outstanding rewards and staker rewards.
// Between epoch ends the generator changes the configuration through real keepers: fee income (bank send to the fee
// collector), community tax / identifiers / epoch reward params, dogfood validator records + last total power,
// operator commission rates, opt-ins into 1-2 further AVSs, deposits + delegations of two assets by extra stakers.

import (
	"fmt"
	"math/big"
	"math/rand"
	"reflect"
	"sort"
	"strings"
	"time"

	"cosmossdk.io/math"
	abci "github.com/cometbft/cometbft/abci/types"
	"github.com/cosmos/cosmos-sdk/store/prefix"
	sdk "github.com/cosmos/cosmos-sdk/types"
	authtypes "github.com/cosmos/cosmos-sdk/x/auth/types"
	stakingtypes "github.com/cosmos/cosmos-sdk/x/staking/types"
	"github.com/ethereum/go-ethereum/common"

	"github.com/ExocoreNetwork/exocore/utils"
	assetskeeper "github.com/ExocoreNetwork/exocore/x/assets/keeper"
	assetstypes "github.com/ExocoreNetwork/exocore/x/assets/types"
	avskeeper "github.com/ExocoreNetwork/exocore/x/avs/keeper"
	avstypes "github.com/ExocoreNetwork/exocore/x/avs/types"
	delegationtypes "github.com/ExocoreNetwork/exocore/x/delegation/types"
	dogfoodtypes "github.com/ExocoreNetwork/exocore/x/dogfood/types"
	epochskeeper "github.com/ExocoreNetwork/exocore/x/epochs/keeper"
	epochstypes "github.com/ExocoreNetwork/exocore/x/epochs/types"
	exominttypes "github.com/ExocoreNetwork/exocore/x/exomint/types"
	distrkeeper "github.com/ExocoreNetwork/exocore/x/feedistribution/keeper"
	distrtypes "github.com/ExocoreNetwork/exocore/x/feedistribution/types"
	operatortypes "github.com/ExocoreNetwork/exocore/x/operator/types"
)

func init() { register("c17", runC17) }

const (
	c17NOps     = 5
	c17NStakers = 6
	c17USDC     = "0xa0b86991c6218b36c1d19d4a2e9eb0ce3606eb48"
	c17AVS2     = "0x00000000000000000000000000000000000000a2"
	c17AVS3     = "0x00000000000000000000000000000000000000a3"
)

// ---- JSON / Coq shapes ----------------------------------------------------------------------

type c17KV struct {
	ID  int    `json:"id"`
	Amt string `json:"amt"`
}

type c17Obs struct {
	Supply      string  `json:"supply"`
	FC          string  `json:"fee_collector"`
	Mint        string  `json:"exomint"`
	Dist        string  `json:"distribution"`
	Community   string  `json:"community"`        // Dec scaled by 10^18
	Commission  []c17KV `json:"commission"`       // per operator index
	Outstanding []c17KV `json:"outstanding"`      // per operator index
	Rewards     []c17KV `json:"rewards"`          // per staker index
	TotComm     string  `json:"total_commission"` // sum over the raw store prefix
	TotRewards  string  `json:"total_rewards"`    // sum over the raw store prefix
	TotOutst    string  `json:"total_outstanding"`
	OtherDenoms bool    `json:"other_denoms"`
}

type c17App struct {
	Staker int    `json:"staker"`
	Value  string `json:"value"` // Dec scaled
}

type c17Val struct {
	Found bool     `json:"found"`
	Op    int      `json:"op"`
	Power int64    `json:"power"`
	Rate  string   `json:"rate"` // Dec scaled
	Apps  []c17App `json:"apps"`
}

type c17Event struct {
	ID      string   `json:"id"`
	Num     int64    `json:"num"`
	DistID  string   `json:"dist_id"`
	Tax     string   `json:"tax"`
	MintID  string   `json:"mint_id"`
	Reward  string   `json:"reward"`
	DenomOK bool     `json:"mint_denom_is_base"`
	Total   string   `json:"total_power"`
	Vals    []c17Val `json:"vals"`
	Pre     c17Obs   `json:"pre"`
	Post    c17Obs   `json:"post"`
	Panic   bool     `json:"panic"`
	PanicS  string   `json:"panic_msg,omitempty"`
}

// a parameter update: a real MsgUpdateParams handler call (kind "mint" / "dist") or params written by the harness
// with SetParams (kind "setmint" / "setdist")
type c17Upd struct {
	Kind    string   `json:"kind"`
	VB      bool     `json:"validate_basic"`
	Auth    bool     `json:"authority_ok"`
	Known   []string `json:"known_identifiers"`
	PrevID  string   `json:"prev_id"`
	PrevVal string   `json:"prev_val"`
	ReqID   string   `json:"req_id"`
	ReqVal  string   `json:"req_val"`
	Err     bool     `json:"err"`
	PostID  string   `json:"post_id"`
	PostVal string   `json:"post_val"`
	AtEv    int      `json:"before_event"` // position in the case: before epoch end number AtEv
}

func (u c17Upd) coq() string {
	kind := map[string]string{"mint": "UMint", "dist": "UDist", "setmint": "USetMint", "setdist": "USetDist"}[u.Kind]
	ks := make([]string, len(u.Known))
	for i, k := range u.Known {
		ks[i] = cStr(k)
	}
	return cApp("mkUpd", kind, cBool(u.VB), cBool(u.Auth), cList(ks), cTuple(cStr(u.PrevID), c17Z(u.PrevVal)),
		cTuple(cStr(u.ReqID), c17Z(u.ReqVal)), cBool(u.Err), cTuple(cStr(u.PostID), c17Z(u.PostVal)))
}

type c17Case struct {
	Suite  string     `json:"suite"`
	Subs   []string   `json:"subscribers"`
	Tags   []string   `json:"tags,omitempty"`
	NT     bool       `json:"nt"`
	Script []string   `json:"script"`
	Events []c17Event `json:"events"`
	Upds   []c17Upd   `json:"updates"`
}

// c17Z prints an integer given in decimal as a Coq Z literal; long numbers as hexadecimal literals, which coqc
// parses several times faster than decimal ones.
func c17Z(s string) string {
	b, ok := new(big.Int).SetString(s, 10)
	if !ok {
		panic("c17Z: not an integer: " + s)
	}
	if b.Sign() < 0 || len(s) < 10 {
		return cZbig(b)
	}
	return "0x" + b.Text(16) + "%Z"
}

// entries that are zero both before and after the epoch end are left out (a missing key reads as 0 in the model)
func c17KVs(xs, other []c17KV) string {
	ss := []string{}
	for i, x := range xs {
		if x.Amt == "0" && i < len(other) && other[i].ID == x.ID && other[i].Amt == "0" {
			continue
		}
		ss = append(ss, cTuple(cZ(int64(x.ID)), c17Z(x.Amt)))
	}
	return cList(ss)
}

func (o c17Obs) coq(other c17Obs) string {
	return cApp("mkObs", c17Z(o.Supply), c17Z(o.FC), c17Z(o.Mint), c17Z(o.Dist), c17Z(o.Community),
		c17KVs(o.Commission, other.Commission), c17KVs(o.Outstanding, other.Outstanding), c17KVs(o.Rewards, other.Rewards),
		c17Z(o.TotComm), c17Z(o.TotRewards), c17Z(o.TotOutst))
}

func (e c17Event) coq() string {
	if e.ID != e.DistID && !e.Panic && e.Pre.coq(e.Pre) == e.Post.coq(e.Post) {
		return cApp("mkEvSame", cStr(e.ID), cStr(e.DistID), c17Z(e.Tax), cStr(e.MintID), c17Z(e.Reward), c17Z(e.Total), e.Pre.coq(e.Post))
	}
	vals := e.Vals
	if e.ID != e.DistID {
		vals = nil // not read by the distribution hook at this epoch end (kept in the JSON description)
	}
	vs := make([]string, len(vals))
	for i, v := range vals {
		as := make([]string, len(v.Apps))
		for j, a := range v.Apps {
			as[j] = cTuple(cZ(int64(a.Staker)), c17Z(a.Value))
		}
		vs[i] = cApp("mkVin", cBool(v.Found), cZ(int64(v.Op)), cZ(v.Power), c17Z(v.Rate), cList(as))
	}
	return cApp("mkEv", cStr(e.ID), cStr(e.DistID), c17Z(e.Tax), cStr(e.MintID), c17Z(e.Reward), c17Z(e.Total),
		cList(vs), e.Pre.coq(e.Post), e.Post.coq(e.Pre), cBool(e.Panic))
}

// ---- the world ------------------------------------------------------------------------------

type c17World struct {
	env       *Env
	payer     sdk.AccAddress
	opIdx     map[string]int // bech32 operator -> index
	stakerIdx map[string]int // staker id -> index (0..4 = the operators' own genesis stakers, 5.. = extra)
	stakers   []common.Address
	assets    []common.Address // USDT, USDC
	avss      []string         // dogfood, AVS2, AVS3
	nonce     uint64
}

func c17DecZ(d math.LegacyDec) string {
	if d.IsNil() {
		return "0"
	}
	return d.BigInt().String()
}

func c17DecCoinsZ(cs sdk.DecCoins) (string, bool) {
	other := false
	for _, c := range cs {
		if c.Denom != utils.BaseDenom {
			other = true
		}
	}
	return c17DecZ(cs.AmountOf(utils.BaseDenom)), other
}

func (w *c17World) bal(ctx sdk.Context, addr sdk.AccAddress) string {
	return w.env.App.BankKeeper.GetBalance(ctx, addr, utils.BaseDenom).Amount.String()
}

func (w *c17World) modAddr(name string) sdk.AccAddress {
	return w.env.App.AccountKeeper.GetModuleAddress(name)
}

func (w *c17World) observe(ctx sdk.Context) c17Obs {
	app := w.env.App
	o := c17Obs{}
	o.Supply = app.BankKeeper.GetSupply(ctx, utils.BaseDenom).Amount.String()
	o.FC = w.bal(ctx, w.modAddr(authtypes.FeeCollectorName))
	o.Mint = w.bal(ctx, w.modAddr(exominttypes.ModuleName))
	o.Dist = w.bal(ctx, w.modAddr(distrtypes.ModuleName))
	for _, name := range []string{authtypes.FeeCollectorName, exominttypes.ModuleName, distrtypes.ModuleName} {
		if len(app.BankKeeper.GetAllBalances(ctx, w.modAddr(name))) > 1 {
			o.OtherDenoms = true
		}
	}
	fp := app.DistrKeeper.GetFeePool(ctx)
	var other bool
	o.Community, other = c17DecCoinsZ(fp.CommunityPool)
	o.OtherDenoms = o.OtherDenoms || other
	for i, op := range w.env.Operators {
		c, o1 := c17DecCoinsZ(app.DistrKeeper.GetValidatorAccumulatedCommission(ctx, sdk.ValAddress(op)).Commission)
		r, o2 := c17DecCoinsZ(app.DistrKeeper.GetValidatorOutstandingRewards(ctx, sdk.ValAddress(op)).Rewards)
		o.Commission = append(o.Commission, c17KV{i, c})
		o.Outstanding = append(o.Outstanding, c17KV{i, r})
		o.OtherDenoms = o.OtherDenoms || o1 || o2
	}
	ids := make([]string, 0, len(w.stakerIdx))
	for id := range w.stakerIdx {
		ids = append(ids, id)
	}
	sort.Slice(ids, func(a, b int) bool { return w.stakerIdx[ids[a]] < w.stakerIdx[ids[b]] })
	for _, id := range ids {
		r, o1 := c17DecCoinsZ(app.DistrKeeper.GetStakerRewards(ctx, id).Rewards)
		o.Rewards = append(o.Rewards, c17KV{w.stakerIdx[id], r})
		o.OtherDenoms = o.OtherDenoms || o1
	}
	// totals over the raw store, so that claims booked under keys the harness does not know are counted too
	key := app.GetKey(distrtypes.StoreKey)
	sum := func(pfx []byte, dec func([]byte) sdk.DecCoins) string {
		tot := new(big.Int)
		st := prefix.NewStore(ctx.KVStore(key), pfx)
		it := st.Iterator(nil, nil)
		defer it.Close()
		for ; it.Valid(); it.Next() {
			cs := dec(it.Value())
			for _, c := range cs {
				if c.Denom != utils.BaseDenom {
					o.OtherDenoms = true
					continue
				}
				tot.Add(tot, c.Amount.BigInt())
			}
		}
		return tot.String()
	}
	cdc := app.AppCodec()
	o.TotComm = sum(distrtypes.ValidatorAccumulatedCommissionPrefix, func(b []byte) sdk.DecCoins {
		var v distrtypes.ValidatorAccumulatedCommission
		cdc.MustUnmarshal(b, &v)
		return v.Commission
	})
	o.TotOutst = sum(distrtypes.ValidatorOutstandingRewardsPrefix, func(b []byte) sdk.DecCoins {
		var v distrtypes.ValidatorOutstandingRewards
		cdc.MustUnmarshal(b, &v)
		return v.Rewards
	})
	o.TotRewards = sum(distrtypes.StakerOutstandingRewardsPrefix, func(b []byte) sdk.DecCoins {
		var v distrtypes.StakerOutstandingRewards
		cdc.MustUnmarshal(b, &v)
		return v.Rewards
	})
	return o
}

// inputs: what AllocateTokens / the mint hook are about to read, through the same keeper getters.
func (w *c17World) inputs(ctx sdk.Context, ev *c17Event) {
	app := w.env.App
	dp := app.DistrKeeper.GetParams(ctx)
	ev.DistID = dp.EpochIdentifier
	ev.Tax = c17DecZ(dp.CommunityTax)
	mp := app.ExomintKeeper.GetParams(ctx)
	ev.MintID = mp.EpochIdentifier
	ev.Reward = mp.EpochReward.String()
	ev.DenomOK = mp.MintDenom == utils.BaseDenom
	ev.Total = fmt.Sprintf("%d", app.StakingKeeper.GetLastTotalPower(ctx).Int64())
	chainID := avstypes.ChainIDWithoutRevision(ctx.ChainID())
	for _, val := range app.StakingKeeper.GetAllExocoreValidators(ctx) {
		v := c17Val{Power: val.Power, Op: -1, Rate: "0"}
		pk, err := val.ConsPubKey()
		if err != nil {
			ev.Vals = append(ev.Vals, v)
			continue
		}
		detail, found := app.StakingKeeper.ValidatorByConsAddrForChainID(ctx, sdk.GetConsAddress(pk), chainID)
		if !found {
			ev.Vals = append(ev.Vals, v)
			continue
		}
		v.Found = true
		opAcc := sdk.AccAddress(detail.GetOperator())
		if i, ok := w.opIdx[opAcc.String()]; ok {
			v.Op = i
		}
		if info, err := app.StakingKeeper.OperatorInfo(ctx, opAcc.String()); err == nil {
			v.Rate = c17DecZ(info.Commission.Rate)
		}
		avsList, err := app.StakingKeeper.GetOptedInAVSForOperator(ctx, opAcc.String())
		if err == nil {
			for _, avs := range avsList {
				assets, err := app.StakingKeeper.GetAVSSupportedAssets(ctx, avs)
				if err != nil {
					continue
				}
				ids := make([]string, 0, len(assets))
				for id := range assets {
					ids = append(ids, id)
				}
				sort.Strings(ids)
				for _, assetID := range ids {
					sl, err := app.StakingKeeper.GetStakersByOperator(ctx, opAcc.String(), assetID)
					if err != nil {
						continue
					}
					for _, staker := range sl.Stakers {
						p, err := app.StakingKeeper.CalculateUSDValueForStaker(ctx, staker, avs, opAcc.Bytes())
						if err != nil {
							continue
						}
						si, ok := w.stakerIdx[staker]
						if !ok {
							si = 1000 + len(w.stakerIdx)
							w.stakerIdx[staker] = si
						}
						v.Apps = append(v.Apps, c17App{si, c17DecZ(p)})
					}
				}
			}
		}
		ev.Vals = append(ev.Vals, v)
	}
}

// the observer hook
type c17Hook struct {
	w      *c17World
	events *[]c17Event
}

func (h c17Hook) AfterEpochEnd(ctx sdk.Context, id string, n int64) {
	ev := c17Event{ID: id, Num: n, Panic: true} // Panic stays true until the post observation is made
	h.w.inputs(ctx, &ev)
	ev.Pre = h.w.observe(ctx)
	ev.Post = ev.Pre
	*h.events = append(*h.events, ev)
}

func (h c17Hook) BeforeEpochStart(ctx sdk.Context, _ string, _ int64) {
	evs := *h.events
	if len(evs) == 0 || !evs[len(evs)-1].Panic {
		return
	}
	evs[len(evs)-1].Post = h.w.observe(ctx)
	evs[len(evs)-1].Panic = false
}

// ---- setup ----------------------------------------------------------------------------------

func c17Must(err error, what string) {
	if err != nil {
		panic(fmt.Sprintf("c17 setup: %s: %v", what, err))
	}
}

func (w *c17World) stakerID(a common.Address) string {
	id, _ := assetstypes.GetStakerIDAndAssetIDFromStr(w.env.LzID, a.String(), "")
	return id
}

func (w *c17World) depositDelegate(ctx sdk.Context, staker common.Address, asset common.Address, op sdk.AccAddress, amt math.Int) error {
	app := w.env.App
	err := app.AssetsKeeper.PerformDepositOrWithdraw(ctx, &assetskeeper.DepositWithdrawParams{
		ClientChainLzID: w.env.LzID, Action: assetstypes.DepositLST, StakerAddress: staker.Bytes(),
		AssetsAddress: asset.Bytes(), OpAmount: amt,
	})
	if err != nil {
		return err
	}
	w.nonce++
	return app.DelegationKeeper.DelegateTo(ctx, &delegationtypes.DelegationOrUndelegationParams{
		ClientChainID: w.env.LzID, LzNonce: w.nonce, AssetsAddress: asset.Bytes(), StakerAddress: staker.Bytes(),
		OperatorAddress: op, OpAmount: amt,
	})
}

func c17Setup() *c17World {
	ops := make([]OperatorCfg, c17NOps)
	for i := range ops {
		ops[i] = OperatorCfg{Deposit: int64(500 - 100*i)}
	}
	env := NewEnv(EnvCfg{Operators: ops})
	w := &c17World{env: env, opIdx: map[string]int{}, stakerIdx: map[string]int{}}
	app, ctx := env.App, env.Ctx
	for i, op := range env.Operators {
		w.opIdx[op.String()] = i
		w.stakerIdx[w.stakerID(common.BytesToAddress(op.Bytes()))] = i
	}
	// a payer account holding native coins: fee income is an ordinary bank transfer to the fee collector
	_, payer := DetEthKey("c17payer", 0)
	w.payer = sdk.AccAddress(payer.Bytes())
	big1, _ := math.NewIntFromString("1000000000000000000000000000000000000000000")
	coins := sdk.NewCoins(sdk.NewCoin(utils.BaseDenom, big1))
	c17Must(app.BankKeeper.MintCoins(ctx, exominttypes.ModuleName, coins), "mint")
	c17Must(app.BankKeeper.SendCoinsFromModuleToAccount(ctx, exominttypes.ModuleName, w.payer, coins), "fund payer")

	// second asset
	usdc := common.HexToAddress(c17USDC)
	c17Must(app.AssetsKeeper.SetStakingAssetInfo(ctx, &assetstypes.StakingAssetInfo{
		AssetBasicInfo: assetstypes.AssetInfo{Name: "USD coin", Symbol: "USDC", Address: usdc.String(), Decimals: 6,
			LayerZeroChainID: env.LzID, MetaInfo: "USDC"},
		StakingTotalAmount: math.NewInt(0),
	}), "usdc")
	w.assets = []common.Address{common.HexToAddress(env.AssetAddr), usdc}
	_, usdcID := assetstypes.GetStakerIDAndAssetIDFromStr(env.LzID, "", usdc.String())
	// two more AVSs: AVS2 supports USDT only, AVS3 supports USDT and USDC
	dogfoodAVS := avstypes.GenerateAVSAddr(avstypes.ChainIDWithoutRevision(env.ChainID))
	w.avss = []string{dogfoodAVS, c17AVS2, c17AVS3}
	c17Must(app.AVSManagerKeeper.UpdateAVSInfo(ctx, &avstypes.AVSRegisterOrDeregisterParams{
		Action: avskeeper.RegisterAction, EpochIdentifier: epochstypes.MinuteEpochID, AvsAddress: c17AVS2, AvsName: "avs2",
		TaskAddr: "0x00000000000000000000000000000000000000b2", AssetID: []string{env.AssetID},
	}), "avs2")
	c17Must(app.AVSManagerKeeper.UpdateAVSInfo(ctx, &avstypes.AVSRegisterOrDeregisterParams{
		Action: avskeeper.RegisterAction, EpochIdentifier: epochstypes.MinuteEpochID, AvsAddress: c17AVS3, AvsName: "avs3",
		TaskAddr: "0x00000000000000000000000000000000000000b3", AssetID: []string{env.AssetID, usdcID},
	}), "avs3")
	for i := 0; i < c17NStakers; i++ {
		_, a := DetEthKey("c17staker", i)
		w.stakers = append(w.stakers, a)
		w.stakerIdx[w.stakerID(a)] = c17NOps + i
	}
	// further identifiers that are prefixes / extensions / case variants of "hour" (all one hour long), so that an
	// identifier comparison weaker than equality is observable
	for _, id := range c17ExtraIDs {
		c17Must(app.EpochsKeeper.AddEpochInfo(ctx, epochstypes.NewGenesisEpochInfo(id, time.Hour)), "epoch "+id)
	}
	env.Ctx = ctx
	return w
}

// ---- generator ------------------------------------------------------------------------------

var c17IDs = []string{epochstypes.MinuteEpochID, epochstypes.HourEpochID, epochstypes.DayEpochID, epochstypes.WeekEpochID}
var c17ExtraIDs = []string{"hou", "hourly", "Hour"}

func c17PickID(rng *rand.Rand, n int) string {
	if rng.Intn(8) == 0 {
		return c17ExtraIDs[rng.Intn(len(c17ExtraIDs))]
	}
	return c17IDs[rng.Intn(n)]
}

func c17Pow10(n int) *big.Int { return new(big.Int).Exp(big.NewInt(10), big.NewInt(int64(n)), nil) }

func c17RandDec01(rng *rand.Rand) math.LegacyDec {
	one := c17Pow10(18)
	switch rng.Intn(12) {
	case 0:
		return math.LegacyZeroDec()
	case 1:
		return math.LegacyOneDec()
	case 2:
		return math.LegacyNewDecFromBigIntWithPrec(big.NewInt(1), 18)
	case 3:
		return math.LegacyNewDecFromBigIntWithPrec(new(big.Int).Sub(one, big.NewInt(1)), 18)
	case 4:
		return math.LegacyNewDecWithPrec(5, 1)
	case 5:
		return math.LegacyNewDecWithPrec(3, 2)
	case 6:
		return math.LegacyNewDecWithPrec(int64(rng.Intn(101)), 2)
	default:
		return math.LegacyNewDecFromBigIntWithPrec(new(big.Int).Rand(rng, new(big.Int).Add(one, big.NewInt(1))), 18)
	}
}

func c17RandAmount(rng *rand.Rand) math.Int {
	switch rng.Intn(10) {
	case 0:
		return math.NewInt(0)
	case 1:
		return math.NewInt(1)
	case 2:
		return math.NewInt(int64(rng.Intn(10) + 1))
	case 3:
		return math.NewInt(int64(rng.Intn(1000) + 1))
	case 4:
		return math.NewIntFromBigInt(c17Pow10(18))
	case 5:
		return math.NewIntFromBigInt(new(big.Int).Add(c17Pow10(18), big.NewInt(int64(rng.Intn(3)-1))))
	case 6:
		return math.NewIntFromBigInt(new(big.Int).Rand(rng, c17Pow10(30)))
	default:
		return math.NewIntFromBigInt(new(big.Int).Rand(rng, c17Pow10(3+rng.Intn(22))))
	}
}

type c17Run struct {
	w      *c17World
	ctx    sdk.Context
	rng    *rand.Rand
	cw     *CaseWriter
	script []string
	t      time.Time
	h      int64
	events []c17Event
	upds   []c17Upd
	ek     *epochskeeper.Keeper
}

func (r *c17Run) log(f string, a ...interface{}) { r.script = append(r.script, fmt.Sprintf(f, a...)) }

func (r *c17Run) income(amt math.Int) {
	if !amt.IsPositive() {
		r.log("income 0")
		return
	}
	err := r.w.env.App.BankKeeper.SendCoinsFromAccountToModule(r.ctx, r.w.payer, authtypes.FeeCollectorName,
		sdk.NewCoins(sdk.NewCoin(utils.BaseDenom, amt)))
	r.log("income %s err=%v", amt, err != nil)
	r.cw.Count("cfg.income")
}

func (r *c17Run) knownIDs() []string {
	var ids []string
	for _, ei := range r.w.env.App.EpochsKeeper.AllEpochInfos(r.ctx) {
		ids = append(ids, ei.Identifier)
	}
	return ids
}

func (r *c17Run) mintStored() (string, string) {
	p := r.w.env.App.ExomintKeeper.GetParams(r.ctx)
	return p.EpochIdentifier, p.EpochReward.String()
}

func (r *c17Run) distStored() (string, string) {
	p := r.w.env.App.DistrKeeper.GetParams(r.ctx)
	return p.EpochIdentifier, c17DecZ(p.CommunityTax)
}

func (r *c17Run) setDist(id string, tax math.LegacyDec) {
	u := c17Upd{Kind: "setdist", VB: false, Auth: true, Known: r.knownIDs(), ReqID: id, ReqVal: c17DecZ(tax), AtEv: len(r.events)}
	u.PrevID, u.PrevVal = r.distStored()
	r.w.env.App.DistrKeeper.SetParams(r.ctx, distrtypes.Params{EpochIdentifier: id, CommunityTax: tax})
	u.PostID, u.PostVal = r.distStored()
	r.upds = append(r.upds, u)
	r.log("dist params id=%s tax=%s", id, tax)
}

func (r *c17Run) setMint(id string, reward math.Int) {
	u := c17Upd{Kind: "setmint", VB: false, Auth: true, Known: r.knownIDs(), ReqID: id, ReqVal: reward.String(), AtEv: len(r.events)}
	u.PrevID, u.PrevVal = r.mintStored()
	r.w.env.App.ExomintKeeper.SetParams(r.ctx, exominttypes.NewParams(utils.BaseDenom, reward, id))
	u.PostID, u.PostVal = r.mintStored()
	r.upds = append(r.upds, u)
	r.log("mint params id=%s reward=%s", id, reward)
}

// updMint: the REAL exomint MsgUpdateParams path. vb = the message passes through ValidateBasic first (as every
// transaction and governance proposal does); otherwise the handler is called directly.
func (r *c17Run) updMint(id string, reward math.Int, vb, auth bool) {
	k := r.w.env.App.ExomintKeeper
	authority := k.GetAuthority()
	if !auth {
		authority = r.w.payer.String()
	}
	u := c17Upd{Kind: "mint", VB: vb, Auth: auth, Known: r.knownIDs(), ReqID: id, ReqVal: reward.String(), AtEv: len(r.events)}
	u.PrevID, u.PrevVal = r.mintStored()
	msg := &exominttypes.MsgUpdateParams{Authority: authority, Params: exominttypes.NewParams(utils.BaseDenom, reward, id)}
	var err error
	if vb {
		err = msg.ValidateBasic()
	}
	if err == nil {
		cctx, write := r.ctx.CacheContext() // a failed message leaves no trace
		if _, err = k.UpdateParams(sdk.WrapSDKContext(cctx), msg); err == nil {
			write()
		}
	}
	u.Err = err != nil
	u.PostID, u.PostVal = r.mintStored()
	r.upds = append(r.upds, u)
	r.log("mint UpdateParams id=%q reward=%s vb=%v auth=%v err=%v -> %q %s", id, reward, vb, auth, u.Err, u.PostID, u.PostVal)
	r.cw.Count("cfg.upd.mint")
	if u.Err {
		r.cw.Count("cfg.upd.mint.err")
	}
	if u.PostID != id {
		r.cw.Count("cfg.upd.mint.identifier-not-taken")
	}
}

func (r *c17Run) updDist(id string, tax math.LegacyDec, vb, auth bool) {
	k := r.w.env.App.DistrKeeper
	authority := k.GetAuthority()
	if !auth {
		authority = r.w.payer.String()
	}
	u := c17Upd{Kind: "dist", VB: vb, Auth: auth, Known: r.knownIDs(), ReqID: id, ReqVal: c17DecZ(tax), AtEv: len(r.events)}
	u.PrevID, u.PrevVal = r.distStored()
	msg := &distrtypes.MsgUpdateParams{Authority: authority, Params: distrtypes.Params{EpochIdentifier: id, CommunityTax: tax}}
	var err error
	if vb {
		err = msg.ValidateBasic()
	}
	if err == nil {
		cctx, write := r.ctx.CacheContext()
		if _, err = distrkeeper.NewMsgServerImpl(k).UpdateParams(sdk.WrapSDKContext(cctx), msg); err == nil {
			write()
		}
	}
	u.Err = err != nil
	u.PostID, u.PostVal = r.distStored()
	r.upds = append(r.upds, u)
	r.log("dist UpdateParams id=%q tax=%s vb=%v auth=%v err=%v -> %q %s", id, tax, vb, auth, u.Err, u.PostID, u.PostVal)
	r.cw.Count("cfg.upd.dist")
	if u.Err {
		r.cw.Count("cfg.upd.dist.err")
	}
}

// identifiers requested in parameter updates: the ones of the epochs store, and strings that differ from them by white
// space, case, a missing / extra letter, or not at all similar; blank ones
func c17UpdID(rng *rand.Rand, n int) string {
	base := c17PickID(rng, n)
	switch rng.Intn(16) {
	case 0:
		return base + " "
	case 1:
		return " " + base
	case 2:
		return "  " + base + "  "
	case 3:
		return strings.ToUpper(base[:1]) + base[1:]
	case 4:
		return strings.ToUpper(base)
	case 5:
		return base[:len(base)-1]
	case 6:
		return base + "s"
	case 7:
		return ""
	case 8:
		return "   "
	case 9:
		return "fortnight"
	default:
		return base
	}
}

// validator records of the dogfood module: keep the first k genesis validators with the given powers
func (r *c17Run) setValidators(powers []int64, total int64) {
	app := r.w.env.App
	for _, v := range app.StakingKeeper.GetAllExocoreValidators(r.ctx) {
		app.StakingKeeper.DeleteExocoreValidator(r.ctx, sdk.ConsAddress(v.Address))
	}
	for i, p := range powers {
		pk := r.w.env.ConsKeys[i].ToSdkKey()
		v, err := dogfoodtypes.NewExocoreValidator(pk.Address(), p, pk)
		c17Must(err, "validator")
		app.StakingKeeper.SetExocoreValidator(r.ctx, v)
	}
	app.StakingKeeper.SetLastTotalPower(r.ctx, math.NewInt(total))
	r.log("validators powers=%v total=%d", powers, total)
}

// a validator record whose consensus key no operator has registered: ValidatorByConsAddrForChainID does not find it,
// AllocateTokens skips it and its share stays in `remaining` (community pool)
func (r *c17Run) addGhostValidator(i int, power int64) {
	_, ck := DetConsKey("c17ghost", i)
	pk := ck.ToSdkKey()
	v, err := dogfoodtypes.NewExocoreValidator(pk.Address(), power, pk)
	c17Must(err, "ghost validator")
	r.w.env.App.StakingKeeper.SetExocoreValidator(r.ctx, v)
	r.log("ghost validator %d power=%d", i, power)
}

// commission rate as RegisterOperator would have stored it (there is no EditOperator): rewrite the operator info record
func (r *c17Run) setRate(op int, rate math.LegacyDec) {
	app := r.w.env.App
	addr := r.w.env.Operators[op]
	info, err := app.OperatorKeeper.OperatorInfo(r.ctx, addr.String())
	c17Must(err, "operator info")
	info.Commission = stakingtypes.NewCommission(rate, math.LegacyOneDec(), math.LegacyOneDec())
	st := prefix.NewStore(r.ctx.KVStore(app.GetKey(operatortypes.StoreKey)), operatortypes.KeyPrefixOperatorInfo)
	st.Set(addr, app.AppCodec().MustMarshal(info))
	r.log("rate op=%d rate=%s", op, rate)
}

// jail the operator's validator for the chain's own AVS: CalculateUSDValueForStaker then yields 0 for every staker of
// that AVS, so curTotalStakersPowers can be zero (nobody is paid, the whole share goes to the community pool)
func (r *c17Run) jail(op int) {
	chainID := avstypes.ChainIDWithoutRevision(r.ctx.ChainID())
	r.w.env.App.OperatorKeeper.Jail(r.ctx, r.w.env.ConsKeys[op].ToConsAddr(), chainID)
	r.log("jail op=%d", op)
	r.cw.Count("cfg.jail")
}

func (r *c17Run) optIn(op int, avs int) {
	err := r.w.env.App.OperatorKeeper.OptIn(r.ctx, r.w.env.Operators[op], r.w.avss[avs])
	r.log("optin op=%d avs=%d err=%v", op, avs, err != nil)
	if err == nil {
		r.cw.Count("cfg.optin")
	}
}

func (r *c17Run) delegate(staker, asset, op int, amt math.Int) {
	err := r.w.depositDelegate(r.ctx, r.w.stakers[staker], r.w.assets[asset], r.w.env.Operators[op], amt)
	r.log("delegate staker=%d asset=%d op=%d amt=%s err=%v", staker, asset, op, amt, err != nil)
	if err == nil {
		r.cw.Count("cfg.delegate")
	}
}

// one block: real BeginBlocker of x/epochs at time t+d
func (r *c17Run) block(d time.Duration) (panicked bool) {
	r.t = r.t.Add(d)
	r.h++
	bctx := r.ctx.WithBlockHeight(r.h).WithBlockTime(r.t)
	r.log("block +%s", d)
	defer func() {
		if rec := recover(); rec != nil {
			panicked = true
			if n := len(r.events); n > 0 && r.events[n-1].Panic {
				r.events[n-1].PanicS = fmt.Sprint(rec)
				r.events[n-1].Post = r.w.observe(bctx)
			}
			r.cw.Count("outcome.panic")
		}
	}()
	r.ek.BeginBlocker(bctx)
	return false
}

var c17Steps = []time.Duration{10 * time.Second, 61 * time.Second, time.Hour + time.Second, 24*time.Hour + time.Second, 7*24*time.Hour + time.Second}

func (r *c17Run) randomConfig(first bool) {
	rng := r.rng
	if first || rng.Intn(3) == 0 {
		k := 1 + rng.Intn(c17NOps)
		powers := make([]int64, k)
		var tot int64
		for i := range powers {
			switch rng.Intn(8) {
			case 0:
				powers[i] = 0
			case 1:
				powers[i] = 1
			case 2:
				powers[i] = 1 << 40
			case 3:
				powers[i] = 3
			default:
				powers[i] = rng.Int63n(1_000_000) + 1
			}
			tot += powers[i]
		}
		if rng.Intn(12) == 0 { // an epoch without voting power
			for i := range powers {
				powers[i] = 0
			}
			tot = 0
		}
		ghost := int64(0)
		if tot > 0 && rng.Intn(6) == 0 {
			ghost = rng.Int63n(1000) + 1
		}
		extra := int64(0)
		if tot > 0 && rng.Intn(10) == 0 { // a last total power above the sum of the stored records
			extra = rng.Int63n(5) + 1
		}
		r.setValidators(powers, tot+ghost+extra)
		if ghost > 0 {
			r.addGhostValidator(rng.Intn(3), ghost)
			r.cw.Count("cfg.ghost-validator")
		}
	}
	if first || rng.Intn(3) == 0 {
		for i := 0; i < c17NOps; i++ {
			if first || rng.Intn(2) == 0 {
				r.setRate(i, c17RandDec01(rng))
			}
		}
	}
	if first || rng.Intn(8) == 0 {
		r.setDist(c17PickID(rng, 3), c17RandDec01(rng))
	} else if rng.Intn(3) == 0 {
		r.updDist(c17UpdID(rng, 3), c17RandDec01(rng), rng.Intn(4) != 0, rng.Intn(8) != 0)
	}
	if first || rng.Intn(3) == 0 {
		var rew math.Int
		switch rng.Intn(6) {
		case 0:
			rew = math.NewInt(0)
		case 1:
			rew = math.NewInt(20)
		default:
			rew = c17RandAmount(rng)
		}
		if first || rng.Intn(3) == 0 {
			r.setMint(c17PickID(rng, len(c17IDs)), rew)
		} else {
			if rng.Intn(10) == 0 {
				rew = math.NewInt(-1 - int64(rng.Intn(5)))
			}
			r.updMint(c17UpdID(rng, len(c17IDs)), rew, rng.Intn(4) != 0, rng.Intn(8) != 0)
		}
	}
	if rng.Intn(10) == 0 {
		r.jail(rng.Intn(c17NOps))
	}
	n := rng.Intn(3)
	if first {
		n = rng.Intn(6)
	}
	for i := 0; i < n; i++ {
		r.optIn(rng.Intn(c17NOps), 1+rng.Intn(2))
	}
	n = rng.Intn(3)
	if first {
		n = rng.Intn(8)
	}
	for i := 0; i < n; i++ {
		var amt math.Int
		switch rng.Intn(4) {
		case 0:
			amt = math.NewInt(1)
		case 1:
			amt = math.NewInt(int64(rng.Intn(5)+1) * 1_000_000)
		default:
			amt = math.NewInt(rng.Int63n(1_000_000_000) + 1)
		}
		r.delegate(rng.Intn(c17NStakers), rng.Intn(2), rng.Intn(c17NOps), amt)
	}
	if rng.Intn(5) != 0 {
		r.income(c17RandAmount(rng))
	}
}

func (r *c17Run) finish(tags []string, subs []string) {
	nt := false
	evC := []string{}
	noops := 0
	nu := 0
	for ei, e := range r.events {
		for ; nu < len(r.upds) && r.upds[nu].AtEv <= ei; nu++ {
			evC = append(evC, cApp("IUpd", r.upds[nu].coq()))
		}
		// epoch ends of identifiers that concern neither module and change nothing: the first three of a case go to
		// the Coq case (frame statement), the rest only to the JSON description
		if e.ID != e.DistID && e.ID != e.MintID && !e.Panic && e.Pre.coq(e.Pre) == e.Post.coq(e.Post) {
			noops++
			if noops > 3 {
				r.cw.Count("events.noop-not-in-coq-case")
				continue
			}
		}
		evC = append(evC, cApp("IEv", e.coq()))
		if e.Pre.Supply != e.Post.Supply || e.Pre.Dist != e.Post.Dist {
			nt = true
		}
		r.cw.Count("events")
		if e.ID == e.DistID {
			r.cw.Count("ev.dist")
			if e.Total == "0" {
				r.cw.Count("ev.dist.zero-power")
			}
			if e.Pre.FC == "0" {
				r.cw.Count("ev.dist.zero-fees")
			}
			apps, dup := 0, false
			for _, v := range e.Vals {
				seen := map[int]bool{}
				for _, a := range v.Apps {
					apps++
					if seen[a.Staker] {
						dup = true
					}
					seen[a.Staker] = true
				}
			}
			for _, v := range e.Vals {
				if !v.Found {
					continue
				}
				allZero := true
				for _, a := range v.Apps {
					if a.Value != "0" {
						allZero = false
					}
				}
				if allZero {
					r.cw.Count("ev.dist.validator-without-staker-power")
				}
			}
			r.cw.CountN("ev.dist.staker-appearances", apps)
			if dup {
				r.cw.Count("ev.dist.duplicate-staker")
			}
			r.cw.Count(fmt.Sprintf("ev.dist.vals=%d", len(e.Vals)))
			for _, v := range e.Vals {
				if !v.Found {
					r.cw.Count("ev.dist.unresolved-validator")
				}
			}
		}
		if e.ID == e.MintID {
			r.cw.Count("ev.mint")
			if e.Reward == "0" {
				r.cw.Count("ev.mint.zero-reward")
			}
		}
		if e.ID == e.MintID && e.ID == e.DistID {
			r.cw.Count("ev.both")
		}
		if e.Pre.OtherDenoms || e.Post.OtherDenoms || !e.DenomOK {
			r.cw.Count("ev.other-denoms")
		}
	}
	for ; nu < len(r.upds); nu++ {
		evC = append(evC, cApp("IUpd", r.upds[nu].coq()))
	}
	subsC := make([]string, len(subs))
	for i, s := range subs {
		subsC[i] = cStr(s)
	}
	cs := c17Case{Suite: "c17", Subs: subs, Tags: tags, NT: nt, Script: r.script, Events: r.events, Upds: r.upds}
	r.cw.Add(cApp("mkCase", cList(subsC), cList(evC)), cs)
}

func (w *c17World) newRun(rng *rand.Rand, cw *CaseWriter) *c17Run {
	ctx, _ := w.env.Ctx.CacheContext()
	r := &c17Run{w: w, ctx: ctx, rng: rng, cw: cw, t: w.env.Header.Time, h: w.env.Header.Height, events: []c17Event{}}
	r.ek = epochskeeper.NewKeeper(w.env.App.AppCodec(), w.env.App.GetKey(epochstypes.StoreKey))
	r.ek.SetHooks(epochstypes.NewMultiEpochHooks(c17Hook{w, &r.events}, w.env.App.EpochsKeeper.Hooks()))
	return r
}

func runC17(a *Args) error {
	w := c17Setup()
	cw := NewCaseWriter(a.Out)
	defer cw.Close()
	rng := rand.New(rand.NewSource(a.Seed))
	subs := c17Subscribers(w.env)

	nStakerIdx := len(w.stakerIdx)
	// ---- directed scenarios first ----
	c17Directed(w, cw, subs)

	for c := 0; cw.n < a.N; c++ {
		r := w.newRun(rng, cw)
		r.randomConfig(true)
		nb := 2 + rng.Intn(5)
		for b := 0; b < nb; b++ {
			if b > 0 {
				r.randomConfig(false)
			}
			var d time.Duration
			switch x := rng.Intn(10); {
			case x < 1:
				d = c17Steps[0]
			case x < 6:
				d = c17Steps[1]
			case x < 8:
				d = c17Steps[2]
			case x < 9:
				d = c17Steps[3]
			default:
				d = c17Steps[4]
			}
			if r.block(d) {
				break
			}
		}
		r.finish(nil, subs)
		// unknown stakers met in this case are not carried over
		for k, v := range w.stakerIdx {
			if v >= 1000 {
				delete(w.stakerIdx, k)
			}
		}
		if len(w.stakerIdx) != nStakerIdx {
			return fmt.Errorf("staker index corrupted")
		}
	}
	c17RealBlocks(w, cw, subs)
	return nil
}

// directed scenarios (tags are used by the known-findings matcher and by design/C17.md)
func c17Directed(w *c17World, cw *CaseWriter, subs []string) {
	rng := rand.New(rand.NewSource(17))
	half := math.LegacyNewDecWithPrec(5, 1)
	// D1: one staker is paid: booked claims must equal what moved (the pre-repair code booked `shared` twice)
	{
		r := w.newRun(rng, cw)
		r.setValidators([]int64{3, 1}, 4)
		r.setRate(0, half)
		r.setRate(1, math.LegacyNewDecWithPrec(1, 1))
		r.setDist(epochstypes.MinuteEpochID, math.LegacyNewDecWithPrec(3, 2))
		r.setMint(epochstypes.DayEpochID, math.NewInt(20))
		r.income(math.NewInt(1_000_003))
		r.block(c17Steps[1])
		r.income(math.NewInt(999))
		r.block(c17Steps[1])
		r.finish([]string{"c17-d1-single-staker"}, subs)
	}
	// D2: a staker reached through two AVSs with different supported-asset sets (different USD value per AVS) and
	// through two assets of one AVS: the pre-repair code pays it per appearance with the last value seen
	{
		r := w.newRun(rng, cw)
		r.setValidators([]int64{1}, 1)
		r.setRate(0, math.LegacyZeroDec())
		r.setDist(epochstypes.MinuteEpochID, math.LegacyZeroDec())
		r.setMint(epochstypes.DayEpochID, math.NewInt(20))
		r.optIn(0, 1)
		r.optIn(0, 2)
		r.delegate(0, 0, 0, math.NewInt(1_000_000))
		r.delegate(0, 1, 0, math.NewInt(900_000_000))
		r.income(math.NewInt(1000))
		r.block(c17Steps[1]) // AVS2/AVS3 voting power becomes active at this minute end
		r.income(math.NewInt(1_000_000))
		r.block(c17Steps[1])
		r.income(math.NewInt(7))
		r.block(c17Steps[1])
		r.finish([]string{"c17-d2-duplicate-staker"}, subs)
	}
	// D3: distribution and mint on the same identifier: distribution runs first, the minted reward stays in the
	// fee collector until the next epoch end
	{
		r := w.newRun(rng, cw)
		r.setValidators([]int64{5, 5, 7}, 17)
		r.setDist(epochstypes.HourEpochID, half)
		r.setMint(epochstypes.HourEpochID, math.NewInt(1_000_000_007))
		r.income(math.NewInt(12345))
		r.block(c17Steps[2])
		r.block(c17Steps[2])
		r.block(c17Steps[2])
		r.finish([]string{"c17-d3-same-identifier"}, subs)
	}
	// D4: zero power, zero fees, zero reward
	{
		r := w.newRun(rng, cw)
		r.setValidators([]int64{0, 0}, 0)
		r.setDist(epochstypes.MinuteEpochID, half)
		r.setMint(epochstypes.MinuteEpochID, math.NewInt(0))
		r.block(c17Steps[1])
		r.income(math.NewInt(1_000_000))
		r.block(c17Steps[1])
		r.setValidators([]int64{0, 9}, 9)
		r.block(c17Steps[1])
		r.finish([]string{"c17-d4-zero"}, subs)
	}
	// D7: parameter updates through the real MsgUpdateParams handlers whose identifier differs from an existing one by
	// white space / case: the previous identifier stays in force (mint: the new reward is taken; distribution: rejected),
	// and the reward keeps being minted / the fee collector keeps being swept at every end of the configured epoch
	{
		r := w.newRun(rng, cw)
		r.setValidators([]int64{2, 1}, 3)
		r.setDist(epochstypes.MinuteEpochID, half)
		r.setMint(epochstypes.MinuteEpochID, math.NewInt(20))
		r.income(math.NewInt(1_000))
		r.block(c17Steps[1])
		r.updMint("minute ", math.NewInt(30), true, true)
		r.updDist(" minute", math.LegacyNewDecWithPrec(1, 1), true, true)
		r.income(math.NewInt(2_000))
		r.block(c17Steps[1])
		r.updMint("Minute", math.NewInt(40), false, true)
		r.updDist("minute  ", math.LegacyNewDecWithPrec(2, 1), false, true)
		r.income(math.NewInt(3_000))
		r.block(c17Steps[1])
		r.updMint("hour", math.NewInt(50), true, false)
		r.updMint("  ", math.NewInt(60), false, true)
		r.updMint("fortnight", math.NewInt(-5), false, true)
		r.block(c17Steps[1])
		r.finish([]string{"c17-d7-update-identifier-lookalike"}, subs)
	}
	// D5: GetOptedInAVSForOperator fails for operator 0 (a malformed opted-in key: three fields instead of two):
	// AllocateTokensToStakers returns early; the stakers' share must still be booked (to the community pool)
	{
		r := w.newRun(rng, cw)
		r.setValidators([]int64{2, 2}, 4)
		r.setRate(0, half)
		r.setRate(1, half)
		r.setDist(epochstypes.MinuteEpochID, math.LegacyNewDecWithPrec(3, 2))
		r.setMint(epochstypes.DayEpochID, math.NewInt(20))
		st := prefix.NewStore(r.ctx.KVStore(w.env.App.GetKey(operatortypes.StoreKey)), operatortypes.KeyPrefixOperatorOptedAVSInfo)
		st.Set([]byte(w.env.Operators[0].String()+"/"+c17AVS2+"/x"), []byte{})
		r.log("malformed opted-in key for op=0")
		r.income(math.NewInt(4_000_000))
		r.block(c17Steps[1])
		r.finish([]string{"c17-d5-optin-key-error"}, subs)
	}
}

// c17RealBlocks runs LAST (it commits): whole blocks of the real application through ABCI EndBlock / Commit / BeginBlock, 61 s
// apart so that exactly the "minute" epoch ends in every BeginBlock. The inputs and the state before are observed on the
// committed state between Commit and BeginBlock, the state after on the deliver state right after BeginBlock: whatever any
// BeginBlocker of the application (not only the epoch hooks) does to the supply, the module accounts or the books is in the
// observation.
func c17RealBlocks(w *c17World, cw *CaseWriter, subs []string) {
	env := w.env
	app := env.App
	r := &c17Run{w: w, ctx: env.Ctx, rng: rand.New(rand.NewSource(18)), cw: cw, events: []c17Event{}}
	r.setDist(epochstypes.MinuteEpochID, math.LegacyNewDecWithPrec(3, 2))
	r.setMint(epochstypes.MinuteEpochID, math.NewInt(1_000_003))
	for i := 0; i < c17NOps; i++ {
		r.setRate(i, math.LegacyNewDecWithPrec(int64(5+20*i), 2))
	}
	r.optIn(1, 1)
	r.optIn(1, 2)
	r.delegate(0, 0, 1, math.NewInt(250_000_000))
	r.delegate(0, 1, 1, math.NewInt(50_000_000))
	r.delegate(1, 0, 0, math.NewInt(1))
	for b := 0; b < 6; b++ {
		r.ctx = env.Ctx
		r.income(math.NewInt(int64(1_000_000*(b+1) + b)))
		if b == 2 {
			r.delegate(2, 0, 3, math.NewInt(77_000_000))
		}
		ev := c17Event{ID: epochstypes.MinuteEpochID, Panic: true}
		func() {
			defer func() {
				if rec := recover(); rec != nil {
					ev.PanicS = fmt.Sprint(rec)
					r.cw.Count("outcome.panic")
				}
			}()
			app.EndBlock(abci.RequestEndBlock{Height: env.Header.Height})
			app.Commit()
			h := env.Header
			h.Height++
			h.Time = h.Time.Add(c17Steps[1])
			h.AppHash = app.LastCommitID().Hash
			cctx := app.BaseApp.NewContext(true, h)
			w.inputs(cctx, &ev)
			ev.Pre = w.observe(cctx)
			ev.Post = ev.Pre
			app.BeginBlock(abci.RequestBeginBlock{Header: h})
			env.Header = h
			env.Ctx = app.BaseApp.NewContext(false, h)
			ev.Post = w.observe(env.Ctx)
			ev.Panic = false
		}()
		r.log("real block %d", env.Header.Height)
		r.events = append(r.events, ev)
		if ev.Panic {
			break
		}
	}
	r.finish([]string{"c17-d6-real-blocks"}, subs)
}

// subscriber order of the real application (same reflection as suite c15)
func c17Subscribers(env *Env) []string {
	var subs []string
	if mh, ok := env.App.EpochsKeeper.Hooks().(epochstypes.MultiEpochHooks); ok {
		for _, h := range mh {
			p := reflect.TypeOf(h).PkgPath()
			p = strings.TrimPrefix(p, "github.com/ExocoreNetwork/exocore/x/")
			subs = append(subs, strings.TrimSuffix(p, "/keeper"))
		}
	}
	return subs
}
