package main

// Suite c20: AVS registry and task windows. Drives the REAL AVS precompile methods (registerAVS, updateAVS,
// deregisterAVS, registerOperatorToAVS, deregisterOperatorFromAVS, createTask, registerBLSPublicKey, challenge)
// and the SubmitTaskResult Cosmos message (through the module's msg server, after a protobuf round trip) of a
// real ExocoreApp on generated histories with several AVSs / task contracts / operators, advances the epoch
// clock through the real x/epochs BeginBlocker (all five subscribers run), and dumps the raw AVS module
// stores (+ the operator module's opted-in records) after every operation.

import (
	"bytes"
	"encoding/hex"
	"fmt"
	"math/big"
	"math/rand"
	"regexp"
	"sort"
	"strings"
	"time"

	"github.com/cosmos/cosmos-sdk/store/prefix"
	storetypes "github.com/cosmos/cosmos-sdk/store/types"
	sdk "github.com/cosmos/cosmos-sdk/types"
	"github.com/ethereum/go-ethereum/common"
	"github.com/ethereum/go-ethereum/core/vm"
	"github.com/ethereum/go-ethereum/crypto"
	"github.com/evmos/evmos/v16/x/evm/statedb"
	"github.com/prysmaticlabs/prysm/v4/crypto/bls/blst"
	blscommon "github.com/prysmaticlabs/prysm/v4/crypto/bls/common"

	sdkmath "cosmossdk.io/math"
	avsprecompile "github.com/ExocoreNetwork/exocore/precompiles/avs"
	assetstypes "github.com/ExocoreNetwork/exocore/x/assets/types"
	avskeeper "github.com/ExocoreNetwork/exocore/x/avs/keeper"
	avstypes "github.com/ExocoreNetwork/exocore/x/avs/types"
	operatortypes "github.com/ExocoreNetwork/exocore/x/operator/types"
	oracletypes "github.com/ExocoreNetwork/exocore/x/oracle/types"
)

func init() { register("c20", runC20) }

// ---- observed state ---------------------------------------------------------------------------

type c20Avs struct {
	Key       string   `json:"key"` // lowercase hex of the 20-byte store key (byte order = string order)
	Name      string   `json:"name"`
	Addr      string   `json:"addr"`
	MinStake  uint64   `json:"min_stake"`
	Task      string   `json:"task"`
	Slash     string   `json:"slash"`
	Reward    string   `json:"reward"`
	Owners    []string `json:"owners"`
	Assets    []string `json:"assets"`
	Unbond    uint64   `json:"unbond"`
	MinSelf   uint64   `json:"min_self"`
	Epoch     string   `json:"epoch"`
	MinOptIn  uint64   `json:"min_optin"`
	MinTotal  uint64   `json:"min_total"`
	Start     uint64   `json:"start"`
	AvsReward string   `json:"avs_reward"` // raw LegacyDec integer
	AvsSlash  string   `json:"avs_slash"`
}

type c20Pow struct {
	Op  string `json:"op"`
	Pow string `json:"pow"`
}

type c20Task struct {
	Key      string   `json:"key"`
	Addr     string   `json:"addr"`
	Name     string   `json:"name"`
	Hash     string   `json:"hash"`
	ID       uint64   `json:"id"`
	Resp     uint64   `json:"resp"`
	Stat     uint64   `json:"stat"`
	Chal     uint64   `json:"chal"`
	Thr      uint64   `json:"thr"`
	Start    uint64   `json:"start"`
	Actual   uint64   `json:"actual"`
	OptIn    []string `json:"optin"`
	Signed   []string `json:"signed"`
	NoSigned []string `json:"nosigned"`
	ErrSig   []string `json:"errsigned"`
	Total    string   `json:"total"`
	HasPow   bool     `json:"has_pow"`
	Pows     []c20Pow `json:"pows"`
}

type c20Resp struct {
	Kind int    `json:"kind"` // 0 nil, 1 canonical json {TaskID,NumberSum}, 2 other bytes
	ID   uint64 `json:"id"`
	Sum  int64  `json:"sum"`
	Hex  string `json:"hex"`
}

type c20Res struct {
	Key   string  `json:"key"`
	Op    string  `json:"op"`
	Hash  int     `json:"hash"` // 0 empty, 1 keccak of own response, 2 anything else
	Resp  c20Resp `json:"resp"`
	Sig   string  `json:"sig"`
	HasSg bool    `json:"has_sig"`
	Task  string  `json:"task"`
	ID    uint64  `json:"id"`
	Stage string  `json:"stage"`
}

type c20KV struct {
	Key string `json:"key"`
	Val string `json:"val"`
}

type c20Opt struct {
	Key    string `json:"key"`
	Active bool   `json:"active"`
}

type c20Dump struct {
	Avs   []c20Avs  `json:"avs"`
	Tasks []c20Task `json:"tasks"`
	Nums  []c20KV   `json:"nums"`
	Pubs  []c20KV   `json:"pubs"`
	Res   []c20Res  `json:"results"`
	Chals []c20KV   `json:"challenges"`
	Opted []c20Opt  `json:"opted"`
}

func c20Strs(xs []string) string {
	ss := make([]string, len(xs))
	for i, x := range xs {
		ss[i] = cStr(x)
	}
	return cList(ss)
}

func (a c20Avs) coq() string {
	return cTuple(cStr(a.Key), cApp("mkAvs", cStr(a.Name), cStr(a.Addr), c20Z(a.MinStake), cStr(a.Task), cStr(a.Slash), cStr(a.Reward),
		c20Strs(a.Owners), c20Strs(a.Assets), c20Z(a.Unbond), c20Z(a.MinSelf), cStr(a.Epoch), c20Z(a.MinOptIn), c20Z(a.MinTotal),
		c20Z(a.Start), cZstr(a.AvsReward), cZstr(a.AvsSlash)))
}

func c20Z(u uint64) string { return new(big.Int).SetUint64(u).String() + "%Z" }

func (t c20Task) coq() string {
	ps := make([]string, len(t.Pows))
	for i, p := range t.Pows {
		ps[i] = cTuple(cStr(p.Op), cZstr(p.Pow))
	}
	return cTuple(cStr(t.Key), cApp("mkTask", cStr(t.Addr), cStr(t.Name), cStr(t.Hash), c20Z(t.ID), c20Z(t.Resp), c20Z(t.Stat), c20Z(t.Chal),
		c20Z(t.Thr), c20Z(t.Start), c20Z(t.Actual), c20Strs(t.OptIn), c20Strs(t.Signed), c20Strs(t.NoSigned), c20Strs(t.ErrSig),
		cZstr(t.Total), cOpt(t.HasPow, cList(ps))))
}

func (r c20Resp) coq() string {
	switch r.Kind {
	case 0:
		return "RNil"
	case 1:
		return cApp("RJson", c20Z(r.ID), cZ(r.Sum))
	default:
		return cApp("RBad", cStr(r.Hex))
	}
}

func (r c20Res) coq() string {
	return cTuple(cStr(r.Key), cApp("mkRes", cStr(r.Op), cNat(r.Hash), r.Resp.coq(), cOpt(r.HasSg, cStr(r.Sig)), cStr(r.Task), c20Z(r.ID), cStr(r.Stage)))
}

func c20KVs(xs []c20KV) string {
	ss := make([]string, len(xs))
	for i, x := range xs {
		ss[i] = cTuple(cStr(x.Key), cStr(x.Val))
	}
	return cList(ss)
}

func c20NumKVs(xs []c20KV) string {
	ss := make([]string, len(xs))
	for i, x := range xs {
		ss[i] = cTuple(cStr(x.Key), cZstr(x.Val))
	}
	return cList(ss)
}

// coqDelta prints the sub-stores that differ from prev as Some, the others as None.
func (d *c20Dump) coqDelta(prev *c20Dump) string {
	j := func(v interface{}) string { return fmt.Sprintf("%v", v) }
	parts := []string{}
	{
		ss := make([]string, len(d.Avs))
		for i, x := range d.Avs {
			ss[i] = x.coq()
		}
		parts = append(parts, cOpt(prev == nil || j(d.Avs) != j(prev.Avs), cList(ss)))
	}
	{
		ss := make([]string, len(d.Tasks))
		for i, x := range d.Tasks {
			ss[i] = x.coq()
		}
		parts = append(parts, cOpt(prev == nil || j(d.Tasks) != j(prev.Tasks), cList(ss)))
	}
	parts = append(parts, cOpt(prev == nil || j(d.Nums) != j(prev.Nums), c20NumKVs(d.Nums)))
	parts = append(parts, cOpt(prev == nil || j(d.Pubs) != j(prev.Pubs), c20KVs(d.Pubs)))
	{
		ss := make([]string, len(d.Res))
		for i, x := range d.Res {
			ss[i] = x.coq()
		}
		parts = append(parts, cOpt(prev == nil || j(d.Res) != j(prev.Res), cList(ss)))
	}
	parts = append(parts, cOpt(prev == nil || j(d.Chals) != j(prev.Chals), c20KVs(d.Chals)))
	{
		ss := make([]string, len(d.Opted))
		for i, x := range d.Opted {
			ss[i] = cTuple(cStr(x.Key), cBool(x.Active))
		}
		parts = append(parts, cOpt(prev == nil || j(d.Opted) != j(prev.Opted), cList(ss)))
	}
	return cApp("mkDump", parts...)
}

func c20Iter(ctx sdk.Context, key storetypes.StoreKey, pfx []byte, f func(k, v []byte)) {
	st := prefix.NewStore(ctx.KVStore(key), pfx)
	it := st.Iterator(nil, nil)
	defer it.Close()
	for ; it.Valid(); it.Next() {
		f(append([]byte{}, it.Key()...), append([]byte{}, it.Value()...))
	}
}

func c20RespOf(b []byte) c20Resp {
	if b == nil {
		return c20Resp{Kind: 0}
	}
	tr, err := avstypes.UnmarshalTaskResponse(b)
	if err == nil && tr.NumberSum != nil && tr.NumberSum.IsInt64() {
		if can, err2 := avstypes.MarshalTaskResponse(tr); err2 == nil && bytes.Equal(can, b) {
			return c20Resp{Kind: 1, ID: tr.TaskID, Sum: tr.NumberSum.Int64()}
		}
	}
	return c20Resp{Kind: 2, Hex: hex.EncodeToString(b)}
}

func (h *c20H) dump(ctx sdk.Context) *c20Dump {
	d := &c20Dump{}
	cdc := h.env.App.AppCodec()
	ak := h.env.App.GetKey(avstypes.StoreKey)
	c20Iter(ctx, ak, avstypes.KeyPrefixAVSInfo, func(k, v []byte) {
		var a avstypes.AVSInfo
		cdc.MustUnmarshal(v, &a)
		d.Avs = append(d.Avs, c20Avs{hex.EncodeToString(k), a.Name, a.AvsAddress, a.MinStakeAmount, a.TaskAddr, a.SlashAddr, a.RewardAddr,
			a.AvsOwnerAddress, a.AssetIDs, a.AvsUnbondingPeriod, a.MinSelfDelegation, a.EpochIdentifier, a.MinOptInOperators,
			a.MinTotalStakeAmount, a.StartingEpoch, c20DecRaw(a.AvsReward.BigInt()), c20DecRaw(a.AvsSlash.BigInt())})
	})
	c20Iter(ctx, ak, avstypes.KeyPrefixAVSTaskInfo, func(k, v []byte) {
		var t avstypes.TaskInfo
		cdc.MustUnmarshal(v, &t)
		ct := c20Task{Key: string(k), Addr: t.TaskContractAddress, Name: t.Name, Hash: hex.EncodeToString(t.Hash), ID: t.TaskId,
			Resp: t.TaskResponsePeriod, Stat: t.TaskStatisticalPeriod, Chal: t.TaskChallengePeriod, Thr: t.ThresholdPercentage,
			Start: t.StartingEpoch, Actual: t.ActualThreshold, OptIn: t.OptInOperators, Signed: t.SignedOperators,
			NoSigned: t.NoSignedOperators, ErrSig: t.ErrSignedOperators, Total: c20DecRaw(t.TaskTotalPower.BigInt())}
		if t.OperatorActivePower != nil {
			ct.HasPow = true
			for _, p := range t.OperatorActivePower.OperatorPowerList {
				ct.Pows = append(ct.Pows, c20Pow{p.OperatorAddr, c20DecRaw(p.SelfActivePower.BigInt())})
			}
		}
		d.Tasks = append(d.Tasks, ct)
	})
	c20Iter(ctx, ak, avstypes.KeyPrefixLatestTaskNum, func(k, v []byte) {
		d.Nums = append(d.Nums, c20KV{hex.EncodeToString(k), new(big.Int).SetUint64(sdk.BigEndianToUint64(v)).String()})
	})
	c20Iter(ctx, ak, avstypes.KeyPrefixOperatePub, func(k, v []byte) {
		var p avstypes.BlsPubKeyInfo
		cdc.MustUnmarshal(v, &p)
		kk := sdk.AccAddress(k).String()
		if kk != p.Operator {
			kk = "MISMATCH:" + kk
		}
		d.Pubs = append(d.Pubs, c20KV{kk, p.Name + "|" + hex.EncodeToString(p.PubKey)})
	})
	// the BLS key store is only ever read by key (Has/Get); its raw order is by address bytes, the model keys it by
	// the bech32 string, so present it in that order
	sort.Slice(d.Pubs, func(i, j int) bool { return d.Pubs[i].Key < d.Pubs[j].Key })
	c20Iter(ctx, ak, avstypes.KeyPrefixTaskResult, func(k, v []byte) {
		var r avstypes.TaskResultInfo
		cdc.MustUnmarshal(v, &r)
		hk := 2
		if r.TaskResponseHash == "" {
			hk = 0
		} else if r.TaskResponseHash == crypto.Keccak256Hash(r.TaskResponse).String() {
			hk = 1
		}
		d.Res = append(d.Res, c20Res{Key: string(k), Op: r.OperatorAddress, Hash: hk, Resp: c20RespOf(r.TaskResponse),
			Sig: hex.EncodeToString(r.BlsSignature), HasSg: r.BlsSignature != nil, Task: r.TaskContractAddress, ID: r.TaskId, Stage: r.Stage})
	})
	c20Iter(ctx, ak, avstypes.KeyPrefixTaskChallengeResult, func(k, v []byte) {
		d.Chals = append(d.Chals, c20KV{string(k), sdk.AccAddress(v).String()})
	})
	c20Iter(ctx, h.env.App.GetKey(operatortypes.StoreKey), operatortypes.KeyPrefixOperatorOptedAVSInfo, func(k, v []byte) {
		var o operatortypes.OptedInfo
		cdc.MustUnmarshal(v, &o)
		d.Opted = append(d.Opted, c20Opt{string(k), o.OptedOutHeight == operatortypes.DefaultOptedOutHeight})
	})
	return d
}

func c20DecRaw(b *big.Int) string {
	if b == nil {
		return "0"
	}
	return b.String()
}

// ---- ops ----------------------------------------------------------------------------------------

type c20Params struct {
	Name     string
	MinStake uint64
	Task     common.Address
	Slash    common.Address
	Reward   common.Address
	Owners   []string
	Assets   []string
	Unbond   uint64
	MinSelf  uint64
	Epoch    string
	TaskPar  []uint64 // min opt-in operators, min total stake, avs reward, avs slash
}

func (p c20Params) coq() string {
	tp := make([]string, len(p.TaskPar))
	for i, x := range p.TaskPar {
		tp[i] = c20Z(x)
	}
	return cApp("mkParams", cStr(p.Name), c20Z(p.MinStake), cStr(p.Task.String()), cStr(p.Slash.String()), cStr(p.Reward.String()),
		c20Strs(p.Owners), c20Strs(p.Assets), c20Z(p.Unbond), c20Z(p.MinSelf), cStr(p.Epoch), cList(tp))
}

type c20H struct {
	env      *Env
	p        *avsprecompile.Precompile
	ms       *avskeeper.MsgServerImpl
	rng      *rand.Rand
	w        *CaseWriter
	avsAddrs []common.Address
	taskAddr []common.Address
	owners   []common.Address
	ops      []sdk.AccAddress // registered operators + one unregistered (last)
	blsKeys  []blscommon.SecretKey
	regPub   map[string][]byte // per case: operator -> registered pubkey (what the harness believes)
	zero     common.Address
}

const (
	c20Ok    = "ROk"
	c20Err   = "RErr"
	c20Panic = "RPanic"
	c20Noop  = "RNoop"
)

// call runs one precompile method the way Precompile.Run dispatches it (same ctx, contract, method, args).
// An error return becomes `false` towards the EVM and the tx goes on, so writes made before the error stay;
// a panic aborts the tx, so its writes are dropped.
func (h *c20H) call(ctx sdk.Context, name string, contractCaller common.Address, args []interface{}) (res string) {
	cc, write := ctx.CacheContext()
	defer func() {
		if r := recover(); r != nil {
			res = c20Panic
		}
	}()
	m := h.p.ABI.Methods[name]
	contract := vm.NewContract(vm.AccountRef(contractCaller), h.p, big.NewInt(0), 100_000_000)
	sdb := statedb.New(cc, h.env.App.EvmKeeper, statedb.NewEmptyTxConfig(common.BytesToHash(cc.HeaderHash().Bytes())))
	var bz []byte
	var err error
	switch name {
	case avsprecompile.MethodRegisterAVS:
		bz, err = h.p.RegisterAVS(cc, contractCaller, contract, sdb, &m, args)
	case avsprecompile.MethodUpdateAVS:
		bz, err = h.p.UpdateAVS(cc, contractCaller, contract, sdb, &m, args)
	case avsprecompile.MethodDeregisterAVS:
		bz, err = h.p.DeregisterAVS(cc, contractCaller, contract, sdb, &m, args)
	case avsprecompile.MethodRegisterOperatorToAVS:
		bz, err = h.p.BindOperatorToAVS(cc, contractCaller, contract, sdb, &m, args)
	case avsprecompile.MethodDeregisterOperatorFromAVS:
		bz, err = h.p.UnbindOperatorToAVS(cc, contractCaller, contract, sdb, &m, args)
	case avsprecompile.MethodCreateAVSTask:
		bz, err = h.p.CreateAVSTask(cc, contractCaller, contract, sdb, &m, args)
	case avsprecompile.MethodRegisterBLSPublicKey:
		bz, err = h.p.RegisterBLSPublicKey(cc, contractCaller, contract, sdb, &m, args)
	case avsprecompile.MethodChallenge:
		bz, err = h.p.Challenge(cc, contractCaller, contract, sdb, &m, args)
	default:
		panic("unknown method " + name)
	}
	write()
	if err != nil {
		return c20Err
	}
	if bz == nil {
		return c20Noop
	}
	out, uerr := m.Outputs.Unpack(bz)
	if uerr != nil || len(out) != 1 || out[0] != true {
		return "RWeird"
	}
	return c20Ok
}

func (p c20Params) args(caller common.Address) []interface{} {
	return []interface{}{caller, p.Name, p.MinStake, p.Task, p.Slash, p.Reward, p.Owners, p.Assets, p.Unbond, p.MinSelf, p.Epoch, p.TaskPar}
}

func c20Bech(a common.Address) string { return sdk.AccAddress(a.Bytes()).String() }

// ---- per-case driver ----------------------------------------------------------------------------

type c20CaseRun struct {
	h         *c20H
	ctx       sdk.Context
	prev      *c20Dump
	steps     []string
	descs     []string
	tags      []string
	nOK       int
	kinds     map[string]bool
	pools     string // Coq term of the pools observed for the next recorded step (opt-in), "" = none
	terms     map[string]string
	termOrder []string
}

func (c *c20CaseRun) addTag(t string) {
	for _, x := range c.tags {
		if x == t {
			return
		}
	}
	c.tags = append(c.tags, t)
	c.h.w.Count("tag:" + t)
}

func (c *c20CaseRun) record(opCoq, desc, res string) {
	d := c.h.dump(c.ctx)
	pools := "None"
	if c.pools != "" {
		pools = c.pools
		c.pools = ""
	}
	c.steps = append(c.steps, cApp("mkStep", opCoq, res, d.coqDelta(c.prev), pools))
	c.descs = append(c.descs, desc+" -> "+res)
	c.prev = d
	c.h.w.Count("res:" + strings.SplitN(desc, " ", 2)[0] + ":" + res)
	if res == c20Ok {
		c.nOK++
		c.kinds[strings.SplitN(desc, " ", 2)[0]] = true
	}
}

func (c *c20CaseRun) register(ai int, caller common.Address, p c20Params) string {
	avs := c.h.avsAddrs[ai]
	res := c.h.call(c.ctx, avsprecompile.MethodRegisterAVS, avs, p.args(caller))
	c.record(cApp("ORegister", cStr(hex.EncodeToString(avs.Bytes())), cStr(avs.String()), cStr(caller.String()), cStr(c20Bech(caller)), p.coq()),
		fmt.Sprintf("register avs%d caller=%s task=%s epoch=%s minself=%d unbond=%d", ai, caller, p.Task, p.Epoch, p.MinSelf, p.Unbond), res)
	return res
}

func (c *c20CaseRun) update(ai int, caller common.Address, p c20Params) string {
	avs := c.h.avsAddrs[ai]
	res := c.h.call(c.ctx, avsprecompile.MethodUpdateAVS, avs, p.args(caller))
	c.record(cApp("OUpdate", cStr(hex.EncodeToString(avs.Bytes())), cStr(avs.String()), cStr(caller.String()), cStr(c20Bech(caller)), p.coq()),
		fmt.Sprintf("update avs%d caller=%s task=%s epoch=%s minself=%d unbond=%d name=%q", ai, caller, p.Task, p.Epoch, p.MinSelf, p.Unbond, p.Name), res)
	return res
}

func (c *c20CaseRun) deregister(ai int, caller common.Address, name string) string {
	avs := c.h.avsAddrs[ai]
	res := c.h.call(c.ctx, avsprecompile.MethodDeregisterAVS, avs, []interface{}{caller, name})
	c.record(cApp("ODeregister", cStr(hex.EncodeToString(avs.Bytes())), cStr(avs.String()), cStr(caller.String()), cStr(c20Bech(caller)), cStr(name)),
		fmt.Sprintf("deregister avs%d caller=%s name=%q", ai, caller, name), res)
	return res
}

func (c *c20CaseRun) opt(ai, oi int, in bool) string {
	avs := c.h.avsAddrs[ai]
	op := c.h.ops[oi]
	caller := common.BytesToAddress(op.Bytes())
	// environment inputs of OptIn, read from the real operator/slash keepers before the call
	selfOK, self, frozen := false, "0", false
	func() {
		defer func() { _ = recover() }()
		cc, _ := c.ctx.CacheContext()
		v, err := c.h.env.App.OperatorKeeper.GetOrCalculateOperatorUSDValues(cc, op, avs.String())
		if err == nil && !v.SelfUSDValue.IsNil() {
			selfOK, self = true, v.SelfUSDValue.BigInt().String()
		}
	}()
	if in {
		c.pools = c.observePools(avs, op)
	}
	name, con := avsprecompile.MethodRegisterOperatorToAVS, "OOptIn"
	if !in {
		name, con = avsprecompile.MethodDeregisterOperatorFromAVS, "OOptOut"
	}
	res := c.h.call(c.ctx, name, avs, []interface{}{caller})
	c.record(cApp(con, cStr(hex.EncodeToString(avs.Bytes())), cStr(avs.String()), cStr(caller.String()), cStr(op.String()), cOpt(selfOK, cZstr(self)), cBool(frozen)),
		fmt.Sprintf("%s avs%d op%d self=%s", strings.ToLower(con[1:]), ai, oi, self), res)
	return res
}

// usdEnv: every AVS USD value and every per-operator active USD value of the operator module (raw decimals).
func (c *c20CaseRun) usdEnv() (string, string) {
	cdc := c.h.env.App.AppCodec()
	var avsVals, opVals []string
	c20Iter(c.ctx, c.h.env.App.GetKey(operatortypes.StoreKey), operatortypes.KeyPrefixUSDValueForAVS, func(k, v []byte) {
		var f operatortypes.DecValueField
		cdc.MustUnmarshal(v, &f)
		avsVals = append(avsVals, cTuple(cStr(string(k)), cZstr(c20DecRaw(f.Amount.BigInt()))))
	})
	c20Iter(c.ctx, c.h.env.App.GetKey(operatortypes.StoreKey), operatortypes.KeyPrefixUSDValueForOperator, func(k, v []byte) {
		var f operatortypes.OperatorOptedUSDValue
		cdc.MustUnmarshal(v, &f)
		opVals = append(opVals, cTuple(cStr(string(k)), cZstr(c20DecRaw(f.ActiveUSDValue.BigInt()))))
	})
	return c.intern(cList(avsVals)), c.intern(cList(opVals))
}

// intern names a repeated sub-term (the USD environment is the same list at most steps of a case)
func (c *c20CaseRun) intern(t string) string {
	if c.terms == nil {
		c.terms = map[string]string{}
	}
	if t == "[]" {
		return t
	}
	if n, ok := c.terms[t]; ok {
		return n
	}
	n := fmt.Sprintf("e%d_", len(c.terms))
	c.terms[t] = n
	c.termOrder = append(c.termOrder, t)
	return n
}

type c20TaskArgs struct {
	Name            string
	Hash            []byte
	Resp, Chal, Thr uint64
	Stat            uint64
}

func (c *c20CaseRun) createTask(ti int, caller common.Address, a c20TaskArgs) string {
	ta := c.h.taskAddr[ti]
	avsVals, _ := c.usdEnv()
	res := c.h.call(c.ctx, avsprecompile.MethodCreateAVSTask, ta, []interface{}{caller, a.Name, a.Hash, a.Resp, a.Chal, a.Thr, a.Stat})
	c.record(cApp("OCreateTask", cStr(ta.String()), cStr(caller.String()), cStr(c20Bech(caller)), cStr(a.Name), cStr(hex.EncodeToString(a.Hash)),
		c20Z(a.Resp), c20Z(a.Chal), c20Z(a.Thr), c20Z(a.Stat), avsVals),
		fmt.Sprintf("createtask task%d caller=%s resp=%d stat=%d chal=%d", ti, caller, a.Resp, a.Stat, a.Chal), res)
	return res
}

func c20Verify(sig, msg, pub []byte) (out string) {
	defer func() {
		if r := recover(); r != nil {
			out = "VPanic"
		}
	}()
	pk, _ := blst.PublicKeyFromBytes(pub)
	ok, err := blst.VerifySignature(sig, [32]byte(msg), pk)
	if err != nil || !ok {
		return "VBad"
	}
	return "VOk"
}

func (c *c20CaseRun) regBLS(oi int, name string, pub, sig, msg []byte) string {
	op := c.h.ops[oi]
	caller := common.BytesToAddress(op.Bytes())
	v := c20Verify(sig, msg, pub)
	res := c.h.call(c.ctx, avsprecompile.MethodRegisterBLSPublicKey, c.h.avsAddrs[0], []interface{}{caller, name, pub, sig, msg})
	c.record(cApp("ORegBLS", cStr(caller.String()), cStr(op.String()), cStr(name), cStr(hex.EncodeToString(pub)), v),
		fmt.Sprintf("regbls op%d name=%q verify=%s", oi, name, v), res)
	if res == c20Ok {
		c.h.regPub[op.String()] = pub
	}
	return res
}

type c20Submit struct {
	From     string
	NilInfo  bool
	Op       string
	Hash     string
	Resp     []byte // nil = absent
	RespExpl bool   // encode the field explicitly with length 0
	Sig      []byte
	SigExpl  bool
	Task     string
	ID       uint64
	Stage    string
}

func (c *c20CaseRun) submit(s c20Submit, label string) string {
	req := &avstypes.SubmitTaskResultReq{FromAddress: s.From}
	var info *avstypes.TaskResultInfo
	if !s.NilInfo {
		raw := &avstypes.TaskResultInfo{OperatorAddress: s.Op, TaskResponseHash: s.Hash, TaskResponse: s.Resp, BlsSignature: s.Sig,
			TaskContractAddress: s.Task, TaskId: s.ID, Stage: s.Stage}
		bz, err := raw.Marshal()
		if err != nil {
			panic(err)
		}
		if s.RespExpl && len(s.Resp) == 0 {
			bz = append(bz, 0x1a, 0x00)
		}
		if s.SigExpl && len(s.Sig) == 0 {
			bz = append(bz, 0x22, 0x00)
		}
		info = &avstypes.TaskResultInfo{}
		if err := info.Unmarshal(bz); err != nil {
			panic(err)
		}
		req.Info = info
	}
	// boolean inputs of the model, computed from what real keys produce
	fromValid := req.ValidateBasic() == nil
	blsOK, pkOK := false, false
	if info != nil {
		if pub, ok := c.h.regPub[info.OperatorAddress]; ok {
			if pk, err := blst.PublicKeyFromBytes(pub); err == nil && pk != nil {
				pkOK = true
				func() {
					defer func() { _ = recover() }()
					ok, err := blst.VerifySignature(info.BlsSignature, crypto.Keccak256Hash(info.TaskResponse), pk)
					blsOK = ok && err == nil
				}()
			}
		}
	}
	res := c20Ok
	func() {
		defer func() {
			if r := recover(); r != nil {
				res = c20Panic
			}
		}()
		if !fromValid {
			res = c20Err
			return
		}
		cc, write := c.ctx.CacheContext()
		if _, err := c.h.ms.SubmitTaskResult(sdk.WrapSDKContext(cc), req); err != nil {
			res = c20Err
			return
		}
		write()
	}()
	infoC := "None"
	if info != nil {
		infoC = "(Some " + cApp("mkInfo", cStr(info.OperatorAddress), cStr(info.TaskResponseHash), c20RespOf(info.TaskResponse).coq(),
			cOpt(info.BlsSignature != nil, cStr(hex.EncodeToString(info.BlsSignature))), cStr(info.TaskContractAddress), c20Z(info.TaskId), cStr(info.Stage)) + ")"
	}
	c.record(cApp("OSubmit", cStr(s.From), cBool(fromValid), infoC, cBool(pkOK), cBool(blsOK)),
		fmt.Sprintf("submit %s stage=%q id=%d task=%s bls=%v", label, s.Stage, s.ID, s.Task, blsOK), res)
	return res
}

type c20Hash struct {
	Abi bool
	ID  uint64
	Sum int64
	Raw []byte
}

func (x c20Hash) bytes() []byte {
	if !x.Abi {
		return x.Raw
	}
	// same computation as types.GetTaskResponseDigestEncodeByAbi, without its stdout print
	tr := avstypes.TaskResponse{TaskID: x.ID, NumberSum: big.NewInt(x.Sum)}
	packed, err := avstypes.Args.Pack(&tr)
	if err != nil {
		panic(err)
	}
	return crypto.Keccak256(packed)
}

func (x c20Hash) coq() string {
	if x.Abi {
		return cApp("HAbi", c20Z(x.ID), cZ(x.Sum))
	}
	return cApp("HOther", cStr(hex.EncodeToString(x.Raw)))
}

func (c *c20CaseRun) challenge(ti int, caller common.Address, taskHash []byte, id uint64, rh c20Hash, operator string) string {
	ta := c.h.taskAddr[ti]
	_, perr := sdk.AccAddressFromBech32(operator)
	res := c.h.call(c.ctx, avsprecompile.MethodChallenge, ta, []interface{}{caller, taskHash, id, rh.bytes(), operator})
	c.record(cApp("OChallenge", cStr(ta.String()), cStr(caller.String()), cStr(c20Bech(caller)), cStr(hex.EncodeToString(taskHash)), c20Z(id), rh.coq(),
		cStr(operator), cBool(operator != "" && perr == nil)),
		fmt.Sprintf("challenge task%d id=%d op=%s", ti, id, operator), res)
	return res
}

type c20Ep struct {
	ID  string
	Cur int64
}

func (c *c20CaseRun) epochs() []c20Ep {
	var out []c20Ep
	for _, e := range c.h.env.App.EpochsKeeper.AllEpochInfos(c.ctx) {
		out = append(out, c20Ep{e.Identifier, e.CurrentEpoch})
	}
	return out
}

// advance moves the block time by d and runs the real epochs BeginBlocker (with all subscribers) on it.
func (c *c20CaseRun) advance(d time.Duration) string {
	before := c.epochs()
	res := c20Ok
	var after []c20Ep
	var avsVals, opVals string
	func() {
		defer func() {
			if r := recover(); r != nil {
				res = c20Panic
			}
		}()
		cc, write := c.ctx.CacheContext()
		cc = cc.WithBlockTime(c.ctx.BlockTime().Add(d)).WithBlockHeight(c.ctx.BlockHeight() + 1)
		c.h.env.App.EpochsKeeper.BeginBlocker(cc)
		write()
		c.ctx = c.ctx.WithBlockTime(cc.BlockTime()).WithBlockHeight(cc.BlockHeight())
	}()
	after = c.epochs()
	avsVals, opVals = c.usdEnv()
	var ended []string
	var endedDesc []string
	if res == c20Ok {
		for i, e := range after {
			if i < len(before) && before[i].ID == e.ID && e.Cur != before[i].Cur {
				ended = append(ended, cTuple(cStr(e.ID), cZ(before[i].Cur)))
				endedDesc = append(endedDesc, fmt.Sprintf("%s:%d", e.ID, before[i].Cur))
			}
		}
	} else {
		// the block did not happen; tell the model which epochs WOULD have ended (from the clock alone)
		cc, _ := c.ctx.CacheContext()
		cc = cc.WithBlockTime(c.ctx.BlockTime().Add(d)).WithBlockHeight(c.ctx.BlockHeight() + 1)
		for _, e := range c.h.env.App.EpochsKeeper.AllEpochInfos(cc) {
			if cc.BlockTime().After(e.CurrentEpochStartTime.Add(e.Duration)) {
				ended = append(ended, cTuple(cStr(e.Identifier), cZ(e.CurrentEpoch)))
				endedDesc = append(endedDesc, fmt.Sprintf("%s:%d", e.Identifier, e.CurrentEpoch))
			}
		}
		// usd environment as the operator hook would have left it is unobservable after a panic; use the current one
	}
	c.record(cApp("OEpochEnd", cList(ended), avsVals, opVals), "epochend "+strings.Join(endedDesc, ","), res)
	return res
}

func (h *c20H) newCase() *c20CaseRun {
	ctx, _ := h.env.Ctx.CacheContext()
	h.regPub = map[string][]byte{}
	c := &c20CaseRun{h: h, ctx: ctx, kinds: map[string]bool{}}
	c.prev = h.dump(ctx)
	return c
}

func (c *c20CaseRun) finish(tags ...string) {
	h := c.h
	// static facts of the case
	var opsC []string
	for i, o := range h.ops {
		if i < len(h.ops)-1 {
			opsC = append(opsC, cStr(o.String()))
		}
	}
	var eps []string
	for _, e := range c.h.env.App.EpochsKeeper.AllEpochInfos(h.env.Ctx) {
		eps = append(eps, cTuple(cStr(e.Identifier), cZ(e.CurrentEpoch)))
	}
	init := h.dump(h.env.Ctx)
	lets := ""
	for _, t := range c.termOrder {
		lets += "let " + c.terms[t] + " := " + t + " in "
	}
	term := lets + cApp("mkCase", cList(opsC), c20Strs([]string{h.env.AssetID}), cList(eps), init.coqDelta(nil), cList(c.steps))
	desc := map[string]interface{}{"suite": "c20", "ops": c.descs}
	for _, t := range tags {
		c.addTag(t)
	}
	if len(c.tags) > 0 {
		desc["tags"] = c.tags
	}
	if c.nOK < 2 || len(c.kinds) < 2 {
		desc["nt"] = false
	}
	h.w.Add(c20Intern(term), desc)
	h.w.CountN("steps", len(c.steps))
}

var c20StrLit = regexp.MustCompile(`"(?:[^"]|"")*"%string`)

// c20Intern binds every distinct string literal of the case term once (let s3_ := "..." in ...): coqc spends
// most of its time elaborating string literals, and a case repeats the same addresses hundreds of times.
func c20Intern(term string) string {
	names := map[string]string{}
	var order []string
	body := c20StrLit.ReplaceAllStringFunc(term, func(l string) string {
		n, ok := names[l]
		if !ok {
			n = fmt.Sprintf("s%d_", len(names))
			names[l] = n
			order = append(order, l)
		}
		return n
	})
	var sb strings.Builder
	const none = "(mkDump None None None None None None None)"
	if strings.Contains(body, none) {
		body = strings.ReplaceAll(body, none, "dn_")
		sb.WriteString("let dn_ := " + none + " in ")
	}
	for _, l := range order {
		sb.WriteString("let " + names[l] + " := " + l + " in ")
	}
	sb.WriteString(body)
	return sb.String()
}

// observePools reads, right before an opt-in, what the operator's self USD value for this AVS is made of: for every
// asset of the AVS that the operator holds, the operator's pool (amount, operator share, total share), the oracle
// price with its decimals and the asset decimals. "" when something cannot be read.
func (c *c20CaseRun) observePools(avs common.Address, op sdk.AccAddress) (out string) {
	defer func() {
		if r := recover(); r != nil {
			out = ""
		}
	}()
	var info *c20Avs
	for i := range c.prev.Avs {
		if c.prev.Avs[i].Key == hex.EncodeToString(avs.Bytes()) {
			info = &c.prev.Avs[i]
		}
	}
	if info == nil {
		return ""
	}
	cc, _ := c.ctx.CacheContext()
	app := c.h.env.App
	var ps []string
	for _, assetID := range info.Assets {
		st, err := app.AssetsKeeper.GetOperatorSpecifiedAssetInfo(cc, op, assetID)
		if err != nil {
			continue // the operator does not hold this asset
		}
		ai, err := app.AssetsKeeper.GetStakingAssetInfo(cc, assetID)
		if err != nil {
			return ""
		}
		pr, err := app.OracleKeeper.GetSpecifiedAssetsPrice(cc, assetID)
		if err != nil {
			return ""
		}
		ps = append(ps, cApp("mkPool", cZbig(st.TotalAmount.BigInt()), cZbig(st.OperatorShare.BigInt()), cZbig(st.TotalShare.BigInt()),
			cZbig(pr.Value.BigInt()), cZ(int64(ai.AssetBasicInfo.Decimals)), cZ(int64(pr.Decimal))))
	}
	return "(Some " + cList(ps) + ")"
}

// fixtures of the minimum-self-delegation boundary scenarios: oracle price of the staking asset (value, decimals)
// through the oracle keeper, and a self-staked pool of an exact base-unit amount for an operator without stake
func (c *c20CaseRun) setPrice(price string, dec int32) {
	c.h.env.App.OracleKeeper.SetPrices(c.ctx, oracletypes.Prices{
		TokenID: 1, NextRoundID: 2,
		PriceList: []*oracletypes.PriceTimeRound{{Price: price, Decimal: dec, RoundID: 1}},
	})
	c.descs = append(c.descs, fmt.Sprintf("fixture price=%s decimals=%d", price, dec))
}

func (c *c20CaseRun) setStake(oi int, amount *big.Int) {
	a := sdkmath.NewIntFromBigInt(amount)
	sh := sdkmath.LegacyNewDecFromBigInt(amount)
	err := c.h.env.App.AssetsKeeper.UpdateOperatorAssetState(c.ctx, c.h.ops[oi], c.h.env.AssetID,
		assetstypes.DeltaOperatorSingleAsset{TotalAmount: a, PendingUndelegationAmount: sdkmath.ZeroInt(), TotalShare: sh, OperatorShare: sh})
	if err != nil {
		panic(err)
	}
	c.descs = append(c.descs, fmt.Sprintf("fixture stake op%d amount=%s", oi, amount))
}

// directedMinSelf: opt-ins whose self value is exactly at, 1e-18 below, a fraction of 1e-18 below and just above the
// AVS's minimum self delegation, with asset decimals + price decimals from 18 to 24.
//
//	amount = 10^m + 1, price = 10^m - 1 (price decimals pdec): amount*price = 10^(2m) - 1, so with D = 6 + pdec the value is
//	10^(2m-D) - 10^-D USD: for D = 18 exactly 1e-18 below the minimum 10^(2m-D), for D > 18 less than 1e-18 below it.
func (h *c20H) directedMinSelf(m int, pdec int32) {
	c := h.newCase()
	ten := func(k int) *big.Int { return new(big.Int).Exp(big.NewInt(10), big.NewInt(int64(k)), nil) }
	D := 6 + int(pdec)
	min := new(big.Int).Quo(ten(2*m), ten(D)) // 10^(2m-D) USD, an integer by the choice of m
	oi := 4                                   // the registered operator without genesis stake
	amount := new(big.Int).Add(ten(m), big.NewInt(1))
	below := new(big.Int).Sub(ten(m), big.NewInt(1))
	c.setStake(oi, amount)
	p := h.baseParams(0)
	p.MinSelf = min.Uint64()
	c.register(0, h.owners[0], p)
	// a hair below the minimum: must be rejected
	c.setPrice(below.String(), pdec)
	c.opt(0, oi, true)
	// exactly the minimum: price 10^m - 1 replaced by 10^m and amount 10^m + 1 -> value above; then exact with a second AVS
	p2 := h.baseParams(1)
	p2.MinSelf = min.Uint64()
	c.register(1, h.owners[0], p2)
	c.setPrice(ten(m).String(), pdec) // (10^m + 1) * 10^m / 10^D = min + 10^(m-D): just above
	c.opt(0, oi, true)
	c.opt(0, oi, false)
	// exactly at the minimum: add stake so that amount = 2 * 10^m ... instead use price 10^pdec (1.0) and minimum = amount / 10^6
	c.setPrice(ten(int(pdec)).String(), pdec)
	p3 := h.baseParams(2)
	exact := new(big.Int).Quo(amount, ten(6)) // floor(amount / 10^6) USD <= value: accepted
	p3.MinSelf = exact.Uint64()
	c.register(2, h.owners[0], p3)
	c.opt(2, oi, true)
	p3.MinSelf = exact.Uint64() + 1 // one USD more than the value (value = exact + 1e-6 * ...): rejected
	c.update(1, h.owners[0], func() c20Params { q := p2; q.MinSelf = exact.Uint64() + 1; return q }())
	c.opt(1, oi, true)
	c.finish()
}

// directedExactMin: amount * price / 10^D is EXACTLY the minimum, and exactly one unit of the last decimal below it
func (h *c20H) directedExactMin(units int64, pdec int32) {
	c := h.newCase()
	ten := func(k int) *big.Int { return new(big.Int).Exp(big.NewInt(10), big.NewInt(int64(k)), nil) }
	oi := 4
	amount := new(big.Int).Mul(big.NewInt(units), ten(6)) // `units` whole tokens
	c.setStake(oi, amount)
	c.setPrice(ten(int(pdec)).String(), pdec) // price 1.0 with pdec decimals: value = units USD exactly
	p := h.baseParams(0)
	p.MinSelf = uint64(units)
	c.register(0, h.owners[0], p)
	c.opt(0, oi, true) // exactly at the minimum: accepted
	c.opt(0, oi, false)
	c.setPrice(new(big.Int).Sub(ten(int(pdec)), big.NewInt(1)).String(), pdec) // price 1 - 10^-pdec: value = units - units*10^-pdec
	c.opt(0, oi, true)                                                         // below: rejected
	c.finish()
}

// ---- generators ---------------------------------------------------------------------------------

func (h *c20H) pick(xs ...int) int { return xs[h.rng.Intn(len(xs))] }

func (h *c20H) randParams(c *c20CaseRun, ai int) c20Params {
	r := h.rng
	owners := []string{}
	for i, o := range h.owners {
		if i == 0 && r.Intn(8) != 0 || i > 0 && r.Intn(3) == 0 {
			owners = append(owners, c20Bech(o))
		}
	}
	epoch := "minute"
	if r.Intn(12) == 0 {
		epoch = "hour"
	}
	task := h.taskAddr[ai%len(h.taskAddr)]
	if r.Intn(4) == 0 {
		task = h.taskAddr[r.Intn(len(h.taskAddr))]
	}
	return c20Params{
		Name: fmt.Sprintf("avs-%d", r.Intn(3)), MinStake: uint64(1 + r.Intn(3)), Task: task,
		Slash: common.BytesToAddress([]byte{0x51, byte(r.Intn(2))}), Reward: common.BytesToAddress([]byte{0x52, byte(r.Intn(2))}),
		Owners: owners, Assets: []string{h.env.AssetID},
		Unbond: uint64(h.pick(1, 1, 2, 3, 7)), MinSelf: uint64(h.pick(0, 0, 0, 100, 101, 102, 120, 121, 150, 151, 1000)),
		Epoch: epoch, TaskPar: []uint64{uint64(r.Intn(3)), uint64(r.Intn(3)), uint64(r.Intn(5)), uint64(r.Intn(5))},
	}
}

func (h *c20H) malformParams(p c20Params) c20Params {
	switch h.rng.Intn(9) {
	case 0:
		p.Name = ""
	case 1:
		p.MinStake = 0
	case 2:
		p.Task = h.zero
	case 3:
		p.Slash = h.zero
	case 4:
		p.Reward = h.zero
	case 5:
		p.Assets = []string{}
	case 6:
		p.Unbond = 0
	case 7:
		p.Epoch = ""
	case 8:
		p.Assets = []string{"0xdeadbeef_0x65"}
	}
	return p
}

func (h *c20H) sigFor(oi int, id uint64, sum int64) ([]byte, []byte) {
	js, _ := avstypes.MarshalTaskResponse(avstypes.TaskResponse{TaskID: id, NumberSum: big.NewInt(sum)})
	hash := crypto.Keccak256Hash(js)
	return js, h.blsKeys[oi].Sign(hash[:]).Marshal()
}

func (h *c20H) validBLS(c *c20CaseRun, oi int) string {
	sk := h.blsKeys[oi]
	msg := crypto.Keccak256([]byte("c20 bls registration " + h.ops[oi].String()))
	return c.regBLS(oi, fmt.Sprintf("bls%d", oi), sk.PublicKey().Marshal(), sk.Sign(msg).Marshal(), msg)
}

// one random operation at the current epoch offset
func (h *c20H) randomOp(c *c20CaseRun) {
	r := h.rng
	nOps := len(h.ops)
	switch x := r.Intn(100); {
	case x < 6: // register
		ai := r.Intn(len(h.avsAddrs))
		p := h.randParams(c, ai)
		if r.Intn(6) == 0 {
			p = h.malformParams(p)
		}
		caller := h.owners[0]
		if r.Intn(8) == 0 {
			caller = h.owners[r.Intn(len(h.owners))]
		}
		if r.Intn(40) == 0 {
			caller = h.zero
		}
		c.register(ai, caller, p)
	case x < 13: // update
		ai := r.Intn(len(h.avsAddrs))
		p := h.randParams(c, ai)
		switch r.Intn(6) {
		case 0:
			p.Name = ""
		case 1:
			p.Epoch = ""
		case 2:
			p.MinStake, p.Unbond = 0, 0
			p.TaskPar = []uint64{0, 0, 0, 0}
		case 3:
			if r.Intn(3) == 0 {
				p.Epoch = "nonexistent"
			}
		case 4:
			p = h.malformParams(p)
		}
		caller := h.owners[0]
		if r.Intn(5) == 0 {
			caller = h.owners[r.Intn(len(h.owners))]
		}
		c.update(ai, caller, p)
	case x < 17: // deregister
		ai := r.Intn(len(h.avsAddrs))
		caller := h.owners[0]
		if r.Intn(5) == 0 {
			caller = h.owners[r.Intn(len(h.owners))]
		}
		name := fmt.Sprintf("avs-%d", r.Intn(3))
		for _, a := range c.prev.Avs {
			if a.Key == hex.EncodeToString(h.avsAddrs[ai].Bytes()) && r.Intn(4) != 0 {
				name = a.Name
			}
		}
		if r.Intn(20) == 0 {
			name = ""
		}
		c.deregister(ai, caller, name)
	case x < 26: // opt in
		c.opt(r.Intn(len(h.avsAddrs)), r.Intn(nOps), true)
	case x < 30: // opt out
		h.randomOptOut(c)
	case x < 36: // BLS key
		oi := r.Intn(nOps)
		switch r.Intn(8) {
		case 0: // signature by another key
			sk := h.blsKeys[oi]
			msg := crypto.Keccak256([]byte("x"))
			c.regBLS(oi, "bad", sk.PublicKey().Marshal(), h.blsKeys[(oi+1)%nOps].Sign(msg).Marshal(), msg)
		case 1: // empty name
			sk := h.blsKeys[oi]
			msg := crypto.Keccak256([]byte("y"))
			c.regBLS(oi, "", sk.PublicKey().Marshal(), sk.Sign(msg).Marshal(), msg)
		case 3: // public key that does not parse: the keeper ignores the parse error and verifies against a nil key
			sk := h.blsKeys[oi]
			msg := crypto.Keccak256([]byte("w"))
			if r.Intn(2) == 0 {
				c.regBLS(oi, "badpk", []byte{1, 2, 3, 4}, sk.Sign(msg).Marshal(), msg)
			} else {
				// message hash shorter than 32 bytes: [32]byte(msgHash) panics
				c.regBLS(oi, "shortmsg", sk.PublicKey().Marshal(), sk.Sign(msg).Marshal(), msg[:7])
			}
		case 2: // garbage signature bytes
			sk := h.blsKeys[oi]
			msg := crypto.Keccak256([]byte("z"))
			c.regBLS(oi, "garb", sk.PublicKey().Marshal(), []byte{1, 2, 3}, msg)
		default:
			h.validBLS(c, oi)
		}
	case x < 46: // create task
		h.randomTask(c)
	case x < 86: // submit
		h.randomSubmit(c)
	default: // challenge
		h.randomChallenge(c)
	}
}

// randomOptOut mostly picks an (operator, AVS) pair that is actively opted in
func (h *c20H) randomOptOut(c *c20CaseRun) {
	r := h.rng
	type pair struct{ ai, oi int }
	var active []pair
	for _, o := range c.prev.Opted {
		if !o.Active {
			continue
		}
		for ai, a := range h.avsAddrs {
			for oi, op := range h.ops {
				if o.Key == op.String()+"/"+a.String() {
					active = append(active, pair{ai, oi})
				}
			}
		}
	}
	if len(active) > 0 && r.Intn(5) != 0 {
		p := active[r.Intn(len(active))]
		c.opt(p.ai, p.oi, false)
		return
	}
	c.opt(r.Intn(len(h.avsAddrs)), r.Intn(len(h.ops)), false)
}

func (h *c20H) randomTask(c *c20CaseRun) string {
	r := h.rng
	ti := r.Intn(len(h.taskAddr))
	if len(c.prev.Avs) > 0 && r.Intn(8) != 0 {
		a := c.prev.Avs[r.Intn(len(c.prev.Avs))]
		for i, ta := range h.taskAddr {
			if ta.String() == a.Task {
				ti = i
			}
		}
	}
	caller := h.owners[0]
	if r.Intn(8) == 0 {
		caller = h.owners[r.Intn(len(h.owners))]
	}
	a := c20TaskArgs{Name: fmt.Sprintf("t%d", r.Intn(3)), Hash: []byte{byte(r.Intn(2)), 7}, Resp: uint64(h.pick(0, 0, 1, 1, 2)),
		Stat: uint64(h.pick(0, 1, 1, 2)), Chal: uint64(h.pick(0, 1, 1, 2)), Thr: uint64(h.pick(0, 50, 100))}
	if r.Intn(25) == 0 {
		a.Name = ""
	}
	return c.createTask(ti, caller, a)
}

// existing tasks according to the last dump
func (c *c20CaseRun) someTask(r *rand.Rand) (string, uint64, bool) {
	if len(c.prev.Tasks) == 0 {
		return "", 0, false
	}
	t := c.prev.Tasks[r.Intn(len(c.prev.Tasks))]
	return t.Addr, t.ID, true
}

func (h *c20H) randomSubmit(c *c20CaseRun) {
	r := h.rng
	oi := r.Intn(len(h.ops))
	op := h.ops[oi].String()
	task, id, ok := c.someTask(r)
	if !ok || r.Intn(15) == 0 {
		task, id = h.taskAddr[r.Intn(len(h.taskAddr))].String(), uint64(r.Intn(3))
	}
	if ok && r.Intn(25) != 0 {
		// mostly operators of the task's opt-in snapshot (all others are rejected)
		for _, t := range c.prev.Tasks {
			if t.Addr == task && t.ID == id && len(t.OptIn) > 0 {
				want := t.OptIn[r.Intn(len(t.OptIn))]
				for i, o := range h.ops {
					if o.String() == want {
						oi, op = i, want
					}
				}
			}
		}
	}
	sum := int64(100)
	js, sig := h.sigFor(oi, id, sum)
	// has this operator already a stored result for the task?
	var stored *c20Res
	for i := range c.prev.Res {
		x := &c.prev.Res[i]
		if x.Op == op && x.Task == task && x.ID == id {
			stored = x
		}
	}
	stage := "1"
	if stored != nil && r.Intn(5) != 0 || stored == nil && r.Intn(8) == 0 {
		stage = "2"
	}
	s := c20Submit{From: op, Op: op, Task: task, ID: id, Stage: stage, Sig: sig}
	label := fmt.Sprintf("op%d", oi)
	if stage == "2" {
		s.Resp = js
		if stored != nil && stored.HasSg {
			if b, err := hex.DecodeString(stored.Sig); err == nil {
				s.Sig = b
			}
		}
	}
	// malformations
	switch m := r.Intn(40); {
	case m == 0:
		s.From = h.ops[(oi+1)%len(h.ops)].String()
		label += "/from-mismatch"
	case m == 1:
		s.Sig = nil
		label += "/nil-sig"
	case m == 2:
		if stage == "1" {
			s.Resp = js
		} else {
			s.Resp = nil
		}
		label += "/resp-flip"
	case m == 3:
		s.Hash = "0xabc"
		label += "/hash-set"
	case m == 4:
		s.Stage = []string{"", "0", "3", "one"}[r.Intn(4)]
		label += "/bad-stage"
	case m == 5 && stage == "2":
		s.Resp, _ = h.sigFor(oi, id+1, sum) // response carries another task id
		label += "/resp-other-id"
	case m == 6 && stage == "2":
		s.Resp = []byte("{not json")
		label += "/resp-garbage"
	case m == 7 && stage == "2":
		_, s.Sig = h.sigFor(oi, id, sum+1) // a signature different from the phase-one one
		label += "/sig-differs"
	case m == 8:
		s.Task = strings.ToLower(s.Task)
		label += "/task-lowercase"
	case m == 9:
		s.From, s.Op = "exo1notbech32", "exo1notbech32"
		label += "/bad-bech32"
	case m == 10 && r.Intn(3) == 0:
		s.NilInfo = true
		label += "/nil-info"
	case m == 11 && stage == "1":
		// phase one commits to a signature that will not verify in phase two (signed by another key)
		_, s.Sig = h.sigFor((oi+1)%len(h.ops), id, sum)
		label += "/sig-other-key"
	case m == 12:
		s.RespExpl = s.Resp == nil
		label += "/resp-explicit-empty"
	case m == 13 && stage == "2":
		s.Resp, _ = h.sigFor(oi, id, sum+5) // valid json, right id, but the signature is over another sum
		label += "/resp-other-sum"
	}
	c.submit(s, label)
}

func (h *c20H) randomChallenge(c *c20CaseRun) {
	r := h.rng
	ti := r.Intn(len(h.taskAddr))
	id := uint64(1 + r.Intn(2))
	operator := h.ops[r.Intn(len(h.ops))].String()
	taskHash := []byte{0, 7}
	// aim at a stored result most of the time
	if len(c.prev.Res) > 0 && r.Intn(6) != 0 {
		x := c.prev.Res[r.Intn(len(c.prev.Res))]
		for i, ta := range h.taskAddr {
			if ta.String() == x.Task {
				ti = i
			}
		}
		id, operator = x.ID, x.Op
	}
	for _, t := range c.prev.Tasks {
		if t.Addr == h.taskAddr[ti].String() && t.ID == id {
			taskHash, _ = hex.DecodeString(t.Hash)
		}
	}
	rh := c20Hash{Abi: true, ID: id, Sum: 100}
	switch r.Intn(14) {
	case 0:
		taskHash = []byte{9, 9}
	case 1:
		rh.Sum = 101
	case 2:
		rh.ID = id + 1
	case 3:
		rh = c20Hash{Raw: []byte{1, 2, 3}}
	case 4:
		operator = "exo1bad"
	case 5:
		operator = ""
	}
	caller := h.owners[r.Intn(len(h.owners))]
	if r.Intn(30) == 0 {
		caller = h.zero
	}
	c.challenge(ti, caller, taskHash, id, rh, operator)
}

// targetedOp follows the life cycle of one (task, operator) pair: phase one, then phase two, then a challenge —
// attempted at whatever epoch offset the case is at, so the window inequalities alone decide the outcome.
func (h *c20H) targetedOp(c *c20CaseRun) {
	r := h.rng
	if len(c.prev.Tasks) == 0 {
		h.randomOp(c)
		return
	}
	t := c.prev.Tasks[r.Intn(len(c.prev.Tasks))]
	oi := r.Intn(len(h.ops))
	if len(t.OptIn) > 0 && r.Intn(50) != 0 {
		want := t.OptIn[r.Intn(len(t.OptIn))]
		for i, o := range h.ops {
			if o.String() == want {
				oi = i
			}
		}
	}
	op := h.ops[oi].String()
	var stored *c20Res
	for i := range c.prev.Res {
		x := &c.prev.Res[i]
		if x.Op == op && x.Task == t.Addr && x.ID == t.ID {
			stored = x
		}
	}
	js, sig := h.sigFor(oi, t.ID, 100)
	// a cheating commitment: the phase-one signature is over a response that carries ANOTHER task id; in phase two
	// that response verifies against the signature, so only the task-id comparison can reject it
	jsOther, sigOther := h.sigFor(oi, t.ID+1, 100)
	label := fmt.Sprintf("op%d/targeted", oi)
	ti := 0
	for i, ta := range h.taskAddr {
		if ta.String() == t.Addr {
			ti = i
		}
	}
	taskHash, _ := hex.DecodeString(t.Hash)
	switch {
	case stored == nil:
		if x := r.Intn(16); x == 0 {
			c.submit(c20Submit{From: op, Op: op, Task: t.Addr, ID: t.ID, Stage: "2", Sig: sig, Resp: js}, label)
		} else if x < 3 {
			c.submit(c20Submit{From: op, Op: op, Task: t.Addr, ID: t.ID, Stage: "1", Sig: sigOther}, label+"/commit-other-id")
		} else {
			c.submit(c20Submit{From: op, Op: op, Task: t.Addr, ID: t.ID, Stage: "1", Sig: sig}, label)
		}
	case stored.Resp.Kind == 0:
		x := r.Intn(10)
		sg := sig
		if b, err := hex.DecodeString(stored.Sig); err == nil && stored.HasSg {
			sg = b
		}
		if x < 7 {
			rs := js
			if stored.Sig == hex.EncodeToString(sigOther) {
				rs = jsOther
				label += "/reveal-other-id"
			}
			if r.Intn(8) == 0 {
				// change the answer after phase one: a fresh, valid signature over another response — only the
				// comparison with the committed signature can reject it
				rs, sg = h.sigFor(oi, t.ID, 105)
				label += "/switch-answer"
			}
			c.submit(c20Submit{From: op, Op: op, Task: t.Addr, ID: t.ID, Stage: "2", Sig: sg, Resp: rs}, label)
		} else if x < 8 {
			c.submit(c20Submit{From: op, Op: op, Task: t.Addr, ID: t.ID, Stage: "1", Sig: sig}, label+"/again")
		} else {
			c.challenge(ti, h.owners[r.Intn(len(h.owners))], taskHash, t.ID, c20Hash{Abi: true, ID: t.ID, Sum: 100}, op)
		}
	default:
		x := r.Intn(10)
		if x < 7 {
			rh := c20Hash{Abi: true, ID: t.ID, Sum: 100}
			th := taskHash
			switch r.Intn(12) {
			case 0:
				rh.Sum = 101
			case 1:
				th = []byte{9, 9}
			}
			c.challenge(ti, h.owners[r.Intn(len(h.owners))], th, t.ID, rh, op)
		} else if x < 9 {
			sg, _ := hex.DecodeString(stored.Sig)
			c.submit(c20Submit{From: op, Op: op, Task: t.Addr, ID: t.ID, Stage: "2", Sig: sg, Resp: js}, label+"/again")
		} else {
			c.submit(c20Submit{From: op, Op: op, Task: t.Addr, ID: t.ID, Stage: "1", Sig: sig}, label+"/again")
		}
	}
}

// a structured, mostly valid history: registry, opt-ins, tasks, then every epoch offset of the windows
func (h *c20H) structuredCase(c *c20CaseRun) {
	r := h.rng
	nAvs := 1 + r.Intn(2)
	for i := 0; i < nAvs; i++ {
		p := h.randParams(c, i)
		if r.Intn(3) != 0 {
			p.MinSelf = uint64(h.pick(0, 0, 100, 101))
			p.Epoch = "minute"
		}
		c.register(i, h.owners[0], p)
	}
	for i := 0; i < len(h.ops); i++ {
		if r.Intn(5) != 0 {
			h.validBLS(c, i)
		}
	}
	for i := 0; i < nAvs; i++ {
		for oi := range h.ops {
			if r.Intn(4) != 0 {
				c.opt(i, oi, true)
			}
		}
	}
	for k := r.Intn(3); k > 0; k-- {
		h.randomOp(c)
	}
	c.advance(61 * time.Second) // the operator module prices the opted-in operators at the end of the epoch
	if r.Intn(4) == 0 {
		c.advance(61 * time.Second)
	}
	if r.Intn(4) == 0 {
		h.randomOptOut(c) // before the snapshot: the record stays, so the operator is still listed
	}
	if nAvs == 2 && r.Intn(2) == 0 {
		// one task per AVS with identical periods: both statistical periods end in the same epoch
		a := c20TaskArgs{Name: "t", Hash: []byte{1, 7}, Resp: uint64(h.pick(0, 1)), Stat: uint64(h.pick(0, 1)), Chal: uint64(h.pick(0, 1, 2)), Thr: 50}
		for _, av := range c.prev.Avs {
			for ti, ta := range h.taskAddr {
				if ta.String() == av.Task {
					c.createTask(ti, h.owners[0], a)
				}
			}
		}
	}
	nTasks := 1 + r.Intn(2)
	for k := 0; k < nTasks; k++ {
		h.randomTask(c)
		if r.Intn(4) == 0 {
			h.randomOp(c)
		}
	}
	if r.Intn(4) == 0 {
		h.randomOptOut(c) // after the snapshot: a signer that is no longer opted in has power 0
	}
	epochs := 3 + r.Intn(6)
	for e := 0; e < epochs; e++ {
		for k := 1 + r.Intn(9); k > 0; k-- {
			if x := r.Intn(20); x < 2 {
				h.randomOp(c)
			} else if x < 3 {
				h.randomChallenge(c)
			} else if x < 7 {
				h.randomSubmit(c)
			} else {
				h.targetedOp(c)
			}
		}
		d := 61 * time.Second
		if r.Intn(25) == 0 {
			d = 3601 * time.Second
		}
		if c.advance(d) == c20Panic {
			break
		}
	}
}

// ---- directed scenarios --------------------------------------------------------------------------

func (h *c20H) baseParams(ai int) c20Params {
	return c20Params{Name: "avs-d", MinStake: 1, Task: h.taskAddr[ai], Slash: common.BytesToAddress([]byte{0x51}), Reward: common.BytesToAddress([]byte{0x52}),
		Owners: []string{c20Bech(h.owners[0])}, Assets: []string{h.env.AssetID}, Unbond: 2, MinSelf: 0, Epoch: "minute", TaskPar: []uint64{1, 1, 1, 1}}
}

// regression scenario of the repaired empty-signature defect: phase one with an explicitly encoded empty BlsSignature
// (gogoproto decodes it as a non-nil empty slice) must be rejected and the epoch hook must run through
func (h *c20H) directedEmptySig(alone bool) {
	c := h.newCase()
	c.register(0, h.owners[0], h.baseParams(0))
	h.validBLS(c, 0)
	h.validBLS(c, 1)
	c.opt(0, 0, true)
	c.opt(0, 1, true)
	c.advance(61 * time.Second)
	c.createTask(0, h.owners[0], c20TaskArgs{Name: "t", Hash: []byte{1}, Resp: 1, Stat: 1, Chal: 1, Thr: 50})
	op0 := h.ops[0].String()
	c.submit(c20Submit{From: op0, Op: op0, Task: h.taskAddr[0].String(), ID: 1, Stage: "1", Sig: nil, SigExpl: true}, "op0/explicit-empty-sig")
	if !alone {
		op1 := h.ops[1].String()
		_, sig := h.sigFor(1, 1, 100)
		c.submit(c20Submit{From: op1, Op: op1, Task: h.taskAddr[0].String(), ID: 1, Stage: "1", Sig: sig}, "op1")
	}
	for i := 0; i < 4; i++ {
		c.advance(61 * time.Second)
	}
	c.finish("regress-C20-empty-signature")
}

// regression scenario of the repaired signer-not-opted-in defect: a registered operator with a BLS key that is not in the
// task's opt-in snapshot submits a result; it must be rejected (it used to end up in both lists)
func (h *c20H) directedNotOptedIn() {
	c := h.newCase()
	c.register(0, h.owners[0], h.baseParams(0))
	h.validBLS(c, 0)
	h.validBLS(c, 2)
	c.opt(0, 0, true)
	c.advance(61 * time.Second)
	c.createTask(0, h.owners[0], c20TaskArgs{Name: "t", Hash: []byte{1}, Resp: 0, Stat: 0, Chal: 1, Thr: 50})
	for _, oi := range []int{0, 2} {
		op := h.ops[oi].String()
		_, sig := h.sigFor(oi, 1, 100)
		c.submit(c20Submit{From: op, Op: op, Task: h.taskAddr[0].String(), ID: 1, Stage: "1", Sig: sig}, fmt.Sprintf("op%d", oi))
	}
	for i := 0; i < 3; i++ {
		c.advance(61 * time.Second)
	}
	c.finish("regress-C20-signer-not-opted-in")
}

// full happy path with every window boundary and a challenge
func (h *c20H) directedWindows(resp, stat, chal uint64) {
	c := h.newCase()
	c.register(0, h.owners[0], h.baseParams(0))
	p1 := h.baseParams(1)
	p1.Task = h.taskAddr[0] // colliding task address on register
	c.register(1, h.owners[0], p1)
	p1.Task = h.taskAddr[1]
	c.register(1, h.owners[0], p1)
	p1.Task = h.taskAddr[0] // colliding task address on update
	c.update(1, h.owners[0], p1)
	for oi := 0; oi < 3; oi++ {
		h.validBLS(c, oi)
		c.opt(0, oi, true)
	}
	c.advance(61 * time.Second)
	c.createTask(0, h.owners[0], c20TaskArgs{Name: "t", Hash: []byte{1}, Resp: resp, Stat: stat, Chal: chal, Thr: 50})
	c.createTask(0, h.owners[0], c20TaskArgs{Name: "t", Hash: []byte{1}, Resp: resp, Stat: stat, Chal: chal, Thr: 50})
	ta := h.taskAddr[0].String()
	total := int(resp + stat + chal + 3)
	for e := 0; e < total; e++ {
		for oi := 0; oi < 3; oi++ {
			op := h.ops[oi].String()
			js, sig := h.sigFor(oi, 1, 100)
			// every operator tries phase one, phase two and is challenged at every offset; operator oi starts trying at offset oi
			if e >= oi {
				c.submit(c20Submit{From: op, Op: op, Task: ta, ID: 1, Stage: "1", Sig: sig}, fmt.Sprintf("op%d", oi))
				c.submit(c20Submit{From: op, Op: op, Task: ta, ID: 1, Stage: "2", Sig: sig, Resp: js}, fmt.Sprintf("op%d", oi))
				c.challenge(0, h.owners[1], []byte{1}, 1, c20Hash{Abi: true, ID: 1, Sum: 100}, op)
			}
		}
		c.advance(61 * time.Second)
	}
	c.finish()
}

// deregistration timing: allowed while current epoch - starting epoch <= unbonding period
func (h *c20H) directedDeregister(unbond uint64, advances int) {
	c := h.newCase()
	p := h.baseParams(0)
	p.Unbond = unbond
	c.register(0, h.owners[0], p)
	for i := 0; i < advances; i++ {
		c.advance(61 * time.Second)
	}
	c.deregister(0, h.owners[1], p.Name)  // not an owner
	c.deregister(0, h.owners[0], "other") // wrong name
	c.deregister(0, h.owners[0], p.Name)
	c.register(0, h.owners[0], p) // free again only if the deregistration went through
	c.deregister(0, h.owners[0], p.Name)
	c.finish()
}

// several AVSs with different stakes whose tasks end their statistical period in the SAME epoch: every group of the
// epoch hook must be computed with its own AVS (total power, per-operator powers)
func (h *c20H) directedTwoAVS(resp, stat uint64) {
	c := h.newCase()
	for ai := 0; ai < 3; ai++ {
		c.register(ai, h.owners[0], h.baseParams(ai))
	}
	for oi := 0; oi < 4; oi++ {
		h.validBLS(c, oi)
	}
	// different operator sets -> different AVS USD values
	for _, pr := range [][2]int{{0, 0}, {0, 1}, {0, 2}, {1, 1}, {1, 3}, {2, 2}} {
		c.opt(pr[0], pr[1], true)
	}
	c.advance(61 * time.Second)
	for ti := 0; ti < 3; ti++ {
		c.createTask(ti, h.owners[0], c20TaskArgs{Name: "t", Hash: []byte{1}, Resp: resp, Stat: stat, Chal: 1, Thr: 50})
	}
	for _, pr := range [][2]int{{0, 0}, {0, 2}, {1, 1}, {1, 3}, {2, 2}} {
		op := h.ops[pr[1]].String()
		_, sig := h.sigFor(pr[1], 1, 100)
		c.submit(c20Submit{From: op, Op: op, Task: h.taskAddr[pr[0]].String(), ID: 1, Stage: "1", Sig: sig}, fmt.Sprintf("op%d", pr[1]))
	}
	for i := 0; i < int(resp+stat)+3; i++ {
		c.advance(61 * time.Second)
	}
	c.finish()
}

func runC20(a *Args) error {
	env := NewEnv(EnvCfg{Operators: []OperatorCfg{{Deposit: 101}, {Deposit: 100}, {Deposit: 150}, {Deposit: 120}, {Deposit: 0}}, ExtraAccs: 3})
	w := NewCaseWriter(a.Out)
	defer w.Close()
	p, err := avsprecompile.NewPrecompile(env.App.AVSManagerKeeper, env.App.AuthzKeeper)
	if err != nil {
		return err
	}
	h := &c20H{env: env, p: p, ms: avskeeper.NewMsgServerImpl(env.App.AVSManagerKeeper), rng: rand.New(rand.NewSource(a.Seed)), w: w}
	for i := 0; i < 3; i++ {
		_, aa := DetEthKey("c20avs", i)
		h.avsAddrs = append(h.avsAddrs, aa)
		_, ta := DetEthKey("c20task", i)
		h.taskAddr = append(h.taskAddr, ta)
	}
	h.owners = env.AccAddrs[:3]
	h.ops = append(h.ops, env.Operators...)
	_, un := DetEthKey("c20unreg", 0)
	h.ops = append(h.ops, sdk.AccAddress(un.Bytes()))
	for i := range h.ops {
		seed := seedBytes("c20bls", i)
		seed[0] &= 0x1f
		sk, err := blst.SecretKeyFromBytes(seed)
		if err != nil {
			return fmt.Errorf("bls key %d: %w", i, err)
		}
		h.blsKeys = append(h.blsKeys, sk)
	}

	// directed scenarios first
	h.directedEmptySig(true)
	h.directedEmptySig(false)
	h.directedNotOptedIn()
	h.directedWindows(1, 1, 1)
	h.directedWindows(0, 0, 0)
	h.directedWindows(0, 1, 0)
	h.directedWindows(2, 0, 1)
	ndir := 7
	for _, u := range []uint64{1, 2} {
		for _, k := range []int{int(u), int(u) + 1, int(u) + 2} {
			h.directedDeregister(u, k)
			ndir++
		}
	}
	for _, mp := range [][2]int{{11, 13}, {11, 12}, {11, 14}, {12, 16}, {12, 18}, {13, 18}, {10, 12}} {
		h.directedMinSelf(mp[0], int32(mp[1]))
		ndir++
	}
	for _, up := range [][2]int{{1000, 13}, {7, 18}, {100, 0}} {
		h.directedExactMin(int64(up[0]), int32(up[1]))
		ndir++
	}
	h.directedTwoAVS(0, 0)
	h.directedTwoAVS(1, 1)
	ndir += 2
	n := a.N - ndir
	for i := 0; i < n; i++ {
		c := h.newCase()
		if i%5 == 4 {
			// unstructured stream
			for k := 12 + h.rng.Intn(25); k > 0; k-- {
				if h.rng.Intn(6) == 0 {
					if c.advance(61*time.Second) == c20Panic {
						break
					}
				} else {
					h.randomOp(c)
				}
			}
		} else {
			h.structuredCase(c)
		}
		c.finish()
	}
	return nil
}
