package main

// Suite c04: slashing. Runs the REAL OperatorKeeper.Slash / OperatorKeeper.SlashWithInfractionReason /
// dogfood Keeper.SlashWithInfractionReason (by consensus address) of a real ExocoreApp on generated operator
// states: several assets (different decimals, oracle prices set through the oracle keeper's SetPrices, one asset
// unknown to the oracle), several delegators, self-delegation, pending undelegations started below / at / above
// the infraction height, shrunken and zero operator value, replayed slash identifiers. The ledger is built with
// the real keepers (PerformDepositOrWithdraw, DelegateTo, UndelegateFrom) inside a cache context per case.
// Before and after every call the operator-asset pools, undelegation records, delegation rows, staker lists and
// slash records are dumped from the raw stores; every other key/value pair of every store is compared too.

import (
	"crypto/sha256"
	"encoding/binary"
	"encoding/json"
	"fmt"
	"math/big"
	"math/rand"
	"sort"
	"strings"

	sdkmath "cosmossdk.io/math"
	abci "github.com/cometbft/cometbft/abci/types"
	"github.com/cosmos/cosmos-sdk/store/prefix"
	sdk "github.com/cosmos/cosmos-sdk/types"
	stakingtypes "github.com/cosmos/cosmos-sdk/x/staking/types"
	"github.com/ethereum/go-ethereum/common"
	"github.com/ethereum/go-ethereum/common/hexutil"

	exocoreapp "github.com/ExocoreNetwork/exocore/app"
	assetskeeper "github.com/ExocoreNetwork/exocore/x/assets/keeper"
	assetstypes "github.com/ExocoreNetwork/exocore/x/assets/types"
	avstypes "github.com/ExocoreNetwork/exocore/x/avs/types"
	delegationtypes "github.com/ExocoreNetwork/exocore/x/delegation/types"
	operatortypes "github.com/ExocoreNetwork/exocore/x/operator/types"
	oracletypes "github.com/ExocoreNetwork/exocore/x/oracle/types"
)

func init() { register("c04", runC04) }

// ---- world shared by c04 and c05 -----------------------------------------------------------------

type c04Asset struct {
	Addr    common.Address
	ID      string
	Dec     uint32
	TokenID uint64 // 0 = unknown to the oracle
	Chain   uint64 // client chain (LayerZero) id
}

type c04World struct {
	Env    *Env
	Assets []c04Asset
	DogAVS string
}

var c04AssetSpecs = []struct {
	addr  string
	dec   uint32
	tok   uint64
	chain uint64
}{
	{"0xdAC17F958D2ee523a2206206994597C13D831ec7", 6, 1, 101},
	{"0xa0b86991c6218b36c1d19d4a2e9eb0ce3606eb48", 18, 2, 101},
	{"0x1111111111111111111111111111111111111111", 0, 3, 101},
	{"0x2222222222222222222222222222222222222222", 8, 4, 101},
	{"0x3333333333333333333333333333333333333333", 2, 0, 101},
	// the SAME token contract on a second client chain whose hex id (0x6) is a prefix of the first one's (0x65): asset ids
	// <addr>_0x6 and <addr>_0x65, each with its own oracle token and price
	{"0xdAC17F958D2ee523a2206206994597C13D831ec7", 4, 5, 6},
	// a second asset with 0 decimals whose id sorts AFTER every asset with non-zero decimals (the first one, 0x1111.., sorts
	// before all of them): anything that carries a field over from the previously decoded asset shows up here
	{"0xeeeeeeeeeeeeeeeeeeeeeeeeeeeeeeeeeeeeeeee", 0, 6, 101},
}

func c04NewWorld(ops []OperatorCfg) *c04World {
	w := &c04World{}
	for _, s := range c04AssetSpecs {
		a := common.HexToAddress(s.addr)
		_, id := assetstypes.GetStakerIDAndAssetID(s.chain, nil, a.Bytes())
		w.Assets = append(w.Assets, c04Asset{Addr: a, ID: id, Dec: s.dec, TokenID: s.tok, Chain: s.chain})
	}
	mut := func(app *exocoreapp.ExocoreApp, gs map[string]json.RawMessage) {
		var ag assetstypes.GenesisState
		app.AppCodec().MustUnmarshalJSON(gs[assetstypes.ModuleName], &ag)
		ag.ClientChains = append(ag.ClientChains, assetstypes.ClientChainInfo{
			Name: "short", MetaInfo: "chain whose hex id is a prefix of 0x65", ChainId: 6, FinalizationBlocks: 10, LayerZeroChainID: 6, AddressLength: 20,
		})
		for i, a := range w.Assets {
			if i == 0 {
				continue
			}
			ag.Tokens = append(ag.Tokens, assetstypes.StakingAssetInfo{
				AssetBasicInfo: assetstypes.AssetInfo{
					Name: fmt.Sprintf("Asset%d", i), Symbol: fmt.Sprintf("AS%d", i), Address: strings.ToLower(a.Addr.Hex()),
					Decimals: a.Dec, LayerZeroChainID: a.Chain, MetaInfo: "verif asset",
				},
				StakingTotalAmount: sdkmath.ZeroInt(),
			})
		}
		gs[assetstypes.ModuleName] = app.AppCodec().MustMarshalJSON(&ag)

		var og oracletypes.GenesisState
		app.AppCodec().MustUnmarshalJSON(gs[oracletypes.ModuleName], &og)
		for i, a := range w.Assets {
			if a.TokenID < 3 {
				continue
			}
			og.Params.Tokens = append(og.Params.Tokens, &oracletypes.Token{
				Name: fmt.Sprintf("AS%d", i), ChainID: 1, ContractAddress: "0x", Decimal: 0, Active: true, AssetID: a.ID,
			})
			og.Params.TokenFeeders = append(og.Params.TokenFeeders, &oracletypes.TokenFeeder{
				TokenID: a.TokenID, RuleID: 1, StartRoundID: 1, StartBaseBlock: 1, Interval: 10,
			})
			og.PricesList = append(og.PricesList, oracletypes.Prices{
				TokenID: a.TokenID, NextRoundID: 2, PriceList: []*oracletypes.PriceTimeRound{{Price: "1", Decimal: 0, RoundID: 1}},
			})
		}
		gs[oracletypes.ModuleName] = app.AppCodec().MustMarshalJSON(&og)
	}
	w.Env = NewEnv(EnvCfg{Operators: ops, MutGenesis: mut})
	w.DogAVS = avstypes.GenerateAVSAddr(avstypes.ChainIDWithoutRevision(w.Env.ChainID))
	return w
}

func (w *c04World) assetIdx(id string) int {
	for i, a := range w.Assets {
		if a.ID == id {
			return i
		}
	}
	return -1
}

func (w *c04World) opIdx(addr string) int {
	for i, o := range w.Env.Operators {
		if o.String() == addr {
			return i
		}
	}
	return -1
}

// oraclePrice is the price the property means for an asset: the latest round of the oracle token that the oracle params bind to
// EXACTLY this asset id (own resolution: comma-split + equality over params.Tokens read from the store), read from the oracle
// price store; no round / non-positive price => the default price 1 with 0 decimals ("default"); no token => "missing".
// It deliberately does not call GetSpecifiedAssetsPrice / GetMultipleAssetsPrices / Params.GetTokenIDFromAssetID.
func (w *c04World) oraclePrice(ctx sdk.Context, assetID string) (class string, price string, pdec int64) {
	params := w.Env.App.OracleKeeper.GetParams(ctx)
	tokenID := 0
	for id, t := range params.Tokens {
		if id == 0 || t == nil {
			continue
		}
		for _, x := range strings.Split(t.AssetID, ",") {
			if x == assetID && tokenID == 0 {
				tokenID = id
			}
		}
	}
	if tokenID == 0 {
		return "missing", "0", 0
	}
	tr, found := w.Env.App.OracleKeeper.GetPriceTRLatest(ctx, uint64(tokenID))
	if !found {
		return "default", "1", 0
	}
	v, ok := new(big.Int).SetString(tr.Price, 10)
	if !ok || v.Sign() <= 0 {
		return "default", "1", 0
	}
	return "ok", v.String(), int64(uint8(tr.Decimal))
}

// assetDecimals reads the asset's stored StakingAssetInfo straight from the assets store (own decode into a fresh struct; not
// through GetAssetsDecimal / GetStakingAssetInfo).
func (w *c04World) assetDecimals(ctx sdk.Context, assetID string) (int64, bool) {
	st := prefix.NewStore(ctx.KVStore(w.Env.App.GetKey(assetstypes.StoreKey)), assetstypes.KeyPrefixReStakingAssetInfo)
	bz := st.Get([]byte(assetID))
	if bz == nil {
		return 0, false
	}
	var info assetstypes.StakingAssetInfo
	w.Env.App.AppCodec().MustUnmarshal(bz, &info)
	return int64(info.AssetBasicInfo.Decimals), true
}

func (w *c04World) setPrice(ctx sdk.Context, ai int, price string, dec int32, found bool) {
	a := w.Assets[ai]
	if a.TokenID == 0 {
		return
	}
	next := uint64(2)
	if !found {
		next = 1
	}
	w.Env.App.OracleKeeper.SetPrices(ctx, oracletypes.Prices{
		TokenID: a.TokenID, NextRoundID: next,
		PriceList: []*oracletypes.PriceTimeRound{{Price: price, Decimal: dec, RoundID: 1}},
	})
}

// ---- identities ------------------------------------------------------------------------------------

type c04IDs struct {
	m map[string]int
}

func (x *c04IDs) id(kind, s string) int {
	k := kind + ":" + s
	if v, ok := x.m[k]; ok {
		return v
	}
	v := len(x.m) + 1000
	x.m[k] = v
	return v
}

// ---- dumped state ----------------------------------------------------------------------------------

type c04Pool struct {
	Op, Asset                      int
	Total, Pending, TShare, OShare string
}
type c04Rec struct {
	ID, Op         int
	Height         uint64
	Staker, Asset  int
	Amount, Actual string
	FP             int64
}
type c04Deleg struct {
	Staker, Asset, Op int
	Share, Wait       string
}
type c04SL struct {
	Op, Asset int
	Stakers   []int
}
type c04Sid struct {
	Dog  bool
	A, B int64
}
type c04Exec struct {
	Prop, Value string
	Undels      [][3]string
	Pools       [][2]string
}
type c04SInfo struct {
	Op, Avs   int
	ID        c04Sid
	Type      int64
	Contract  int
	Submitted int64
	Event     int64
	Vetoed    bool
	Factor    string
	Exec      c04Exec
}
type c04State struct {
	Pools  []c04Pool
	Recs   []c04Rec
	Delegs []c04Deleg
	SLs    []c04SL
	SInfos []c04SInfo
}

func decZ(d sdkmath.LegacyDec) string {
	if d.IsNil() {
		return "0"
	}
	return d.BigInt().String()
}

func intZ(i sdkmath.Int) string {
	if i.IsNil() {
		return "0"
	}
	return i.BigInt().String()
}

func (w *c04World) parseSid(ids *c04IDs, s string) c04Sid {
	parts := strings.Split(s, "_")
	if len(parts) == 2 {
		a, e1 := hexutil.DecodeUint64(parts[0])
		b, e2 := hexutil.DecodeUint64(parts[1])
		if e1 == nil && e2 == nil && a < 1<<31 && b < 1<<62 {
			return c04Sid{Dog: true, A: int64(a), B: int64(b)}
		}
	}
	return c04Sid{Dog: false, A: int64(ids.id("sid", s))}
}

func (w *c04World) opID(ids *c04IDs, addr string) int {
	if i := w.opIdx(addr); i >= 0 {
		return i
	}
	return ids.id("op", addr)
}

func conID(ids *c04IDs, c string) int {
	if c == "" {
		return 0
	}
	return ids.id("contract", c)
}

func (w *c04World) asID(ids *c04IDs, id string) int {
	if i := w.assetIdx(id); i >= 0 {
		return i
	}
	return ids.id("asset", id)
}

var c04TypedPrefixes = map[string][][]byte{
	assetstypes.StoreKey:     {assetstypes.KeyPrefixOperatorAssetInfos},
	delegationtypes.StoreKey: {delegationtypes.KeyPrefixUndelegationInfo, delegationtypes.KeyPrefixRestakerDelegationInfo, delegationtypes.KeyPrefixStakersByOperator},
	operatortypes.StoreKey:   {operatortypes.KeyPrefixOperatorSlashInfo},
}

var c04StoreNames = []string{"acc", "bank", "staking", "slashing", "gov", "params", "upgrade", "evidence", "capability",
	"consensus", "feegrant", "authz", "crisis", "ibc", "transfer", "icahost", "evm", "feemarket", "erc20", "epochs",
	"assets", "delegation", "reward", "exoslash", "operator", "avs", "oracle", "exomint", "feedistribution", "dogfood", "distribution", "mint"}

// c04Other returns a digest map of every KV pair of every store that is not part of the typed dump.
func (w *c04World) otherKV(ctx sdk.Context, typed map[string][][]byte) map[string][32]byte {
	out := map[string][32]byte{}
	for _, name := range c04StoreNames {
		key := w.Env.App.GetKey(name)
		if key == nil {
			continue
		}
		st := ctx.KVStore(key)
		it := st.Iterator(nil, nil)
		for ; it.Valid(); it.Next() {
			k := it.Key()
			skip := false
			for _, p := range typed[name] {
				if len(k) >= len(p) && string(k[:len(p)]) == string(p) {
					skip = true
					break
				}
			}
			if skip {
				continue
			}
			out[name+"/"+string(k)] = sha256.Sum256(it.Value())
		}
		it.Close()
	}
	return out
}

func kvDiff(a, b map[string][32]byte) []string {
	var d []string
	for k, v := range a {
		if v2, ok := b[k]; !ok || v2 != v {
			d = append(d, k)
		}
	}
	for k := range b {
		if _, ok := a[k]; !ok {
			d = append(d, k)
		}
	}
	sort.Strings(d)
	return d
}

func (w *c04World) dump(ctx sdk.Context, ids *c04IDs) c04State {
	app := w.Env.App
	var s c04State
	// operator asset pools, store order
	st := prefix.NewStore(ctx.KVStore(app.GetKey(assetstypes.StoreKey)), assetstypes.KeyPrefixOperatorAssetInfos)
	it := st.Iterator(nil, nil)
	for ; it.Valid(); it.Next() {
		keys := strings.Split(string(it.Key()), "/")
		var info assetstypes.OperatorAssetInfo
		app.AppCodec().MustUnmarshal(it.Value(), &info)
		s.Pools = append(s.Pools, c04Pool{w.opID(ids, keys[0]), w.asID(ids, keys[1]), intZ(info.TotalAmount), intZ(info.PendingUndelegationAmount),
			decZ(info.TotalShare), decZ(info.OperatorShare)})
	}
	it.Close()
	// undelegation records, store order
	st = prefix.NewStore(ctx.KVStore(app.GetKey(delegationtypes.StoreKey)), delegationtypes.KeyPrefixUndelegationInfo)
	it = st.Iterator(nil, nil)
	for ; it.Valid(); it.Next() {
		keys := strings.Split(string(it.Key()), "/")
		h, err := hexutil.DecodeUint64(keys[1])
		if err != nil {
			panic(err)
		}
		var r delegationtypes.UndelegationRecord
		app.AppCodec().MustUnmarshal(it.Value(), &r)
		rest := r
		rest.ActualCompletedAmount = sdkmath.ZeroInt()
		bz := app.AppCodec().MustMarshal(&rest)
		sum := sha256.Sum256(bz)
		fp := int64(binary.BigEndian.Uint64(sum[:8]) >> 16)
		s.Recs = append(s.Recs, c04Rec{ids.id("rec", string(it.Key())), w.opID(ids, keys[0]), h, ids.id("staker", r.StakerID), w.asID(ids, r.AssetID),
			intZ(r.Amount), intZ(r.ActualCompletedAmount), fp})
	}
	it.Close()
	// delegation rows
	st = prefix.NewStore(ctx.KVStore(app.GetKey(delegationtypes.StoreKey)), delegationtypes.KeyPrefixRestakerDelegationInfo)
	it = st.Iterator(nil, nil)
	for ; it.Valid(); it.Next() {
		keys := strings.Split(string(it.Key()), "/")
		var d delegationtypes.DelegationAmounts
		app.AppCodec().MustUnmarshal(it.Value(), &d)
		s.Delegs = append(s.Delegs, c04Deleg{ids.id("staker", keys[0]), w.asID(ids, keys[1]), w.opID(ids, keys[2]), decZ(d.UndelegatableShare), intZ(d.WaitUndelegationAmount)})
	}
	it.Close()
	// staker lists
	st = prefix.NewStore(ctx.KVStore(app.GetKey(delegationtypes.StoreKey)), delegationtypes.KeyPrefixStakersByOperator)
	it = st.Iterator(nil, nil)
	for ; it.Valid(); it.Next() {
		keys := strings.Split(string(it.Key()), "/")
		var l delegationtypes.StakerList
		app.AppCodec().MustUnmarshal(it.Value(), &l)
		sl := c04SL{Op: w.opID(ids, keys[0]), Asset: w.asID(ids, keys[1])}
		for _, x := range l.Stakers {
			sl.Stakers = append(sl.Stakers, ids.id("staker", x))
		}
		s.SLs = append(s.SLs, sl)
	}
	it.Close()
	// slash records
	st = prefix.NewStore(ctx.KVStore(app.GetKey(operatortypes.StoreKey)), operatortypes.KeyPrefixOperatorSlashInfo)
	it = st.Iterator(nil, nil)
	for ; it.Valid(); it.Next() {
		keys := strings.SplitN(string(it.Key()), "/", 3)
		var si operatortypes.OperatorSlashInfo
		app.AppCodec().MustUnmarshal(it.Value(), &si)
		x := c04SInfo{Op: w.opID(ids, keys[0]), Avs: ids.id("avs", keys[1]), ID: w.parseSid(ids, keys[2]), Type: int64(si.SlashType),
			Contract: conID(ids, si.SlashContract), Submitted: si.SubmittedHeight, Event: si.EventHeight, Vetoed: si.IsVetoed,
			Factor: decZ(si.SlashProportion)}
		if si.ExecutionInfo != nil {
			x.Exec.Prop = decZ(si.ExecutionInfo.SlashProportion)
			x.Exec.Value = decZ(si.ExecutionInfo.SlashValue)
			for _, u := range si.ExecutionInfo.SlashUndelegations {
				x.Exec.Undels = append(x.Exec.Undels, [3]string{fmt.Sprint(ids.id("staker", u.StakerID)), fmt.Sprint(w.asID(ids, u.AssetID)), intZ(u.Amount)})
			}
			for _, p := range si.ExecutionInfo.SlashAssetsPool {
				x.Exec.Pools = append(x.Exec.Pools, [2]string{fmt.Sprint(w.asID(ids, p.AssetID)), intZ(p.Amount)})
			}
		} else {
			x.Exec.Prop, x.Exec.Value = "0", "0"
		}
		s.SInfos = append(s.SInfos, x)
	}
	it.Close()
	return s
}

// ---- Coq rendering -----------------------------------------------------------------------------------

func (s c04Sid) coq() string {
	if s.Dog {
		return cApp("SidDog", cZ(s.A), cZ(s.B))
	}
	return cApp("SidRaw", cZ(s.A))
}

func (s c04State) coq() string {
	var ps, rs, ds, ls, is []string
	for _, p := range s.Pools {
		ps = append(ps, cApp("mkPool", cZ(int64(p.Op)), cZ(int64(p.Asset)), cZstr(p.Total), cZstr(p.Pending), cZstr(p.TShare), cZstr(p.OShare)))
	}
	for _, r := range s.Recs {
		rs = append(rs, cApp("mkRec", cZ(int64(r.ID)), cZ(int64(r.Op)), cZ(int64(r.Height)), cZ(int64(r.Staker)), cZ(int64(r.Asset)), cZstr(r.Amount), cZstr(r.Actual), cZ(r.FP)))
	}
	for _, d := range s.Delegs {
		ds = append(ds, cApp("mkDeleg", cZ(int64(d.Staker)), cZ(int64(d.Asset)), cZ(int64(d.Op)), cZstr(d.Share), cZstr(d.Wait)))
	}
	for _, l := range s.SLs {
		var xs []string
		for _, x := range l.Stakers {
			xs = append(xs, cZ(int64(x)))
		}
		ls = append(ls, cApp("mkSL", cZ(int64(l.Op)), cZ(int64(l.Asset)), cList(xs)))
	}
	for _, i := range s.SInfos {
		var us, pp []string
		for _, u := range i.Exec.Undels {
			us = append(us, cTuple(cZstr(u[0]), cZstr(u[1]), cZstr(u[2])))
		}
		for _, p := range i.Exec.Pools {
			pp = append(pp, cTuple(cZstr(p[0]), cZstr(p[1])))
		}
		ex := cApp("mkExec", cZstr(i.Exec.Prop), cZstr(i.Exec.Value), cList(us), cList(pp))
		is = append(is, cApp("mkSI", cZ(int64(i.Op)), cZ(int64(i.Avs)), i.ID.coq(), cZ(i.Type), cZ(int64(i.Contract)), cZ(i.Submitted), cZ(i.Event),
			cBool(i.Vetoed), cZstr(i.Factor), ex))
	}
	return cApp("mkSt", cList(ps), cList(rs), cList(ds), cList(ls), cList(is))
}

type c04AInfo struct {
	ID     int
	Class  string // ok | default | missing
	Price  string
	PDec   int64
	Known  bool
	Dec    int64
}

type c04Env struct {
	Height      int64
	Assets      []c04AInfo
	AvsContract [][2]int
	DogAvs      int // -1 = none
}

func (e c04Env) coq() string {
	var as, cs []string
	for _, a := range e.Assets {
		cl := map[string]string{"ok": "PcOk", "default": "PcDefault", "missing": "PcMissing"}[a.Class]
		as = append(as, cApp("mkAI", cZ(int64(a.ID)), cl, cZstr(a.Price), cZ(a.PDec), cBool(a.Known), cZ(a.Dec)))
	}
	for _, c := range e.AvsContract {
		cs = append(cs, cTuple(cZ(int64(c[0])), cZ(int64(c[1]))))
	}
	return cApp("mkEnv", cZ(e.Height), cList(as), cList(cs), cOpt(e.DogAvs >= 0, cZ(int64(e.DogAvs))))
}

type c04Call struct {
	Kind       string // slash | opreason | dogreason
	Op         int    // dogreason: -1 = consensus address unknown
	Avs        int
	Sid        c04Sid
	Dogfood    bool
	Power      int64
	Type       int64
	Contract   int
	Event      int64
	Factor     string // "" = nil
	Infraction int64
}

func (c c04Call) coq() string {
	switch c.Kind {
	case "slash":
		q := cApp("mkPrm", cZ(int64(c.Op)), cZ(int64(c.Avs)), c.Sid.coq(), cBool(c.Dogfood), cZ(c.Power), cZ(c.Type), cZ(int64(c.Contract)), cZ(c.Event),
			cOpt(c.Factor != "", func() string {
				if c.Factor == "" {
					return "0%Z"
				}
				return cZstr(c.Factor)
			}()))
		return cApp("CSlash", q)
	case "opreason":
		return cApp("COpReason", cZ(int64(c.Op)), cZ(c.Event), cZ(c.Power), cZstr(c.Factor), cZ(c.Infraction))
	default:
		return cApp("CDogReason", cOpt(c.Op >= 0, cZ(int64(c.Op))), cZ(c.Event), cZ(c.Power), cZstr(c.Factor), cZ(c.Infraction))
	}
}

type c04Step struct {
	Orig   [][2]string
	Env    c04Env
	Before c04State
	Call   c04Call
	After  c04State
	Res    string // ok | err | panic | zero
	Other  []string
}

type c04Case struct {
	Suite string    `json:"suite"`
	Tags  []string  `json:"tags,omitempty"`
	NT    bool      `json:"nt"`
	Steps []c04Step `json:"steps"`
}

func (t c04Step) coq() string {
	r := map[string]string{"ok": "ROk", "err": "RErr", "panic": "RPanic", "zero": "RZero"}[t.Res]
	var og []string
	for _, o := range t.Orig {
		og = append(og, cTuple(cZstr(o[0]), cZstr(o[1])))
	}
	return cApp("mkStep", t.Env.coq(), t.Before.coq(), t.Call.coq(), t.After.coq(), r, cZ(int64(len(t.Other))), cList(og))
}

// ---- environment observation --------------------------------------------------------------------------

func (w *c04World) observeEnv(ctx sdk.Context, ids *c04IDs, avss []string) c04Env {
	app := w.Env.App
	e := c04Env{Height: ctx.BlockHeight(), DogAvs: -1}
	for i, a := range w.Assets {
		ai := c04AInfo{ID: i, Price: "0"}
		ai.Class, ai.Price, ai.PDec = w.oraclePrice(ctx, a.ID)
		ai.Dec, ai.Known = w.assetDecimals(ctx, a.ID)
		e.Assets = append(e.Assets, ai)
	}
	for _, avs := range avss {
		c, err := app.AVSManagerKeeper.GetAVSSlashContract(ctx, avs)
		if err == nil {
			e.AvsContract = append(e.AvsContract, [2]int{ids.id("avs", avs), conID(ids, c)})
		}
	}
	if ok, avs := app.AVSManagerKeeper.IsAVSByChainID(ctx, avstypes.ChainIDWithoutRevision(ctx.ChainID())); ok {
		e.DogAvs = ids.id("avs", avs)
	}
	return e
}

// ---- generation ---------------------------------------------------------------------------------------

type c04Gen struct {
	w       *c04World
	rng     *rand.Rand
	cw      *CaseWriter
	nonce   uint64
	orig    map[int]string // ghost: Amount of each undelegation record when it was first observed (right after its creation)
	origIDs *c04IDs
}

// snapshotOrig remembers the Amount of every record not seen before (called right after records are created, before anything
// else can touch them).
func (g *c04Gen) snapshotOrig(ctx sdk.Context, ids *c04IDs) {
	if g.origIDs != ids {
		g.orig, g.origIDs = map[int]string{}, ids
	}
	for _, r := range g.w.dump(ctx, ids).Recs {
		if _, ok := g.orig[r.ID]; !ok {
			g.orig[r.ID] = r.Amount
		}
	}
}

func (g *c04Gen) origList() [][2]string {
	keys := make([]int, 0, len(g.orig))
	for k := range g.orig {
		keys = append(keys, k)
	}
	sort.Ints(keys)
	var out [][2]string
	for _, k := range keys {
		out = append(out, [2]string{fmt.Sprint(k), g.orig[k]})
	}
	return out
}

// nstDecrease: a client-chain balance decrease (DelegationKeeper.UpdateNSTBalance with a negative amount) for a staker that has
// pending undelegations from the target operator, large enough to use up the withdrawable balance and eat into the pending
// undelegations (their ActualCompletedAmount shrinks; the Amount they were created with must not).
func (g *c04Gen) nstDecrease(ctx sdk.Context, ids *c04IDs, target int) {
	app := g.w.Env.App
	recs, _ := app.DelegationKeeper.AllUndelegations(ctx)
	var cand []delegationtypes.UndelegationRecord
	for _, r := range recs {
		if r.OperatorAddr == g.w.Env.Operators[target].String() && r.ActualCompletedAmount.IsPositive() {
			cand = append(cand, r)
		}
	}
	if len(cand) == 0 {
		return
	}
	r := cand[g.rng.Intn(len(cand))]
	info, err := app.AssetsKeeper.GetStakerSpecifiedAssetInfo(ctx, r.StakerID, r.AssetID)
	if err != nil {
		return
	}
	var eat sdkmath.Int
	switch g.rng.Intn(3) {
	case 0:
		eat = sdkmath.NewInt(1)
	case 1:
		eat = r.ActualCompletedAmount
	default:
		eat = r.ActualCompletedAmount.QuoRaw(2).AddRaw(1)
	}
	amt := info.WithdrawableAmount.Add(eat).Neg()
	func() {
		defer func() {
			if x := recover(); x != nil {
				g.cw.Count("nst-decrease.panic")
			}
		}()
		if err := app.DelegationKeeper.UpdateNSTBalance(ctx, r.StakerID, r.AssetID, amt); err != nil {
			g.cw.Count("nst-decrease.err")
		} else {
			g.cw.Count("nst-decrease.ok")
		}
	}()
}

func pow10(n int) *big.Int { return new(big.Int).Exp(big.NewInt(10), big.NewInt(int64(n)), nil) }

func (g *c04Gen) amount(dec uint32) sdkmath.Int {
	// 1 .. ~10^(dec+5), log-uniform, sometimes tiny
	k := g.rng.Intn(int(dec) + 6)
	m := big.NewInt(1 + g.rng.Int63n(9999))
	v := new(big.Int).Mul(m, pow10(k))
	v.Div(v, big.NewInt(1000))
	if v.Sign() <= 0 {
		v = big.NewInt(1 + g.rng.Int63n(5))
	}
	return sdkmath.NewIntFromBigInt(v)
}

func (g *c04Gen) stakerAddr(i int) common.Address {
	_, a := DetEthKey("c04staker", i)
	return a
}

func (g *c04Gen) txHash() common.Hash {
	g.nonce++
	return common.BytesToHash(seedBytes("c04tx", int(g.nonce)))
}

// buildLedger creates deposits/delegations/undelegations with the real keepers. heights is the list of
// block heights at which undelegations are started.
func (g *c04Gen) buildLedger(ctx sdk.Context, target int, undelHeights []int64) sdk.Context {
	app := g.w.Env.App
	rng := g.rng
	nSt := 1 + rng.Intn(4)
	type dl struct {
		st, as, op int
		amt        sdkmath.Int
	}
	var dls []dl
	selfStaker := -1
	if rng.Intn(3) > 0 {
		selfStaker = rng.Intn(nSt)
		_ = app.DelegationKeeper.AssociateOperatorWithStaker(ctx, 101, g.w.Env.Operators[target], g.stakerAddr(selfStaker).Bytes())
	}
	h := ctx.BlockHeight()
	for s := 0; s < nSt; s++ {
		nAs := 1 + rng.Intn(3)
		for j := 0; j < nAs; j++ {
			ai := rng.Intn(len(g.w.Assets))
			if ai == 4 && rng.Intn(4) > 0 {
				ai = rng.Intn(4) // the oracle-less asset only sometimes
			}
			amt := g.amount(g.w.Assets[ai].Dec)
			err := app.AssetsKeeper.PerformDepositOrWithdraw(ctx, &assetskeeper.DepositWithdrawParams{
				ClientChainLzID: g.w.Assets[ai].Chain, Action: assetstypes.DepositLST, StakerAddress: g.stakerAddr(s).Bytes(), OpAmount: amt, AssetsAddress: g.w.Assets[ai].Addr.Bytes(),
			})
			if err != nil {
				panic(fmt.Sprintf("deposit: %v", err))
			}
			// delegate most of it to the target, sometimes part to another operator
			rest := amt
			parts := 1 + rng.Intn(2)
			for p := 0; p < parts && rest.IsPositive(); p++ {
				op := target
				if p > 0 || rng.Intn(6) == 0 {
					op = rng.Intn(len(g.w.Env.Operators))
				}
				d := rest
				if p == 0 && parts > 1 {
					d = rest.QuoRaw(int64(2 + rng.Intn(3)))
					if !d.IsPositive() {
						d = rest
					}
				}
				g.nonce++
				err := app.DelegationKeeper.DelegateTo(ctx.WithBlockHeight(h), &delegationtypes.DelegationOrUndelegationParams{
					ClientChainID: g.w.Assets[ai].Chain, AssetsAddress: g.w.Assets[ai].Addr.Bytes(), OperatorAddress: g.w.Env.Operators[op], StakerAddress: g.stakerAddr(s).Bytes(),
					OpAmount: d, LzNonce: g.nonce, TxHash: g.txHash(),
				})
				if err != nil {
					g.cw.Count("build.delegate.err")
					continue
				}
				rest = rest.Sub(d)
				dls = append(dls, dl{s, ai, op, d})
			}
		}
	}
	// undelegations at the requested heights (sorted ascending by the caller)
	for _, uh := range undelHeights {
		if len(dls) == 0 {
			break
		}
		// prefer delegations to the target
		var cand []int
		for i, d := range dls {
			if d.op == target && d.amt.IsPositive() {
				cand = append(cand, i)
			}
		}
		if len(cand) == 0 || rng.Intn(8) == 0 {
			cand = nil
			for i, d := range dls {
				if d.amt.IsPositive() {
					cand = append(cand, i)
				}
			}
		}
		if len(cand) == 0 {
			break
		}
		i := cand[rng.Intn(len(cand))]
		d := dls[i]
		var amt sdkmath.Int
		switch rng.Intn(4) {
		case 0:
			amt = d.amt // everything
		case 1:
			amt = sdkmath.NewInt(1)
		default:
			amt = d.amt.QuoRaw(int64(2 + rng.Intn(4)))
		}
		if !amt.IsPositive() {
			amt = d.amt
		}
		g.nonce++
		err := app.DelegationKeeper.UndelegateFrom(ctx.WithBlockHeight(uh), &delegationtypes.DelegationOrUndelegationParams{
			ClientChainID: g.w.Assets[d.as].Chain, AssetsAddress: g.w.Assets[d.as].Addr.Bytes(), OperatorAddress: g.w.Env.Operators[d.op], StakerAddress: g.stakerAddr(d.st).Bytes(),
			OpAmount: amt, LzNonce: g.nonce, TxHash: g.txHash(),
		})
		if err != nil {
			g.cw.Count("build.undelegate.err")
			continue
		}
		g.cw.Count("build.undelegate")
		dls[i].amt = d.amt.Sub(amt)
	}
	return ctx
}

// mature runs the REAL delegation EndBlock for every height from the current one to upTo (pending undelegations whose completion
// height is reached and that carry no hold are released: staker credited, pool / staker / delegation pending figures reduced,
// record deleted) and returns the context at upTo+1.
func (g *c04Gen) mature(ctx sdk.Context, upTo int64) sdk.Context {
	app := g.w.Env.App
	count := func() int {
		r, _ := app.DelegationKeeper.AllUndelegations(ctx)
		return len(r)
	}
	before := count()
	for h := ctx.BlockHeight(); h <= upTo; h++ {
		func() {
			defer func() {
				if r := recover(); r != nil {
					g.cw.Count("mature.panic")
				}
			}()
			app.DelegationKeeper.EndBlock(ctx.WithBlockHeight(h), abci.RequestEndBlock{Height: h})
		}()
	}
	g.cw.CountN("mature.records-released", before-count())
	g.cw.Count("mature.runs")
	return ctx.WithBlockHeight(upTo + 1)
}

func (g *c04Gen) randomPrices(ctx sdk.Context) {
	for ai := range g.w.Assets {
		pdec := int32(g.rng.Intn(19))
		if g.rng.Intn(6) == 0 {
			pdec = 0
		}
		switch g.rng.Intn(12) {
		case 0:
			g.w.setPrice(ctx, ai, "1", 0, false) // round not found -> default price
		case 1:
			g.w.setPrice(ctx, ai, "0", pdec, true) // zero price -> default price
		default:
			k := g.rng.Intn(int(pdec) + 5)
			v := new(big.Int).Mul(big.NewInt(1+g.rng.Int63n(99999)), pow10(k))
			v.Div(v, big.NewInt(1000))
			if v.Sign() <= 0 {
				v = big.NewInt(1)
			}
			g.w.setPrice(ctx, ai, v.String(), pdec, true)
		}
	}
}

// operator value (incl. unbonding) as the real code computes it, used only to aim the generated power
func (g *c04Gen) opValue(ctx sdk.Context, op int) (v sdkmath.LegacyDec, ok bool) {
	defer func() {
		if r := recover(); r != nil {
			ok = false
		}
	}()
	info, err := g.w.Env.App.OperatorKeeper.CalculateUSDValueForOperator(ctx, true, g.w.Env.Operators[op].String(), nil, nil, nil)
	if err != nil {
		return sdkmath.LegacyZeroDec(), false
	}
	return info.StakingAndWaitUnbonding, true
}

func (g *c04Gen) pickPower(ctx sdk.Context, op int) int64 {
	v, ok := g.opValue(ctx, op)
	max := int64(1) << 40
	if ok && v.IsPositive() {
		t := v.TruncateInt()
		if t.IsInt64() && t.Int64() > 0 {
			iv := t.Int64()
			switch g.rng.Intn(8) {
			case 0:
				return iv
			case 1:
				return iv + 1
			case 2:
				if iv < (1 << 61) {
					return iv*2 + 1
				}
				return iv
			case 3:
				return iv/3 + 1
			case 4:
				return 1
			case 5:
				return iv/20 + 1
			}
			if iv < max {
				return 1 + g.rng.Int63n(iv+1)
			}
		}
	}
	switch g.rng.Intn(4) {
	case 0:
		return 1
	case 1:
		return 1 + g.rng.Int63n(1000)
	}
	return 1 + g.rng.Int63n(max)
}

var c04Factors = []string{"0", "1", "333333333333333333", "50000000000000000", "1000000000000000000", "10000000000000000", "999999999999999999", "500000000000000000"}

func (g *c04Gen) pickFactor() sdkmath.LegacyDec {
	r := g.rng.Intn(20)
	switch {
	case r < 14:
		b, _ := new(big.Int).SetString(c04Factors[g.rng.Intn(len(c04Factors))], 10)
		return sdkmath.LegacyNewDecFromBigIntWithPrec(b, 18)
	case r < 16:
		return sdkmath.LegacyNewDecFromBigIntWithPrec(big.NewInt(1+g.rng.Int63n(1_000_000_000_000_000_000)), 18)
	case r < 17:
		return sdkmath.LegacyNewDecWithPrec(15, 1) // 1.5: rejected after execution
	case r < 18:
		return sdkmath.LegacyNewDecFromBigIntWithPrec(big.NewInt(1_000_000_000_000_000_001), 18)
	case r < 19:
		return sdkmath.LegacyNewDecWithPrec(-1, 2)
	}
	return sdkmath.LegacyDec{}
}

// exec runs one call and records the step.
func (g *c04Gen) exec(ctx sdk.Context, ids *c04IDs, call c04Call, avss []string, run func() string) c04Step {
	g.snapshotOrig(ctx, ids)
	env := g.w.observeEnv(ctx, ids, avss)
	before := g.w.dump(ctx, ids)
	ob := g.w.otherKV(ctx, c04TypedPrefixes)
	res := func() (r string) {
		defer func() {
			if x := recover(); x != nil {
				r = "panic"
			}
		}()
		return run()
	}()
	after := g.w.dump(ctx, ids)
	oa := g.w.otherKV(ctx, c04TypedPrefixes)
	g.cw.Count("res=" + call.Kind + "/" + res)
	g.observeStats(env, before, after, call)
	return c04Step{Env: env, Before: before, Call: call, After: after, Res: res, Other: kvDiff(ob, oa), Orig: g.origList()}
}

// observeStats counts what the executed call exercised (goes into the evidence as the input distribution).
func (g *c04Gen) observeStats(env c04Env, before, after c04State, call c04Call) {
	if len(after.SInfos) == len(before.SInfos) {
		if call.Op >= 0 {
			for _, i := range before.SInfos {
				if i.Op == call.Op && ((call.Kind == "slash" && i.ID == call.Sid) || (call.Kind != "slash" && i.ID.Dog && i.ID.A == call.Infraction && i.ID.B == call.Event)) {
					g.cw.Count("obs.duplicate-id-presented")
					break
				}
			}
		}
		return
	}
	g.cw.Count("obs.executed")
	ni := after.SInfos[len(after.SInfos)-1]
	for _, i := range after.SInfos {
		found := false
		for _, j := range before.SInfos {
			if i.Op == j.Op && i.Avs == j.Avs && i.ID == j.ID {
				found = true
			}
		}
		if !found {
			ni = i
		}
	}
	switch ni.Exec.Prop {
	case "1000000000000000000":
		g.cw.Count("obs.p=1(capped or full)")
	case "0":
		g.cw.Count("obs.p=0")
	default:
		g.cw.Count("obs.0<p<1")
	}
	for i, p := range before.Pools {
		if i < len(after.Pools) && p.Op == call.Op {
			g.cw.Count("obs.pool.visited")
			if after.Pools[i].Total != p.Total {
				g.cw.Count("obs.pool.reduced")
			}
			if after.Pools[i].Total == "0" && p.TShare != "0" && after.Pools[i].TShare == "0" {
				g.cw.Count("obs.pool.emptied+shares-cleared")
			}
		}
	}
	for i, r := range before.Recs {
		if i >= len(after.Recs) || r.Op != call.Op {
			continue
		}
		switch {
		case int64(r.Height) < call.Event:
			g.cw.Count("obs.rec.before-infraction")
		case int64(r.Height) == call.Event:
			g.cw.Count("obs.rec.at-infraction-height")
		default:
			g.cw.Count("obs.rec.after-infraction")
		}
		if after.Recs[i].Actual != r.Actual {
			g.cw.Count("obs.rec.reduced")
			if after.Recs[i].Actual == "0" {
				g.cw.Count("obs.rec.reduced-to-zero(capped by what is left)")
			}
		}
	}
	for _, a := range env.Assets {
		g.cw.Count("obs.price." + a.Class)
	}
}

func factorStr(d sdkmath.LegacyDec) string {
	if d.IsNil() {
		return ""
	}
	return d.BigInt().String()
}

// doCall generates one slash call against operator `target` at the context's height.
func (g *c04Gen) doCall(ctx sdk.Context, ids *c04IDs, target int, event int64, power int64, factor sdkmath.LegacyDec, kind int, sidOverride string, infraction stakingtypes.Infraction) c04Step {
	app := g.w.Env.App
	op := g.w.Env.Operators[target]
	avss := []string{g.w.DogAVS, "0x00000000000000000000000000000000000000aa"}
	dogContract, _ := app.AVSManagerKeeper.GetAVSSlashContract(ctx, g.w.DogAVS)
	switch kind {
	case 0: // direct Keeper.Slash
		avs := g.w.DogAVS
		contract := dogContract
		isDog := true
		r := g.rng.Intn(20)
		if r == 0 {
			avs = avss[1] // unknown AVS
		}
		if r == 1 {
			contract = "0x00000000000000000000000000000000000000bb"
		}
		if r == 2 || r == 3 {
			isDog = false
			if r == 2 {
				power = 0
			}
		}
		if r == 4 {
			power = -power
		}
		sid := sidOverride
		if sid == "" {
			if g.rng.Intn(2) == 0 {
				sid = fmt.Sprintf("slash-%d", g.rng.Intn(1000))
			} else {
				sid = strings.Join([]string{hexutil.EncodeUint64(uint64(infraction)), hexutil.EncodeUint64(uint64(event))}, "_")
			}
		}
		if factor.IsNil() && false {
			factor = sdkmath.LegacyZeroDec()
		}
		call := c04Call{Kind: "slash", Op: target, Avs: ids.id("avs", avs), Sid: g.w.parseSid(ids, sid), Dogfood: isDog, Power: power, Type: int64(infraction),
			Contract: conID(ids, contract), Event: event, Factor: factorStr(factor)}
		prm := &operatortypes.SlashInputInfo{IsDogFood: isDog, Power: power, SlashType: uint32(infraction), Operator: op, AVSAddr: avs, SlashContract: contract,
			SlashID: sid, SlashEventHeight: event, SlashProportion: factor}
		return g.exec(ctx, ids, call, avss, func() string {
			if err := app.OperatorKeeper.Slash(ctx, prm); err != nil {
				return "err"
			}
			return "ok"
		})
	case 1: // OperatorKeeper.SlashWithInfractionReason
		if factor.IsNil() {
			factor = sdkmath.LegacyZeroDec()
		}
		call := c04Call{Kind: "opreason", Op: target, Event: event, Power: power, Factor: factorStr(factor), Infraction: int64(infraction)}
		return g.exec(ctx, ids, call, avss, func() string {
			v := app.OperatorKeeper.SlashWithInfractionReason(ctx, op, event, power, factor, infraction)
			if !v.IsZero() {
				return "ok"
			}
			return "zero"
		})
	default: // dogfood by consensus address
		if factor.IsNil() {
			factor = sdkmath.LegacyZeroDec()
		}
		var cons sdk.ConsAddress
		opid := -1
		found, wk, _ := app.OperatorKeeper.GetOperatorConsKeyForChainID(ctx, op, avstypes.ChainIDWithoutRevision(ctx.ChainID()))
		if found && g.rng.Intn(10) > 0 {
			cons = wk.ToConsAddr()
			opid = target
		} else {
			_, k := DetConsKey("c04-unknown", g.rng.Intn(5))
			cons = k.ToConsAddr()
		}
		call := c04Call{Kind: "dogreason", Op: opid, Event: event, Power: power, Factor: factorStr(factor), Infraction: int64(infraction)}
		return g.exec(ctx, ids, call, avss, func() string {
			v := app.StakingKeeper.SlashWithInfractionReason(ctx, cons, event, power, factor, infraction)
			if !v.IsZero() {
				return "ok"
			}
			return "zero"
		})
	}
}

func c04SidString(s c04Sid, ids *c04IDs) string {
	if s.Dog {
		return strings.Join([]string{hexutil.EncodeUint64(uint64(s.A)), hexutil.EncodeUint64(uint64(s.B))}, "_")
	}
	for k, v := range ids.m {
		if strings.HasPrefix(k, "sid:") && int64(v) == s.A {
			return k[4:]
		}
	}
	return "?"
}

func (t c04Step) changed() bool {
	a, _ := json.Marshal(t.Before)
	b, _ := json.Marshal(t.After)
	return string(a) != string(b)
}

// sameBlockAtRisk: the infraction is in the current block and an undelegation of the operator started in it
func (t c04Step) sameBlockAtRisk() bool {
	if t.Call.Event != t.Env.Height || t.Call.Op < 0 {
		return false
	}
	for _, r := range t.Before.Recs {
		if r.Op == t.Call.Op && int64(r.Height) >= t.Call.Event && r.Actual != "0" {
			return true
		}
	}
	return false
}

func runC04(a *Args) error {
	w := c04NewWorld([]OperatorCfg{{Deposit: 101}, {Deposit: 100}, {Deposit: 150}, {Deposit: 0}, {Deposit: 0}})
	cw := NewCaseWriter(a.Out)
	defer cw.Close()
	g := &c04Gen{w: w, rng: rand.New(rand.NewSource(a.Seed)), cw: cw}
	base := w.Env.Ctx

	emit := func(steps []c04Step, tags []string) {
		nt := false
		var ss []string
		for _, s := range steps {
			if s.changed() {
				nt = true
			}
			ss = append(ss, s.coq())
		}
		cw.Add(cApp("mkCase", cList(ss)), c04Case{Suite: "c04", Tags: tags, NT: nt, Steps: steps})
	}

	// ---- directed scenarios first ----
	// (1) regression for the repaired defect (SlashAssets used `SlashEventHeight < BlockHeight` and skipped every undelegation):
	// infraction in the current block + undelegation started in this block, which must be slashed
	{
		ctx, _ := base.CacheContext()
		ids := &c04IDs{m: map[string]int{}}
		ctx = ctx.WithBlockHeight(20)
		g.buildLedger(ctx, 0, []int64{20})
		st := g.doCall(ctx, ids, 0, 20, g.pickPower(ctx, 0), sdkmath.LegacyNewDecWithPrec(5, 1), 1, "", stakingtypes.Infraction_INFRACTION_DOWNTIME)
		tags := []string{}
		if st.sameBlockAtRisk() {
			tags = append(tags, "regress-C04-same-block-undelegation")
		}
		emit([]c04Step{st}, tags)
		cw.Count("directed.same-block")
	}
	// (2) regression for the repaired division by zero: 100% slash, then another slash event against the now worthless operator
	// must return an error (swallowed by the entry point) and change nothing
	{
		ctx, _ := base.CacheContext()
		ids := &c04IDs{m: map[string]int{}}
		ctx = ctx.WithBlockHeight(30)
		g.buildLedger(ctx, 1, nil)
		p := g.pickPower(ctx, 1)
		v, _ := g.opValue(ctx, 1)
		if v.TruncateInt().IsInt64() {
			p = v.TruncateInt().Int64() + 5
		}
		s1 := g.doCall(ctx, ids, 1, 10, p, sdkmath.LegacyOneDec(), 1, "", stakingtypes.Infraction_INFRACTION_DOUBLE_SIGN)
		s2 := g.doCall(ctx.WithBlockHeight(31), ids, 1, 12, p, sdkmath.LegacyNewDecWithPrec(1, 2), 2, "", stakingtypes.Infraction_INFRACTION_DOWNTIME)
		emit([]c04Step{s1, s2}, []string{"regress-C04-zero-value"})
		cw.Count("directed.zero-value")
	}
	// (3) replay of the same slash identifier through every entry point
	for kind := 0; kind < 3; kind++ {
		ctx, _ := base.CacheContext()
		ids := &c04IDs{m: map[string]int{}}
		ctx = ctx.WithBlockHeight(25)
		g.buildLedger(ctx, 2, []int64{12, 18})
		p := g.pickPower(ctx, 2)
		f := sdkmath.LegacyNewDecWithPrec(1, 1)
		s1 := g.doCall(ctx, ids, 2, 15, p, f, kind, "0x1_0xf", stakingtypes.Infraction_INFRACTION_DOUBLE_SIGN)
		s2 := g.doCall(ctx, ids, 2, 15, p, f, kind, "0x1_0xf", stakingtypes.Infraction_INFRACTION_DOUBLE_SIGN)
		s3 := g.doCall(ctx.WithBlockHeight(26), ids, 2, 15, p, f, (kind+1)%3, "0x1_0xf", stakingtypes.Infraction_INFRACTION_DOUBLE_SIGN)
		emit([]c04Step{s1, s2, s3}, []string{"directed-replay"})
		cw.Count("directed.replay")
	}

	// (4) undelegation -> slash that cuts it -> maturity through the real delegation EndBlock -> second slash: after the release no
	// unbonding stake of that record may be left in the value the second proportion is computed over
	for _, target := range []int{3, 4} {
		ctx, _ := base.CacheContext()
		ids := &c04IDs{m: map[string]int{}}
		ctx = ctx.WithBlockHeight(2)
		g.buildLedger(ctx, target, []int64{12, 12, 13})
		ctx = ctx.WithBlockHeight(15)
		s1 := g.doCall(ctx, ids, target, 10, g.pickPower(ctx, target), sdkmath.LegacyNewDecWithPrec(5, 1), 1, "", stakingtypes.Infraction_INFRACTION_DOUBLE_SIGN)
		ctx = g.mature(ctx, 26)
		s2 := g.doCall(ctx, ids, target, 20, g.pickPower(ctx, target), sdkmath.LegacyNewDecWithPrec(5, 1), 1, "", stakingtypes.Infraction_INFRACTION_DOWNTIME)
		emit([]c04Step{s1, s2}, []string{"directed-slash-maturity-slash"})
		cw.Count("directed.slash-maturity-slash")
	}

	// (5) pending undelegation -> client-chain balance decrease that eats into it -> operator slash for an earlier infraction: the
	// cut must still be measured on the amount the undelegation was created with
	for _, target := range []int{3, 0} {
		ctx, _ := base.CacheContext()
		ids := &c04IDs{m: map[string]int{}}
		ctx = ctx.WithBlockHeight(2)
		g.buildLedger(ctx, target, []int64{12, 12, 13})
		g.snapshotOrig(ctx, ids)
		ctx = ctx.WithBlockHeight(14)
		for k := 0; k < 3; k++ {
			g.nstDecrease(ctx, ids, target)
		}
		ctx = ctx.WithBlockHeight(15)
		s1 := g.doCall(ctx, ids, target, 10, g.pickPower(ctx, target), sdkmath.LegacyNewDecWithPrec(5, 1), 1, "", stakingtypes.Infraction_INFRACTION_DOUBLE_SIGN)
		emit([]c04Step{s1}, []string{"directed-balance-decrease-then-slash"})
		cw.Count("directed.balance-decrease-then-slash")
	}

	// ---- random cases ----
	for cw.n < a.N {
		ctx, _ := base.CacheContext()
		ids := &c04IDs{m: map[string]int{}}
		rng := g.rng
		target := rng.Intn(len(w.Env.Operators))
		if rng.Intn(3) > 0 {
			target = rng.Intn(3)
		}
		H := int64(10 + rng.Intn(40))
		// undelegation heights around a pivot (the future infraction height)
		pivot := int64(3 + rng.Intn(int(H-3)))
		var uhs []int64
		nU := rng.Intn(5)
		for i := 0; i < nU; i++ {
			var h int64
			switch rng.Intn(6) {
			case 0:
				h = pivot - 1
			case 1, 2:
				h = pivot
			case 3:
				h = pivot + 1
			case 4:
				h = H
			default:
				h = 2 + rng.Int63n(H-1)
			}
			if h < 2 {
				h = 2
			}
			if h > H {
				h = H
			}
			uhs = append(uhs, h)
		}
		sort.Slice(uhs, func(i, j int) bool { return uhs[i] < uhs[j] })
		ctx = ctx.WithBlockHeight(2)
		g.randomPrices(ctx)
		g.buildLedger(ctx, target, uhs)
		g.snapshotOrig(ctx, ids)
		ctx = ctx.WithBlockHeight(H)
		if rng.Intn(3) == 0 {
			g.nstDecrease(ctx, ids, target)
		}

		nSteps := 1 + rng.Intn(3)
		var steps []c04Step
		var tags []string
		var lastSid string
		lastKind := 0
		for s := 0; s < nSteps; s++ {
			var event int64
			switch rng.Intn(10) {
			case 0:
				event = ctx.BlockHeight() // current block
			case 1:
				event = ctx.BlockHeight() + 1 // future: rejected
			case 2:
				event = 1
			case 3, 4, 5, 6:
				event = pivot
			default:
				event = 1 + rng.Int63n(ctx.BlockHeight())
			}
			power := g.pickPower(ctx, target)
			if rng.Intn(25) == 0 {
				power = 0
			}
			factor := g.pickFactor()
			kind := rng.Intn(3)
			sid := ""
			inf := stakingtypes.Infraction(rng.Intn(3))
			if s > 0 && rng.Intn(2) == 0 && lastSid != "" {
				// replay the previous identifier (same or other entry point)
				sid = lastSid
				if rng.Intn(2) == 0 {
					kind = lastKind
				}
				cw.Count("gen.replay")
			}
			if sid != "" {
				// reason entry points derive the identifier from (infraction, event)
				sd := w.parseSid(ids, sid)
				if sd.Dog {
					inf = stakingtypes.Infraction(sd.A)
					event = sd.B
				} else {
					kind = 0
				}
			}
			st := g.doCall(ctx, ids, target, event, power, factor, kind, sid, inf)
			if st.sameBlockAtRisk() && st.Res != "err" {
				tags = append(tags, "regress-C04-same-block-undelegation")
				cw.Count("gen.same-block-at-risk")
			}
			steps = append(steps, st)
			lastKind = kind
			if st.Call.Kind == "slash" {
				lastSid = c04SidString(st.Call.Sid, ids)
			} else {
				lastSid = strings.Join([]string{hexutil.EncodeUint64(uint64(inf)), hexutil.EncodeUint64(uint64(event))}, "_")
			}
			// between steps: sometimes let the pending undelegations mature (real delegation EndBlock), move on, change prices
			if rng.Intn(3) == 0 {
				ctx = g.mature(ctx, ctx.BlockHeight()+11)
			}
			if rng.Intn(5) == 0 {
				g.snapshotOrig(ctx, ids)
				g.nstDecrease(ctx, ids, target)
			}
			if rng.Intn(2) == 0 {
				ctx = ctx.WithBlockHeight(ctx.BlockHeight() + int64(rng.Intn(3)))
			}
			if rng.Intn(4) == 0 {
				g.randomPrices(ctx)
			}
		}
		emit(steps, tags)
		cw.Count(fmt.Sprintf("steps=%d", nSteps))
	}
	return nil
}
