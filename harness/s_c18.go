package main

// Suite c18: genesis export / re-import.
//
// One real ExocoreApp is driven through a generated history (deposits, delegations, undelegations
// - also held ones -, opt-in / opt-out, consensus-key replacement, slashing, epoch ends) with the
// real keepers / msg servers.  After the Commit of (almost) every block the COMMITTED state is taken
// (the state app/export.go exports) and, for every module in scope:
//   raw store dump  ->  real AppModule.ExportGenesis  ->  real AppModuleBasic.ValidateGenesis
//   ->  all module stores wiped inside a cache context and the real AppModule.InitGenesis of every
//       module run in the order of app.go SetOrderInitGenesis  ->  raw store dump again
//   ->  ExportGenesis again (JSON equality).
// One case = (module, height, store before, store after, flags).  Nothing of this is written back to
// the running chain.

import (
	"bytes"
	"crypto/sha256"
	"encoding/hex"
	"encoding/json"
	"fmt"
	"math/rand"
	"os"
	"sort"
	"strings"
	"time"

	sdkmath "cosmossdk.io/math"
	abci "github.com/cometbft/cometbft/abci/types"
	tmprotocrypto "github.com/cometbft/cometbft/proto/tendermint/crypto"
	tmproto "github.com/cometbft/cometbft/proto/tendermint/types"
	"github.com/cosmos/cosmos-sdk/codec"
	sdk "github.com/cosmos/cosmos-sdk/types"
	stakingtypes "github.com/cosmos/cosmos-sdk/x/staking/types"
	"github.com/ethereum/go-ethereum/common"

	exocoreapp "github.com/ExocoreNetwork/exocore/app"
	keytypes "github.com/ExocoreNetwork/exocore/types/keys"
	"github.com/ExocoreNetwork/exocore/x/assets"
	assetskeeper "github.com/ExocoreNetwork/exocore/x/assets/keeper"
	assetstypes "github.com/ExocoreNetwork/exocore/x/assets/types"
	"github.com/ExocoreNetwork/exocore/x/avs"
	avstypes "github.com/ExocoreNetwork/exocore/x/avs/types"
	"github.com/ExocoreNetwork/exocore/x/delegation"
	delegationtypes "github.com/ExocoreNetwork/exocore/x/delegation/types"
	"github.com/ExocoreNetwork/exocore/x/dogfood"
	dogfoodtypes "github.com/ExocoreNetwork/exocore/x/dogfood/types"
	"github.com/ExocoreNetwork/exocore/x/epochs"
	epochstypes "github.com/ExocoreNetwork/exocore/x/epochs/types"
	"github.com/ExocoreNetwork/exocore/x/exomint"
	exominttypes "github.com/ExocoreNetwork/exocore/x/exomint/types"
	"github.com/ExocoreNetwork/exocore/x/feedistribution"
	distrtypes "github.com/ExocoreNetwork/exocore/x/feedistribution/types"
	"github.com/ExocoreNetwork/exocore/x/operator"
	operatorkeeper "github.com/ExocoreNetwork/exocore/x/operator/keeper"
	operatortypes "github.com/ExocoreNetwork/exocore/x/operator/types"
	"github.com/ExocoreNetwork/exocore/x/oracle"
	oraclekeeper "github.com/ExocoreNetwork/exocore/x/oracle/keeper"
	oracletypes "github.com/ExocoreNetwork/exocore/x/oracle/types"
)

func init() { register("c18", runC18) }

// ---- modules -------------------------------------------------------------------------------

type c18Mod struct {
	Name     string
	InScope  bool
	Export   func(ctx sdk.Context) json.RawMessage
	Validate func(bz json.RawMessage) error
	Init     func(ctx sdk.Context, bz json.RawMessage)
}

// c18Mods lists the modules in the order of app.go SetOrderInitGenesis (restricted to the modules
// of the property, plus avs which dogfood's InitGenesis needs to be empty: avs exports nothing).
func c18Mods(app *exocoreapp.ExocoreApp) []c18Mod {
	cdc := app.AppCodec()
	var jc codec.JSONCodec = cdc
	ep := epochs.NewAppModule(cdc, app.EpochsKeeper)
	mi := exomint.NewAppModule(cdc, app.ExomintKeeper)
	as := assets.NewAppModule(cdc, app.AssetsKeeper)
	av := avs.NewAppModule(cdc, app.AVSManagerKeeper)
	op := operator.NewAppModule(cdc, app.OperatorKeeper)
	de := delegation.NewAppModule(cdc, app.DelegationKeeper)
	dg := dogfood.NewAppModule(cdc, app.StakingKeeper)
	or := oracle.NewAppModule(cdc, app.OracleKeeper, app.AccountKeeper, app.BankKeeper)
	fd := feedistribution.NewAppModule(cdc, app.DistrKeeper)
	return []c18Mod{
		{epochstypes.ModuleName, true, func(c sdk.Context) json.RawMessage { return ep.ExportGenesis(c, jc) },
			func(bz json.RawMessage) error { return ep.ValidateGenesis(jc, nil, bz) },
			func(c sdk.Context, bz json.RawMessage) { ep.InitGenesis(c, jc, bz) }},
		{exominttypes.ModuleName, true, func(c sdk.Context) json.RawMessage { return mi.ExportGenesis(c, jc) },
			func(bz json.RawMessage) error { return mi.ValidateGenesis(jc, nil, bz) },
			func(c sdk.Context, bz json.RawMessage) { mi.InitGenesis(c, jc, bz) }},
		{assetstypes.ModuleName, true, func(c sdk.Context) json.RawMessage { return as.ExportGenesis(c, jc) },
			func(bz json.RawMessage) error { return as.ValidateGenesis(jc, nil, bz) },
			func(c sdk.Context, bz json.RawMessage) { as.InitGenesis(c, jc, bz) }},
		{avstypes.ModuleName, false, func(c sdk.Context) json.RawMessage { return av.ExportGenesis(c, jc) },
			func(bz json.RawMessage) error { return av.ValidateGenesis(jc, nil, bz) },
			func(c sdk.Context, bz json.RawMessage) { av.InitGenesis(c, jc, bz) }},
		{operatortypes.ModuleName, true, func(c sdk.Context) json.RawMessage { return op.ExportGenesis(c, jc) },
			func(bz json.RawMessage) error { return op.ValidateGenesis(jc, nil, bz) },
			func(c sdk.Context, bz json.RawMessage) { op.InitGenesis(c, jc, bz) }},
		{delegationtypes.ModuleName, true, func(c sdk.Context) json.RawMessage { return de.ExportGenesis(c, jc) },
			func(bz json.RawMessage) error { return de.ValidateGenesis(jc, nil, bz) },
			func(c sdk.Context, bz json.RawMessage) { de.InitGenesis(c, jc, bz) }},
		{dogfoodtypes.ModuleName, true, func(c sdk.Context) json.RawMessage { return dg.ExportGenesis(c, jc) },
			func(bz json.RawMessage) error { return dg.ValidateGenesis(jc, nil, bz) },
			func(c sdk.Context, bz json.RawMessage) { dg.InitGenesis(c, jc, bz) }},
		{oracletypes.ModuleName, true, func(c sdk.Context) json.RawMessage { return or.ExportGenesis(c, jc) },
			func(bz json.RawMessage) error { return or.ValidateGenesis(jc, nil, bz) },
			func(c sdk.Context, bz json.RawMessage) { or.InitGenesis(c, jc, bz) }},
		{distrtypes.ModuleName, true, func(c sdk.Context) json.RawMessage { return fd.ExportGenesis(c, jc) },
			func(bz json.RawMessage) error { return fd.ValidateGenesis(jc, nil, bz) },
			func(c sdk.Context, bz json.RawMessage) { fd.InitGenesis(c, jc, bz) }},
	}
}

// ---- store dumps ---------------------------------------------------------------------------

type c18KV struct {
	K string   `json:"k"` // hex of the full store key
	T string   `json:"t"` // "raw" | "list" | "num" | "undel" | "info"
	V string   `json:"v,omitempty"`
	L []string `json:"l,omitempty"`
	N []int64  `json:"n,omitempty"`
}

func c18Digest(v []byte) string {
	if len(v) <= 8 {
		return hex.EncodeToString(v)
	}
	h := sha256.Sum256(v)
	return "#" + hex.EncodeToString(h[:7])
}

// c18Decode turns one raw store entry of a module into the value shape used by the model.
// Everything the model only copies is an opaque digest; list-valued dogfood queues are decoded into
// their elements, index values that the importer has to recompute are kept verbatim, hold counts are
// numbers.
var c18Cdc codec.Codec

func c18Decode(mod string, k, v []byte) c18KV {
	kv := c18KV{K: hex.EncodeToString(k), T: "raw"}
	switch mod {
	case dogfoodtypes.ModuleName:
		switch k[0] {
		case dogfoodtypes.ExocoreValidatorBytePrefix: // validator: power and consensus public key
			var val dogfoodtypes.ExocoreValidator
			if err := c18Cdc.Unmarshal(v, &val); err == nil {
				if pk, err := val.ConsPubKey(); err == nil {
					kv.T = "list"
					kv.L = []string{fmt.Sprintf("%d", val.Power), hex.EncodeToString(pk.Bytes())}
					return kv
				}
			}
		case dogfoodtypes.OptOutsToFinishBytePrefix, dogfoodtypes.PendingOptOutsByte:
			var l dogfoodtypes.AccountAddresses
			if err := l.Unmarshal(v); err == nil {
				kv.T = "list"
				for _, a := range l.List {
					kv.L = append(kv.L, hex.EncodeToString(a))
				}
				return kv
			}
		case dogfoodtypes.ConsensusAddrsToPruneBytePrefix, dogfoodtypes.PendingConsensusAddrsByte:
			var l dogfoodtypes.ConsensusAddresses
			if err := l.Unmarshal(v); err == nil {
				kv.T = "list"
				for _, a := range l.List {
					kv.L = append(kv.L, hex.EncodeToString(a))
				}
				return kv
			}
		case dogfoodtypes.UnbondingReleaseMaturityBytePrefix, dogfoodtypes.PendingUndelegationsByte:
			var l dogfoodtypes.UndelegationRecordKeys
			if err := l.Unmarshal(v); err == nil {
				kv.T = "list"
				for _, a := range l.List {
					kv.L = append(kv.L, hex.EncodeToString(a))
				}
				return kv
			}
		case dogfoodtypes.LastTotalPowerByte: // total power: validation requires it to be positive
			var ip sdk.IntProto
			if err := ip.Unmarshal(v); err == nil {
				kv.T = "num"
				kv.V = ip.Int.String()
				return kv
			}
		case dogfoodtypes.OperatorOptOutFinishEpochBytePrefix, dogfoodtypes.UndelegationMaturityEpochByte:
			kv.V = hex.EncodeToString(v)
			return kv
		}
	case delegationtypes.ModuleName:
		switch k[0] {
		case 4, 5: // staker index / pending index: value = record key
			kv.V = hex.EncodeToString(v)
			return kv
		case 6: // hold count
			kv.T = "num"
			kv.V = fmt.Sprintf("%d", sdk.BigEndianToUint64(v))
			return kv
		case 3: // undelegation record: the fields the three keys are built from + digest of the whole record
			var r delegationtypes.UndelegationRecord
			if err := r.Unmarshal(v); err == nil {
				kv.T = "undel"
				kv.L = []string{r.StakerID, r.AssetID, r.OperatorAddr, r.TxHash}
				kv.N = []int64{int64(r.BlockNumber), int64(r.LzTxNonce), int64(r.CompleteBlockNumber)}
				kv.V = c18Digest(v)
				return kv
			}
		}
	case operatortypes.ModuleName:
		switch k[0] {
		case 1: // operator info: Commission.UpdateTime apart
			var info operatortypes.OperatorInfo
			if err := info.Unmarshal(v); err == nil {
				kv.T = "info"
				kv.N = []int64{-1} // Go's zero time
				if !info.Commission.UpdateTime.IsZero() {
					kv.N[0] = info.Commission.UpdateTime.UnixNano()
				}
				info.Commission.UpdateTime = time.Unix(0, 0).UTC()
				bz, _ := info.Marshal()
				kv.V = c18Digest(bz)
				return kv
			}
		case 10: // chain + consensus address -> operator address
			kv.V = hex.EncodeToString(v)
			return kv
		}
	}
	kv.V = c18Digest(v)
	return kv
}

func c18Dump(ctx sdk.Context, app *exocoreapp.ExocoreApp, mod string) []c18KV {
	st := ctx.KVStore(app.GetKey(mod))
	it := st.Iterator(nil, nil)
	defer it.Close()
	var out []c18KV
	for ; it.Valid(); it.Next() {
		out = append(out, c18Decode(mod, it.Key(), it.Value()))
	}
	return out
}

func c18Wipe(ctx sdk.Context, app *exocoreapp.ExocoreApp, mod string) {
	st := ctx.KVStore(app.GetKey(mod))
	it := st.Iterator(nil, nil)
	var keys [][]byte
	for ; it.Valid(); it.Next() {
		keys = append(keys, append([]byte{}, it.Key()...))
	}
	it.Close()
	for _, k := range keys {
		st.Delete(k)
	}
}

func (kv c18KV) coq() string {
	switch kv.T {
	case "list":
		xs := make([]string, len(kv.L))
		for i, a := range kv.L {
			xs[i] = cStr(a)
		}
		return cTuple(cStr(kv.K), cApp("VList", cList(xs)))
	case "num":
		return cTuple(cStr(kv.K), cApp("VNum", cZstr(kv.V)))
	case "undel":
		return cTuple(cStr(kv.K), cApp("VUndel", cStr(kv.L[0]), cStr(kv.L[1]), cStr(kv.L[2]), cStr(kv.L[3]),
			cZ(kv.N[0]), cZ(kv.N[1]), cZ(kv.N[2]), cStr(kv.V)))
	case "info":
		return cTuple(cStr(kv.K), cApp("VInfo", cStr(kv.V), cZ(kv.N[0])))
	}
	return cTuple(cStr(kv.K), cApp("VRaw", cStr(kv.V)))
}

func c18Store(xs []c18KV) string {
	ss := make([]string, len(xs))
	for i, x := range xs {
		ss[i] = x.coq()
	}
	return cList(ss)
}

// ---- one case ------------------------------------------------------------------------------

type c18Case struct {
	Suite    string   `json:"suite"`
	Tags     []string `json:"tags,omitempty"`
	NT       bool     `json:"nt"`
	Module   string   `json:"module"`
	Height   int64    `json:"height"`
	CurEpoch int64    `json:"cur_epoch"` // current epoch of the dogfood epoch identifier at export
	Time     int64    `json:"time"`      // block time (ns) of the import context
	ConsAddr [][2]string `json:"consaddr,omitempty"` // operator only: digest of a stored consensus key -> its consensus address
	History  []string `json:"history"`   // operations applied since the previous export point
	Before   []c18KV  `json:"before"`
	Aux      []c18KV  `json:"aux,omitempty"` // dogfood store before (only for delegation: hold counts are rebuilt from it)
	After    []c18KV  `json:"after"`
	Export   string   `json:"export"`   // ok | panic
	Valid    bool     `json:"valid"`    // ValidateGenesis accepted the exported document
	Init     string   `json:"init"`     // ok | panic | skipped
	JSONEq   bool     `json:"json_eq"`  // second export equals the first, byte for byte
	Cont     int64    `json:"cont"`     // continuation of both chains: -2 not run, -1 identical over all steps, k>=1 first diverging block
	ContDiff string   `json:"cont_diff,omitempty"`
	Genesis  string   `json:"genesis,omitempty"`
	InitMsg  string   `json:"init_msg,omitempty"`
	ValidMsg string   `json:"valid_msg,omitempty"`
}

func c18Outcome(s string) string {
	switch s {
	case "ok":
		return "ROk"
	case "panic":
		return "RPanic"
	}
	return "RSkipped"
}

func (c *c18Case) coq() string {
	ca := make([]string, len(c.ConsAddr))
	for i, x := range c.ConsAddr {
		ca[i] = cTuple(cStr(x[0]), cStr(x[1]))
	}
	return cApp("mkCase", cStr(c.Module), cZ(c.Height), cZ(c.CurEpoch), cZ(c.Time), c18Store(c.Before), c18Store(c.Aux), cList(ca),
		c18Store(c.After), c18Outcome(c.Export), cBool(c.Valid), c18Outcome(c.Init), cBool(c.JSONEq), cZ(c.Cont))
}

type c18Run struct {
	env   *Env
	mods  []c18Mod
	w     *CaseWriter
	debug bool
	hist  []string
}

func c18Try(f func()) (outcome string, msg string) {
	defer func() {
		if r := recover(); r != nil {
			outcome = "panic"
			msg = fmt.Sprint(r)
			if len(msg) > 300 {
				msg = msg[:300]
			}
		}
	}()
	f()
	return "ok", ""
}

// exportPoint runs the round trip on the committed state and emits one case per module in scope.
func (r *c18Run) exportPoint(tags []string) {
	app := r.env.App
	h := app.LastBlockHeight()
	hdr := tmproto.Header{Height: h, ChainID: r.env.ChainID, Time: r.env.Header.Time}
	base := app.BaseApp.NewContext(true, hdr).WithChainID(r.env.ChainID)
	ectx, _ := base.CacheContext()
	curEpoch := int64(-1)
	if ei, ok := app.EpochsKeeper.GetEpochInfo(ectx, app.StakingKeeper.GetEpochIdentifier(ectx)); ok {
		curEpoch = ei.CurrentEpoch
	}
	before := map[string][]c18KV{}
	gen := map[string]json.RawMessage{}
	expOut := map[string]string{}
	valid := map[string]bool{}
	validMsg := map[string]string{}
	for _, m := range r.mods {
		before[m.Name] = c18Dump(ectx, app, m.Name)
		m := m
		out, _ := c18Try(func() { gen[m.Name] = m.Export(ectx) })
		expOut[m.Name] = out
		if out == "ok" {
			var err error
			o2, msg := c18Try(func() { err = m.Validate(gen[m.Name]) })
			valid[m.Name] = o2 == "ok" && err == nil
			if err != nil {
				validMsg[m.Name] = err.Error()
			} else {
				validMsg[m.Name] = msg
			}
		}
	}
	// re-import into wiped stores
	ictx, _ := base.CacheContext()
	ictx = ictx.WithBlockHeight(h + 1)
	for _, m := range r.mods {
		c18Wipe(ictx, app, m.Name)
	}
	initOut := map[string]string{}
	initMsg := map[string]string{}
	for _, m := range r.mods {
		if expOut[m.Name] != "ok" {
			initOut[m.Name] = "skipped"
			continue
		}
		m := m
		initOut[m.Name], initMsg[m.Name] = c18Try(func() { m.Init(ictx, gen[m.Name]) })
	}
	var cases []*c18Case
	for _, m := range r.mods {
		if !m.InScope {
			continue
		}
		c := &c18Case{Suite: "c18", Cont: -2, Module: m.Name, Height: h, CurEpoch: curEpoch, History: r.hist, Time: ictx.BlockTime().UnixNano(),
			Before: before[m.Name], After: c18Dump(ictx, app, m.Name), Export: expOut[m.Name], Valid: valid[m.Name],
			Init: initOut[m.Name], InitMsg: initMsg[m.Name], ValidMsg: validMsg[m.Name]}
		if m.Name == delegationtypes.ModuleName {
			// only the undelegation-maturity queue of dogfood matters for the holds
			for _, kv := range before[dogfoodtypes.ModuleName] {
				if strings.HasPrefix(kv.K, "06") {
					c.Aux = append(c.Aux, kv)
				}
			}
		}
		if m.Name == operatortypes.ModuleName {
			c.ConsAddr = c18ConsAddrs(ectx, app)
		}
		if m.Name == dogfoodtypes.ModuleName {
			c.ConsAddr = c18ValMap(ectx, app, r.env.ChainID)
		}
		c.Tags = append(append([]string{}, tags...), c18Tags(c)...)
		if expOut[m.Name] == "ok" {
			var g2 json.RawMessage
			m := m
			o, _ := c18Try(func() { g2 = m.Export(ictx) })
			c.JSONEq = o == "ok" && bytes.Equal(g2, gen[m.Name])
			if len(gen[m.Name]) < 1500 {
				c.Genesis = string(gen[m.Name])
			}
		}
		c.NT = len(c.Before) > 3
		cases = append(cases, c)
	}
	// behaviour afterwards: both the exported and the re-imported state are driven through the same
	// following blocks (begin/end blockers of epochs, dogfood, operator, delegation) and compared block by block
	allOK := true
	for _, c := range cases {
		if c.Export != "ok" || c.Init != "ok" {
			allOK = false
		}
	}
	if allOK {
		div, detail := r.continuation(ectx, ictx, h)
		for _, c := range cases {
			if c.Module == dogfoodtypes.ModuleName {
				c.Cont, c.ContDiff = div, detail
				r.w.Count(fmt.Sprintf("continuation=%v", div == -1))
			}
		}
	}
	for _, c := range cases {
		r.w.Add(c.coq(), c)
		r.w.Count("module=" + c.Module)
		r.w.Count("export=" + c.Export + ",valid=" + fmt.Sprint(c.Valid) + ",init=" + c.Init + ",jsoneq=" + fmt.Sprint(c.JSONEq))
		if r.debug {
			c18DebugDiff(c)
		}
	}
	r.hist = nil
}

const c18ContSteps = 16

// c18BehaviourDump: the stores whose evolution the property speaks about (pending undelegations and their
// holds, opt-outs, key prunings, balances), without the entries a recorded finding already changes.
func c18BehaviourDump(ctx sdk.Context, app *exocoreapp.ExocoreApp) string {
	var sb strings.Builder
	for _, mod := range []string{assetstypes.ModuleName, delegationtypes.ModuleName, dogfoodtypes.ModuleName} {
		for _, kv := range c18Dump(ctx, app, mod) {
			if mod == dogfoodtypes.ModuleName {
				switch kv.K[:2] {
				case "03", "04", "05", "06", "0d", "08", "09", "0a", "0b":
				default:
					continue
				}
			}
			if mod == delegationtypes.ModuleName && kv.T == "num" && kv.V == "0" {
				continue
			}
			fmt.Fprintf(&sb, "%s/%s=%s%v%v\n", mod, kv.K, kv.V, kv.L, kv.N)
		}
	}
	return sb.String()
}

func (r *c18Run) continuation(a, b sdk.Context, h int64) (int64, string) {
	app := r.env.App
	t := r.env.Header.Time
	for i := int64(1); i <= c18ContSteps; i++ {
		t = t.Add(31 * time.Second)
		hdr := tmproto.Header{Height: h + i, ChainID: r.env.ChainID, Time: t}
		var outs [2]string
		for j, ctx := range []*sdk.Context{&a, &b} {
			c := ctx.WithBlockHeader(hdr).WithBlockHeight(h + i).WithBlockTime(t)
			outs[j], _ = c18Try(func() {
				app.EpochsKeeper.BeginBlocker(c)
				app.StakingKeeper.BeginBlock(c)
				app.OperatorKeeper.EndBlock(c, abci.RequestEndBlock{Height: h + i})
				app.StakingKeeper.EndBlock(c)
				app.DelegationKeeper.EndBlock(c, abci.RequestEndBlock{Height: h + i})
			})
			*ctx = c
		}
		da, db := c18BehaviourDump(a, app), c18BehaviourDump(b, app)
		if outs[0] != outs[1] || da != db {
			la, lb := strings.Split(da, "\n"), strings.Split(db, "\n")
			detail := fmt.Sprintf("outcomes %s/%s", outs[0], outs[1])
			for k := 0; k < len(la) || k < len(lb); k++ {
				x, y := "", ""
				if k < len(la) {
					x = la[k]
				}
				if k < len(lb) {
					y = lb[k]
				}
				if x != y {
					detail += fmt.Sprintf("; original %q vs re-imported %q", x, y)
					break
				}
			}
			if len(detail) > 600 {
				detail = detail[:600]
			}
			return i, detail
		}
	}
	return -1, ""
}

// c18ConsAddrs: digest of every stored consensus key (operator prefixes 07 / 08) -> hex of its
// consensus address (sha256-derived: an external function for the model, supplied with the case).
func c18ConsAddrs(ctx sdk.Context, app *exocoreapp.ExocoreApp) [][2]string {
	st := ctx.KVStore(app.GetKey(operatortypes.ModuleName))
	seen := map[string]bool{}
	var out [][2]string
	for _, p := range []byte{7, 8} {
		it := sdk.KVStorePrefixIterator(st, []byte{p})
		for ; it.Valid(); it.Next() {
			var pk tmprotocrypto.PublicKey
			if err := pk.Unmarshal(it.Value()); err != nil {
				continue
			}
			w := keytypes.NewWrappedConsKeyFromTmProtoKey(&pk)
			if w == nil {
				continue
			}
			d := c18Digest(it.Value())
			if !seen[d] {
				seen[d] = true
				out = append(out, [2]string{d, hex.EncodeToString(w.ToConsAddr())})
			}
		}
		it.Close()
	}
	sort.Slice(out, func(i, j int) bool { return out[i][0] < out[j][0] })
	return out
}

// c18ValMap: the key under which every stored dogfood validator is exported.  The exporter as found asked the
// operator module (ValidatorByConsAddrForChainID) and got the operator's CURRENT key; the repaired exporter
// exports the validator as stored, so the map is the identity (address -> address ++ public key).
func c18ValMap(ctx sdk.Context, app *exocoreapp.ExocoreApp, _ string) [][2]string {
	var out [][2]string
	for _, kv := range c18Dump(ctx, app, dogfoodtypes.ModuleName) {
		if strings.HasPrefix(kv.K, "01") && kv.T == "list" && len(kv.L) == 2 {
			out = append(out, [2]string{kv.K[2:], kv.K[2:] + kv.L[1]})
		}
	}
	return out
}

// c18Tags marks the cases in which the precondition of a recorded finding holds (the known-findings
// matcher additionally requires the one monitor that belongs to the finding).
func c18Tags(c *c18Case) []string {
	var tags []string
	has := func(pref string, nonEmpty bool) bool {
		for _, kv := range c.Before {
			if strings.HasPrefix(kv.K, pref) && (!nonEmpty || kv.V != "" || len(kv.L) > 0) {
				return true
			}
		}
		return false
	}
	switch c.Module {
	case operatortypes.ModuleName:
		for _, kv := range c.Before {
			if kv.T == "info" && kv.N[0] != c.Time {
				tags = append(tags, "kf-C18-operator-commission-time")
				break
			}
		}
		// the reverse lookups consensus address -> operator that exist vs those of the operators' current keys
		cur := map[string]bool{}
		ca := map[string]string{}
		for _, x := range c.ConsAddr {
			ca[x[0]] = x[1]
		}
		for _, kv := range c.Before {
			if strings.HasPrefix(kv.K, "07") {
				cur["0a"+kv.K[42:]+ca[kv.V]] = true
			}
			if strings.HasPrefix(kv.K, "08") && len(kv.K) > 42 {
				cur["0a"+kv.K[2:len(kv.K)-40]+ca[kv.V]] = true
			}
		}
		na := 0
		same := true
		for _, kv := range c.Before {
			if strings.HasPrefix(kv.K, "0a") {
				na++
				if !cur[kv.K] {
					same = false
				}
			}
		}
		if !same || na != len(cur) {
			tags = append(tags, "kf-C18-operator-oldkey-lookup")
		}
		if has("06", false) {
			tags = append(tags, "kf-C18-operator-slash-assets-state")
		}
	case dogfoodtypes.ModuleName:
		vm := map[string]string{}
		for _, x := range c.ConsAddr {
			vm[x[0]] = x[1][:40]
		}
		for _, kv := range c.Before {
			if strings.HasPrefix(kv.K, "01") && vm[kv.K[2:]] != kv.K[2:] {
				tags = append(tags, "kf-C18-dogfood-valset-current-keys")
				break
			}
		}
	case oracletypes.ModuleName:
		if has(hex.EncodeToString([]byte(oracletypes.NonceKeyPrefix)), false) {
			tags = append(tags, "kf-C18-oracle-nonce")
		}
	case distrtypes.ModuleName:
		for _, kv := range c.Before {
			if !strings.HasPrefix(kv.K, hex.EncodeToString([]byte("feedistributionPrefixParams"))) && kv.V != "" {
				tags = append(tags, "kf-C18-feedist-rewards")
				break
			}
		}
	}
	return tags
}

func c18DebugDiff(c *c18Case) {
	bm := map[string]c18KV{}
	for _, kv := range c.Before {
		bm[kv.K] = kv
	}
	am := map[string]c18KV{}
	for _, kv := range c.After {
		am[kv.K] = kv
	}
	var lines []string
	for k, b := range bm {
		a, ok := am[k]
		if !ok {
			lines = append(lines, fmt.Sprintf("  LOST    %s = %s%v", k, b.V, b.L))
		} else if a.V != b.V || strings.Join(a.L, ",") != strings.Join(b.L, ",") {
			lines = append(lines, fmt.Sprintf("  CHANGED %s : %s%v -> %s%v", k, b.V, b.L, a.V, a.L))
		}
	}
	for k, a := range am {
		if _, ok := bm[k]; !ok {
			lines = append(lines, fmt.Sprintf("  NEW     %s = %s%v", k, a.V, a.L))
		}
	}
	sort.Strings(lines)
	fmt.Fprintf(os.Stderr, "h=%d %s: n=%d export=%s valid=%v init=%s jsoneq=%v %s %s\n", c.Height, c.Module, len(c.Before), c.Export, c.Valid, c.Init, c.JSONEq, c.ValidMsg, c.InitMsg)
	for _, l := range lines {
		fmt.Fprintln(os.Stderr, l)
	}
}

// ---- history generator ---------------------------------------------------------------------

type c18Op struct {
	addr    sdk.AccAddress
	keys    []keytypes.WrappedConsKey // consensus keys used so far (last = current)
	optedIn bool
	staker  common.Address
}

type c18Deleg struct {
	st common.Address
	op *c18Op
}

type c18World struct {
	deleg   []c18Deleg
	r       *c18Run
	rng     *rand.Rand
	ops     []*c18Op
	stakers []common.Address
	nonce   uint64
	keyCtr  int
	opSrv   *operatorkeeper.MsgServerImpl
	orSrv   oracletypes.MsgServer
	nonces  map[string]int32
	avsAddr string
	asset   common.Address
}

func (w *c18World) log(format string, a ...interface{}) {
	w.r.hist = append(w.r.hist, fmt.Sprintf(format, a...))
}

func (w *c18World) ctx() sdk.Context { return w.r.env.Ctx }

func (w *c18World) do(kind string, f func(ctx sdk.Context) error) bool {
	cc, write := w.ctx().CacheContext()
	var err error
	out, _ := c18Try(func() { err = f(cc) })
	res := "ok"
	if out != "ok" {
		res = "panic"
	} else if err != nil {
		res = "err"
		if w.r.debug {
			fmt.Fprintln(os.Stderr, "  op error:", kind, err)
		}
	} else {
		write()
	}
	w.r.w.Count("op=" + strings.SplitN(kind, "(", 2)[0] + ":" + res)
	w.log("%s -> %s", kind, res)
	return res == "ok"
}

func (w *c18World) deposit(st common.Address, amt int64) bool {
	return w.do(fmt.Sprintf("deposit(%s,%d)", st.Hex()[:8], amt), func(ctx sdk.Context) error {
		return w.r.env.App.AssetsKeeper.PerformDepositOrWithdraw(ctx, &assetskeeper.DepositWithdrawParams{
			ClientChainLzID: w.r.env.LzID, Action: assetstypes.DepositLST, StakerAddress: st.Bytes(),
			AssetsAddress: w.asset.Bytes(), OpAmount: sdkmath.NewIntWithDecimal(amt, 6)})
	})
}

func (w *c18World) withdraw(st common.Address, amt int64) bool {
	return w.do(fmt.Sprintf("withdraw(%s,%d)", st.Hex()[:8], amt), func(ctx sdk.Context) error {
		return w.r.env.App.AssetsKeeper.PerformDepositOrWithdraw(ctx, &assetskeeper.DepositWithdrawParams{
			ClientChainLzID: w.r.env.LzID, Action: assetstypes.WithdrawLST, StakerAddress: st.Bytes(),
			AssetsAddress: w.asset.Bytes(), OpAmount: sdkmath.NewIntWithDecimal(amt, 6)})
	})
}

func (w *c18World) delegate(st common.Address, op *c18Op, amt int64) (ok bool) {
	w.nonce++
	n := w.nonce
	defer func() {
		if ok {
			w.deleg = append(w.deleg, c18Deleg{st, op})
		}
	}()
	return w.do(fmt.Sprintf("delegate(%s,%s,%d)", st.Hex()[:8], op.addr.String()[:10], amt), func(ctx sdk.Context) error {
		return w.r.env.App.DelegationKeeper.DelegateTo(ctx, &delegationtypes.DelegationOrUndelegationParams{
			ClientChainID: w.r.env.LzID, LzNonce: n, AssetsAddress: w.asset.Bytes(), StakerAddress: st.Bytes(),
			OperatorAddress: op.addr, OpAmount: sdkmath.NewIntWithDecimal(amt, 6)})
	})
}

func (w *c18World) undelegate(st common.Address, op *c18Op, amt int64) bool {
	if op == w.ops[0] && st == op.staker {
		return false
	}
	w.nonce++
	n := w.nonce
	return w.do(fmt.Sprintf("undelegate(%s,%s,%d)", st.Hex()[:8], op.addr.String()[:10], amt), func(ctx sdk.Context) error {
		return w.r.env.App.DelegationKeeper.UndelegateFrom(ctx, &delegationtypes.DelegationOrUndelegationParams{
			ClientChainID: w.r.env.LzID, LzNonce: n, AssetsAddress: w.asset.Bytes(), StakerAddress: st.Bytes(),
			OperatorAddress: op.addr, OpAmount: sdkmath.NewIntWithDecimal(amt, 6),
			TxHash: common.BytesToHash(seedBytes("c18tx", int(n)))})
	})
}

// nstDeposit: the oracle entry point the assets module calls on a native-restaking deposit
// (validator list / staker list of the NST asset).
func (w *c18World) nstDeposit(st common.Address) bool {
	w.keyCtr++
	pk := hex.EncodeToString(seedBytes("c18nstval", w.keyCtr))
	return w.do("nstdeposit("+st.Hex()[:8]+")", func(ctx sdk.Context) error {
		return w.r.env.App.OracleKeeper.UpdateNSTValidatorListForStaker(ctx, c18NSTAssetID, st.Hex(), "0x"+pk, sdkmath.NewIntWithDecimal(32, 18))
	})
}

// price: one validator's price submission for the open round of a token feeder (mid-window states of the
// oracle: recent messages, nonces, and - with enough power - a sealed round)
func (w *c18World) price() bool {
	env := w.r.env
	h := uint64(w.ctx().BlockHeight())
	if h < 2 {
		return false
	}
	feeder := uint64(1 + w.rng.Intn(2))
	based := 1 + 10*((h-1)/10)
	vals := env.App.StakingKeeper.GetAllExocoreValidators(w.ctx())
	if len(vals) == 0 {
		return false
	}
	vi := w.rng.Intn(len(vals))
	creator := sdk.AccAddress(vals[vi].Address).String()
	key := fmt.Sprintf("%d/%d/%s", feeder, based, creator)
	if w.nonces == nil {
		w.nonces = map[string]int32{}
	}
	w.nonces[key]++
	n := w.nonces[key]
	price := fmt.Sprintf("%d", 100+w.rng.Intn(3))
	decimal := int32(0)
	params := env.App.OracleKeeper.GetParams(w.ctx())
	if int(feeder) < len(params.TokenFeeders) {
		if tid := params.TokenFeeders[feeder].TokenID; int(tid) < len(params.Tokens) {
			decimal = params.Tokens[tid].Decimal
		}
	}
	return w.do(fmt.Sprintf("price(f%d,v%d,n%d)", feeder, vi, n), func(ctx sdk.Context) error {
		_, err := w.orSrv.CreatePrice(sdk.WrapSDKContext(ctx), &oracletypes.MsgCreatePrice{
			Creator: creator, FeederID: feeder, BasedBlock: based, Nonce: n,
			Prices: []*oracletypes.PriceSource{{SourceID: 1, Prices: []*oracletypes.PriceTimeDetID{{
				Price: price, Decimal: decimal, Timestamp: ctx.BlockTime().UTC().Format("2006-01-02 15:04:05"), DetID: fmt.Sprintf("%d", based)}}}}})
		return err
	})
}

const c18AssetB = "0xbbbbbbbbbbbbbbbbbbbbbbbbbbbbbbbbbbbbbbbb"

// onB runs f with the second token as the current asset
func (w *c18World) onB(f func()) {
	old := w.asset
	w.asset = common.HexToAddress(c18AssetB)
	defer func() { w.asset = old }()
	f()
}

const c18NSTAssetID = "0xeeeeeeeeeeeeeeeeeeeeeeeeeeeeeeeeeeeeeeee_0x65"

func (w *c18World) newKey() keytypes.WrappedConsKey {
	w.keyCtr++
	_, k := DetConsKey("c18cons", w.keyCtr)
	return k
}

func (w *c18World) register(op *c18Op) bool {
	return w.do("register("+op.addr.String()[:10]+")", func(ctx sdk.Context) error {
		_, err := w.opSrv.RegisterOperator(sdk.WrapSDKContext(ctx), &operatortypes.RegisterOperatorReq{
			FromAddress: op.addr.String(), Info: &operatortypes.OperatorInfo{EarningsAddr: op.addr.String(),
				Commission: stakingtypes.NewCommission(sdk.ZeroDec(), sdk.ZeroDec(), sdk.ZeroDec())}})
		return err
	})
}

func (w *c18World) associate(op *c18Op) bool {
	return w.do("associate("+op.addr.String()[:10]+")", func(ctx sdk.Context) error {
		return w.r.env.App.DelegationKeeper.AssociateOperatorWithStaker(ctx, w.r.env.LzID, op.addr, op.staker.Bytes())
	})
}

func (w *c18World) optIn(op *c18Op) bool {
	k := w.newKey()
	ok := w.do("optin("+op.addr.String()[:10]+")", func(ctx sdk.Context) error {
		_, err := w.opSrv.OptIntoAVS(sdk.WrapSDKContext(ctx), &operatortypes.OptIntoAVSReq{
			FromAddress: op.addr.String(), AvsAddress: w.avsAddr, PublicKeyJSON: k.ToJSON()})
		return err
	})
	if ok {
		op.keys = append(op.keys, k)
		op.optedIn = true
	}
	return ok
}

func (w *c18World) optOut(op *c18Op) bool {
	if op == w.ops[0] {
		// the first genesis validator always stays, is never slashed and never undelegates its own stake: a chain
		// whose validator set became empty is dead (CometBFT rejects the update), such states are not reachable
		w.r.w.Count("op=optout:skipped-anchor-validator")
		return false
	}
	ok := w.do("optout("+op.addr.String()[:10]+")", func(ctx sdk.Context) error {
		_, err := w.opSrv.OptOutOfAVS(sdk.WrapSDKContext(ctx), &operatortypes.OptOutOfAVSReq{
			FromAddress: op.addr.String(), AvsAddress: w.avsAddr})
		return err
	})
	if ok {
		op.optedIn = false
	}
	return ok
}

func (w *c18World) replaceKey(op *c18Op) bool {
	k := w.newKey()
	ok := w.do("setkey("+op.addr.String()[:10]+")", func(ctx sdk.Context) error {
		_, err := w.opSrv.SetConsKey(sdk.WrapSDKContext(ctx), &operatortypes.SetConsKeyReq{
			Address: op.addr.String(), AvsAddress: w.avsAddr, PublicKeyJSON: k.ToJSON()})
		return err
	})
	if ok {
		op.keys = append(op.keys, k)
	}
	return ok
}

func (w *c18World) slash(op *c18Op) bool {
	if len(op.keys) == 0 || op == w.ops[0] {
		return false
	}
	k := op.keys[w.rng.Intn(len(op.keys))]
	return w.do("slash("+op.addr.String()[:10]+")", func(ctx sdk.Context) error {
		h := ctx.BlockHeight() - 1
		if h < 1 || w.rng.Intn(3) == 0 {
			h = ctx.BlockHeight() // boundary: event height == submitted height
		}
		w.r.env.App.StakingKeeper.SlashWithInfractionReason(ctx, k.ToConsAddr(), h, 1,
			sdk.NewDecWithPrec(int64(1+w.rng.Intn(20)), 2), stakingtypes.Infraction_INFRACTION_DOWNTIME)
		return nil
	})
}

// commit ends the current block and commits it WITHOUT beginning the next one.
func (r *c18Run) commit() {
	e := r.env
	e.App.EndBlock(abci.RequestEndBlock{Height: e.Header.Height})
	e.App.Commit()
}

func (r *c18Run) begin(d time.Duration) {
	e := r.env
	h := e.Header
	h.Height++
	h.Time = h.Time.Add(d)
	h.AppHash = e.App.LastCommitID().Hash
	e.App.BeginBlock(abci.RequestBeginBlock{Header: h})
	e.Header = h
	e.Ctx = e.App.BaseApp.NewContext(false, h)
}

func runC18(a *Args) error {
	env := NewEnv(EnvCfg{
		Operators: []OperatorCfg{{Deposit: 1000}, {Deposit: 900}, {Deposit: 0}, {Deposit: 0}},
		ExtraAccs: 4,
		MutGenesis: func(app *exocoreapp.ExocoreApp, gs map[string]json.RawMessage) {
			var dg dogfoodtypes.GenesisState
			app.AppCodec().MustUnmarshalJSON(gs[dogfoodtypes.ModuleName], &dg)
			dg.Params.EpochIdentifier = epochstypes.MinuteEpochID
			dg.Params.EpochsUntilUnbonded = 5
			dg.Params.MaxValidators = 2 // small, so that the validator set is sometimes exactly full
			gs[dogfoodtypes.ModuleName] = app.AppCodec().MustMarshalJSON(&dg)
			// a validated genesis has lower-case token addresses (assets ValidateGenesis); env.go's is mixed-case
			var ag assetstypes.GenesisState
			app.AppCodec().MustUnmarshalJSON(gs[assetstypes.ModuleName], &ag)
			for i := range ag.Tokens {
				ag.Tokens[i].AssetBasicInfo.Address = strings.ToLower(ag.Tokens[i].AssetBasicInfo.Address)
			}
			// env.go books the genesis operators' deposits as withdrawable AND fully delegated; a genesis that
			// passes assets validation after an undelegation needs them booked once
			for i := range ag.Deposits {
				for j := range ag.Deposits[i].Deposits {
					ag.Deposits[i].Deposits[j].Info.WithdrawableAmount = sdkmath.ZeroInt()
				}
			}
			// a second, newly listed LST token: the histories keep it on the boundaries of the cross-checks of
			// assets genesis validation (one depositor = whole supply, everything delegated to one operator, ...)
			ag.Tokens = append(ag.Tokens, assetstypes.StakingAssetInfo{AssetBasicInfo: assetstypes.AssetInfo{
				Name: "Token B", Symbol: "TKB", Address: c18AssetB, Decimals: 6,
				LayerZeroChainID: 101, MetaInfo: "second token"}, StakingTotalAmount: sdkmath.ZeroInt()})
			ag.Tokens = append(ag.Tokens, assetstypes.StakingAssetInfo{AssetBasicInfo: assetstypes.AssetInfo{
				Name: "Native ETH", Symbol: "ETH", Address: "0xeeeeeeeeeeeeeeeeeeeeeeeeeeeeeeeeeeeeeeee", Decimals: 18,
				LayerZeroChainID: 101, MetaInfo: "native restaking"}, StakingTotalAmount: sdkmath.ZeroInt()})
			gs[assetstypes.ModuleName] = app.AppCodec().MustMarshalJSON(&ag)
			// rewards are minted and distributed every minute so that the fee-distribution stores fill up
			var mg exominttypes.GenesisState
			app.AppCodec().MustUnmarshalJSON(gs[exominttypes.ModuleName], &mg)
			mg.Params.EpochIdentifier = epochstypes.MinuteEpochID
			gs[exominttypes.ModuleName] = app.AppCodec().MustMarshalJSON(&mg)
			var fg distrtypes.GenesisState
			app.AppCodec().MustUnmarshalJSON(gs[distrtypes.ModuleName], &fg)
			fg.Params.EpochIdentifier = epochstypes.MinuteEpochID
			gs[distrtypes.ModuleName] = app.AppCodec().MustMarshalJSON(&fg)
		},
	})
	w := NewCaseWriter(a.Out)
	defer w.Close()
	c18Cdc = env.App.AppCodec()
	run := &c18Run{env: env, mods: c18Mods(env.App), w: w, debug: os.Getenv("C18_DEBUG") != ""}
	rng := rand.New(rand.NewSource(a.Seed))
	world := &c18World{r: run, rng: rng, opSrv: operatorkeeper.NewMsgServerImpl(env.App.OperatorKeeper),
		orSrv: oraclekeeper.NewMsgServerImpl(env.App.OracleKeeper),
		asset: common.HexToAddress(env.AssetAddr)}
	_, world.avsAddr = env.App.AVSManagerKeeper.IsAVSByChainID(env.Ctx, avstypes.ChainIDWithoutRevision(env.ChainID))
	for i, o := range env.Operators {
		op := &c18Op{addr: o, staker: common.BytesToAddress(o.Bytes())}
		if env.Cfg.Operators[i].Deposit > 0 {
			op.keys = []keytypes.WrappedConsKey{env.ConsKeys[i]}
			op.optedIn = true
		}
		world.ops = append(world.ops, op)
	}
	for i := 0; i < 4; i++ {
		_, st := DetEthKey("c18staker", i)
		world.stakers = append(world.stakers, st)
	}

	nmods := 0
	for _, m := range run.mods {
		if m.InScope {
			nmods++
		}
	}
	points := (a.N + nmods - 1) / nmods
	for p := 0; p < points; p++ {
		// scripted opening: puts entries into every dogfood queue and every delegation index through the
		// real entry points (the directed scenarios of the recorded findings), then random operations
		world.scripted(p)
		nops := rng.Intn(4)
		if p < 3 {
			nops = 0
		}
		for i := 0; i < nops; i++ {
			world.randomOp()
		}
		if hh := uint64(env.Header.Height); p >= 2 && (hh-1)%10 >= 1 && (hh-1)%10 <= 3 {
			// inside the submission window of the current oracle round
			for i := rng.Intn(4); i > 0; i-- {
				world.price()
			}
		}
		run.commit()
		run.exportPoint(nil)
		// block time step: mostly sub-epoch, sometimes crossing one or several minute boundaries
		d := time.Duration(5+rng.Intn(40)) * time.Second
		if rng.Intn(6) == 0 {
			d = time.Duration(61+rng.Intn(200)) * time.Second
		}
		run.begin(d)
	}
	return nil
}

func (w *c18World) scripted(p int) {
	s0 := w.stakers[0]
	switch p {
	case 0:
		w.deposit(s0, 800)
		w.delegate(s0, w.ops[0], 300)
		w.delegate(s0, w.ops[1], 200)
		w.nstDeposit(w.stakers[1])
		// boundary states of the assets / dogfood genesis validators, reached through the real entry points:
		// token B: a single depositor owns the whole staked supply and delegates ALL of it to ONE operator
		w.onB(func() {
			w.deposit(w.stakers[3], 700)
			w.delegate(w.stakers[3], w.ops[0], 700)
		})
		// an operator whose self delegation is EXACTLY the minimum self delegation (100 USD)
		w.deposit(w.ops[2].staker, 100)
		w.delegate(w.ops[2].staker, w.ops[2], 100)
		w.associate(w.ops[2])
		w.optIn(w.ops[2])
	case 1:
		w.undelegate(s0, w.ops[0], 30) // from an active validator: held by dogfood until the unbonding epoch
		w.replaceKey(w.ops[0])         // active validator replaces its key: old consensus address queued for pruning
	case 2:
		w.optOut(w.ops[1])             // active validator opts out: opt-out queue + finish-epoch index
		w.undelegate(s0, w.ops[1], 20) // from an operator that is opting out: matures with the opt-out
		w.undelegate(s0, w.ops[2], 0)  // rejected
	case 4:
		w.slash(w.ops[1])
	case 5:
		// opt in and out inside one block (OptedOutHeight == OptedInHeight)
		w.deposit(w.ops[3].staker, 600)
		w.delegate(w.ops[3].staker, w.ops[3], 500)
		w.associate(w.ops[3])
		w.optIn(w.ops[3])
		w.optOut(w.ops[3])
	case 7:
		// token B: the whole supply becomes pending undelegation at the single operator
		w.onB(func() { w.undelegate(w.stakers[3], w.ops[0], 700) })
	case 22:
		// ... and, once released, is delegated as a whole to another operator, the operator's own staker adds to it
		w.onB(func() {
			w.delegate(w.stakers[3], w.ops[2], 700)
		})
	case 24:
		w.onB(func() {
			w.withdraw(w.stakers[3], 0)
			w.undelegate(w.stakers[3], w.ops[2], 350)
		})
	}
}

func (w *c18World) randomOp() {
	rng := w.rng
	op := w.ops[rng.Intn(len(w.ops))]
	st := w.stakers[rng.Intn(len(w.stakers))]
	switch rng.Intn(12) {
	case 0, 1:
		w.deposit(st, int64(50+rng.Intn(500)))
	case 2, 3:
		w.delegate(st, op, int64(10+rng.Intn(200)))
	case 4, 5, 6:
		if len(w.deleg) > 0 && rng.Intn(5) > 0 {
			d := w.deleg[rng.Intn(len(w.deleg))]
			w.undelegate(d.st, d.op, int64(1+rng.Intn(25)))
		} else if rng.Intn(3) == 0 {
			w.undelegate(op.staker, op, int64(1+rng.Intn(50)))
		} else {
			w.undelegate(st, op, int64(1+rng.Intn(100)))
		}
	case 7:
		if !op.optedIn {
			if len(op.keys) == 0 {
				// make the operator eligible first: self deposit + delegation + association
				w.deposit(op.staker, 600)
				w.delegate(op.staker, op, 500)
				w.associate(op)
			}
			w.optIn(op)
		} else {
			w.replaceKey(op)
		}
	case 8:
		if op.optedIn {
			w.optOut(op)
		} else {
			w.optIn(op)
		}
	case 9:
		w.replaceKey(op)
	case 10:
		w.slash(op)
	case 11:
		if rng.Intn(3) == 0 {
			w.nstDeposit(st)
		} else {
			w.withdraw(st, int64(1+rng.Intn(60)))
		}
	}
}
