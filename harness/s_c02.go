package main

// Suite c02: the share ledger. Drives the REAL keepers of a real ExocoreApp —
//   AssetsKeeper.PerformDepositOrWithdraw, DelegationKeeper.DelegateTo / UndelegateFrom /
//   AssociateOperatorWithStaker / DissociateOperatorFromStaker, OperatorKeeper.SlashAssets —
// on generated histories over skewed exchange rates (pools after 0 %, 50 %, 99.99..% and 100 % slashes, prime
// amounts, 1-unit pools, 4*10^18-unit pools) and dumps, after every operation, the raw share fields of all
// operator pools, all delegation rows (with the redeemable value the real TokensFromShares gives), all staker
// lists, all associations and the withdrawable amounts. Every keeper call runs in a cache context that is
// written only when the call returns nil (what baseapp does for a message).
// coq/C02/Model.v: check_case = model vs implementation, monitor_case = the C02 invariants and the
// round-trip / bystander bounds evaluated on the dumps.

import (
	"fmt"
	"math/big"
	"math/rand"
	"sort"
	"strings"

	sdkmath "cosmossdk.io/math"
	sdk "github.com/cosmos/cosmos-sdk/types"
	stakingtypes "github.com/cosmos/cosmos-sdk/x/staking/types"
	"github.com/ethereum/go-ethereum/common"

	assetskeeper "github.com/ExocoreNetwork/exocore/x/assets/keeper"
	assetstypes "github.com/ExocoreNetwork/exocore/x/assets/types"
	delegationkeeper "github.com/ExocoreNetwork/exocore/x/delegation/keeper"
	delegationtypes "github.com/ExocoreNetwork/exocore/x/delegation/types"
	operatortypes "github.com/ExocoreNetwork/exocore/x/operator/types"
)

func init() { register("c02", runC02) }

type c02Pool struct {
	Op, Asset      string
	Amt, Tot, OpSh string
}
type c02Row struct {
	Staker, Asset, Op string
	Share, Val        string
}
type c02List struct {
	Op, Asset string
	Stakers   []string
}
type c02Assoc struct{ Staker, Op string }
type c02Free struct{ Staker, Asset, Amt string }
type c02Dump struct {
	Pools []c02Pool  `json:"pools"`
	Rows  []c02Row   `json:"rows"`
	Lists []c02List  `json:"lists"`
	Assoc []c02Assoc `json:"assoc"`
	Free  []c02Free  `json:"free"`
}
type c02Op struct {
	Kind    string `json:"kind"`
	Staker  string `json:"staker,omitempty"`
	Asset   string `json:"asset,omitempty"`
	Op      string `json:"operator,omitempty"`
	Amt     string `json:"amt,omitempty"`
	ChainOK bool   `json:"chain_ok,omitempty"`
	Prop    string `json:"prop,omitempty"`
	Pend    string `json:"pend,omitempty"`
	Dep     string `json:"dep,omitempty"`
}
type c02Step struct {
	Op   c02Op   `json:"op"`
	Res  string  `json:"res"`
	Dump c02Dump `json:"dump"`
}
type c02Case struct {
	Suite     string    `json:"suite"`
	Tags      []string  `json:"tags,omitempty"`
	Operators []string  `json:"operators"`
	Init      c02Dump   `json:"init"`
	Steps     []c02Step `json:"steps"`
	NT        bool      `json:"nt"`
}

type c02U struct {
	env      *Env
	ops      []sdk.AccAddress
	stakers  [][]byte
	assets   [][]byte
	assetIDs []string
	nonce    uint64
	rng      *rand.Rand
	w        *CaseWriter
	short    bool // this case may use the short client-chain id 0x6
}

const c02Chain = uint64(101)
const c02ShortChain = uint64(6) // hex 0x6 is a prefix of 0x65

func c02StakerID(chain uint64, addr []byte) string {
	id, _ := assetstypes.GetStakerIDAndAssetID(chain, addr, nil)
	return id
}

func (u *c02U) dump(ctx sdk.Context) c02Dump {
	var d c02Dump
	app := u.env.App
	pools := map[string]assetstypes.OperatorAssetInfo{}
	oa, err := app.AssetsKeeper.AllOperatorAssets(ctx)
	if err != nil {
		panic(err)
	}
	for _, o := range oa {
		for _, a := range o.AssetsState {
			d.Pools = append(d.Pools, c02Pool{o.Operator, a.AssetID, a.Info.TotalAmount.String(), a.Info.TotalShare.BigInt().String(), a.Info.OperatorShare.BigInt().String()})
			pools[o.Operator+"/"+a.AssetID] = a.Info
		}
	}
	rows, err := app.DelegationKeeper.AllDelegationStates(ctx)
	if err != nil {
		panic(err)
	}
	for _, r := range rows {
		ks := strings.Split(r.Key, "/")
		if len(ks) != 3 {
			panic("c02: unexpected delegation key " + r.Key)
		}
		val := "-1"
		p, ok := pools[ks[2]+"/"+ks[1]]
		tot, amt := sdkmath.LegacyZeroDec(), sdkmath.ZeroInt()
		if ok {
			tot, amt = p.TotalShare, p.TotalAmount
		}
		func() {
			defer func() { _ = recover() }()
			if v, err := delegationkeeper.TokensFromShares(r.States.UndelegatableShare, tot, amt); err == nil {
				val = v.String()
			}
		}()
		d.Rows = append(d.Rows, c02Row{ks[0], ks[1], ks[2], r.States.UndelegatableShare.BigInt().String(), val})
	}
	lists, err := app.DelegationKeeper.AllStakerList(ctx)
	if err != nil {
		panic(err)
	}
	for _, l := range lists {
		ks := strings.Split(l.Key, "/")
		if len(ks) != 2 {
			panic("c02: unexpected staker-list key " + l.Key)
		}
		st := l.Stakers
		if st == nil {
			st = []string{}
		}
		d.Lists = append(d.Lists, c02List{ks[0], ks[1], st})
	}
	as, err := app.DelegationKeeper.GetAllAssociations(ctx)
	if err != nil {
		panic(err)
	}
	for _, a := range as {
		d.Assoc = append(d.Assoc, c02Assoc{a.StakerID, a.Operator})
	}
	deps, err := app.AssetsKeeper.AllDeposits(ctx)
	if err != nil {
		panic(err)
	}
	for _, dp := range deps {
		for _, x := range dp.Deposits {
			d.Free = append(d.Free, c02Free{dp.StakerID, x.AssetID, x.Info.WithdrawableAmount.String()})
		}
	}
	return d
}

// ---- Coq printing with string interning ----------------------------------------------------------

type c02Intern struct {
	names  map[string]string
	order  []string
	nums   map[string]string
	norder []string
}

// z interns integers (most of a dump repeats from step to step; parsing big literals dominates coqc time)
func (in *c02Intern) z(x string) string {
	if len(x) < 4 {
		return cZstr(x)
	}
	if n, ok := in.nums[x]; ok {
		return n
	}
	n := fmt.Sprintf("z%d", len(in.norder))
	in.nums[x] = n
	in.norder = append(in.norder, x)
	return n
}

func (in *c02Intern) s(x string) string {
	if n, ok := in.names[x]; ok {
		return n
	}
	n := fmt.Sprintf("s%d", len(in.order))
	in.names[x] = n
	in.order = append(in.order, x)
	return n
}

func (in *c02Intern) dump(d c02Dump) string {
	ps := make([]string, len(d.Pools))
	for i, p := range d.Pools {
		ps[i] = cTuple(cTuple(in.s(p.Op), in.s(p.Asset)), cApp("mkPool", in.z(p.Amt), in.z(p.Tot), in.z(p.OpSh)))
	}
	rs := make([]string, len(d.Rows))
	vs := make([]string, len(d.Rows))
	for i, r := range d.Rows {
		k := cTuple(in.s(r.Staker), in.s(r.Asset), in.s(r.Op))
		rs[i] = cTuple(k, in.z(r.Share))
		vs[i] = in.z(r.Val)
	}
	ls := make([]string, len(d.Lists))
	for i, l := range d.Lists {
		st := make([]string, len(l.Stakers))
		for j, s := range l.Stakers {
			st[j] = in.s(s)
		}
		ls[i] = cTuple(cTuple(in.s(l.Op), in.s(l.Asset)), cList(st))
	}
	as := make([]string, len(d.Assoc))
	for i, a := range d.Assoc {
		as[i] = cTuple(in.s(a.Staker), in.s(a.Op))
	}
	fs := make([]string, len(d.Free))
	for i, f := range d.Free {
		fs[i] = cTuple(cTuple(in.s(f.Staker), in.s(f.Asset)), in.z(f.Amt))
	}
	return cApp("mkDump", cList(ps), cList(rs), cList(vs), cList(ls), cList(as), cList(fs))
}

func (in *c02Intern) op(o c02Op) string {
	switch o.Kind {
	case "Deposit":
		return cApp("Deposit", in.s(o.Staker), in.s(o.Asset), in.z(o.Amt))
	case "Delegate":
		return cApp("Delegate", in.s(o.Staker), in.s(o.Asset), in.s(o.Op), in.z(o.Amt))
	case "Undelegate":
		return cApp("Undelegate", in.s(o.Staker), in.s(o.Asset), in.s(o.Op), in.z(o.Amt))
	case "Associate":
		return cApp("Associate", cBool(o.ChainOK), in.s(o.Staker), in.s(o.Op))
	case "Dissociate":
		return cApp("Dissociate", in.s(o.Staker))
	case "Slash":
		return cApp("Slash", in.s(o.Op), in.z(o.Prop))
	case "NstBalance":
		return cApp("NstBalance", in.s(o.Staker), in.s(o.Asset), in.z(o.Amt), in.z(o.Pend), in.z(o.Dep))
	}
	panic("c02: op kind " + o.Kind)
}

func c02CaseCoq(c *c02Case) string {
	in := &c02Intern{names: map[string]string{}, nums: map[string]string{}}
	ops := make([]string, len(c.Operators))
	for i, o := range c.Operators {
		ops[i] = in.s(o)
	}
	init := in.dump(c.Init)
	steps := make([]string, len(c.Steps))
	for i, s := range c.Steps {
		res := map[string]string{"ok": "ROk", "err": "RErr", "panic": "RPanic"}[s.Res]
		steps[i] = cApp("mkObs", in.op(s.Op), res, in.dump(s.Dump))
	}
	var sb strings.Builder
	sb.WriteString("(")
	for _, x := range in.order {
		sb.WriteString("let " + in.names[x] + " := " + cStr(x) + " in ")
	}
	for _, x := range in.norder {
		sb.WriteString("let " + in.nums[x] + " := " + cZstr(x) + " in ")
	}
	sb.WriteString(cApp("mkCase", cList(ops), init, cList(steps)))
	sb.WriteString(")")
	return sb.String()
}

// ---- running operations -----------------------------------------------------------------------------

func c02Exec(ctx sdk.Context, f func(sdk.Context) error) (res string) {
	cc, write := ctx.CacheContext()
	defer func() {
		if r := recover(); r != nil {
			res = "panic"
		}
	}()
	if err := f(cc); err != nil {
		return "err"
	}
	write()
	return "ok"
}

type c02Run struct {
	u    *c02U
	ctx  sdk.Context
	c    *c02Case
	kind map[string]bool
}

func (r *c02Run) record(op c02Op, res string) {
	d := r.u.dump(r.ctx)
	r.c.Steps = append(r.c.Steps, c02Step{Op: op, Res: res, Dump: d})
	// known finding C02-rounding-empties-pool, recognised narrowly: an ACCEPTED UNDELEGATION leaves its pool with
	// amount 0 and shares > 0 (a slash or any other operation doing that is not covered by the tag)
	if op.Kind == "Undelegate" && res == "ok" {
		for _, p := range d.Pools {
			if p.Op == op.Op && p.Asset == op.Asset && p.Amt == "0" && p.Tot != "0" {
				has := false
				for _, t := range r.c.Tags {
					has = has || t == "kf-C02-rounding-empties-pool"
				}
				if !has {
					r.c.Tags = append(r.c.Tags, "kf-C02-rounding-empties-pool")
				}
			}
		}
	}
	r.u.w.Count("op:" + op.Kind + ":" + res)
	r.kind[op.Kind] = true
	if res == "ok" && op.Kind != "Deposit" {
		r.c.NT = true
	}
}

func (r *c02Run) deposit(staker, asset []byte, amt *big.Int) string {
	u := r.u
	res := c02Exec(r.ctx, func(cc sdk.Context) error {
		return u.env.App.AssetsKeeper.PerformDepositOrWithdraw(cc, &assetskeeper.DepositWithdrawParams{
			ClientChainLzID: c02Chain, Action: assetstypes.DepositLST, StakerAddress: staker, AssetsAddress: asset, OpAmount: sdkmath.NewIntFromBigInt(amt)})
	})
	_, aid := assetstypes.GetStakerIDAndAssetID(c02Chain, nil, asset)
	r.record(c02Op{Kind: "Deposit", Staker: c02StakerID(c02Chain, staker), Asset: aid, Amt: amt.String()}, res)
	return res
}

func (r *c02Run) params(staker, asset []byte, op sdk.AccAddress, amt *big.Int) *delegationtypes.DelegationOrUndelegationParams {
	r.u.nonce++
	return &delegationtypes.DelegationOrUndelegationParams{
		ClientChainID: c02Chain, AssetsAddress: asset, OperatorAddress: op, StakerAddress: staker,
		OpAmount: sdkmath.NewIntFromBigInt(amt), LzNonce: r.u.nonce,
		TxHash: common.BytesToHash(seedBytes("c02tx", int(r.u.nonce))),
	}
}

func (r *c02Run) delegate(staker, asset []byte, op sdk.AccAddress, amt *big.Int) string {
	p := r.params(staker, asset, op, amt)
	p.Action = assetstypes.DelegateTo
	res := c02Exec(r.ctx, func(cc sdk.Context) error { return r.u.env.App.DelegationKeeper.DelegateTo(cc, p) })
	_, aid := assetstypes.GetStakerIDAndAssetID(c02Chain, nil, asset)
	r.record(c02Op{Kind: "Delegate", Staker: c02StakerID(c02Chain, staker), Asset: aid, Op: op.String(), Amt: amt.String()}, res)
	return res
}

func (r *c02Run) undelegate(staker, asset []byte, op sdk.AccAddress, amt *big.Int) string {
	p := r.params(staker, asset, op, amt)
	p.Action = assetstypes.UndelegateFrom
	res := c02Exec(r.ctx, func(cc sdk.Context) error { return r.u.env.App.DelegationKeeper.UndelegateFrom(cc, p) })
	_, aid := assetstypes.GetStakerIDAndAssetID(c02Chain, nil, asset)
	r.record(c02Op{Kind: "Undelegate", Staker: c02StakerID(c02Chain, staker), Asset: aid, Op: op.String(), Amt: amt.String()}, res)
	return res
}

func (r *c02Run) associate(chain uint64, staker []byte, op sdk.AccAddress) string {
	res := c02Exec(r.ctx, func(cc sdk.Context) error {
		return r.u.env.App.DelegationKeeper.AssociateOperatorWithStaker(cc, chain, op, staker)
	})
	ok := r.u.env.App.AssetsKeeper.ClientChainExists(r.ctx, chain)
	r.record(c02Op{Kind: "Associate", ChainOK: ok, Staker: c02StakerID(chain, staker), Op: op.String()}, res)
	return res
}

func (r *c02Run) dissociate(chain uint64, staker []byte) string {
	res := c02Exec(r.ctx, func(cc sdk.Context) error {
		return r.u.env.App.DelegationKeeper.DissociateOperatorFromStaker(cc, chain, staker)
	})
	r.record(c02Op{Kind: "Dissociate", Staker: c02StakerID(chain, staker)}, res)
	return res
}

// pendingTotal = sum of ActualCompletedAmount over the staker's pending undelegations of the asset (an input of the
// model's NstBalance: undelegation records are outside the C02 model)
func (r *c02Run) pendingTotal(sid, aid string) *big.Int {
	sum := big.NewInt(0)
	_ = (&r.u.env.App.DelegationKeeper).IterateUndelegationsByStakerAndAsset(r.ctx, sid, aid, false,
		func(_ string, u *delegationtypes.UndelegationRecord) (bool, error) {
			sum.Add(sum, u.ActualCompletedAmount.BigInt())
			return false, nil
		})
	return sum
}

// nstBalance: DelegationKeeper.UpdateNSTBalance (the keeper does not check the asset kind, so the registered LST
// assets can be driven through the native-restaking balance-change path)
func (r *c02Run) nstBalance(staker, asset []byte, delta *big.Int) string {
	sid, aid := assetstypes.GetStakerIDAndAssetID(c02Chain, staker, asset)
	pend := r.pendingTotal(sid, aid)
	dep := big.NewInt(0) // TotalDepositAmount: the staker-asset ledger is C01's; an input of the model's NstBalance
	if info, err := r.u.env.App.AssetsKeeper.GetStakerSpecifiedAssetInfo(r.ctx, sid, aid); err == nil {
		dep = info.TotalDepositAmount.BigInt()
	}
	res := c02Exec(r.ctx, func(cc sdk.Context) error {
		return r.u.env.App.DelegationKeeper.UpdateNSTBalance(cc, sid, aid, sdkmath.NewIntFromBigInt(delta))
	})
	r.record(c02Op{Kind: "NstBalance", Staker: sid, Asset: aid, Amt: delta.String(), Pend: pend.String(), Dep: dep.String()}, res)
	return res
}

// nstChange: a client-chain balance change for a staker, biased to the boundaries of the three buckets it is taken
// from (withdrawable, pending undelegations, delegated shares in ALL of the staker's pools of that asset)
func (r *c02Run) nstChange(st, as []byte) {
	u, rng := r.u, r.u.rng
	total := big.NewInt(0)
	for i := 0; i < 10 && total.Sign() == 0; i++ { // prefer a staker that has delegations of the asset
		total = big.NewInt(0)
		for _, op := range u.ops {
			total.Add(total, r.position(st, as, op))
		}
		if total.Sign() == 0 {
			st = u.stakers[rng.Intn(len(u.stakers))]
		}
	}
	sid, aid := assetstypes.GetStakerIDAndAssetID(c02Chain, st, as)
	free := r.withdrawable(st, as)
	pend := r.pendingTotal(sid, aid)
	base := new(big.Int).Add(free, pend)
	var d *big.Int
	switch rng.Intn(10) {
	case 0:
		d = big.NewInt(int64(rng.Intn(1000)))
	case 1:
		d = big.NewInt(-1)
	case 2:
		d = new(big.Int).Neg(free)
	case 3:
		d = new(big.Int).Neg(kernAdd(base, int64(rng.Intn(2))))
	case 4:
		d = new(big.Int).Neg(new(big.Int).Add(base, new(big.Int).Div(total, big.NewInt(2))))
	case 5, 6:
		d = new(big.Int).Neg(new(big.Int).Add(base, total)) // everything: proportion exactly 1
	case 7:
		d = new(big.Int).Neg(kernAdd(new(big.Int).Add(base, total), int64(rng.Intn(3)-1)))
	case 8:
		d = new(big.Int).Neg(kernAdd(new(big.Int).Add(base, kernMul(total, big.NewInt(2))), 5)) // capped at 1
	default:
		if total.Sign() > 0 {
			d = new(big.Int).Neg(new(big.Int).Add(base, kernAdd(new(big.Int).Rand(rng, total), 1)))
		} else {
			d = big.NewInt(-int64(1 + rng.Intn(100)))
		}
	}
	r.nstBalance(st, as, d)
}

var c02One = sdkmath.LegacyOneDec()

// slash runs OperatorKeeper.SlashAssets so that the applied proportion lands in [lo, hi] (LegacyDec); the
// proportion that the keeper really applied is the input of the model's Slash. Returns false when the keeper
// refused (no priced value etc.): nothing is recorded then.
func (r *c02Run) slash(op sdk.AccAddress, lo, hi sdkmath.LegacyDec) bool {
	k := &r.u.env.App.OperatorKeeper
	var usd sdkmath.LegacyDec
	okv := func() (ok bool) {
		defer func() {
			if rec := recover(); rec != nil {
				ok = false
			}
		}()
		info, err := k.CalculateUSDValueForOperator(r.ctx, true, op.String(), nil, nil, nil)
		if err != nil {
			return false
		}
		usd = info.StakingAndWaitUnbonding
		return true
	}()
	if !okv || !usd.IsPositive() {
		r.u.w.Count("slash:skipped-no-value")
		return false
	}
	mid := lo.Add(hi).QuoInt64(2)
	base := mid.Mul(usd)
	for try := 0; try < 9; try++ {
		delta := int64((try+1)/2) * int64(1-2*(try%2))
		sp := base.Add(sdkmath.LegacyNewDecFromBigIntWithPrec(big.NewInt(delta), 18))
		if sp.IsNegative() {
			continue
		}
		var applied sdkmath.LegacyDec
		param := &operatortypes.SlashInputInfo{IsDogFood: true, Power: 1, Operator: op, SlashEventHeight: r.ctx.BlockHeight(),
			SlashProportion: sp, SlashID: fmt.Sprintf("c02-%d", r.u.nonce), SlashType: uint32(stakingtypes.Infraction_INFRACTION_DOWNTIME)}
		// probe in a throw-away context
		good := func() (good bool) {
			defer func() {
				if rec := recover(); rec != nil {
					good = false
				}
			}()
			cc, _ := r.ctx.CacheContext()
			info, err := k.SlashAssets(cc, param)
			if err != nil {
				return false
			}
			applied = info.SlashProportion
			return applied.GTE(lo) && applied.LTE(hi)
		}()
		if !good {
			continue
		}
		res := c02Exec(r.ctx, func(cc sdk.Context) error {
			_, err := k.SlashAssets(cc, param)
			return err
		})
		r.record(c02Op{Kind: "Slash", Op: op.String(), Prop: applied.BigInt().String()}, res)
		return true
	}
	r.u.w.Count("slash:skipped-no-proportion")
	return false
}

func c02Dec(num, den int64) sdkmath.LegacyDec {
	return sdkmath.LegacyNewDec(num).QuoInt64(den)
}

// ---- state queries used by the generators ---------------------------------------------------------------

func (r *c02Run) pool(op sdk.AccAddress, asset []byte) (amt *big.Int, tot *big.Int) {
	_, aid := assetstypes.GetStakerIDAndAssetID(c02Chain, nil, asset)
	info, err := r.u.env.App.AssetsKeeper.GetOperatorSpecifiedAssetInfo(r.ctx, op, aid)
	if err != nil {
		return big.NewInt(0), big.NewInt(0)
	}
	return info.TotalAmount.BigInt(), info.TotalShare.BigInt()
}

func (r *c02Run) position(staker, asset []byte, op sdk.AccAddress) *big.Int {
	sid, aid := assetstypes.GetStakerIDAndAssetID(c02Chain, staker, asset)
	di, err := r.u.env.App.DelegationKeeper.GetSingleDelegationInfo(r.ctx, sid, aid, op.String())
	if err != nil {
		return big.NewInt(0)
	}
	info, err := r.u.env.App.AssetsKeeper.GetOperatorSpecifiedAssetInfo(r.ctx, op, aid)
	if err != nil {
		return big.NewInt(0)
	}
	v := big.NewInt(0)
	func() {
		defer func() { _ = recover() }()
		if x, err := delegationkeeper.TokensFromShares(di.UndelegatableShare, info.TotalShare, info.TotalAmount); err == nil {
			v = x.BigInt()
		}
	}()
	return v
}

func (r *c02Run) withdrawable(staker, asset []byte) *big.Int {
	sid, aid := assetstypes.GetStakerIDAndAssetID(c02Chain, staker, asset)
	info, err := r.u.env.App.AssetsKeeper.GetStakerSpecifiedAssetInfo(r.ctx, sid, aid)
	if err != nil {
		return big.NewInt(0)
	}
	return info.WithdrawableAmount.BigInt()
}

var c02Amounts = []string{"1", "2", "3", "7", "10", "97", "1000", "999983", "1000000", "1000003", "50000000", "101000000",
	"123456789", "2305843009213693951", "4000000000000000001", "1000000000000000000000000000000"}

func (r *c02Run) amount() *big.Int {
	rng := r.u.rng
	if rng.Intn(4) == 0 {
		return big.NewInt(int64(1 + rng.Intn(200)))
	}
	return kernBig(c02Amounts[rng.Intn(len(c02Amounts))])
}

// assocCycle: a staker holding positions in SEVERAL assets with the operator it is associated with, then the
// association is dropped (and sometimes re-established): OperatorShare must follow in every pool of that operator.
func (r *c02Run) assocCycle(st []byte, op sdk.AccAddress) {
	u, rng := r.u, r.u.rng
	sid := c02StakerID(c02Chain, st)
	if cur, err := u.env.App.DelegationKeeper.GetAssociatedOperator(r.ctx, sid); err == nil && cur != "" {
		if acc, err := sdk.AccAddressFromBech32(cur); err == nil {
			op = acc
		}
	}
	order := rng.Perm(len(u.assets))
	for _, i := range order {
		as := u.assets[i]
		if rng.Intn(5) == 0 && r.position(st, as, op).Sign() > 0 {
			continue
		}
		amt := r.amount()
		if free := r.withdrawable(st, as); free.Cmp(amt) < 0 {
			r.deposit(st, as, new(big.Int).Sub(amt, free))
		}
		r.delegate(st, as, op, amt)
	}
	if rng.Intn(3) == 0 { // a position with another operator too: must not be touched
		other := u.ops[rng.Intn(len(u.ops))]
		as := u.assets[rng.Intn(len(u.assets))]
		amt := big.NewInt(int64(1 + rng.Intn(1000)))
		if free := r.withdrawable(st, as); free.Cmp(amt) < 0 {
			r.deposit(st, as, new(big.Int).Sub(amt, free))
		}
		r.delegate(st, as, other, amt)
	}
	r.associate(c02Chain, st, op) // rejected when already associated
	if rng.Intn(3) == 0 {
		r.undelegate(st, u.assets[rng.Intn(len(u.assets))], op, big.NewInt(int64(1+rng.Intn(50))))
	}
	r.dissociate(c02Chain, st)
	if rng.Intn(2) == 0 {
		r.associate(c02Chain, st, u.ops[rng.Intn(len(u.ops))])
	}
}

func (r *c02Run) randomOp() {
	u, rng := r.u, r.u.rng
	st := u.stakers[rng.Intn(len(u.stakers))]
	as := u.assets[rng.Intn(len(u.assets))]
	if rng.Intn(2) == 0 {
		as = u.assets[0]
	}
	op := u.ops[rng.Intn(len(u.ops))]
	if rng.Intn(11) == 0 {
		r.assocCycle(st, op)
		return
	}
	if rng.Intn(12) == 0 {
		r.nstChange(st, as)
		return
	}
	switch k := rng.Intn(100); {
	case k < 14:
		r.deposit(st, as, r.amount())
	case k < 44: // delegate
		amt := r.amount()
		free := r.withdrawable(st, as)
		switch rng.Intn(6) {
		case 0: // everything that is free
			if free.Sign() > 0 {
				amt = free
			}
		case 1: // one more than free
			amt = kernAdd(free, 1)
		case 2, 3: // make it fundable first
			if free.Cmp(amt) < 0 {
				r.deposit(st, as, new(big.Int).Sub(amt, free))
			}
		}
		if rng.Intn(25) == 0 {
			amt = big.NewInt(int64(-rng.Intn(2)))
		}
		if rng.Intn(30) == 0 {
			op = sdk.AccAddress(seedBytes("c02-unknown-operator", rng.Intn(3))[:20])
		}
		r.delegate(st, as, op, amt)
	case k < 70: // undelegate
		pos := r.position(st, as, op)
		if pos.Sign() == 0 && rng.Intn(4) > 0 { // look for a staker that has a position
			for i := 0; i < 12 && pos.Sign() == 0; i++ {
				st = u.stakers[rng.Intn(len(u.stakers))]
				op = u.ops[rng.Intn(len(u.ops))]
				pos = r.position(st, as, op)
			}
		}
		var amt *big.Int
		switch rng.Intn(9) {
		case 0:
			amt = big.NewInt(1)
		case 1, 2:
			amt = new(big.Int).Set(pos)
		case 3:
			amt = kernAdd(pos, 1)
		case 4:
			amt = kernAdd(pos, -1)
		case 5:
			amt = new(big.Int).Div(pos, big.NewInt(2))
		case 6:
			amt = r.amount()
		case 7:
			t, _ := r.pool(op, as)
			amt = t
		default:
			if pos.Sign() > 0 {
				amt = kernAdd(new(big.Int).Rand(rng, pos), 1)
			} else {
				amt = big.NewInt(0)
			}
		}
		r.undelegate(st, as, op, amt)
	case k < 78: // associate (sometimes through the short chain id, sometimes an unregistered chain)
		chain := c02Chain
		switch rng.Intn(6) {
		case 0, 1:
			if u.short {
				chain = c02ShortChain
			}
		case 2:
			if rng.Intn(3) == 0 {
				chain = 7
			}
		}
		r.associate(chain, st, op)
	case k < 84:
		chain := c02Chain
		if rng.Intn(3) == 0 && u.short {
			chain = c02ShortChain
		}
		r.dissociate(chain, st)
	case k < 92: // slash
		switch rng.Intn(6) {
		case 0:
			r.slash(op, c02Dec(1, 2), c02Dec(1, 2))
		case 1:
			r.slash(op, c02Dec(9999, 10000), c02One.Sub(sdkmath.LegacySmallestDec()))
		case 2:
			r.slash(op, c02One, c02One)
		case 3:
			r.slash(op, c02Dec(1, 3), c02Dec(2, 3))
		case 4:
			r.slash(op, c02One.Sub(sdkmath.LegacySmallestDec()), c02One.Sub(sdkmath.LegacySmallestDec()))
		default:
			r.slash(op, sdkmath.LegacyZeroDec(), c02Dec(1, 10))
		}
	default: // round-trip pair: a fresh staker position, then exit with the value the query reports
		amt := r.amount()
		free := r.withdrawable(st, as)
		if free.Cmp(amt) < 0 {
			r.deposit(st, as, new(big.Int).Sub(amt, free))
		}
		if r.delegate(st, as, op, amt) == "ok" {
			pos := r.position(st, as, op)
			if pos.Sign() > 0 {
				r.undelegate(st, as, op, pos)
			} else {
				r.undelegate(st, as, op, big.NewInt(1))
			}
		}
	}
}

func runC02(a *Args) error {
	env := NewEnv(EnvCfg{})
	w := NewCaseWriter(a.Out)
	defer w.Close()
	rng := rand.New(rand.NewSource(a.Seed))
	u := &c02U{env: env, rng: rng, w: w}
	base, _ := env.Ctx.CacheContext()

	// universe: the two genesis operators + one registered operator without stake; chain 6 next to chain 101;
	// USDT (genesis) + USDC (priced in the oracle genesis) as staking assets
	u.ops = append(u.ops, env.Operators...)
	_, extra := DetEthKey("c02-operator", 0)
	extraOp := sdk.AccAddress(extra.Bytes())
	if err := env.App.OperatorKeeper.SetOperatorInfo(base, extraOp.String(), &operatortypes.OperatorInfo{
		EarningsAddr: extraOp.String(), OperatorMetaInfo: "c02 extra operator",
		Commission: stakingtypes.NewCommission(sdk.ZeroDec(), sdk.ZeroDec(), sdk.ZeroDec())}); err != nil {
		return fmt.Errorf("c02 setup operator: %w", err)
	}
	u.ops = append(u.ops, extraOp)
	if err := env.App.AssetsKeeper.SetClientChainInfo(base, &assetstypes.ClientChainInfo{
		Name: "short", MetaInfo: "chain whose hex id is a prefix of 0x65", ChainId: 6, FinalizationBlocks: 10,
		LayerZeroChainID: c02ShortChain, AddressLength: 20}); err != nil {
		return fmt.Errorf("c02 setup chain: %w", err)
	}
	usdc := common.HexToAddress("0xa0b86991c6218b36c1d19d4a2e9eb0ce3606eb48")
	if err := env.App.AssetsKeeper.SetStakingAssetInfo(base, &assetstypes.StakingAssetInfo{
		AssetBasicInfo: assetstypes.AssetInfo{Name: "USD coin", Symbol: "USDC", Address: usdc.Hex(), Decimals: 6,
			LayerZeroChainID: c02Chain, MetaInfo: "USDC"},
		StakingTotalAmount: sdkmath.ZeroInt()}); err != nil {
		return fmt.Errorf("c02 setup asset: %w", err)
	}
	u.assets = [][]byte{common.HexToAddress(env.AssetAddr).Bytes(), usdc.Bytes()}
	for _, as := range u.assets {
		_, aid := assetstypes.GetStakerIDAndAssetID(c02Chain, nil, as)
		u.assetIDs = append(u.assetIDs, aid)
	}
	for i := 0; i < 4; i++ {
		_, addr := DetEthKey("c02-staker", i)
		u.stakers = append(u.stakers, addr.Bytes())
	}
	// the genesis operators' own (associated) stakers take part too
	for _, op := range env.Operators {
		u.stakers = append(u.stakers, common.BytesToAddress(op.Bytes()).Bytes())
	}
	opStrs := make([]string, len(u.ops))
	for i, o := range u.ops {
		opStrs[i] = o.String()
	}
	sort.Strings(opStrs)

	newRun := func(tags ...string) *c02Run {
		ctx, _ := base.CacheContext()
		r := &c02Run{u: u, ctx: ctx, c: &c02Case{Suite: "c02", Tags: tags, Operators: opStrs}, kind: map[string]bool{}}
		r.c.Init = u.dump(ctx)
		return r
	}
	finish := func(r *c02Run) {
		if len(r.kind) < 2 {
			r.c.NT = false
		}
		for _, t := range r.c.Tags {
			w.Count("tag:" + t)
		}
		w.Count(fmt.Sprintf("steps:%02d-%02d", len(r.c.Steps)/5*5, len(r.c.Steps)/5*5+4))
		w.Add(c02CaseCoq(r.c), r.c)
	}

	usdt := u.assets[0]
	A, B := u.stakers[0], u.stakers[1]

	// directed 1: staker-ID prefix scan (IterateDelegationsForStaker without the "/" delimiter):
	// associating <addr>_0x6 moves the shares of <addr>_0x65 into OperatorShare.
	{
		r := newRun("kf-C02-staker-prefix-scan")
		r.deposit(A, usdt, big.NewInt(1000))
		r.delegate(A, usdt, extraOp, big.NewInt(1000))
		r.associate(c02ShortChain, A, extraOp)
		r.dissociate(c02ShortChain, A)
		finish(r)
	}
	// directed 2: banker's rounding hands the whole pool to an undelegation that leaves shares behind
	{
		r := newRun("kf-C02-rounding-empties-pool")
		big1 := kernBig("4000000000000000001")
		r.deposit(A, usdt, big1)
		r.delegate(A, usdt, extraOp, big1)
		r.deposit(B, usdt, big.NewInt(1))
		r.delegate(B, usdt, extraOp, big.NewInt(1))
		almost := c02One.Sub(sdkmath.LegacySmallestDec())
		r.slash(extraOp, almost, almost)
		t, _ := r.pool(extraOp, usdt)
		if t.Cmp(big.NewInt(2)) > 0 && t.BitLen() < 60 {
			// bring the pool to exactly 2 units: trunc(prop*T) = T-2
			lo := sdkmath.LegacyNewDecFromBigInt(kernAdd(t, -2)).QuoInt(sdkmath.NewIntFromBigInt(t)).Add(sdkmath.LegacySmallestDec())
			hi := sdkmath.LegacyNewDecFromBigInt(kernAdd(t, -1)).QuoInt(sdkmath.NewIntFromBigInt(t)).Sub(sdkmath.LegacySmallestDec())
			r.slash(extraOp, lo, hi)
		}
		r.undelegate(A, usdt, extraOp, big.NewInt(1))
		// the pool is now bricked for everybody else
		r.deposit(B, usdt, big.NewInt(5))
		r.delegate(B, usdt, extraOp, big.NewInt(5))
		r.undelegate(B, usdt, extraOp, big.NewInt(1))
		finish(r)
	}

	// directed 3: the whole-position branch of ValidateUndelegationAmount (repair 56b99a6): a request equal to the
	// reported position whose converted share exceeds the staker's share by rounding dust removes the whole share.
	// Same skewed pool as directed 2 (so it also ends in the known rounding finding, tagged by record()).
	{
		r := newRun()
		big1 := kernBig("4000000000000000001")
		r.deposit(A, usdt, big1)
		r.delegate(A, usdt, extraOp, big1)
		r.deposit(B, usdt, big.NewInt(1))
		r.delegate(B, usdt, extraOp, big.NewInt(1))
		almost := c02One.Sub(sdkmath.LegacySmallestDec())
		r.slash(extraOp, almost, almost)
		t, _ := r.pool(extraOp, usdt)
		if t.Cmp(big.NewInt(2)) > 0 && t.BitLen() < 60 {
			lo := sdkmath.LegacyNewDecFromBigInt(kernAdd(t, -2)).QuoInt(sdkmath.NewIntFromBigInt(t)).Add(sdkmath.LegacySmallestDec())
			hi := sdkmath.LegacyNewDecFromBigInt(kernAdd(t, -1)).QuoInt(sdkmath.NewIntFromBigInt(t)).Sub(sdkmath.LegacySmallestDec())
			r.slash(extraOp, lo, hi)
		}
		r.undelegate(A, usdt, extraOp, kernAdd(r.position(A, usdt, extraOp), 1)) // one more than the position: rejected
		r.undelegate(A, usdt, extraOp, r.position(A, usdt, extraOp))             // the position: whole share
		finish(r)
	}

	for c := 3; c < a.N; c++ {
		// the random stream reaches the two known defects only in cases that carry their tag: the short
		// client-chain id (prefix scan) in every 8th case; the rounding defect is tagged where it is observed (record)
		regime := rng.Intn(8)
		var tags []string
		u.short = c%8 == 0
		if u.short {
			tags = append(tags, "kf-C02-staker-prefix-scan")
		}
		r := newRun(tags...)
		// regime prelude
		op := u.ops[rng.Intn(len(u.ops))]
		switch regime {
		case 1:
			r.slash(u.ops[0], c02Dec(1, 2), c02Dec(1, 2))
		case 2:
			r.slash(u.ops[rng.Intn(2)], c02One.Sub(sdkmath.LegacySmallestDec()), c02One.Sub(sdkmath.LegacySmallestDec()))
		case 3:
			amt := kernBig("4000000000000000001")
			r.deposit(A, usdt, amt)
			r.delegate(A, usdt, op, amt)
			r.deposit(B, usdt, big.NewInt(3))
			r.delegate(B, usdt, op, big.NewInt(int64(1+rng.Intn(3))))
			r.slash(op, c02Dec(9999, 10000), c02One.Sub(sdkmath.LegacySmallestDec()))
		case 4:
			r.slash(u.ops[rng.Intn(2)], c02One, c02One)
		case 5:
			for i := 0; i < 3; i++ {
				st := u.stakers[rng.Intn(4)]
				amt := kernBig([]string{"999983", "1000003", "2305843009213693951", "97"}[rng.Intn(4)])
				r.deposit(st, usdt, amt)
				r.delegate(st, usdt, op, amt)
			}
			r.slash(op, c02Dec(1, 3), c02Dec(2, 3))
		case 6:
			r.slash(u.ops[rng.Intn(2)], c02Dec(9999, 10000), c02Dec(99999, 100000))
		case 7:
			// share total around 2^220: the 315-bit LegacyDec guard inside the share conversions is within reach of
			// 10^30-sized requests (the keeper call panics; outcome "panic", state unchanged)
			huge := kernBig("1000000000000000000000000000000")
			r.deposit(A, usdt, huge)
			r.delegate(A, usdt, op, huge)
			r.slash(op, c02One.Sub(sdkmath.LegacySmallestDec()), c02One.Sub(sdkmath.LegacySmallestDec()))
			r.deposit(B, usdt, kernAdd(huge, 2))
			r.delegate(B, usdt, op, kernAdd(huge, int64(rng.Intn(3))))
			r.undelegate(B, usdt, op, kernAdd(huge, int64(rng.Intn(3))))
			r.undelegate(A, usdt, op, kernAdd(huge, -int64(rng.Intn(2))))
			r.nstBalance(B, usdt, new(big.Int).Neg(kernAdd(huge, 7)))
		}
		n := 6 + rng.Intn(10)
		if a.Tier == "thorough" && rng.Intn(4) == 0 {
			n += 20
		}
		for i := 0; i < n; i++ {
			r.randomOp()
		}
		finish(r)
	}
	return nil
}
