package main

// Suite c12abci: the same oracle histories through the REAL ABCI path of one ExocoreApp:
// app.DeliverTx (baseapp.runTx: decode, validateBasic, ante chain, message router, cache write rules),
// app.EndBlock (all modules, oracle last), app.Commit, app.BeginBlock - a single continuous chain, cut into
// consecutive cases. Validator-set updates are whatever dogfood produces (read back after EndBlock).
// Whether a tx was admitted is observed by running the application's ante chain on a discarded branch of the
// block state right before DeliverTx; the response code of DeliverTx gives success/failure.

import (
	"encoding/json"
	"fmt"
	"time"

	abci "github.com/cometbft/cometbft/abci/types"
	cryptocodec "github.com/cosmos/cosmos-sdk/crypto/codec"
	sdk "github.com/cosmos/cosmos-sdk/types"

	exocoreapp "github.com/ExocoreNetwork/exocore/app"
	oracletypes "github.com/ExocoreNetwork/exocore/x/oracle/types"
)

func init() { register("c12abci", runC12abci) }

func runC12abci(a *Args) error {
	h := c12NewHWith(a, EnvCfg{InitTime: c12Base.Add(10 * time.Hour), MutGenesis: func(app *exocoreapp.ExocoreApp, gs map[string]json.RawMessage) {
		var og oracletypes.GenesisState
		app.AppCodec().MustUnmarshalJSON(gs[oracletypes.ModuleName], &og)
		// the genesis price lists hold round 1, so the feeders continue with round 2 from block 1
		for i := range og.Params.TokenFeeders {
			if i > 0 {
				og.Params.TokenFeeders[i].StartRoundID = 2
				og.Params.TokenFeeders[i].StartBaseBlock = 1
			}
		}
		og.Params.TokenFeeders[2].Interval = 7
		gs[oracletypes.ModuleName] = app.AppCodec().MustMarshalJSON(&og)
	}})
	defer h.w.Close()
	env := h.env
	r := h.rng
	op := env.App.OracleKeeper.GetParams(env.Ctx)
	p := c12Params{MaxNonce: op.MaxNonce, ThrA: op.ThresholdA, ThrB: op.ThresholdB, MaxDetID: op.MaxDetId, MaxSize: op.MaxSizePrices}
	for i, t := range op.Tokens {
		if i == 0 {
			p.TokenDec = append(p.TokenDec, 0)
		} else {
			p.TokenDec = append(p.TokenDec, t.Decimal)
		}
	}
	for i, f := range op.TokenFeeders {
		if i > 0 {
			p.Feeders = append(p.Feeders, c12Feeder{ID: uint64(i), Token: f.TokenID, Start: f.StartBaseBlock, Interval: f.Interval, StartRound: f.StartRoundID, End: f.EndBlock})
		}
	}
	g := &c12Gen{h: h, p: p, truth: map[string]int64{}, quiet: map[int]bool{}}
	// the chain's clock: move the header time into the range the generators use
	st := h.dump(env.Ctx)
	for c := 0; c < a.N; c++ {
		cs := c12Case{Suite: "c12abci", Params: p, H0: env.Header.Height}
		initCoq := st.coq
		var blocksC []string
		nt := false
		nb := 20 + r.Intn(15)
		for b := 0; b < nb; b++ {
			height := env.Header.Height
			now := env.Header.Time
			ctx := env.App.BaseApp.NewContext(false, env.Header)
			blk := c12Block{Height: height, Time: timeZ(now).String()}
			txs := g.genTxs(st, now)
			if c == 0 && b == 12 {
				// the known-finding pattern on the real ABCI path as well: [counted, then failing]
				for v := 0; v < 3; v++ {
					if _, ok := st.rounds[1]; ok && st.rounds[1].Status == 1 {
						m1 := c12DMsg(p, st, v, 1, 0, "77", 100, now)
						txs = []c12Tx{{Msgs: []c12Msg{m1, c12DMsg(p, st, v, 1, 1, "77", 100, now)}, PubKey: v, Kind: "multi(counted,then-failing)"}}
						cs.Tags = []string{"kf-C13-memory-not-rolled-back"}
						break
					}
				}
			}
			var txC []string
			for i := range txs {
				t := &txs[i]
				tx, bz := h.buildTx(t, ctx.ChainID())
				t.Size = len(bz)
				probe, _ := ctx.CacheContext()
				_, perr := h.ante(probe.WithTxBytes(bz).WithEventManager(sdk.NewEventManager()), tx, false)
				chk := env.App.CheckTx(abci.RequestCheckTx{Tx: bz, Type: abci.CheckTxType_New})
				if chk.Code == 0 {
					h.w.Count("checktx=accepted")
					if chk.Priority != 9223372036854775807 || chk.GasWanted != 0 {
						h.w.Count("checktx.unexpected-priority-or-gas")
					}
				} else {
					h.w.Count("checktx=rejected")
				}
				resp := env.App.DeliverTx(abci.RequestDeliverTx{Tx: bz})
				adm, ok := perr == nil, resp.Code == 0
				if !adm && ok {
					return fmt.Errorf("ante probe rejected a tx that DeliverTx executed (case %d block %d)", c, b)
				}
				t.Adm, t.OK = adm, ok
				after := h.dump(ctx)
				t.Changed = after.coq != st.coq
				afterC := "None"
				if t.Changed {
					afterC = "(Some " + c12ObsDiff(st, after) + ")"
				}
				var ms []string
				pkOK := true
				for _, m := range t.Msgs {
					ms = append(ms, m.coq())
					if m.Creator != t.PubKey {
						pkOK = false
					}
				}
				txC = append(txC, cTuple(cApp("mkTx", cList(ms), cZ(int64(t.Size)), cBool(pkOK), cBool(!t.BadSig)),
					cApp("mkTxObs", "(Some "+cBool(chk.Code == 0)+")", cBool(adm), cBool(ok), afterC)))
				h.w.Count("tx.kind=" + t.Kind)
				switch {
				case !adm:
					h.w.Count("tx.result=not-admitted")
				case !ok:
					h.w.Count("tx.result=admitted-not-counted")
				default:
					h.w.Count("tx.result=counted")
					nt = true
				}
				if adm && ok && after.parts[0] != st.parts[0] {
					h.w.Count("tx.final-price-written")
				}
				st = after
			}
			blk.Txs = txs
			before := st
			env.App.EndBlock(abci.RequestEndBlock{Height: height})
			var ups []c12Upd
			var upC []string
			for _, vu := range env.App.StakingKeeper.GetValidatorUpdates(ctx) {
				pk, err := cryptocodec.FromTmProtoPublicKey(vu.PubKey)
				if err != nil {
					return err
				}
				id, ok := h.byCons[sdk.ConsAddress(pk.Address()).String()]
				if !ok {
					id = 990
				}
				ups = append(ups, c12Upd{id, vu.Power})
				upC = append(upC, cTuple(cZ(int64(id)), cZ(vu.Power)))
				h.w.Count("block.valset-update")
			}
			blk.Updates = ups
			st = h.dump(ctx)
			if st.parts[0] != before.parts[0] {
				h.w.Count("block.price-carried-forward")
			}
			blocksC = append(blocksC, cApp("mkBlock", cZ(height), cZ(c12Now(now)), cList(txC), cList(upC), c12ObsDiff(before, st)))
			cs.Blocks = append(cs.Blocks, blk)
			// Commit + BeginBlock of the next block
			env.App.Commit()
			hd := env.Header
			hd.Height++
			hd.Time = hd.Time.Add(time.Duration(1+r.Intn(6)) * time.Second)
			if r.Intn(3) == 0 {
				hd.Time = hd.Time.Add(time.Duration(r.Intn(1_000_000_000)))
			}
			hd.AppHash = env.App.LastCommitID().Hash
			env.App.BeginBlock(abci.RequestBeginBlock{Header: hd})
			env.Header = hd
			env.Ctx = env.App.BaseApp.NewContext(false, hd)
			// BeginBlock does not touch the oracle: the observation must be the same
			if again := h.dump(env.Ctx); again.coq != st.coq {
				return fmt.Errorf("oracle state changed across Commit/BeginBlock at height %d", hd.Height)
			}
		}
		cs.NT = nt
		h.w.Add(cApp("mkCase", p.coq(), initCoq, cList(blocksC)), cs)
	}
	return nil
}
