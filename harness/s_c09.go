package main

// Suite c09: failed operations are atomic.
// A real ExocoreApp is driven into random reachable states (deposits, delegations, undelegations, associations,
// NST deposits, blocks) and, in each state, entry points are called with valid, malformed and unsatisfiable
// inputs through the path the chain uses: precompile Run (assets + delegation precompiles, caller = gateway or
// not), keeper entry points that the block processing calls (Keeper.Slash), operator messages inside a cache
// context (what baseapp runTx does), and delegation EndBlock with one record made to fail.
// Around every call a byte-level digest of the module stores (assets, delegation, operator, dogfood, avs, oracle,
// feedistribution, exomint, bank) is taken; the changed keys are reported as key classes. Before the call the
// facts the model's scripts read are extracted from the real store.
// Oracle in-memory aggregator state is NOT covered (no hook available to this suite); store only.

import (
	"bytes"
	"crypto/sha256"
	"encoding/hex"
	"fmt"
	"math/big"
	"math/rand"
	"os"
	"sort"
	"strings"
	"time"

	sdkmath "cosmossdk.io/math"
	abci "github.com/cometbft/cometbft/abci/types"
	sdk "github.com/cosmos/cosmos-sdk/types"
	banktypes "github.com/cosmos/cosmos-sdk/x/bank/types"
	"github.com/ethereum/go-ethereum/accounts/abi"
	"github.com/ethereum/go-ethereum/common"
	"github.com/ethereum/go-ethereum/common/hexutil"
	ethtypes "github.com/ethereum/go-ethereum/core/types"
	"github.com/ethereum/go-ethereum/core/vm"
	"github.com/evmos/evmos/v16/x/evm/statedb"

	assetsprecompile "github.com/ExocoreNetwork/exocore/precompiles/assets"
	avsprecompile "github.com/ExocoreNetwork/exocore/precompiles/avs"
	delegationprecompile "github.com/ExocoreNetwork/exocore/precompiles/delegation"
	exotestutil "github.com/ExocoreNetwork/exocore/testutil"
	assetskeeper "github.com/ExocoreNetwork/exocore/x/assets/keeper"
	assetstypes "github.com/ExocoreNetwork/exocore/x/assets/types"
	avskeeper "github.com/ExocoreNetwork/exocore/x/avs/keeper"
	avstypes "github.com/ExocoreNetwork/exocore/x/avs/types"
	delegationkeeper "github.com/ExocoreNetwork/exocore/x/delegation/keeper"
	delegationtypes "github.com/ExocoreNetwork/exocore/x/delegation/types"
	epochstypes "github.com/ExocoreNetwork/exocore/x/epochs/types"
	distributiontypes "github.com/ExocoreNetwork/exocore/x/feedistribution/types"
	operatorkeeper "github.com/ExocoreNetwork/exocore/x/operator/keeper"
	operatortypes "github.com/ExocoreNetwork/exocore/x/operator/types"
	oracletypes "github.com/ExocoreNetwork/exocore/x/oracle/types"
	stakingtypes "github.com/cosmos/cosmos-sdk/x/staking/types"
)

func init() { register("c09", runC09) }

// ---- store digest ------------------------------------------------------------------------------------------

var c09Modules = []string{
	assetstypes.StoreKey, delegationtypes.StoreKey, operatortypes.StoreKey, "dogfood", avstypes.StoreKey,
	oracletypes.StoreKey, distributiontypes.StoreKey, "exomint", banktypes.StoreKey,
}

type c09Digest map[string][32]byte // module + "|" + hex(key) -> sha256(value)

func c09Snapshot(env *Env, ctx sdk.Context) c09Digest {
	d := c09Digest{}
	for _, m := range c09Modules {
		k := env.App.GetKey(m)
		if k == nil {
			continue
		}
		it := ctx.KVStore(k).Iterator(nil, nil)
		for ; it.Valid(); it.Next() {
			d[m+"|"+hex.EncodeToString(it.Key())] = sha256.Sum256(it.Value())
		}
		it.Close()
	}
	return d
}

func c09Class(module string, key []byte) string {
	if len(key) == 0 {
		return module + "/empty"
	}
	switch module {
	case assetstypes.StoreKey:
		switch key[0] {
		case assetstypes.KeyPrefixClientChainInfo[0]:
			return "assets/client_chain"
		case assetstypes.KeyPrefixReStakingAssetInfo[0]:
			return "assets/asset_total"
		case assetstypes.KeyPrefixReStakerAssetInfos[0]:
			return "assets/staker_asset"
		case assetstypes.KeyPrefixOperatorAssetInfos[0]:
			return "assets/operator_asset"
		}
	case delegationtypes.StoreKey:
		switch key[0] {
		case delegationtypes.KeyPrefixRestakerDelegationInfo[0]:
			return "delegation/state"
		case delegationtypes.KeyPrefixStakersByOperator[0]:
			return "delegation/stakers_by_operator"
		case delegationtypes.KeyPrefixAssociatedOperatorByStaker[0]:
			return "delegation/association"
		default:
			return "delegation/undelegation"
		}
	case operatortypes.StoreKey:
		switch key[0] {
		case operatortypes.KeyPrefixOperatorInfo[0]:
			return "operator/operator_info"
		case operatortypes.KeyPrefixOperatorOptedAVSInfo[0]:
			return "operator/opted_info"
		case operatortypes.KeyPrefixUSDValueForOperator[0]:
			return "operator/usd_value"
		case operatortypes.KeyPrefixOperatorSlashInfo[0]:
			return "operator/slash_info"
		}
	case avstypes.StoreKey:
		switch key[0] {
		case avstypes.KeyPrefixAVSInfo[0]:
			return "avs/info"
		case avstypes.KeyPrefixAVSTaskInfo[0]:
			return "avs/task"
		case avstypes.KeyPrefixLatestTaskNum[0]:
			return "avs/task_num"
		}
	case oracletypes.StoreKey:
		switch {
		case bytes.HasPrefix(key, []byte(oracletypes.NativeTokenStakerInfoKeyPrefix)):
			return "oracle/nst_staker"
		case bytes.HasPrefix(key, []byte(oracletypes.NativeTokenStakerListKeyPrefix)):
			return "oracle/nst_list"
		case bytes.Equal(key, oracletypes.ParamsKey):
			return "oracle/params"
		}
		return "oracle/other"
	}
	return fmt.Sprintf("%s/0x%02x", module, key[0])
}

func c09Diff(a, b c09Digest) (classes []string, keys []string) {
	set := map[string]bool{}
	add := func(mk string) {
		i := strings.Index(mk, "|")
		kb, _ := hex.DecodeString(mk[i+1:])
		set[c09Class(mk[:i], kb)] = true
		keys = append(keys, mk)
	}
	for k, v := range a {
		if w, ok := b[k]; !ok || w != v {
			add(k)
		}
	}
	for k := range b {
		if _, ok := a[k]; !ok {
			add(k)
		}
	}
	for c := range set {
		classes = append(classes, c)
	}
	sort.Strings(classes)
	sort.Strings(keys)
	if len(keys) > 12 {
		keys = keys[:12]
	}
	return
}

// ---- case records ------------------------------------------------------------------------------------------

type c09Fact struct {
	K string
	V *big.Int
}

type c09Facts []c09Fact

func (f *c09Facts) set(k string, v *big.Int) { *f = append(*f, c09Fact{k, new(big.Int).Set(v)}) }
func (f *c09Facts) seti(k string, v int64)   { *f = append(*f, c09Fact{k, big.NewInt(v)}) }
func (f *c09Facts) setb(k string, b bool) {
	if b {
		f.seti(k, 1)
	} else {
		f.seti(k, 0)
	}
}

func (f c09Facts) coq() string {
	xs := make([]string, len(f))
	for i, x := range f {
		xs[i] = "(" + cStr(x.K) + ", " + cZbig(x.V) + ")"
	}
	return cList(xs)
}

func (f c09Facts) json() map[string]string {
	m := map[string]string{}
	for _, x := range f {
		m[x.K] = x.V.String()
	}
	return m
}

type c09CallDesc struct {
	Suite   string            `json:"suite"`
	Kind    string            `json:"kind"`
	Args    map[string]string `json:"args"`
	Facts   map[string]string `json:"facts"`
	Result  string            `json:"result"`
	Changed []string          `json:"changed"`
	Keys    []string          `json:"changed_keys,omitempty"`
	Tags    []string          `json:"tags,omitempty"`
	NT      bool              `json:"nt"`
}

// never JSON null: the known-findings matcher iterates over the list
func c09Tags(t []string) []string {
	if t == nil {
		return []string{}
	}
	return t
}

func c09Strs(xs []string) string {
	ys := make([]string, len(xs))
	for i, x := range xs {
		ys[i] = cStr(x)
	}
	return cList(ys)
}

// ---- the environment of one run ------------------------------------------------------------------------------

type c09Env struct {
	env       *Env
	rng       *rand.Rand
	w         *CaseWriter
	assetsPC  *assetsprecompile.Precompile
	delegPC   *delegationprecompile.Precompile
	avsPC     *avsprecompile.Precompile
	gateway   common.Address
	stakers   [][]byte // 20-byte client chain addresses
	assets    [][]byte // 20-byte asset addresses: [0] registered LST, [1] unregistered, [2] registered later
	opStrs    []string // bech32 operators: registered ..., then one unregistered
	nonce     uint64
	avsAddr   string
	slashSeq  int64
	nstAsset  string
	extraOps  []sdk.AccAddress
	nCase     int
	tokenSeq  int
	chainSeq  uint32
	usedSlash map[string]bool
	avsOpt    c09AVSOpt
	deposits  [][2][]byte // (asset, staker) pairs with a successful LST deposit
	delegs    []c09Deleg
	inReplay    bool // the call being made repeats the previous gateway message (same nonce / tx hash)
	replayNonce uint64
	replayCase  int
}

// forced choices for one doAVSx call (-1 / false = generator's own choice); reset after the call
type c09AVSOpt struct {
	op        int   // 0, 1 genesis operators, 2 an account that is no operator, 3 the zero address
	sender    int   // 0 owner, 1 zero address, 2 an account that is not an owner
	emptyName bool  // createTask / deregister with an empty name
	wrongName bool  // deregister with another name
	minSelf   int64 // registerAVS: minimum self delegation
}

var c09NoAVSOpt = c09AVSOpt{op: -1, sender: -1, minSelf: -1}

type c09Deleg struct {
	as, st []byte
	op     string
}

func c09Pad32(b []byte) []byte {
	out := make([]byte, 32)
	copy(out, b)
	return out
}

// run one precompile call on ctx; returns result class
func (c *c09Env) runPrecompile(ctx sdk.Context, pc vm.PrecompiledContract, pabi abi.ABI, caller common.Address, method string, withTxHash bool, args ...interface{}) (res string) {
	defer func() {
		if r := recover(); r != nil {
			res = "panic"
		}
	}()
	input, err := pabi.Pack(method, args...)
	if err != nil {
		panic("c09: pack " + method + ": " + err.Error())
	}
	txCase := c.nCase
	if c.inReplay {
		txCase = c.replayCase
	}
	txHash := common.BytesToHash(seedBytes("c09tx", txCase))
	ctx = ctx.WithGasMeter(sdk.NewInfiniteGasMeter())
	if withTxHash {
		ctx = ctx.WithValue(delegationprecompile.CtxKeyTxHash, txHash)
	}
	sdb := statedb.New(ctx, c.env.App.EvmKeeper, statedb.NewEmptyTxConfig(txHash))
	cfg, err := c.env.App.EvmKeeper.EVMConfig(ctx, ctx.BlockHeader().ProposerAddress, c.env.App.EvmKeeper.ChainID())
	if err != nil {
		panic("c09: evm config: " + err.Error())
	}
	to := pc.Address()
	msg := ethtypes.NewMessage(c.env.AccAddrs[0], &to, 0, big.NewInt(0), 100_000_000, big.NewInt(0), big.NewInt(0), big.NewInt(0), input, nil, true)
	evm := c.env.App.EvmKeeper.NewEVM(ctx, msg, cfg, nil, sdb)
	contract := vm.NewPrecompile(vm.AccountRef(caller), pc, big.NewInt(0), uint64(100_000_000))
	contract.Input = input
	bz, err := pc.Run(evm, contract, false)
	if err != nil {
		return "fail"
	}
	out, err := pabi.Unpack(method, bz)
	if err != nil || len(out) == 0 {
		return "fail"
	}
	if ok, isb := out[0].(bool); isb && ok {
		return "ok"
	}
	return "fail"
}

func (c *c09Env) stakerID(chain uint64, st []byte) string {
	id, _ := assetstypes.GetStakerIDAndAssetID(chain, st, nil)
	return id
}

func (c *c09Env) assetID(chain uint64, as []byte) string {
	_, id := assetstypes.GetStakerIDAndAssetID(chain, nil, as)
	return id
}

func c09Dec(d sdkmath.LegacyDec) *big.Int {
	if d.IsNil() {
		return big.NewInt(0)
	}
	return d.BigInt() // scaled by 10^18
}

func c09Int(i sdkmath.Int) *big.Int {
	if i.IsNil() {
		return big.NewInt(0)
	}
	return i.BigInt()
}

// facts about (chain, asset, staker, operator, amount) read from the real store
func (c *c09Env) ledgerFacts(ctx sdk.Context, f *c09Facts, chain uint64, asRaw, stRaw []byte, opStr string, amount *big.Int, nst bool) {
	app := c.env.App
	f.set("amt", amount)
	info, err := app.AssetsKeeper.GetClientChainInfoByIndex(ctx, chain)
	chainOK := err == nil
	f.setb("chain", chainOK)
	alen := uint32(0)
	if chainOK {
		alen = info.AddressLength
	}
	f.setb("alen", !chainOK || (len(asRaw) > 0 && uint32(len(asRaw)) >= alen))
	f.setb("slen", !chainOK || (len(stRaw) > 0 && uint32(len(stRaw)) >= alen))
	as := asRaw
	st := stRaw
	if chainOK && uint32(len(as)) >= alen {
		as = as[:alen]
	}
	if chainOK && uint32(len(st)) >= alen {
		st = st[:alen]
	}
	if nst {
		as = assetstypes.GenerateNSTAddr(alen)
	}
	stakerID, assetID := assetstypes.GetStakerIDAndAssetID(chain, st, as)
	f.setb("asset", app.AssetsKeeper.IsStakingAsset(ctx, assetID))
	f.seti("dec", 0)
	if ai, err := app.AssetsKeeper.GetStakingAssetInfo(ctx, assetID); err == nil {
		f.set("as.total", c09Int(ai.StakingTotalAmount))
		(*f)[len(*f)-2].V = big.NewInt(int64(ai.AssetBasicInfo.Decimals))
	} else {
		f.seti("as.total", 0)
	}
	if si, err := app.AssetsKeeper.GetStakerSpecifiedAssetInfo(ctx, stakerID, assetID); err == nil {
		f.seti("st.ex", 1)
		f.set("st.total", c09Int(si.TotalDepositAmount))
		f.set("st.wd", c09Int(si.WithdrawableAmount))
		f.set("st.pend", c09Int(si.PendingUndelegationAmount))
	} else {
		f.seti("st.ex", 0)
	}
	// operator side
	opAcc, err := sdk.AccAddressFromBech32(opStr)
	opOK := err == nil && len(opStr) == 42
	f.setb("opaddr", opOK)
	if err == nil {
		f.setb("op", app.OperatorKeeper.IsOperator(ctx, opAcc))
		f.seti("frozen", 0)
		if app.AssetsKeeper.IsOperatorAssetExist(ctx, opAcc, assetID) {
			oa, _ := app.AssetsKeeper.GetOperatorSpecifiedAssetInfo(ctx, opAcc, assetID)
			f.seti("oa.ex", 1)
			f.set("oa.amt", c09Int(oa.TotalAmount))
			f.set("oa.pend", c09Int(oa.PendingUndelegationAmount))
			f.set("oa.share", c09Dec(oa.TotalShare))
			f.set("oa.opshare", c09Dec(oa.OperatorShare))
		} else {
			f.seti("oa.ex", 0)
		}
		if dl, err := app.DelegationKeeper.GetSingleDelegationInfo(ctx, stakerID, assetID, opAcc.String()); err == nil {
			f.seti("dl.ex", 1)
			f.set("dl.share", c09Dec(dl.UndelegatableShare))
			f.set("dl.wait", c09Int(dl.WaitUndelegationAmount))
		} else {
			f.seti("dl.ex", 0)
		}
		listed := false
		if sl, err := app.DelegationKeeper.GetStakersByOperator(ctx, opAcc.String(), assetID); err == nil {
			for _, s := range sl.Stakers {
				if s == stakerID {
					listed = true
				}
			}
		}
		f.setb("staker.listed", listed)
	}
	assoc, _ := app.DelegationKeeper.GetAssociatedOperator(ctx, stakerID)
	f.setb("assoc.any", assoc != "")
	f.setb("assoc.same", assoc != "" && err == nil && assoc == opAcc.String())
	f.seti("complete.ok", 1)
	f.seti("hold.max", 0)
	if nst {
		stHex := hexutil.Encode(st)
		sl := app.OracleKeeper.GetStakerList(ctx, assetID)
		in := false
		for _, s := range sl.StakerAddrs {
			if s == stHex {
				in = true
			}
		}
		f.setb("nst.inlist", in)
		si := app.OracleKeeper.GetStakerInfo(ctx, assetID, stHex)
		f.setb("nst.info", si.StakerAddr != "")
		bal := int64(0)
		if n := len(si.BalanceList); n > 0 {
			bal = si.BalanceList[n-1].Balance
		}
		f.seti("nst.bal", bal)
	}
}

func (c *c09Env) emit(kind string, args map[string]string, facts c09Facts, res string, classes, keys []string, tags []string) {
	r := map[string]string{"ok": "ROk", "fail": "RFail", "panic": "RPanic"}[res]
	term := cApp("CCall", cApp("mkCall", kind, facts.coq(), r, c09Strs(classes)))
	c.w.Add(term, c09CallDesc{Suite: "c09", Kind: kind, Args: args, Facts: facts.json(), Result: res, Changed: classes, Keys: keys, Tags: tags, NT: true})
	c.w.Count("kind=" + kind)
	c.w.Count("result=" + res)
	c.w.Count(kind + "/" + res)
	if res == "fail" && len(classes) > 0 {
		c.w.Count("fail-with-trace")
	}
	c.nCase++
}

// call wrapper: snapshot, run on a branch of the live ctx, diff, optionally keep
func (c *c09Env) observe(run func(ctx sdk.Context) string, keepIfOK bool) (res string, classes, keys []string) {
	cc, write := c.env.Ctx.CacheContext()
	before := c09Snapshot(c.env, cc)
	res = run(cc)
	after := c09Snapshot(c.env, cc)
	classes, keys = c09Diff(before, after)
	if res == "ok" && keepIfOK {
		write()
	}
	return
}

func (c *c09Env) pickAmount(base *big.Int) *big.Int {
	switch c.rng.Intn(9) {
	case 0:
		return big.NewInt(0)
	case 1:
		return new(big.Int).Set(base)
	case 2:
		return new(big.Int).Add(base, big.NewInt(1))
	case 3:
		if base.Sign() > 0 {
			return new(big.Int).Sub(base, big.NewInt(1))
		}
		return big.NewInt(1)
	case 4:
		return new(big.Int).Lsh(big.NewInt(1), 200)
	case 5:
		return big.NewInt(1)
	default:
		if base.Sign() > 0 {
			return new(big.Int).Rand(c.rng, new(big.Int).Add(base, big.NewInt(1)))
		}
		return big.NewInt(int64(1 + c.rng.Intn(1000)))
	}
}

func (c *c09Env) pickChain() uint32 {
	if c.rng.Intn(8) == 0 {
		return 999
	}
	return 101
}

func (c *c09Env) pickCaller() common.Address {
	if c.rng.Intn(10) == 0 {
		return c.env.AccAddrs[0]
	}
	return c.gateway
}

func (c *c09Env) pickAddr(pool [][]byte) []byte {
	b := pool[c.rng.Intn(len(pool))]
	switch c.rng.Intn(14) {
	case 0:
		return b[:10] // too short
	case 1:
		return []byte{}
	default:
		return c09Pad32(b)
	}
}

func (c *c09Env) pickOp() string {
	switch c.rng.Intn(12) {
	case 0:
		return c.opStrs[len(c.opStrs)-1] // not registered
	case 1:
		return "exo1notanaddressnotanaddressnotanaddress00" // 42 chars, bad bech32
	case 2:
		return "exo1short"
	default:
		return c.opStrs[c.rng.Intn(len(c.opStrs)-1)]
	}
}

// the position reported to the staker for its delegation: TokensFromShares(shares, pool share, pool amount)
func (c *c09Env) position(as, st []byte, op string) *big.Int {
	acc, err := sdk.AccAddressFromBech32(op)
	if err != nil || len(as) < 20 || len(st) < 20 {
		return nil
	}
	aid := c.assetID(101, as[:20])
	dl, err := c.env.App.DelegationKeeper.GetSingleDelegationInfo(c.env.Ctx, c.stakerID(101, st[:20]), aid, acc.String())
	if err != nil {
		return nil
	}
	oa, err := c.env.App.AssetsKeeper.GetOperatorSpecifiedAssetInfo(c.env.Ctx, acc, aid)
	if err != nil {
		return nil
	}
	pos, err := delegationkeeper.TokensFromShares(dl.UndelegatableShare, oa.TotalShare, oa.TotalAmount)
	if err != nil {
		return nil
	}
	return pos.BigInt()
}

func (c *c09Env) withdrawable(chain uint64, as, st []byte) *big.Int {
	if len(as) < 20 || len(st) < 20 {
		return big.NewInt(0)
	}
	si, err := c.env.App.AssetsKeeper.GetStakerSpecifiedAssetInfo(c.env.Ctx, c.stakerID(chain, st[:20]), c.assetID(chain, as[:20]))
	if err != nil {
		return big.NewInt(0)
	}
	return c09Int(si.WithdrawableAmount)
}

// ---- one random precompile call ------------------------------------------------------------------------------

func (c *c09Env) doDepositWithdraw(kind string, tags []string, chain uint32, caller common.Address, as, st []byte, amount *big.Int) string {
	nst := kind == "DepositNST" || kind == "WithdrawNST"
	method := map[string]string{"DepositLST": "depositLST", "WithdrawLST": "withdrawLST", "DepositNST": "depositNST", "WithdrawNST": "withdrawNST"}[kind]
	var facts c09Facts
	facts.setb("gw", caller == c.gateway)
	c.ledgerFacts(c.env.Ctx, &facts, uint64(chain), as, st, c.opStrs[0], amount, nst)
	// amounts beyond 2^100 are issued but not kept: they make later USD-value computations overflow (see C11)
	res, classes, keys := c.observe(func(ctx sdk.Context) string {
		return c.runPrecompile(ctx, c.assetsPC, c.assetsPC.ABI, caller, method, true, chain, as, st, amount)
	}, amount.BitLen() <= 100)
	c.emit(kind, map[string]string{"chain": fmt.Sprint(chain), "asset_or_pubkey": hex.EncodeToString(as), "staker": hex.EncodeToString(st), "amount": amount.String(), "gateway": fmt.Sprint(caller == c.gateway)}, facts, res, classes, keys, tags)
	if res == "ok" && kind == "DepositLST" {
		c.deposits = append(c.deposits, [2][]byte{as, st})
	}
	return res
}

func (c *c09Env) doDelegation(kind string, tags []string, chain uint32, caller common.Address, as, st []byte, op string, amount *big.Int, txhash bool) string {
	method := map[string]string{"Delegate": "delegate", "Undelegate": "undelegate"}[kind]
	var facts c09Facts
	facts.setb("gw", caller == c.gateway)
	facts.setb("txhash", txhash)
	c.ledgerFacts(c.env.Ctx, &facts, uint64(chain), as, st, op, amount, false)
	c.nonce++
	nonce := c.nonce
	// a replayed / batched gateway message re-uses the LayerZero nonce and tx hash of the call it repeats
	if c.inReplay {
		nonce = c.replayNonce
	}
	caseAtRun := c.nCase
	res, classes, keys := c.observe(func(ctx sdk.Context) string {
		return c.runPrecompile(ctx, c.delegPC, c.delegPC.ABI, caller, method, txhash, chain, nonce, as, st, []byte(op), amount)
	}, true)
	c.emit(kind, map[string]string{"chain": fmt.Sprint(chain), "asset": hex.EncodeToString(as), "staker": hex.EncodeToString(st), "operator": op, "amount": amount.String(), "gateway": fmt.Sprint(caller == c.gateway)}, facts, res, classes, keys, tags)
	if res == "ok" && kind == "Delegate" {
		c.delegs = append(c.delegs, c09Deleg{as, st, op})
	}
	// every second accepted undelegation is followed, in the same block, by a repetition of the same gateway message
	// (same nonce, same tx hash, same operator, amount 1): the rng stream is not touched, so all other inputs stay
	// what they were
	if res == "ok" && kind == "Undelegate" && txhash && !c.inReplay && nonce%2 == 0 {
		c.inReplay, c.replayNonce, c.replayCase = true, nonce, caseAtRun
		c.doDelegation("Undelegate", nil, chain, caller, as, st, op, big.NewInt(1), true)
		c.inReplay = false
	}
	return res
}

func (c *c09Env) doAssociate(tags []string, chain uint32, caller common.Address, st []byte, op string, dissociate bool) string {
	var facts c09Facts
	facts.setb("gw", caller == c.gateway)
	// the model tracks the staker's delegation of asset 0 to the (to be / currently) associated operator
	target := op
	stakerID := ""
	if len(st) >= 20 {
		stakerID = c.stakerID(uint64(chain), st[:20])
	}
	if dissociate {
		if cur, _ := c.env.App.DelegationKeeper.GetAssociatedOperator(c.env.Ctx, stakerID); cur != "" {
			target = cur
		}
	}
	c.ledgerFacts(c.env.Ctx, &facts, uint64(chain), c09Pad32(c.assets[0]), st, target, big.NewInt(0), false)
	kind, method := "Associate", "associateOperatorWithStaker"
	args := []interface{}{chain, st, []byte(op)}
	if dissociate {
		kind, method = "Dissociate", "dissociateOperatorFromStaker"
		args = []interface{}{chain, st}
	}
	res, classes, keys := c.observe(func(ctx sdk.Context) string {
		return c.runPrecompile(ctx, c.delegPC, c.delegPC.ABI, caller, method, true, args...)
	}, true)
	c.emit(kind, map[string]string{"chain": fmt.Sprint(chain), "staker": hex.EncodeToString(st), "operator": op, "gateway": fmt.Sprint(caller == c.gateway)}, facts, res, classes, keys, tags)
	return res
}

func (c *c09Env) doRegisterToken(tags []string, chain uint32, caller common.Address, token []byte, decimals uint8, name, meta, oinfo string) string {
	var facts c09Facts
	app := c.env.App
	facts.setb("gw", caller == c.gateway)
	info, err := app.AssetsKeeper.GetClientChainInfoByIndex(c.env.Ctx, uint64(chain))
	facts.setb("chain", err == nil)
	alen := uint32(0)
	if err == nil {
		alen = info.AddressLength
	}
	facts.setb("alen", err != nil || uint32(len(token)) >= alen)
	facts.setb("namelen.ok", name != "" && len(name) <= assetstypes.MaxChainTokenNameLength)
	facts.setb("meta.ok", meta != "" && len(meta) <= assetstypes.MaxChainTokenMetaInfoLength)
	parts := strings.Split(oinfo, ",")
	facts.setb("info.ok", len(parts) >= 3)
	tk := token
	if uint32(len(tk)) >= alen {
		tk = tk[:alen]
	}
	_, assetID := assetstypes.GetStakerIDAndAssetIDFromStr(uint64(chain), "", hexutil.Encode(tk))
	facts.setb("asset", app.AssetsKeeper.IsStakingAsset(c.env.Ctx, assetID))
	facts.setb("dec.ok", uint32(decimals) <= assetstypes.MaxDecimal)
	p := app.OracleKeeper.GetParams(c.env.Ctx)
	facts.setb("tok.ex", p.GetTokenIDFromAssetID(assetID) > 0)
	decok, intok := true, true
	if len(parts) >= 3 {
		var x big.Int
		if _, ok := x.SetString(parts[2], 10); !ok || !x.IsInt64() || x.Int64() > 2147483647 || x.Int64() < -2147483648 {
			decok = false
		}
		if len(parts) >= 4 && len(parts[3]) > 0 {
			if _, ok := x.SetString(parts[3], 10); !ok || x.Sign() < 0 || !x.IsUint64() || strings.HasPrefix(parts[3], "+") || strings.HasPrefix(parts[3], "-") {
				intok = false
			}
		}
	}
	facts.setb("tok.decok", decok)
	facts.setb("tok.intok", intok)
	res, classes, keys := c.observe(func(ctx sdk.Context) string {
		return c.runPrecompile(ctx, c.assetsPC, c.assetsPC.ABI, caller, "registerToken", true, chain, token, decimals, name, meta, oinfo)
	}, true)
	c.emit("RegisterToken", map[string]string{"chain": fmt.Sprint(chain), "token": hex.EncodeToString(token), "decimals": fmt.Sprint(decimals), "name": name, "oracle_info": oinfo}, facts, res, classes, keys, tags)
	return res
}

func (c *c09Env) doUpdateToken(chain uint32, caller common.Address, token []byte, meta string) {
	var facts c09Facts
	app := c.env.App
	facts.setb("gw", caller == c.gateway)
	info, err := app.AssetsKeeper.GetClientChainInfoByIndex(c.env.Ctx, uint64(chain))
	facts.setb("chain", err == nil)
	alen := uint32(0)
	if err == nil {
		alen = info.AddressLength
	}
	facts.setb("alen", err != nil || uint32(len(token)) >= alen)
	facts.setb("meta.ok", meta != "" && len(meta) <= assetstypes.MaxChainTokenMetaInfoLength)
	tk := token
	if uint32(len(tk)) >= alen {
		tk = tk[:alen]
	}
	_, assetID := assetstypes.GetStakerIDAndAssetIDFromStr(uint64(chain), "", hexutil.Encode(tk))
	facts.setb("asset", app.AssetsKeeper.IsStakingAsset(c.env.Ctx, assetID))
	res, classes, keys := c.observe(func(ctx sdk.Context) string {
		return c.runPrecompile(ctx, c.assetsPC, c.assetsPC.ABI, caller, "updateToken", true, chain, token, meta)
	}, true)
	c.emit("UpdateToken", map[string]string{"chain": fmt.Sprint(chain), "token": hex.EncodeToString(token), "meta_len": fmt.Sprint(len(meta))}, facts, res, classes, keys, nil)
}

func (c *c09Env) doRegisterClientChain(chain uint32, caller common.Address, addrLen uint8, name, meta string) {
	var facts c09Facts
	facts.setb("gw", caller == c.gateway)
	facts.setb("cc.lenok", addrLen != 0 && addrLen >= assetstypes.MinClientChainAddrLength)
	facts.setb("namelen.ok", name != "" && len(name) <= assetstypes.MaxChainTokenNameLength)
	facts.setb("meta.ok", meta != "" && len(meta) <= assetstypes.MaxChainTokenMetaInfoLength)
	res, classes, keys := c.observe(func(ctx sdk.Context) string {
		return c.runPrecompile(ctx, c.assetsPC, c.assetsPC.ABI, caller, "registerOrUpdateClientChain", true, chain, addrLen, name, meta, "ecdsa")
	}, c.rng.Intn(4) == 0 && chain >= 2000)
	c.emit("RegisterClientChain", map[string]string{"chain": fmt.Sprint(chain), "addr_len": fmt.Sprint(addrLen), "name_len": fmt.Sprint(len(name))}, facts, res, classes, keys, nil)
}

// ---- Keeper.Slash (called from BeginBlock via dogfood/slashing) ---------------------------------------------

func (c *c09Env) doSlash(tags []string, opIdx int, slashID string, prop sdkmath.LegacyDec, power int64, eventHeight int64, contractOK bool, keep bool) string {
	app := c.env.App
	op := c.env.Operators[opIdx]
	var facts c09Facts
	facts.setb("prop.ok", !prop.IsNil() && !prop.IsNegative())
	facts.setb("height.ok", eventHeight <= c.env.Ctx.BlockHeight())
	facts.setb("power.ok", power > 0)
	val := sdkmath.LegacyZeroDec()
	if si, err := app.OperatorKeeper.CalculateUSDValueForOperator(c.env.Ctx, true, op.String(), nil, nil, nil); err == nil {
		val = si.StakingAndWaitUnbonding
	}
	facts.setb("value.ok", val.IsPositive())
	_, err := app.OperatorKeeper.GetOperatorSlashInfo(c.env.Ctx, c.avsAddr, op.String(), slashID)
	facts.setb("slash.dup", err == nil)
	facts.setb("contract.ok", contractOK)
	facts.setb("prop.le1", !prop.IsNil() && prop.LTE(sdkmath.LegacyOneDec()))
	contract, _ := app.AVSManagerKeeper.GetAVSSlashContract(c.env.Ctx, c.avsAddr)
	if !contractOK {
		contract = "0x00000000000000000000000000000000000000ff"
	}
	param := &operatortypes.SlashInputInfo{
		IsDogFood: true, Power: power, SlashType: uint32(stakingtypes.Infraction_INFRACTION_DOUBLE_SIGN), Operator: op,
		AVSAddr: c.avsAddr, SlashContract: contract, SlashID: slashID, SlashEventHeight: eventHeight, SlashProportion: prop,
	}
	res, classes, keys := c.observe(func(ctx sdk.Context) (r string) {
		defer func() {
			if x := recover(); x != nil {
				r = "panic"
			}
		}()
		if err := app.OperatorKeeper.Slash(ctx, param); err != nil {
			return "fail"
		}
		return "ok"
	}, keep)
	ps := "nil"
	if !prop.IsNil() {
		ps = prop.String()
	}
	c.emit("Slash", map[string]string{"operator": op.String(), "slash_id": slashID, "proportion": ps, "power": fmt.Sprint(power), "event_height": fmt.Sprint(eventHeight)}, facts, res, classes, keys, tags)
	return res
}

// ---- AVS precompile (the AVS is the calling contract) -----------------------------------------------------------

var c09AVSContracts = []common.Address{
	common.HexToAddress("0x00000000000000000000000000000000000c09a1"), common.HexToAddress("0x00000000000000000000000000000000000c09a2"),
	common.HexToAddress("0x00000000000000000000000000000000000c09a3"), common.HexToAddress("0x00000000000000000000000000000000000c09a4"),
	common.HexToAddress("0x00000000000000000000000000000000000c09a5"), common.HexToAddress("0x00000000000000000000000000000000000c09a6")}
var c09TaskAddrs = []common.Address{
	common.HexToAddress("0x00000000000000000000000000000000000c09b1"), common.HexToAddress("0x00000000000000000000000000000000000c09b2"),
	common.HexToAddress("0x00000000000000000000000000000000000c09b3"), common.HexToAddress("0x00000000000000000000000000000000000c09b4"),
	common.HexToAddress("0x00000000000000000000000000000000000c09b5"), common.HexToAddress("0x00000000000000000000000000000000000c09b6")}

func (c *c09Env) doAVS(valid bool) { c.doAVSx(valid, -1, -1, -1) }

// force: 0 register, 1 deregister, 2 opt in, 3 opt out, 4 create task (-1 = random); forceAI: AVS index (-1 = random)
func (c *c09Env) doAVSx(valid bool, force int, forceAI int, fault int) {
	app := c.env.App
	rng := c.rng
	ctx := c.env.Ctx
	ai := rng.Intn(len(c09AVSContracts))
	if rng.Intn(2) == 0 {
		ai = rng.Intn(2)
	}
	if forceAI >= 0 {
		ai = forceAI
	}
	avs := c09AVSContracts[ai]
	owner := c.env.AccAddrs[1]
	sender := owner
	if !valid && fault < 0 {
		switch rng.Intn(8) {
		case 0:
			sender = common.Address{}
		case 1:
			sender = c.env.AccAddrs[2]
		}
	}
	opt := c.avsOpt
	c.avsOpt = c09NoAVSOpt
	switch opt.sender {
	case 0:
		sender = owner
	case 1:
		sender = common.Address{}
	case 2:
		sender = c.env.AccAddrs[2]
	}
	senderBech := sdk.AccAddress(sender.Bytes()).String()
	info, ierr := app.AVSManagerKeeper.GetAVSInfo(ctx, avs.String())
	exists := ierr == nil && info != nil && info.Info != nil
	var facts c09Facts
	args := map[string]string{"avs": avs.String(), "sender": sender.String()}
	var kind, method string
	var in []interface{}
	pcCaller := avs
	kk := rng.Intn(10)
	optIn := rng.Intn(3) != 0
	switch force {
	case 0:
		kk = 0
	case 1:
		kk = 3
	case 2:
		kk, optIn = 4, true
	case 3:
		kk, optIn = 4, false
	case 4:
		kk = 9
	}
	switch k := kk; {
	case k < 3: // registerAVS
		kind, method = "AvsRegister", "registerAVS"
		// start from a valid registration and inject at most one fault, so that every check is reached alone
		name := "avs"
		task := c09TaskAddrs[ai]
		owners := []string{sdk.AccAddress(owner.Bytes()).String()}
		assetIDs := []string{c.env.AssetID}
		epoch := []string{epochstypes.HourEpochID, epochstypes.MinuteEpochID}[rng.Intn(2)]
		minSelf := []uint64{0, 0, 1_000_000_000}[rng.Intn(3)]
		unb := uint64(7)
		if ai == 0 {
			minSelf, epoch = 0, epochstypes.MinuteEpochID
		}
		if opt.minSelf >= 0 {
			minSelf = uint64(opt.minSelf)
		}
		if !valid {
			// a fresh AVS contract and task address: only the injected fault can make the registration fail
			avs = common.BigToAddress(big.NewInt(int64(0xc09f0000 + c.nCase)))
			pcCaller = avs
			task = common.BigToAddress(big.NewInt(int64(0xc09e0000 + c.nCase)))
			info, ierr = app.AVSManagerKeeper.GetAVSInfo(ctx, avs.String())
			exists = ierr == nil && info != nil && info.Info != nil
			args["avs"] = avs.String()
			f := rng.Intn(9)
			if fault >= 0 {
				f = fault
			}
			switch f {
			case 0:
				name = ""
			case 1:
				task = c09TaskAddrs[0] // used by the AVS of the directed prelude
			case 2:
				owners = []string{sdk.AccAddress(c.env.AccAddrs[2].Bytes()).String()}
			case 3:
				assetIDs = []string{"0x1111111111111111111111111111111111111111_0x65"}
			case 4:
				assetIDs = []string{c.env.AssetID, "0x2222222222222222222222222222222222222222_0x65"}
			case 5:
				assetIDs = []string{}
			case 6:
				epoch = "nonexistent"
			case 7:
				epoch = ""
			case 8:
				unb = 0
			}
		}
		in = []interface{}{sender, name, uint64(1), task, c09TaskAddrs[0], c09TaskAddrs[1], owners, assetIDs, unb, minSelf, epoch, []uint64{0, 0, 1, 1}}
		facts.setb("args.ok", sender != (common.Address{}) && name != "" && len(assetIDs) > 0 && unb != 0 && epoch != "")
		facts.setb("owner.ok", owners[0] == senderBech)
		eid := epoch
		if exists && info.Info.EpochIdentifier != "" {
			eid = info.Info.EpochIdentifier
		}
		_, found := app.EpochsKeeper.GetEpochInfo(ctx, eid)
		facts.setb("epoch.ok", found)
		facts.setb("avs", exists)
		facts.setb("taskaddr.used", app.AVSManagerKeeper.GetAVSInfoByTaskAddress(ctx, task.String()).AvsAddress != "")
		aok := true
		for _, a := range assetIDs {
			if !app.AssetsKeeper.IsStakingAsset(ctx, a) {
				aok = false
			}
		}
		facts.setb("assets.ok", aok)
		args["epoch"], args["task"], args["min_self"] = epoch, task.String(), fmt.Sprint(minSelf)
	case k < 4: // deregisterAVS
		kind, method = "AvsDeregister", "deregisterAVS"
		name := []string{"avs", "other", ""}[rng.Intn(3)]
		if valid {
			name = "avs"
		}
		if opt.emptyName {
			name = ""
		}
		if opt.wrongName {
			name = "other"
		}
		in = []interface{}{sender, name}
		facts.setb("args.ok", sender != (common.Address{}) && name != "")
		facts.setb("avs", exists)
		ownerOK, unbondOK, nameOK := false, false, false
		if exists {
			for _, o := range info.Info.AvsOwnerAddress {
				if o == senderBech {
					ownerOK = true
				}
			}
			if ep, found := app.EpochsKeeper.GetEpochInfo(ctx, info.Info.EpochIdentifier); found {
				unbondOK = !(ep.CurrentEpoch-int64(info.Info.StartingEpoch) > int64(info.Info.AvsUnbondingPeriod))
			}
			nameOK = info.Info.Name == name
		}
		facts.setb("owner.ok", ownerOK)
		facts.setb("unbond.ok", unbondOK)
		facts.setb("name.ok", nameOK)
		args["name"] = name
	case k < 8: // registerOperatorToAVS / deregisterOperatorFromAVS: sender = operator
		opAddr := common.BytesToAddress(c.env.Operators[rng.Intn(len(c.env.Operators))].Bytes())
		if !valid {
			switch rng.Intn(6) {
			case 0:
				opAddr = c.env.AccAddrs[2] // not an operator
			case 1:
				opAddr = common.Address{}
			}
		}
		switch opt.op {
		case 0, 1:
			opAddr = common.BytesToAddress(c.env.Operators[opt.op].Bytes())
		case 2:
			opAddr = c.env.AccAddrs[2]
		case 3:
			opAddr = common.Address{}
		}
		opAcc := sdk.AccAddress(opAddr.Bytes())
		in = []interface{}{opAddr}
		facts.setb("args.ok", opAddr != (common.Address{}))
		facts.setb("op", app.OperatorKeeper.IsOperator(ctx, opAcc))
		facts.setb("avs", exists)
		facts.seti("frozen", 0)
		args["operator"] = opAcc.String()
		if optIn {
			kind, method = "AvsOptIn", "registerOperatorToAVS"
			facts.setb("optedin", app.OperatorKeeper.IsOptedIn(ctx, opAcc.String(), avs.String()))
			sd := false
			if exists {
				if v, err := app.OperatorKeeper.GetOrCalculateOperatorUSDValues(ctx, opAcc, avs.String()); err == nil {
					if m, err := app.AVSManagerKeeper.GetAVSMinimumSelfDelegation(ctx, avs.String()); err == nil {
						sd = !v.SelfUSDValue.LT(m)
					}
				}
			}
			facts.setb("selfdeleg.ok", sd)
		} else {
			kind, method = "AvsOptOut", "deregisterOperatorFromAVS"
			facts.setb("active", app.OperatorKeeper.IsActive(ctx, opAcc, avs.String()))
		}
	default: // createTask: the caller is the task contract
		kind, method = "AvsCreateTask", "createTask"
		task := c09TaskAddrs[rng.Intn(len(c09TaskAddrs))]
		if rng.Intn(2) == 0 {
			task = c09TaskAddrs[rng.Intn(2)]
		}
		if forceAI >= 0 {
			task = c09TaskAddrs[forceAI]
		}
		pcCaller = task
		name := []string{"task", ""}[rng.Intn(8)/7]
		if valid {
			name = "task"
		}
		if opt.emptyName {
			name = ""
		}
		in = []interface{}{sender, name, []byte("hash"), uint64(2), uint64(2), uint64(60), uint64(1)}
		ai := app.AVSManagerKeeper.GetAVSInfoByTaskAddress(ctx, task.String())
		facts.setb("args.ok", sender != (common.Address{}) && name != "")
		facts.setb("task.avs", ai.AvsAddress != "")
		ownerOK := false
		for _, o := range ai.AvsOwnerAddress {
			if o == senderBech {
				ownerOK = true
			}
		}
		facts.setb("owner.ok", ownerOK)
		pw := false
		if v, err := app.OperatorKeeper.GetAVSUSDValue(ctx, ai.AvsAddress); err == nil && v.IsPositive() {
			pw = true
		}
		facts.setb("power.ok", pw)
		_, found := app.EpochsKeeper.GetEpochInfo(ctx, ai.EpochIdentifier)
		facts.setb("epoch.ok", found)
		facts.seti("task.exists", 0)
		args["task"] = task.String()
	}
	res, classes, keys := c.observe(func(cx sdk.Context) string {
		return c.runPrecompile(cx, c.avsPC, c.avsPC.ABI, pcCaller, method, true, in...)
	}, true)
	c.emit(kind, args, facts, res, classes, keys, nil)
}

// ---- UpdateNSTByBalanceChange (oracle EndBlock: GrowRoundID -> AppendPriceTR; also price messages) -------------

// one 5-bit header + value bits per marked staker; change = sign * (v+1)
func c09Bitmap(changes map[int]int, bad bool) []byte {
	ind := make([]byte, 32)
	var bits []byte
	nb := 0
	put := func(v uint, n int) {
		for i := n - 1; i >= 0; i-- {
			if nb%8 == 0 {
				bits = append(bits, 0)
			}
			if (v>>uint(i))&1 == 1 {
				bits[len(bits)-1] |= 1 << uint(7-nb%8)
			}
			nb++
		}
	}
	for idx := 0; idx < 256; idx++ {
		ch, ok := changes[idx]
		if !ok || ch == 0 {
			continue
		}
		ind[idx/8] |= 1 << uint(7-idx%8)
		sign := uint(0)
		if ch < 0 {
			sign, ch = 1, -ch
		}
		v := uint(ch - 1)
		l := 0
		for x := v; x > 0; x >>= 1 {
			l++
		}
		if l == 0 {
			l = 1
		}
		put(uint(l), 4)
		put(sign, 1)
		put(v, l)
	}
	raw := append(ind, bits...)
	if bad && len(bits) > 0 {
		raw = raw[:len(raw)-1] // value bytes cut off: the parser reports an error
	}
	return raw
}

func (c *c09Env) doNSTBalanceChange(tags []string) {
	app := c.env.App
	_, assetID := assetstypes.GetStakerIDAndAssetID(101, nil, assetstypes.GenerateNSTAddr(20))
	sl := app.OracleKeeper.GetStakerList(c.env.Ctx, assetID)
	n := len(sl.StakerAddrs)
	changes := map[int]int{}
	failIdx, failAny, moved := int64(0), false, false
	for i, a := range sl.StakerAddrs {
		si := app.OracleKeeper.GetStakerInfo(c.env.Ctx, assetID, a)
		nv := len(si.ValidatorPubkeyList)
		cur := int64(0)
		if m := len(si.BalanceList); m > 0 {
			cur = si.BalanceList[m-1].Balance
		}
		ch := 0
		switch c.rng.Intn(5) {
		case 0:
			ch = -(1 + c.rng.Intn(5))
		case 1:
			ch = 1 + c.rng.Intn(3) // above the maximum effective balance: rejected
		case 2:
			ch = -(32*nv + c.rng.Intn(2)) // balance <= 0: rejected
		}
		if ch != 0 {
			changes[i] = ch
		}
		bal := int64(32*nv + ch)
		if !failAny {
			if bal > int64(32*nv) || bal <= 0 {
				failAny, failIdx = true, int64(i)
			} else if bal != cur {
				moved = true
			}
		}
	}
	if !failAny {
		failIdx = 0
	}
	bad := c.rng.Intn(8) == 0
	raw := c09Bitmap(changes, bad)
	parseOK := !(bad && len(raw) > 32-1 && len(changes) > 0)
	short := c.rng.Intn(12) == 0
	if short {
		raw = raw[:20]
	}
	var facts c09Facts
	facts.setb("len.ok", len(raw) >= 32)
	facts.setb("list.ok", n > 0)
	facts.setb("parse.ok", parseOK)
	facts.setb("fail.any", failAny)
	facts.seti("fail.idx", failIdx)
	facts.setb("fail.moved", failAny && moved)
	res, classes, keys := c.observe(func(ctx sdk.Context) (r string) {
		defer func() {
			if x := recover(); x != nil {
				r = "panic"
			}
		}()
		if err := app.OracleKeeper.UpdateNSTByBalanceChange(ctx.WithGasMeter(sdk.NewInfiniteGasMeter()), assetID, raw, uint64(100+c.nCase)); err != nil {
			return "fail"
		}
		return "ok"
	}, c.rng.Intn(3) == 0)
	c.emit("NSTBalanceChange", map[string]string{"stakers": fmt.Sprint(n), "raw": hex.EncodeToString(raw), "changes": fmt.Sprint(changes)}, facts, res, classes, keys, tags)
}

// ---- operator messages inside a cache context (what baseapp runTx does around a tx) -------------------------

func (c *c09Env) doOperatorMsg(which int) {
	app := c.env.App
	ms := operatorkeeper.NewMsgServerImpl(app.OperatorKeeper)
	var facts c09Facts
	var kind string
	var run func(ctx sdk.Context) error
	args := map[string]string{}
	switch which {
	case 0: // RegisterOperator
		kind = "MsgRegisterOperator"
		var addr sdk.AccAddress
		if c.rng.Intn(2) == 0 {
			addr = c.env.Operators[c.rng.Intn(len(c.env.Operators))]
		} else {
			_, a := DetEthKey("c09newop", c.rng.Intn(3))
			addr = sdk.AccAddress(a.Bytes())
		}
		infoOK := c.rng.Intn(3) != 0
		info := &operatortypes.OperatorInfo{EarningsAddr: addr.String(), OperatorMetaInfo: "m",
			Commission: stakingtypes.NewCommission(sdk.ZeroDec(), sdk.ZeroDec(), sdk.ZeroDec())}
		if !infoOK {
			info.ClientChainEarningsAddr = &operatortypes.ClientChainEarningAddrList{EarningInfoList: []*operatortypes.ClientChainEarningAddrInfo{{LzClientChainID: 777, ClientChainEarningAddr: "0x1"}}}
		}
		facts.seti("opaddr", 1)
		facts.setb("op", app.OperatorKeeper.IsOperator(c.env.Ctx, addr))
		facts.setb("info.ok", infoOK)
		args["addr"] = addr.String()
		run = func(ctx sdk.Context) error {
			_, err := ms.RegisterOperator(sdk.WrapSDKContext(ctx), &operatortypes.RegisterOperatorReq{FromAddress: addr.String(), Info: info})
			return err
		}
	default: // OptOut of the dogfood AVS / of an unknown AVS
		kind = "MsgOptOut"
		var addr sdk.AccAddress
		switch c.rng.Intn(4) {
		case 0:
			_, a := DetEthKey("c09newop", 7)
			addr = sdk.AccAddress(a.Bytes())
		default:
			addr = c.env.Operators[c.rng.Intn(len(c.env.Operators))]
		}
		avs := c.avsAddr
		if c.rng.Intn(3) == 0 {
			avs = "0x00000000000000000000000000000000000000aa"
		}
		isAvs, _ := app.AVSManagerKeeper.IsAVS(c.env.Ctx, avs)
		facts.setb("op", app.OperatorKeeper.IsOperator(c.env.Ctx, addr))
		facts.setb("avs", isAvs)
		facts.setb("active", app.OperatorKeeper.IsActive(c.env.Ctx, addr, avs))
		facts.seti("frozen", 0)
		args["addr"], args["avs"] = addr.String(), avs
		run = func(ctx sdk.Context) error {
			_, err := ms.OptOutOfAVS(sdk.WrapSDKContext(ctx), &operatortypes.OptOutOfAVSReq{FromAddress: addr.String(), AvsAddress: avs})
			return err
		}
	}
	// runTx: the message runs on a cache of the deliver state; the cache is written only when the message succeeds
	cc, _ := c.env.Ctx.CacheContext()
	before := c09Snapshot(c.env, cc)
	res := func() (r string) {
		defer func() {
			if x := recover(); x != nil {
				r = "panic"
			}
		}()
		txCtx, writeTx := cc.CacheContext()
		if err := run(txCtx); err != nil {
			return "fail"
		}
		writeTx()
		return "ok"
	}()
	after := c09Snapshot(c.env, cc)
	classes, keys := c09Diff(before, after)
	c.emit(kind, args, facts, res, classes, keys, nil)
}

// ---- operator messages through the REAL transaction path (ante handlers, baseapp runTx cache, DeliverTx) --------
// The transaction is signed by a funded account and delivered to the live application; on failure only the fee
// payment (bank) and the sequence number (auth) may change, so the bank store is left out of the digest here.

func c09SnapshotNoBank(env *Env, ctx sdk.Context) c09Digest {
	d := c09Snapshot(env, ctx)
	for k := range d {
		if strings.HasPrefix(k, banktypes.StoreKey+"|") {
			delete(d, k)
		}
	}
	return d
}

func (c *c09Env) doOperatorTx() {
	app := c.env.App
	idx := 1 + c.rng.Intn(2)
	priv := c.env.AccPrivs[idx]
	addr := sdk.AccAddress(c.env.AccAddrs[idx].Bytes())
	ctx := c.env.Ctx
	var facts c09Facts
	var kind string
	var msg sdk.Msg
	args := map[string]string{"signer": addr.String(), "path": "DeliverTx"}
	switch c.rng.Intn(4) {
	case 0:
		kind = "MsgRegisterOperator"
		infoOK := c.rng.Intn(3) != 0
		info := &operatortypes.OperatorInfo{EarningsAddr: addr.String(), ApproveAddr: addr.String(), OperatorMetaInfo: "m",
			Commission: stakingtypes.NewCommission(sdk.ZeroDec(), sdk.ZeroDec(), sdk.ZeroDec())}
		if !infoOK {
			info.ClientChainEarningsAddr = &operatortypes.ClientChainEarningAddrList{EarningInfoList: []*operatortypes.ClientChainEarningAddrInfo{{LzClientChainID: 777, ClientChainEarningAddr: "0x1"}}}
		}
		facts.seti("opaddr", 1)
		facts.setb("op", app.OperatorKeeper.IsOperator(ctx, addr))
		facts.setb("info.ok", infoOK)
		msg = &operatortypes.RegisterOperatorReq{FromAddress: addr.String(), Info: info}
	case 1:
		kind = "MsgOptOut"
		avs := c.avsAddr
		if c.rng.Intn(2) == 0 {
			avs = "0x00000000000000000000000000000000000000aa"
		}
		isAvs, _ := app.AVSManagerKeeper.IsAVS(ctx, avs)
		facts.setb("op", app.OperatorKeeper.IsOperator(ctx, addr))
		facts.setb("avs", isAvs)
		facts.setb("active", app.OperatorKeeper.IsActive(ctx, addr, avs))
		facts.seti("frozen", 0)
		args["avs"] = avs
		msg = &operatortypes.OptOutOfAVSReq{FromAddress: addr.String(), AvsAddress: avs}
	default:
		kind = "MsgOptIn"
		avs := []string{c.avsAddr, "0x00000000000000000000000000000000000000aa", c09AVSContracts[0].String()}[c.rng.Intn(3)]
		isAvs, _ := app.AVSManagerKeeper.IsAVS(ctx, avs)
		_, isChain := app.AVSManagerKeeper.GetChainIDByAVSAddr(ctx, avs)
		key := ""
		if isChain {
			_, ck := DetConsKey("c09cons", idx)
			key = ck.ToJSON()
		}
		sd := false
		if isAvs {
			if v, err := app.OperatorKeeper.GetOrCalculateOperatorUSDValues(ctx, addr, avs); err == nil {
				if m, err := app.AVSManagerKeeper.GetAVSMinimumSelfDelegation(ctx, avs); err == nil {
					sd = !v.SelfUSDValue.LT(m)
				}
			}
		}
		facts.setb("op", app.OperatorKeeper.IsOperator(ctx, addr))
		facts.setb("avs", isAvs)
		facts.setb("optedin", app.OperatorKeeper.IsOptedIn(ctx, addr.String(), avs))
		facts.setb("selfdeleg.ok", sd)
		facts.seti("frozen", 0)
		args["avs"] = avs
		msg = &operatortypes.OptIntoAVSReq{FromAddress: addr.String(), AvsAddress: avs, PublicKeyJSON: key}
	}
	before := c09SnapshotNoBank(c.env, ctx)
	res := func() (r string) {
		defer func() {
			if x := recover(); x != nil {
				r = "panic"
			}
		}()
		if _, err := exotestutil.DeliverTx(ctx, app, priv, nil, msg); err != nil {
			if os.Getenv("VERIF_DEBUG") != "" {
				fmt.Fprintln(os.Stderr, "c09 DeliverTx:", kind, err)
			}
			return "fail"
		}
		return "ok"
	}()
	after := c09SnapshotNoBank(c.env, ctx)
	classes, keys := c09Diff(before, after)
	c.emit(kind, args, facts, res, classes, keys, nil)
	c.w.Count("path=DeliverTx")
}

// ---- delegation EndBlock with one record made to fail (fault injection into one item) ----------------------

func (c *c09Env) itemStaker(i int) []byte {
	_, a := DetEthKey("c09item", i)
	return a.Bytes()
}

// n records of distinct stakers mature in the same block; a random subset of them is made to fail, each either at
// its first step (delegation state) or in the MIDDLE of the item (staker state, after the delegation state has
// been written into the item's branch). The block end with all items is compared with the block end from which the
// failing items were taken off the work list (C09_endblock_items / C09_endblock_items_all): positions of failing
// and succeeding items are arbitrary, in particular failing items precede and follow succeeding ones.
func (c *c09Env) doEndBlockItems(tags []string) {
	app := c.env.App
	base, _ := c.env.Ctx.CacheContext()
	base = base.WithGasMeter(sdk.NewInfiniteGasMeter())
	n := 2 + c.rng.Intn(5)
	op := c.env.Operators[c.rng.Intn(len(c.env.Operators))]
	var recs []delegationtypes.UndelegationRecord
	for i := 0; i < n; i++ {
		st := c.itemStaker(i)
		amt := sdkmath.NewInt(int64(1000 + c.rng.Intn(5000)))
		dp := &delegationtypes.DelegationOrUndelegationParams{ClientChainID: 101, AssetsAddress: c.assets[0], StakerAddress: st, OperatorAddress: op, OpAmount: amt, LzNonce: 900000 + uint64(c.nCase*10+i), TxHash: common.BytesToHash(seedBytes("c09it", c.nCase*10+i))}
		if err := app.AssetsKeeper.PerformDepositOrWithdraw(base, assetsDW{101, assetstypes.DepositLST, c.assets[0], st, amt.MulRaw(2)}.p()); err != nil {
			panic("c09 items: deposit: " + err.Error())
		}
		if err := app.DelegationKeeper.DelegateTo(base, dp); err != nil {
			panic("c09 items: delegate: " + err.Error())
		}
		if err := app.DelegationKeeper.UndelegateFrom(base, dp); err != nil {
			panic("c09 items: undelegate: " + err.Error())
		}
	}
	all, _ := app.DelegationKeeper.AllUndelegations(base)
	var height uint64
	for _, r := range all {
		if r.LzTxNonce >= 900000+uint64(c.nCase*10) && r.LzTxNonce < 900000+uint64(c.nCase*10+n) {
			recs = append(recs, r)
			height = r.CompleteBlockNumber
		}
	}
	if len(recs) != n {
		panic(fmt.Sprintf("c09 items: expected %d records, found %d", n, len(recs)))
	}
	// release the dogfood holds so that EndBlock really completes the records
	for _, r := range recs {
		key := delegationtypes.GetUndelegationRecordKey(r.BlockNumber, r.LzTxNonce, r.TxHash, r.OperatorAddr)
		for app.DelegationKeeper.GetUndelegationHoldCount(base, key) > 0 {
			if err := app.DelegationKeeper.DecrementUndelegationHoldCount(base, key); err != nil {
				break
			}
		}
	}
	// choose the failing subset: at least one failing, at least one succeeding
	fail := make([]int, n) // 0 = succeeds, 1 = fails at the first step, 2 = fails in the middle
	nf := 0
	for nf == 0 || nf == n {
		nf = 0
		for i := range fail {
			fail[i] = 0
			if c.rng.Intn(2) == 0 {
				fail[i] = 1 + c.rng.Intn(2)
				if c.rng.Intn(3) != 0 {
					fail[i] = 2
				}
				nf++
			}
		}
	}
	pattern := ""
	for i, r := range recs {
		pattern += []string{"S", "f", "F"}[fail[i]]
		switch fail[i] {
		case 1: // the wait-undelegation amount of the delegation is smaller than the record: UpdateDelegationState fails
			dl, err := app.DelegationKeeper.GetSingleDelegationInfo(base, r.StakerID, r.AssetID, r.OperatorAddr)
			if err != nil {
				panic("c09 items: no delegation state")
			}
			if _, err := app.DelegationKeeper.UpdateDelegationState(base, r.StakerID, r.AssetID, r.OperatorAddr, &delegationtypes.DeltaDelegationAmounts{WaitUndelegationAmount: dl.WaitUndelegationAmount.Neg(), UndelegatableShare: sdkmath.LegacyZeroDec()}); err != nil {
				panic("c09 items: tamper: " + err.Error())
			}
		case 2: // the staker's pending amount is smaller than the record: UpdateStakerAssetState fails AFTER the
			// delegation state of this item has been written
			si, err := app.AssetsKeeper.GetStakerSpecifiedAssetInfo(base, r.StakerID, r.AssetID)
			if err != nil {
				panic("c09 items: no staker state")
			}
			if err := app.AssetsKeeper.UpdateStakerAssetState(base, r.StakerID, r.AssetID, assetstypes.DeltaStakerSingleAsset{PendingUndelegationAmount: si.PendingUndelegationAmount.Neg()}); err != nil {
				panic("c09 items: tamper2: " + err.Error())
			}
		}
	}
	runEnd := func(ctx sdk.Context, remove bool) (d c09Digest, panicked bool) {
		hctx := ctx.WithBlockHeight(int64(height))
		if remove {
			for i := range recs {
				if fail[i] != 0 {
					_ = app.DelegationKeeper.DeleteUndelegationRecord(hctx, &recs[i])
				}
			}
		}
		func() {
			defer func() {
				if x := recover(); x != nil {
					panicked = true
				}
			}()
			app.DelegationKeeper.EndBlock(hctx, abci.RequestEndBlock{Height: int64(height)})
		}()
		// take the failing items' own records out of the comparison
		for i := range recs {
			if fail[i] != 0 {
				_ = app.DelegationKeeper.DeleteUndelegationRecord(hctx, &recs[i])
			}
		}
		return c09Snapshot(c.env, hctx), panicked
	}
	a, _ := base.CacheContext()
	b, _ := base.CacheContext()
	da, pa := runEnd(a, false)
	db, _ := runEnd(b, true)
	classes, keys := c09Diff(da, db)
	// the succeeding items must really have been completed (otherwise the comparison is vacuous)
	left, _ := app.DelegationKeeper.GetPendingUndelegationRecords(a.WithBlockHeight(int64(height)), height)
	c.w.Count(fmt.Sprintf("items.left_after=%d", len(left)))
	c.w.Count("items.failing=" + fmt.Sprint(nf))
	term := cApp("CItems", cApp("mkItems", cNat(n), cNat(nf), c09Strs(classes), cBool(pa)))
	c.w.Add(term, map[string]interface{}{"suite": "c09", "kind": "EndBlockItems", "n": n, "failing": nf, "pattern": pattern, "diff": classes, "diff_keys": keys, "panic": pa, "tags": c09Tags(tags), "nt": true})
	c.w.Count("kind=EndBlockItems")
	c.nCase++
}

// ---- operator epoch hook: one voting-power update per AVS ending the epoch --------------------------------------------
// n AVSs on the same epoch identifier with operators opted in; a random subset (never all, never none; the directed
// variants put the failing one FIRST in address order) is made to fail - one of its assets is a staking asset without
// any oracle token, so the price lookup of UpdateVotingPower returns an error; the operators' stake changes, so every
// healthy AVS has something to update. The hook with all AVSs is compared with the hook from whose work list the failing
// AVSs were taken (C09_endblock_items_all).
func (c *c09Env) doEpochHookItems(failFirst bool, tags []string) {
	app := c.env.App
	base, _ := c.env.Ctx.CacheContext()
	base = base.WithGasMeter(sdk.NewInfiniteGasMeter())
	const epochID = epochstypes.MinuteEpochID
	noPrice := "0x00000000000000000000000000000000000c09f5"
	_, noPriceID := assetstypes.GetStakerIDAndAssetIDFromStr(101, "", noPrice)
	if !app.AssetsKeeper.IsStakingAsset(base, noPriceID) {
		if err := app.AssetsKeeper.SetStakingAssetInfo(base, &assetstypes.StakingAssetInfo{
			AssetBasicInfo:     assetstypes.AssetInfo{Name: "NoPrice", Symbol: "NOP", Address: noPrice, Decimals: 6, LayerZeroChainID: 101, MetaInfo: "no oracle token"},
			StakingTotalAmount: sdkmath.NewInt(0)}); err != nil {
			panic("c09 hook items: asset: " + err.Error())
		}
	}
	n := 2 + c.rng.Intn(3)
	var avss []string
	for i := 0; i < n; i++ {
		addr := common.BigToAddress(big.NewInt(int64(0xc09d00 + c.nCase*8 + i))).String()
		task := common.BigToAddress(big.NewInt(int64(0xc09c00 + c.nCase*8 + i))).String()
		if err := app.AVSManagerKeeper.UpdateAVSInfo(base, &avstypes.AVSRegisterOrDeregisterParams{AvsName: "hookavs", Action: avskeeper.RegisterAction, EpochIdentifier: epochID,
			AvsAddress: addr, AssetID: []string{c.env.AssetID}, TaskAddr: task, UnbondingPeriod: 7, MinSelfDelegation: 0}); err != nil {
			panic("c09 hook items: register: " + err.Error())
		}
		for _, op := range c.env.Operators {
			if err := app.OperatorKeeper.OptIn(base, op, addr); err != nil {
				panic("c09 hook items: opt in: " + err.Error())
			}
		}
		if err := app.OperatorKeeper.UpdateVotingPower(base, addr); err != nil {
			panic("c09 hook items: initial voting power: " + err.Error())
		}
		avss = append(avss, addr)
	}
	fail := make([]bool, n)
	nf := 0
	for nf == 0 || nf == n {
		nf = 0
		for i := range fail {
			fail[i] = c.rng.Intn(2) == 0
			if failFirst {
				fail[i] = i == 0
			}
			if fail[i] {
				nf++
			}
		}
	}
	pattern := ""
	for i, a := range avss {
		if !fail[i] {
			pattern += "S"
			continue
		}
		pattern += "F"
		if err := app.AVSManagerKeeper.UpdateAVSInfo(base, &avstypes.AVSRegisterOrDeregisterParams{AvsName: "hookavs", Action: avskeeper.UpdateAction,
			AvsAddress: a, AssetID: []string{c.env.AssetID, noPriceID}}); err != nil {
			panic("c09 hook items: update: " + err.Error())
		}
	}
	// the operators' stake changes before the epoch ends
	st := c.itemStaker(40)
	amt := sdkmath.NewInt(int64(3_000_000 + c.rng.Intn(5_000_000)))
	if err := app.AssetsKeeper.PerformDepositOrWithdraw(base, assetsDW{101, assetstypes.DepositLST, c.assets[0], st, amt}.p()); err != nil {
		panic("c09 hook items: deposit: " + err.Error())
	}
	if err := app.DelegationKeeper.DelegateTo(base, &delegationtypes.DelegationOrUndelegationParams{ClientChainID: 101, AssetsAddress: c.assets[0], StakerAddress: st, OperatorAddress: c.env.Operators[0], OpAmount: amt,
		LzNonce: 950000 + uint64(c.nCase), TxHash: common.BytesToHash(seedBytes("c09hk", c.nCase))}); err != nil {
		panic("c09 hook items: delegate: " + err.Error())
	}
	ei, _ := app.EpochsKeeper.GetEpochInfo(base, epochID)
	epochNumber := ei.CurrentEpoch + 1
	runHook := func(ctx sdk.Context, remove bool) (d c09Digest, panicked bool) {
		drop := func() {
			for i, a := range avss {
				if fail[i] {
					_ = app.AVSManagerKeeper.DeleteAVSInfo(ctx, a)
				}
			}
		}
		if remove {
			drop()
		}
		func() {
			defer func() {
				if x := recover(); x != nil {
					panicked = true
				}
			}()
			app.OperatorKeeper.EpochsHooks().AfterEpochEnd(ctx, epochID, epochNumber)
		}()
		if !remove {
			drop()
		}
		return c09Snapshot(c.env, ctx), panicked
	}
	a, _ := base.CacheContext()
	b, _ := base.CacheContext()
	before := c09Snapshot(c.env, base)
	da, pa := runHook(a, false)
	db, _ := runHook(b, true)
	classes, keys := c09Diff(da, db)
	// non-vacuity: the healthy AVSs really had something to update
	upd, _ := c09Diff(before, db)
	c.w.Count(fmt.Sprintf("hookitems.updated_classes=%d", len(upd)))
	term := cApp("CItems", cApp("mkItems", cNat(n), cNat(nf), c09Strs(classes), cBool(pa)))
	c.w.Add(term, map[string]interface{}{"suite": "c09", "kind": "EpochHookItems", "n": n, "failing": nf, "pattern": pattern, "diff": classes, "diff_keys": keys, "panic": pa, "tags": c09Tags(tags), "nt": true})
	c.w.Count("kind=EpochHookItems")
	c.nCase++
}

type assetsDW struct {
	chain  uint64
	action assetstypes.CrossChainOpType
	asset  []byte
	staker []byte
	amt    sdkmath.Int
}

func (d assetsDW) p() *assetskeeper.DepositWithdrawParams {
	return &assetskeeper.DepositWithdrawParams{ClientChainLzID: d.chain, Action: d.action, AssetsAddress: d.asset, StakerAddress: d.staker, OpAmount: d.amt}
}

// ---- suite ---------------------------------------------------------------------------------------------------

func runC09(a *Args) error {
	env := NewEnv(EnvCfg{ExtraAccs: 3})
	w := NewCaseWriter(a.Out)
	defer w.Close()
	rng := rand.New(rand.NewSource(a.Seed))
	c := &c09Env{env: env, rng: rng, w: w, usedSlash: map[string]bool{}}
	var err error
	if c.assetsPC, err = assetsprecompile.NewPrecompile(env.App.AssetsKeeper, env.App.AuthzKeeper); err != nil {
		return err
	}
	if c.delegPC, err = delegationprecompile.NewPrecompile(env.App.AssetsKeeper, env.App.DelegationKeeper, env.App.AuthzKeeper); err != nil {
		return err
	}
	if c.avsPC, err = avsprecompile.NewPrecompile(env.App.AVSManagerKeeper, env.App.AuthzKeeper); err != nil {
		return err
	}
	p, _ := env.App.AssetsKeeper.GetParams(env.Ctx)
	c.gateway = common.HexToAddress(p.ExocoreLzAppAddress)
	for i := 0; i < 4; i++ {
		_, ad := DetEthKey("c09staker", i)
		c.stakers = append(c.stakers, ad.Bytes())
	}
	c.assets = [][]byte{common.HexToAddress(env.AssetAddr).Bytes(), common.HexToAddress("0x1111111111111111111111111111111111111111").Bytes()}
	for _, o := range env.Operators {
		c.opStrs = append(c.opStrs, o.String())
	}
	_, un := DetEthKey("c09unregistered", 0)
	c.opStrs = append(c.opStrs, sdk.AccAddress(un.Bytes()).String())
	c.avsAddr = avstypes.GenerateAVSAddr(avstypes.ChainIDWithoutRevision(env.ChainID))
	// NST asset of client chain 101 (virtual address 0xee..ee), 18 decimals, as the gateway would register it
	nstAddr := assetstypes.GenerateNSTAddr(20)
	if err := env.App.AssetsKeeper.SetStakingAssetInfo(env.Ctx, &assetstypes.StakingAssetInfo{
		AssetBasicInfo:     assetstypes.AssetInfo{Name: "Native Restaking ETH", Symbol: "NSTETH", Address: hexutil.Encode(nstAddr), Decimals: 18, LayerZeroChainID: 101, MetaInfo: "nst"},
		StakingTotalAmount: sdkmath.NewInt(0)}); err != nil {
		return err
	}
	env.NextBlock(time.Second)

	eth := func(n int64) *big.Int {
		return new(big.Int).Mul(big.NewInt(n), new(big.Int).Exp(big.NewInt(10), big.NewInt(18), nil))
	}
	pub := func(i int) []byte { return c09Pad32(seedBytes("c09pub", i)) }
	gw := c.gateway
	st0, st1, st2 := c09Pad32(c.stakers[0]), c09Pad32(c.stakers[1]), c09Pad32(c.stakers[2])
	as0 := c09Pad32(c.assets[0])

	// ---- directed scenarios first (each one is the concrete failing path of a refuted model statement) ----
	// (1) NST: deposit 33 ETH (effective balance capped at 32), withdraw 32 (staker leaves the oracle list),
	//     withdraw 1: PerformDepositOrWithdraw succeeds, UpdateNSTValidatorListForStaker fails "remove unexist validator"
	c.doDepositWithdraw("DepositNST", nil, 101, gw, pub(1), st0, eth(33))
	c.doDepositWithdraw("WithdrawNST", nil, 101, gw, pub(1), st0, eth(32))
	c.doDepositWithdraw("WithdrawNST", []string{"kf-C09-nst-withdraw-partial"}, 101, gw, pub(1), st0, eth(1))
	// (2) registerToken with decimals 19: oracle token registered, then SetStakingAssetInfo rejects the decimals
	c.doRegisterToken([]string{"kf-C09-register-token-partial"}, 101, gw, c09Pad32(common.HexToAddress("0x2222222222222222222222222222222222222222").Bytes()), 19, "TKN19", "meta", "TKN19,Ethereum,8")
	// (3) Slash replay with the same slashID (fixed by F2), and proportion > 1 (rejected after the reduction)
	c.doDepositWithdraw("DepositLST", nil, 101, gw, as0, st1, big.NewInt(5_000_000))
	c.doDelegation("Delegate", nil, 101, gw, as0, st1, c.opStrs[0], big.NewInt(3_000_000), true)
	c.doSlash(nil, 0, "0x1_0x1", sdkmath.LegacyNewDecWithPrec(5, 2), 50, 1, true, true)
	c.doSlash([]string{"kf-C09-slash-duplicate-id"}, 0, "0x1_0x1", sdkmath.LegacyNewDecWithPrec(5, 2), 50, 1, true, false)
	c.doSlash([]string{"kf-C09-slash-proportion-gt1"}, 0, "0x1_0x2", sdkmath.LegacyNewDec(2), 50, 1, true, false)
	// (4) delegate more than withdrawable, to an unknown operator, undelegate more than delegated
	c.doDelegation("Delegate", nil, 101, gw, as0, st1, c.opStrs[0], big.NewInt(2_000_001), true)
	c.doDelegation("Delegate", nil, 101, gw, as0, st1, c.opStrs[len(c.opStrs)-1], big.NewInt(1), true)
	c.doDelegation("Undelegate", nil, 101, gw, as0, st1, c.opStrs[0], big.NewInt(3_000_001), true)
	c.doDelegation("Undelegate", nil, 101, gw, as0, st1, c.opStrs[0], big.NewInt(1_000_000), false)
	// the pool of operator 0 has been slashed (more than one share per token): the whole reported position can be
	// undelegated although its shares exceed the staker's shares by rounding dust; one unit more cannot
	if pos := c.position(as0, st1, c.opStrs[0]); pos != nil {
		c.doDelegation("Undelegate", nil, 101, gw, as0, st1, c.opStrs[0], new(big.Int).Add(pos, big.NewInt(1)), true)
		c.doDelegation("Undelegate", nil, 101, gw, as0, st1, c.opStrs[0], pos, true)
	}
	for i := 0; i < 6; i++ {
		c.doEndBlockItems(nil)
	}
	// operator epoch hook, one item per AVS: the failing AVS first in address order, then random subsets
	c.doEpochHookItems(true, nil)
	c.doEpochHookItems(true, nil)
	c.doEpochHookItems(false, nil)
	c.doEpochHookItems(false, nil)
	// (5) balance-change bitmap whose second staker is rejected after the first one has been updated
	c.doDepositWithdraw("DepositNST", nil, 101, gw, pub(2), st1, eth(32))
	c.doDepositWithdraw("DepositNST", nil, 101, gw, pub(3), st2, eth(32))
	{
		_, nstID := assetstypes.GetStakerIDAndAssetID(101, nil, assetstypes.GenerateNSTAddr(20))
		sl := env.App.OracleKeeper.GetStakerList(env.Ctx, nstID)
		if len(sl.StakerAddrs) >= 2 {
			raw := c09Bitmap(map[int]int{0: -2, 1: 3}, false)
			var facts c09Facts
			facts.seti("len.ok", 1)
			facts.seti("list.ok", 1)
			facts.seti("parse.ok", 1)
			facts.seti("fail.any", 1)
			facts.seti("fail.idx", 1)
			facts.seti("fail.moved", 1)
			res, classes, keys := c.observe(func(ctx sdk.Context) string {
				if err := env.App.OracleKeeper.UpdateNSTByBalanceChange(ctx.WithGasMeter(sdk.NewInfiniteGasMeter()), nstID, raw, 3); err != nil {
					return "fail"
				}
				return "ok"
			}, false)
			c.emit("NSTBalanceChange", map[string]string{"raw": hex.EncodeToString(raw), "changes": "staker0:-2 staker1:+3"}, facts, res, classes, keys, []string{"kf-C09-nst-balance-change-partial"})
		}
	}

	// (5b) single-fault sweeps: valid arguments with exactly one fault, so that every check of the four main entry
	//      points is the first one to fail at least once
	{
		foreign := env.AccAddrs[0]
		unreg := c.opStrs[len(c.opStrs)-1]
		good := big.NewInt(1000)
		c.doDepositWithdraw("DepositLST", nil, 101, gw, as0, st2, big.NewInt(4_000_000))
		c.doDelegation("Delegate", nil, 101, gw, as0, st2, c.opStrs[1], big.NewInt(2_000_000), true)
		for _, k := range []string{"DepositLST", "WithdrawLST"} {
			over := new(big.Int).Add(c.withdrawable(101, as0, st2), big.NewInt(1))
			if k == "DepositLST" {
				over = big.NewInt(0)
			}
			c.doDepositWithdraw(k, nil, 101, foreign, as0, st2, good)
			c.doDepositWithdraw(k, nil, 999, gw, as0, st2, good)
			c.doDepositWithdraw(k, nil, 101, gw, as0[:10], st2, good)
			c.doDepositWithdraw(k, nil, 101, gw, []byte{}, st2, good)
			c.doDepositWithdraw(k, nil, 101, gw, c09Pad32(c.assets[1]), st2, good)
			c.doDepositWithdraw(k, nil, 101, gw, as0, st2[:10], good)
			c.doDepositWithdraw(k, nil, 101, gw, as0, []byte{}, good)
			c.doDepositWithdraw(k, nil, 101, gw, as0, st2, big.NewInt(0))
			c.doDepositWithdraw(k, nil, 101, gw, as0, st2, over)
		}
		for _, k := range []string{"Delegate", "Undelegate"} {
			over := new(big.Int).Add(c.withdrawable(101, as0, st2), big.NewInt(1))
			if k == "Undelegate" {
				over = big.NewInt(2_000_001)
			}
			c.doDelegation(k, nil, 101, foreign, as0, st2, c.opStrs[1], good, true)
			c.doDelegation(k, nil, 999, gw, as0, st2, c.opStrs[1], good, true)
			c.doDelegation(k, nil, 101, gw, as0[:10], st2, c.opStrs[1], good, true)
			c.doDelegation(k, nil, 101, gw, c09Pad32(c.assets[1]), st2, c.opStrs[1], good, true)
			c.doDelegation(k, nil, 101, gw, as0, st2[:10], c.opStrs[1], good, true)
			c.doDelegation(k, nil, 101, gw, as0, c09Pad32(c.stakers[3]), c.opStrs[1], good, true)
			c.doDelegation(k, nil, 101, gw, as0, st2, unreg, good, true)
			c.doDelegation(k, nil, 101, gw, as0, st2, "exo1notanaddressnotanaddressnotanaddress00", good, true)
			c.doDelegation(k, nil, 101, gw, as0, st2, "exo1short", good, true)
			c.doDelegation(k, nil, 101, gw, as0, st2, c.opStrs[0], good, true) // other operator: no delegation to undelegate
			c.doDelegation(k, nil, 101, gw, as0, st2, c.opStrs[1], big.NewInt(0), true)
			c.doDelegation(k, nil, 101, gw, as0, st2, c.opStrs[1], over, true)
			if k == "Undelegate" {
				c.doDelegation(k, nil, 101, gw, as0, st2, c.opStrs[1], good, false)
			}
		}
	}
	// (5c) registerToken: one valid registration, then one fault at a time
	{
		tk := func(i int64) []byte { return c09Pad32(common.BigToAddress(big.NewInt(0x5000 + i)).Bytes()) }
		foreign := env.AccAddrs[0]
		c.doRegisterToken(nil, 101, gw, tk(0), 8, "SWEEP0", "meta", "SWEEP0,Ethereum,8")
		c.doRegisterToken(nil, 101, foreign, tk(1), 8, "SWEEP1", "meta", "SWEEP1,Ethereum,8")
		c.doRegisterToken(nil, 999, gw, tk(2), 8, "SWEEP2", "meta", "SWEEP2,Ethereum,8")
		c.doRegisterToken(nil, 101, gw, tk(3)[:10], 8, "SWEEP3", "meta", "SWEEP3,Ethereum,8")
		c.doRegisterToken(nil, 101, gw, tk(0), 8, "SWEEP4", "meta", "SWEEP4,Ethereum,8") // asset exists
		c.doRegisterToken(nil, 101, gw, tk(5), 19, "SWEEP5", "meta", "SWEEP5,Ethereum,8")
		c.doRegisterToken(nil, 101, gw, tk(6), 255, "SWEEP6", "meta", "SWEEP6,Ethereum,8")
		c.doRegisterToken(nil, 101, gw, tk(7), 8, "", "meta", "SWEEP7,Ethereum,8")
		c.doRegisterToken(nil, 101, gw, tk(8), 8, strings.Repeat("n", 60), "meta", "SWEEP8,Ethereum,8")
		c.doRegisterToken(nil, 101, gw, tk(9), 8, "SWEEP9", "", "SWEEP9,Ethereum,8")
		c.doRegisterToken(nil, 101, gw, tk(10), 8, "SWEEP10", "meta", "SWEEP10")
		c.doRegisterToken(nil, 101, gw, tk(11), 8, "SWEEP11", "meta", "SWEEP11,Ethereum,x")
		c.doRegisterToken(nil, 101, gw, tk(12), 8, "SWEEP12", "meta", "SWEEP12,Ethereum,8,-3")
		c.doRegisterToken(nil, 101, gw, tk(13), 18, "SWEEP13", "meta", "SWEEP13,NewChain,8,0,0xabc")
	}
	// (6) AVS precompile, deterministic: life cycle + single-fault sweeps so that EVERY fallible check of registerAVS,
	//     registerOperatorToAVS, deregisterOperatorFromAVS, createTask and deregisterAVS is the only failing one at
	//     least once (valid arguments, exactly one fault), in particular the checks that FOLLOW a write or a counter
	avsOpt := func(o c09AVSOpt) { c.avsOpt = o }
	with := func(f func(o *c09AVSOpt)) c09AVSOpt { o := c09NoAVSOpt; f(&o); return o }
	c.doAVSx(true, 0, 0, -1) // AVS 0 (min self delegation 0)
	avsOpt(with(func(o *c09AVSOpt) { o.minSelf = 1_000_000_000 }))
	c.doAVSx(true, 0, 2, -1) // AVS 2 with a minimum self delegation nobody meets
	c.doAVSx(true, 0, 0, -1) // already registered
	for f := 0; f < 9; f++ {
		c.doAVSx(false, 0, 1, f) // one fault at a time on a fresh AVS contract
	}
	// createTask while the AVS has no voting power yet (AVS 0: operators not opted in; AVS 2: never)
	c.doAVSx(true, 4, 0, -1)
	c.doAVSx(true, 4, 2, -1)
	// registerOperatorToAVS
	avsOpt(with(func(o *c09AVSOpt) { o.op = 0 }))
	c.doAVSx(true, 2, 0, -1) // operator 0 opts into AVS 0
	avsOpt(with(func(o *c09AVSOpt) { o.op = 0 }))
	c.doAVSx(true, 2, 0, -1) // already opted in
	avsOpt(with(func(o *c09AVSOpt) { o.op = 1 }))
	c.doAVSx(true, 2, 2, -1) // below the AVS's minimum self delegation
	avsOpt(with(func(o *c09AVSOpt) { o.op = 2 }))
	c.doAVSx(true, 2, 0, -1) // not an operator
	avsOpt(with(func(o *c09AVSOpt) { o.op = 3 }))
	c.doAVSx(true, 2, 0, -1) // zero address
	avsOpt(with(func(o *c09AVSOpt) { o.op = 1 }))
	c.doAVSx(true, 2, 5, -1) // AVS contract that is not registered
	avsOpt(with(func(o *c09AVSOpt) { o.op = 1 }))
	c.doAVSx(true, 2, 0, -1) // operator 1 opts into AVS 0
	func() {
		defer func() { _ = recover() }()
		_ = env.App.OperatorKeeper.UpdateVotingPower(env.Ctx, c09AVSContracts[0].String())
	}()
	// createTask: every check alone, then a valid one
	avsOpt(with(func(o *c09AVSOpt) { o.sender = 1 }))
	c.doAVSx(true, 4, 0, -1) // zero sender
	avsOpt(with(func(o *c09AVSOpt) { o.emptyName = true }))
	c.doAVSx(true, 4, 0, -1) // empty task name
	avsOpt(with(func(o *c09AVSOpt) { o.sender = 2 }))
	c.doAVSx(true, 4, 0, -1) // sender is not an owner of the AVS
	c.doAVSx(true, 4, 5, -1) // the calling contract is no AVS's task address
	c.doAVSx(true, 4, 2, -1) // AVS without voting power
	c.doAVSx(true, 4, 0, -1) // valid
	c.doAVSx(true, 4, 0, -1) // valid again (next task id)
	// deregisterOperatorFromAVS
	avsOpt(with(func(o *c09AVSOpt) { o.op = 3 }))
	c.doAVSx(true, 3, 0, -1)
	avsOpt(with(func(o *c09AVSOpt) { o.op = 2 }))
	c.doAVSx(true, 3, 0, -1)
	avsOpt(with(func(o *c09AVSOpt) { o.op = 1 }))
	c.doAVSx(true, 3, 2, -1) // not opted into AVS 2
	avsOpt(with(func(o *c09AVSOpt) { o.op = 1 }))
	c.doAVSx(true, 3, 5, -1) // unregistered AVS
	avsOpt(with(func(o *c09AVSOpt) { o.op = 1 }))
	c.doAVSx(true, 3, 0, -1) // valid
	// deregisterAVS
	avsOpt(with(func(o *c09AVSOpt) { o.sender = 1 }))
	c.doAVSx(true, 1, 2, -1)
	avsOpt(with(func(o *c09AVSOpt) { o.emptyName = true }))
	c.doAVSx(true, 1, 2, -1)
	avsOpt(with(func(o *c09AVSOpt) { o.sender = 2 }))
	c.doAVSx(true, 1, 2, -1)
	avsOpt(with(func(o *c09AVSOpt) { o.wrongName = true }))
	c.doAVSx(true, 1, 2, -1)
	c.doAVSx(true, 1, 5, -1) // unregistered AVS
	c.doAVSx(true, 1, 2, -1) // valid

	// ---- random stream ----
	for c.nCase < a.N {
		if rng.Intn(25) == 0 {
			env.NextBlock(time.Duration(1+rng.Intn(5)) * time.Second)
			w.Count("blocks")
		}
		chain := c.pickChain()
		caller := c.pickCaller()
		st := c.pickAddr(c.stakers)
		as := c.pickAddr(c.assets)
		switch k := rng.Intn(120); {
		case k < 12:
			c.doDepositWithdraw("DepositLST", nil, chain, caller, as, st, c.pickAmount(big.NewInt(int64(rng.Intn(9_000_000)))))
		case k < 24:
			c.doDepositWithdraw("WithdrawLST", nil, chain, caller, as, st, c.pickAmount(c.withdrawable(101, as, st)))
		case k < 32:
			amt := []*big.Int{eth(32), eth(33), eth(1), eth(64), big.NewInt(5), eth(31)}[rng.Intn(6)]
			c.doDepositWithdraw("DepositNST", nil, chain, caller, pub(rng.Intn(4)), st, amt)
		case k < 42:
			amt := []*big.Int{eth(32), eth(1), eth(31), eth(33), big.NewInt(7)}[rng.Intn(5)]
			if rng.Intn(3) == 0 && len(st) >= 20 {
				amt = c.pickAmount(c.withdrawable(101, c09Pad32(assetstypes.GenerateNSTAddr(20)), st))
			}
			c.doDepositWithdraw("WithdrawNST", nil, chain, caller, pub(rng.Intn(4)), st, amt)
		case k < 56:
			if len(c.deposits) > 0 && rng.Intn(10) < 6 {
				d := c.deposits[rng.Intn(len(c.deposits))]
				as, st = d[0], d[1]
				if rng.Intn(6) != 0 {
					chain, caller = 101, c.gateway
				}
			}
			c.doDelegation("Delegate", nil, chain, caller, as, st, c.pickOp(), c.pickAmount(c.withdrawable(101, as, st)), true)
		case k < 70:
			op := c.pickOp()
			if len(c.delegs) > 0 && rng.Intn(10) < 7 {
				d := c.delegs[rng.Intn(len(c.delegs))]
				as, st, op = d.as, d.st, d.op
				if rng.Intn(6) != 0 {
					chain, caller = 101, c.gateway
				}
			}
			base := big.NewInt(1_000_000)
			if acc, err := sdk.AccAddressFromBech32(op); err == nil && len(st) >= 20 && len(as) >= 20 {
				if dl, err := env.App.DelegationKeeper.GetSingleDelegationInfo(env.Ctx, c.stakerID(101, st[:20]), c.assetID(101, as[:20]), acc.String()); err == nil {
					base = new(big.Int).Quo(c09Dec(dl.UndelegatableShare), big.NewInt(1_000_000_000_000_000_000))
				}
			}
			if pos := c.position(as, st, op); pos != nil && rng.Intn(3) == 0 {
				base = new(big.Int).Add(pos, big.NewInt(int64(rng.Intn(3)-1)))
				c.doDelegation("Undelegate", nil, chain, caller, as, st, op, base, true)
			} else {
				c.doDelegation("Undelegate", nil, chain, caller, as, st, op, c.pickAmount(base), rng.Intn(12) != 0)
			}
		case k < 76:
			c.doAssociate(nil, chain, caller, st, c.pickOp(), false)
		case k < 80:
			c.doAssociate(nil, chain, caller, st, c.opStrs[0], true)
		case k < 85:
			c.tokenSeq++
			tok := c09Pad32(common.BigToAddress(big.NewInt(int64(0x3000 + c.tokenSeq%6))).Bytes())
			if rng.Intn(4) == 0 {
				tok = as
			}
			dec := []uint8{6, 18, 19, 0, 255, 8}[rng.Intn(6)]
			name := []string{"TOK", "", strings.Repeat("n", 60), fmt.Sprintf("T%d", c.tokenSeq)}[rng.Intn(4)]
			oi := []string{fmt.Sprintf("T%d,Ethereum,8", c.tokenSeq), "x", fmt.Sprintf("T%d,Ethereum,notanumber", c.tokenSeq), fmt.Sprintf("T%d,Ethereum,8,abc", c.tokenSeq), fmt.Sprintf("T%d,ChainX,8,20", c.tokenSeq), "ETH,Ethereum,8"}[rng.Intn(6)]
			c.doRegisterToken(nil, chain, caller, tok, dec, name, "meta", oi)
		case k < 88:
			meta := []string{fmt.Sprintf("new meta %d", c.nCase), "", strings.Repeat("m", 300)}[rng.Intn(3)]
			c.doUpdateToken(chain, caller, as, meta)
		case k < 91:
			c.chainSeq++
			c.doRegisterClientChain(2000+c.chainSeq%3, caller, []uint8{20, 0, 5, 32}[rng.Intn(4)], []string{fmt.Sprintf("chain%d", c.nCase), "", strings.Repeat("c", 60)}[rng.Intn(3)], "meta")
		case k < 94:
			c.slashSeq++
			id := fmt.Sprintf("0x1_0x%x", 16+c.slashSeq)
			if rng.Intn(3) == 0 {
				id = "0x1_0x1"
			}
			prop := []sdkmath.LegacyDec{sdkmath.LegacyNewDecWithPrec(1, 2), sdkmath.LegacyNewDec(-1), {}, sdkmath.LegacyNewDec(3), sdkmath.LegacyNewDecWithPrec(5, 1)}[rng.Intn(5)]
			c.doSlash(nil, rng.Intn(len(env.Operators)), id, prop, []int64{10, 0, -1, 100}[rng.Intn(4)], []int64{1, env.Ctx.BlockHeight(), env.Ctx.BlockHeight() + 5}[rng.Intn(3)], rng.Intn(5) != 0, rng.Intn(3) == 0)
		case k < 96:
			if rng.Intn(2) == 0 {
				c.doOperatorTx()
			} else {
				c.doOperatorMsg(rng.Intn(2))
			}
		case k < 99:
			c.doNSTBalanceChange(nil)
		case k < 119 && k >= 112:
			c.doOperatorTx()
		case k < 112:
			c.doAVS(rng.Intn(2) == 0)
			if rng.Intn(4) == 0 {
				// let voting power of the registered AVSs become active, as the operator epoch hook does
				for _, a := range c09AVSContracts {
					if ok, _ := env.App.AVSManagerKeeper.IsAVS(env.Ctx, a.String()); ok {
						func() {
							defer func() { _ = recover() }()
							_ = env.App.OperatorKeeper.UpdateVotingPower(env.Ctx, a.String())
						}()
					}
				}
			}
		default:
			if rng.Intn(2) == 0 {
				c.doEpochHookItems(rng.Intn(2) == 0, nil)
			} else {
				c.doEndBlockItems(nil)
			}
		}
	}
	return nil
}
