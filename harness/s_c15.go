package main

// Suite c15: the epoch clock. Runs the REAL x/epochs keeper (AddEpochInfo via InitGenesis, BeginBlocker,
// MultiEpochHooks fan-out) on generated configurations and block-time sequences, and records, per block,
// every hook invocation (kind, identifier, number, subscriber index) and the stored epoch infos.
// The subscriber order of the real application is read by reflection from app.EpochsKeeper.Hooks().

import (
	"fmt"
	"math/big"
	"math/rand"
	"reflect"
	"strings"
	"time"

	"github.com/cosmos/cosmos-sdk/store/prefix"
	sdk "github.com/cosmos/cosmos-sdk/types"

	epochskeeper "github.com/ExocoreNetwork/exocore/x/epochs/keeper"
	epochstypes "github.com/ExocoreNetwork/exocore/x/epochs/types"
)

func init() { register("c15", runC15) }

type c15Event struct {
	Kind string `json:"kind"` // "end" | "start"
	ID   string `json:"id"`
	Num  int64  `json:"num"`
	Sub  int    `json:"sub"`
}

type c15Rec struct {
	idx int
	log *[]c15Event
}

func (r c15Rec) AfterEpochEnd(_ sdk.Context, id string, n int64) {
	*r.log = append(*r.log, c15Event{"end", id, n, r.idx})
}

func (r c15Rec) BeforeEpochStart(_ sdk.Context, id string, n int64) {
	*r.log = append(*r.log, c15Event{"start", id, n, r.idx})
}

func timeZ(t time.Time) *big.Int {
	z := new(big.Int).Mul(big.NewInt(t.Unix()), big.NewInt(1_000_000_000))
	return z.Add(z, big.NewInt(int64(t.Nanosecond())))
}

type c15Info struct {
	ID        string `json:"id"`
	Start     string `json:"start"`
	Dur       int64  `json:"dur"`
	Cur       int64  `json:"cur"`
	CurStart  string `json:"cur_start"`
	Started   bool   `json:"started"`
	CurHeight int64  `json:"cur_height"`
}

func c15InfoOf(ei epochstypes.EpochInfo) c15Info {
	return c15Info{ei.Identifier, timeZ(ei.StartTime).String(), int64(ei.Duration), ei.CurrentEpoch,
		timeZ(ei.CurrentEpochStartTime).String(), ei.EpochCountingStarted, ei.CurrentEpochStartHeight}
}

func (i c15Info) coq() string {
	return cApp("mkEI", cStr(i.ID), cZstr(i.Start), cZ(i.Dur), cZ(i.Cur), cZstr(i.CurStart), cBool(i.Started), cZ(i.CurHeight))
}

func c15Infos(xs []c15Info) string {
	ss := make([]string, len(xs))
	for i, x := range xs {
		ss[i] = x.coq()
	}
	return cList(ss)
}

func c15Events(xs []c15Event) string {
	ss := make([]string, len(xs))
	for i, x := range xs {
		k := "EvEnd"
		if x.Kind == "start" {
			k = "EvStart"
		}
		ss[i] = cApp("mkEv", k, cStr(x.ID), cZ(x.Num), cNat(x.Sub))
	}
	return cList(ss)
}

type c15Block struct {
	Height int64      `json:"height"`
	Time   string     `json:"time"`
	Events []c15Event `json:"events"`
	Infos  []c15Info  `json:"infos"`
}

type c15Case struct {
	Suite     string     `json:"suite"`
	Subs      []string   `json:"subscribers"`
	GenHeight int64      `json:"gen_height"`
	GenTime   string     `json:"gen_time"`
	Genesis   []c15Info  `json:"genesis"`
	Inject    []c15Info  `json:"injected"`
	AfterGen  []c15Info  `json:"after_genesis"`
	Blocks    []c15Block `json:"blocks"`
}

// c15Subs reads the subscriber order of the real application by reflection on app.EpochsKeeper.Hooks().
func c15Subs(env *Env) []string {
	var subs []string
	if mh, ok := env.App.EpochsKeeper.Hooks().(epochstypes.MultiEpochHooks); ok {
		for _, h := range mh {
			p := reflect.TypeOf(h).PkgPath()
			p = strings.TrimPrefix(p, "github.com/ExocoreNetwork/exocore/x/")
			p = strings.TrimSuffix(p, "/keeper")
			subs = append(subs, p)
		}
	} else {
		subs = []string{"<not-multi:" + reflect.TypeOf(env.App.EpochsKeeper.Hooks()).String() + ">"}
	}
	return subs
}

// c15Branch names the branch of the model's tick that a block at time t exercises for entry ei
// (input distribution only; nothing is decided with it).
func c15Branch(ei epochstypes.EpochInfo, t time.Time) string {
	if ei.Validate() != nil {
		return "invalid"
	}
	if t.Before(ei.StartTime) {
		if ei.EpochCountingStarted && t.After(ei.CurrentEpochStartTime.Add(ei.Duration)) {
			return "held(started,t<start,t>end)"
		}
		if t.Add(1).Equal(ei.StartTime) {
			return "before-start(-1ns)"
		}
		return "before-start"
	}
	if !ei.EpochCountingStarted {
		if t.Equal(ei.StartTime) {
			return "first(t=start)"
		}
		return "first(t>start)"
	}
	end := ei.CurrentEpochStartTime.Add(ei.Duration)
	switch {
	case t.Equal(end):
		return "stay(t=end)"
	case t.Before(end):
		if t.Add(1).Equal(end) {
			return "stay(t=end-1ns)"
		}
		return "stay(t<end)"
	case t.Equal(end.Add(1)):
		return "advance(t=end+1ns)"
	case t.After(end.Add(ei.Duration)):
		return "advance(behind>=1 epoch,catch-up)"
	default:
		return "advance(t>end)"
	}
}

func runC15(a *Args) error {
	env := NewEnv(EnvCfg{})
	w := NewCaseWriter(a.Out)
	defer w.Close()
	rng := rand.New(rand.NewSource(a.Seed))

	// subscriber order of the real application
	subs := c15Subs(env)
	subsC := make([]string, len(subs))
	for i, s := range subs {
		subsC[i] = cStr(s)
	}

	storeKey := env.App.GetKey(epochstypes.StoreKey)
	base := time.Date(2024, 3, 1, 12, 0, 0, 0, time.UTC)
	idPool := []string{"day", "hour", "minute", "week", "a", "ab", "b", "zz", "epoch-x", "Day"}
	durPool := []time.Duration{1, 2, 7, time.Second, 3 * time.Second, time.Minute, time.Hour, 24 * time.Hour, 1_000_000_007}

	for c := 0; c < a.N; c++ {
		ctx, _ := env.Ctx.CacheContext()
		// wipe whatever the app's genesis put there so the case controls the whole configuration
		st := prefix.NewStore(ctx.KVStore(storeKey), epochstypes.KeyPrefixEpoch)
		it := st.Iterator(nil, nil)
		var keys [][]byte
		for ; it.Valid(); it.Next() {
			keys = append(keys, append([]byte{}, it.Key()...))
		}
		it.Close()
		for _, k := range keys {
			st.Delete(k)
		}

		var log []c15Event
		k := epochskeeper.NewKeeper(env.App.AppCodec(), storeKey)
		recs := make([]epochstypes.EpochHooks, len(subs))
		for i := range subs {
			recs[i] = c15Rec{i, &log}
		}
		k.SetHooks(epochstypes.NewMultiEpochHooks(recs...))

		genHeight := int64(rng.Intn(3)) // 0,1,2
		genTime := base.Add(time.Duration(rng.Intn(5)) * time.Second)
		nIDs := 1 + rng.Intn(4)
		var gen []epochstypes.EpochInfo
		var maxDur time.Duration
		for i := 0; i < nIDs; i++ {
			id := idPool[rng.Intn(len(idPool))]
			dur := durPool[rng.Intn(len(durPool))]
			if rng.Intn(12) == 0 {
				dur = time.Duration(rng.Int63n(5_000_000_000) + 1)
			}
			ei := epochstypes.NewGenesisEpochInfo(id, dur)
			switch rng.Intn(10) {
			case 0, 1, 2: // zero start time -> filled with block time
				w.Count("gen.start=zero")
			case 3, 4: // future start
				ei.StartTime = genTime.Add(time.Duration(rng.Int63n(int64(3*dur) + 5)))
				w.Count("gen.start=future")
			case 5, 6: // past start
				ei.StartTime = genTime.Add(-time.Duration(rng.Int63n(int64(3*dur) + 5)))
				w.Count("gen.start=past")
			case 7: // exactly now
				ei.StartTime = genTime
				w.Count("gen.start=now")
			default: // mid-count entry, as an exported genesis would contain
				ei.StartTime = genTime.Add(-time.Duration(rng.Int63n(int64(5*dur) + 5)))
				ei.EpochCountingStarted = true
				ei.CurrentEpoch = 1 + rng.Int63n(40)
				ei.CurrentEpochStartTime = ei.StartTime.Add(time.Duration(ei.CurrentEpoch-1) * dur)
				ei.CurrentEpochStartHeight = rng.Int63n(3)
				w.Count("gen.midcount")
				if rng.Intn(4) == 0 {
					// a started entry whose StartTime is still ahead and whose current-epoch start time is arbitrary:
					// BeginBlocker must hold it until StartTime even though "now > current start + duration"
					ei.StartTime = genTime.Add(time.Duration(rng.Int63n(int64(3*dur) + 5)))
					ei.CurrentEpochStartTime = genTime.Add(-time.Duration(rng.Int63n(int64(3*dur) + 5)))
					w.Count("gen.midcount-future-start")
				}
			}
			switch rng.Intn(40) {
			case 0:
				ei.Duration = 0
				w.Count("gen.invalid")
			case 1:
				ei.CurrentEpoch = -1
				w.Count("gen.invalid")
			case 2:
				ei.Identifier = ""
				w.Count("gen.invalid")
			case 3:
				ei.CurrentEpochStartHeight = -2
				w.Count("gen.invalid")
			}
			if ei.Duration > maxDur {
				maxDur = ei.Duration
			}
			gen = append(gen, ei)
		}
		gctx := ctx.WithBlockHeight(genHeight).WithBlockTime(genTime)
		k.InitGenesis(gctx, epochstypes.GenesisState{Epochs: gen})

		cs := c15Case{Suite: "c15", Subs: subs, GenHeight: genHeight, GenTime: timeZ(genTime).String()}
		for _, g := range gen {
			cs.Genesis = append(cs.Genesis, c15InfoOf(g))
		}
		// now and then write an entry that FAILS Validate straight into the store (AddEpochInfo would reject it),
		// so that BeginBlocker's "validation failed, skipping" branch is exercised; sometimes over an existing key
		if rng.Intn(6) == 0 {
			id := idPool[rng.Intn(len(idPool))]
			bad := epochstypes.NewGenesisEpochInfo(id, durPool[rng.Intn(len(durPool))])
			bad.StartTime = genTime.Add(-time.Duration(rng.Int63n(int64(5 * time.Second))))
			if rng.Intn(2) == 0 {
				bad.EpochCountingStarted = true
				bad.CurrentEpoch = 1 + rng.Int63n(9)
				bad.CurrentEpochStartTime = bad.StartTime
			}
			switch rng.Intn(4) {
			case 0:
				bad.Duration = 0
			case 1:
				bad.Duration = -time.Duration(1 + rng.Int63n(1000))
			case 2:
				bad.CurrentEpoch = -1 - rng.Int63n(5)
			default:
				bad.CurrentEpochStartHeight = -1 - rng.Int63n(5)
			}
			st.Set([]byte(bad.Identifier), env.App.AppCodec().MustMarshal(&bad))
			cs.Inject = append(cs.Inject, c15InfoOf(bad))
			w.Count("gen.injected-invalid")
		}
		for _, ei := range k.AllEpochInfos(gctx) {
			cs.AfterGen = append(cs.AfterGen, c15InfoOf(ei))
		}

		nBlocks := 3 + rng.Intn(28)
		t := genTime
		h := genHeight
		var blocksC []string
		// pick one identifier to aim boundary-exact times at
		for b := 0; b < nBlocks; b++ {
			h++
			var step time.Duration
			switch rng.Intn(10) {
			case 0:
				step = 0
				w.Count("step=0")
			case 1, 2:
				step = time.Duration(rng.Int63n(int64(maxDur)/2 + 2))
				w.Count("step=sub")
			case 3, 4:
				step = time.Duration(rng.Int63n(4*int64(maxDur) + 2))
				w.Count("step=multi")
			case 5, 6, 7:
				// land exactly on / one ns around the end of some identifier's current epoch
				infos := k.AllEpochInfos(ctx)
				if len(infos) > 0 {
					ei := infos[rng.Intn(len(infos))]
					var target time.Time
					if ei.EpochCountingStarted {
						target = ei.CurrentEpochStartTime.Add(ei.Duration)
					} else {
						target = ei.StartTime
					}
					target = target.Add(time.Duration(rng.Intn(3) - 1))
					if target.Before(t) {
						step = 0
					} else {
						step = target.Sub(t)
					}
					w.Count("step=boundary")
				}
			default:
				step = time.Duration(rng.Int63n(int64(maxDur) + 2))
				w.Count("step=dur")
			}
			t = t.Add(step)
			log = nil
			bctx := ctx.WithBlockHeight(h).WithBlockTime(t)
			for _, ei := range k.AllEpochInfos(bctx) {
				w.Count("branch=" + c15Branch(ei, t))
			}
			k.BeginBlocker(bctx)
			blk := c15Block{Height: h, Time: timeZ(t).String(), Events: append([]c15Event{}, log...)}
			for _, ei := range k.AllEpochInfos(bctx) {
				blk.Infos = append(blk.Infos, c15InfoOf(ei))
			}
			cs.Blocks = append(cs.Blocks, blk)
			w.CountN("events", len(log))
			blocksC = append(blocksC, cApp("mkBlk", cZ(blk.Height), cZstr(blk.Time), c15Events(blk.Events), c15Infos(blk.Infos)))
		}
		term := cApp("mkCase", cList(subsC), cZ(genHeight), cZstr(cs.GenTime), c15Infos(cs.Genesis), c15Infos(cs.Inject), c15Infos(cs.AfterGen), cList(blocksC))
		w.Add(term, cs)
		w.Count(fmt.Sprintf("ids=%d", nIDs))
	}
	return nil
}
