package main

// Suites c03 / c01: the restaking ledger. Drives the REAL keepers of a real ExocoreApp:
//   AssetsKeeper.PerformDepositOrWithdraw, DelegationKeeper.DelegateTo / UndelegateFrom (with the real dogfood
//   AfterUndelegationStarted hook), OperatorKeeper.Slash, DelegationKeeper.Increment/DecrementUndelegationHoldCount
//   (the "AVS hold"), DelegationKeeper.EndBlock, and genesis loading of a pending undelegation
//   (PerformDepositOrWithdraw + UpdateStakerAssetState + UpdateOperatorAssetState + UpdateDelegationState +
//   delegation InitGenesis). Every entry point runs in a cache context that is written only on success (the
//   message-server mode of DESIGN 2.1). After every op the raw assets and delegation stores are dumped (all
//   prefixes incl. the three undelegation indexes and the hold counts) and the CHANGES w.r.t. the previous dump are
//   written into the case; the Coq side rebuilds the implementation's states from them.

import (
	"encoding/binary"
	"fmt"
	"math/big"
	"math/rand"
	"sort"
	"strings"

	sdkmath "cosmossdk.io/math"
	abci "github.com/cometbft/cometbft/abci/types"
	"github.com/cosmos/cosmos-sdk/store/prefix"
	sdk "github.com/cosmos/cosmos-sdk/types"
	"github.com/ethereum/go-ethereum/common"
	authtypes "github.com/cosmos/cosmos-sdk/x/auth/types"
	"github.com/ExocoreNetwork/exocore/utils"

	assetskeeper "github.com/ExocoreNetwork/exocore/x/assets/keeper"
	assetstypes "github.com/ExocoreNetwork/exocore/x/assets/types"
	avstypes "github.com/ExocoreNetwork/exocore/x/avs/types"
	delegationtypes "github.com/ExocoreNetwork/exocore/x/delegation/types"
	operatortypes "github.com/ExocoreNetwork/exocore/x/operator/types"
)

func init() { register("c03", func(a *Args) error { return c03Run(a, "c03") }) }

// ---- world -----------------------------------------------------------------------------------

type c03World struct {
	env       *Env
	stakers   [][]byte
	stakerIDs []string
	ops       []sdk.AccAddress
	opStrs    []string
	nVals     int
	assets    [][]byte
	assetIDs  []string
	avs       string
	names     []c03Name // long identifier -> short Coq variable
	// native token: bank-funded accounts as stakers (staker id hex(addr)_0x0), the escrow module account
	natAccs   [][]byte
	natIDs    []string
	natAddr   []byte
	natID     string
	poolAddr  sdk.AccAddress
}

type c03Name struct{ long, short string }

func c03NewWorld() *c03World {
	env := NewEnv(EnvCfg{Operators: []OperatorCfg{{Deposit: 101}, {Deposit: 100}, {Deposit: 0}}, ExtraAccs: 3})
	w := &c03World{env: env, nVals: 2}
	w.avs = avstypes.GenerateAVSAddr(avstypes.ChainIDWithoutRevision(env.ChainID))
	for i, o := range env.Operators {
		w.ops = append(w.ops, o)
		w.opStrs = append(w.opStrs, o.String())
		w.names = append(w.names, c03Name{o.String(), fmt.Sprintf("o%d", i)})
	}
	usdt := common.HexToAddress(env.AssetAddr).Bytes()
	usdc := common.HexToAddress("0xa0b86991c6218b36c1d19d4a2e9eb0ce3606eb48").Bytes()
	w.assets = [][]byte{usdt, usdc}
	// second LST (the oracle genesis of NewEnv already carries a price for it)
	err := env.App.AssetsKeeper.SetStakingAssetInfo(env.Ctx, &assetstypes.StakingAssetInfo{
		AssetBasicInfo: assetstypes.AssetInfo{Name: "USD Coin", Symbol: "USDC", Address: "0xa0b86991c6218b36c1d19d4a2e9eb0ce3606eb48",
			Decimals: 6, LayerZeroChainID: 101, MetaInfo: "second LST"},
		StakingTotalAmount: sdkmath.ZeroInt(),
	})
	if err != nil {
		panic(err)
	}
	for i, a := range w.assets {
		_, id := assetstypes.GetStakerIDAndAssetID(101, nil, a)
		w.assetIDs = append(w.assetIDs, id)
		w.names = append(w.names, c03Name{id, fmt.Sprintf("a%d", i)})
	}
	for i := 0; i < 4; i++ {
		_, addr := DetEthKey("staker", i)
		w.stakers = append(w.stakers, addr.Bytes())
		id, _ := assetstypes.GetStakerIDAndAssetID(101, addr.Bytes(), nil)
		w.stakerIDs = append(w.stakerIDs, id)
		w.names = append(w.names, c03Name{id, fmt.Sprintf("s%d", i)})
	}
	// native token: registered as a staking asset (as on a real chain, where the slash USD value needs its decimals)
	w.natAddr = common.HexToAddress(assetstypes.ExocoreAssetAddr).Bytes()
	w.natID = assetstypes.ExocoreAssetID
	if err := env.App.AssetsKeeper.SetStakingAssetInfo(env.Ctx, &assetstypes.StakingAssetInfo{
		AssetBasicInfo: assetstypes.AssetInfo{Name: "Exocore native token", Symbol: "EXO", Address: assetstypes.ExocoreAssetAddr,
			Decimals: 6, LayerZeroChainID: assetstypes.ExocoreChainLzID, MetaInfo: "native token"},
		StakingTotalAmount: sdkmath.ZeroInt(),
	}); err != nil {
		panic(err)
	}
	w.names = append(w.names, c03Name{w.natID, "an"})
	for i := 0; i < 3 && i < len(env.AccAddrs); i++ {
		b := env.AccAddrs[i].Bytes()
		w.natAccs = append(w.natAccs, b)
		id, _ := assetstypes.GetStakerIDAndAssetID(assetstypes.ExocoreChainLzID, b, nil)
		w.natIDs = append(w.natIDs, id)
		w.names = append(w.names, c03Name{id, fmt.Sprintf("n%d", i)})
	}
	w.poolAddr = authtypes.NewModuleAddress(delegationtypes.DelegatedPoolName)
	// the genesis operators' own staker ids appear in the initial dump
	for i, o := range env.Operators {
		id, _ := assetstypes.GetStakerIDAndAssetID(101, o.Bytes(), nil)
		w.names = append(w.names, c03Name{id, fmt.Sprintf("g%d", i)})
	}
	return w
}

// cS renders a string as a Coq expression, replacing the long identifiers by let-bound variables.
func (w *c03World) cS(s string, extra []c03Name) string {
	var parts []string
	lit := func(x string) {
		if x != "" {
			parts = append(parts, strings.TrimSuffix(cStr(x), "%string"))
		}
	}
	rest := s
	cur := ""
	for len(rest) > 0 {
		matched := false
		if rest[0] == '0' || rest[0] == 'e' {
			for _, n := range append(w.names, extra...) {
				if strings.HasPrefix(rest, n.long) {
					lit(cur)
					cur = ""
					parts = append(parts, n.short)
					rest = rest[len(n.long):]
					matched = true
					break
				}
			}
		}
		if !matched {
			cur += rest[:1]
			rest = rest[1:]
		}
	}
	lit(cur)
	if len(parts) == 0 {
		return "\"\""
	}
	if len(parts) == 1 {
		return parts[0]
	}
	return "(" + strings.Join(parts, " ++ ") + ")"
}

// ---- raw dump --------------------------------------------------------------------------------

const (
	c03Sa = iota
	c03Oa
	c03Tot
	c03Dg
	c03Sl
	c03Ur
	c03Sidx
	c03Pidx
	c03Hold
	c03Bank
	c03NStores
)

var c03Ctor = [c03NStores]string{"CSa", "COa", "CTot", "CDg", "CSl", "CUr", "CSidx", "CPidx", "CHold", "CBank"}

// value terms are kept as closures over the name table so they can be printed with abbreviations
type c03Dump [c03NStores]map[string]string

func (w *c03World) dump(ctx sdk.Context, extra []c03Name) c03Dump {
	var d c03Dump
	for i := range d {
		d[i] = map[string]string{}
	}
	app := w.env.App
	cdc := app.AppCodec()
	ak := ctx.KVStore(app.GetKey(assetstypes.StoreKey))
	dk := ctx.KVStore(app.GetKey(delegationtypes.StoreKey))
	iter := func(st sdk.KVStore, pfx []byte, f func(k, v []byte)) {
		it := sdk.KVStorePrefixIterator(prefix.NewStore(st, pfx), nil)
		defer it.Close()
		for ; it.Valid(); it.Next() {
			f(it.Key(), it.Value())
		}
	}
	S := func(s string) string { return w.cS(s, extra) }
	iter(ak, assetstypes.KeyPrefixReStakerAssetInfos, func(k, v []byte) {
		var x assetstypes.StakerAssetInfo
		cdc.MustUnmarshal(v, &x)
		d[c03Sa][string(k)] = cApp("mkSA", cZbig(x.TotalDepositAmount.BigInt()), cZbig(x.WithdrawableAmount.BigInt()), cZbig(x.PendingUndelegationAmount.BigInt()))
	})
	iter(ak, assetstypes.KeyPrefixOperatorAssetInfos, func(k, v []byte) {
		var x assetstypes.OperatorAssetInfo
		cdc.MustUnmarshal(v, &x)
		d[c03Oa][string(k)] = cApp("mkOA", cZbig(x.TotalAmount.BigInt()), cZbig(x.PendingUndelegationAmount.BigInt()), cZbig(x.TotalShare.BigInt()), cZbig(x.OperatorShare.BigInt()))
	})
	iter(ak, assetstypes.KeyPrefixReStakingAssetInfo, func(k, v []byte) {
		var x assetstypes.StakingAssetInfo
		cdc.MustUnmarshal(v, &x)
		d[c03Tot][string(k)] = cZbig(x.StakingTotalAmount.BigInt())
	})
	iter(dk, delegationtypes.KeyPrefixRestakerDelegationInfo, func(k, v []byte) {
		var x delegationtypes.DelegationAmounts
		cdc.MustUnmarshal(v, &x)
		d[c03Dg][string(k)] = cApp("mkDG", cZbig(x.UndelegatableShare.BigInt()), cZbig(x.WaitUndelegationAmount.BigInt()))
	})
	iter(dk, delegationtypes.KeyPrefixStakersByOperator, func(k, v []byte) {
		var x delegationtypes.StakerList
		cdc.MustUnmarshal(v, &x)
		ss := make([]string, len(x.Stakers))
		for i, s := range x.Stakers {
			ss[i] = S(s)
		}
		d[c03Sl][string(k)] = cList(ss)
	})
	iter(dk, delegationtypes.KeyPrefixUndelegationInfo, func(k, v []byte) {
		var x delegationtypes.UndelegationRecord
		cdc.MustUnmarshal(v, &x)
		d[c03Ur][string(k)] = c03RecTerm(S, &x)
	})
	iter(dk, delegationtypes.KeyPrefixStakerUndelegationInfo, func(k, v []byte) { d[c03Sidx][string(k)] = S(string(v)) })
	iter(dk, delegationtypes.KeyPrefixPendingUndelegations, func(k, v []byte) { d[c03Pidx][string(k)] = S(string(v)) })
	iter(dk, delegationtypes.GetUndelegationOnHoldKey(nil), func(k, v []byte) {
		n := uint64(0)
		if len(v) == 8 {
			n = binary.BigEndian.Uint64(v)
		}
		d[c03Hold][string(k)] = cZbig(new(big.Int).SetUint64(n))
	})
	// x/bank: base-denom balances of the native stakers (keyed by staker id) and of the escrow module account
	for i, acc := range w.natAccs {
		d[c03Bank][w.natIDs[i]] = cZbig(app.BankKeeper.GetBalance(ctx, sdk.AccAddress(acc), utils.BaseDenom).Amount.BigInt())
	}
	d[c03Bank][delegationtypes.DelegatedPoolName] = cZbig(app.BankKeeper.GetBalance(ctx, w.poolAddr, utils.BaseDenom).Amount.BigInt())
	return d
}

func c03RecTerm(S func(string) string, x *delegationtypes.UndelegationRecord) string {
	return cApp("mkUR", S(x.StakerID), S(x.AssetID), S(x.OperatorAddr), S(x.TxHash),
		cZbig(new(big.Int).SetUint64(x.BlockNumber)), cZbig(new(big.Int).SetUint64(x.CompleteBlockNumber)),
		cZbig(new(big.Int).SetUint64(x.LzTxNonce)), cZbig(x.Amount.BigInt()), cZbig(x.ActualCompletedAmount.BigInt()))
}

func c03SortedKeys(m map[string]string) []string {
	ks := make([]string, 0, len(m))
	for k := range m {
		ks = append(ks, k)
	}
	sort.Strings(ks)
	return ks
}

func (w *c03World) dumpTerm(d c03Dump, extra []c03Name) string {
	var stores []string
	for i := 0; i < c03NStores; i++ {
		var es []string
		for _, k := range c03SortedKeys(d[i]) {
			es = append(es, cTuple(w.cS(k, extra), d[i][k]))
		}
		stores = append(stores, cList(es))
	}
	return cApp("mkDump", stores...)
}

func (w *c03World) diff(a, b c03Dump, extra []c03Name) []string {
	var out []string
	for i := 0; i < c03NStores; i++ {
		keys := map[string]bool{}
		for k := range a[i] {
			keys[k] = true
		}
		for k := range b[i] {
			keys[k] = true
		}
		ks := make([]string, 0, len(keys))
		for k := range keys {
			ks = append(ks, k)
		}
		sort.Strings(ks)
		for _, k := range ks {
			va, oka := a[i][k]
			vb, okb := b[i][k]
			if oka && okb && va == vb {
				continue
			}
			out = append(out, cApp(c03Ctor[i], w.cS(k, extra), cOpt(okb, vb)))
		}
	}
	return out
}

// ---- ops -------------------------------------------------------------------------------------

type c03Op struct {
	Kind   string `json:"kind"`
	Staker int    `json:"staker,omitempty"`
	Asset  int    `json:"asset,omitempty"`
	Op     int    `json:"operator,omitempty"`
	Amt    string `json:"amount,omitempty"`
	Nonce  uint64 `json:"nonce,omitempty"`
	Tx     string `json:"tx,omitempty"`
	BN     uint64 `json:"block_number,omitempty"`
	CN     uint64 `json:"complete,omitempty"`
	EH     int64  `json:"event_height,omitempty"`
	Prop   string `json:"proportion,omitempty"` // parameter proportion (LegacyDec string)
	Power  int64  `json:"power,omitempty"`
	RK     string `json:"record_key,omitempty"`
	// observed
	Height  int64    `json:"height"`
	Res     string   `json:"res"`
	NewProp string   `json:"new_proportion,omitempty"`
	Chg     []string `json:"changes"`
	Gev     []string `json:"ghost"`
}

type c03Case struct {
	Suite  string   `json:"suite"`
	Tags   []string `json:"tags,omitempty"`
	NT     bool     `json:"nt"`
	Height int64    `json:"start_height"`
	Ops    []c03Op  `json:"ops"`
}

type c03Runner struct {
	w      *c03World
	cw     *CaseWriter
	ctx    sdk.Context
	extra  []c03Name
	prev   c03Dump
	steps  []string
	cs     c03Case
	txN    int
	slashN int
	nonce  uint64
	init   string
	init0  c03Dump
	h0     int64
	kinds  map[string]bool
	vals   []string
	// native-restaking deficit per staker/asset: what earlier balance decreases removed and increases have not yet
	// restored. The oracle caps a validator's effective balance at what was deposited, so a positive adjustment never
	// exceeds the earlier decreases; the generators respect that bound.
	nstDeficit map[[2]int]sdkmath.Int
}

func (w *c03World) newRunner(cw *CaseWriter, suite string, h0 int64, tags []string, setup func(ctx sdk.Context) []string) *c03Runner {
	ctx, _ := w.env.Ctx.CacheContext()
	ctx = ctx.WithBlockHeight(h0)
	r := &c03Runner{w: w, cw: cw, ctx: ctx, h0: h0, kinds: map[string]bool{}, nonce: 1, nstDeficit: map[[2]int]sdkmath.Int{}}
	r.vals = append([]string{}, w.opStrs[:w.nVals]...)
	if setup != nil {
		// part of the case's initial state (before the first dump); may return extra validator entries (none at present)
		r.vals = append(r.vals, setup(ctx)...)
	}
	r.cs = c03Case{Suite: suite, Tags: tags, Height: h0}
	r.prev = w.dump(ctx, nil)
	r.init0 = r.prev // rendered at the end (needs the tx-hash names)
	return r
}

func (r *c03Runner) newTx() common.Hash {
	r.txN++
	h := common.BigToHash(new(big.Int).SetInt64(int64(0x7000 + r.txN)))
	r.extra = append(r.extra, c03Name{h.String(), fmt.Sprintf("t%d", r.txN)})
	return h
}

func (r *c03Runner) nextNonce() uint64 { r.nonce++; return r.nonce }

// exec runs f in a cache context; commits on success. Returns result class.
func (r *c03Runner) exec(f func(ctx sdk.Context) error) (res string) {
	cc, write := r.ctx.CacheContext()
	defer func() {
		if p := recover(); p != nil {
			res = "panic"
		}
	}()
	if err := f(cc); err != nil {
		return "err"
	}
	write()
	return "ok"
}

func c03Res(s string) string {
	switch s {
	case "ok":
		return "ROk"
	case "err":
		return "RErr"
	}
	return "RPanic"
}

func (r *c03Runner) S(s string) string { return r.w.cS(s, r.extra) }

// record finishes one step: dump, diff, emit
func (r *c03Runner) record(op c03Op, opTerm string, res string, gev []string) {
	now := r.w.dump(r.ctx, r.extra)
	chg := r.w.diff(r.prev, now, r.extra)
	r.prev = now
	op.Res = res
	op.Chg = chg
	op.Gev = gev
	r.cs.Ops = append(r.cs.Ops, op)
	r.steps = append(r.steps, cApp("mkObs", opTerm, c03Res(res), cList(chg), cList(gev)))
	r.cw.Count("op." + op.Kind + "." + res)
	if len(chg) > 0 {
		r.kinds[op.Kind] = true
	}
}

func (r *c03Runner) deposit(st, as int, amt sdkmath.Int, withdraw bool) string {
	w := r.w
	action := assetstypes.DepositLST
	kind := "Deposit"
	if withdraw {
		action = assetstypes.WithdrawLST
		kind = "Withdraw"
	}
	res := r.exec(func(ctx sdk.Context) error {
		return w.env.App.AssetsKeeper.PerformDepositOrWithdraw(ctx, &assetskeeper.DepositWithdrawParams{
			ClientChainLzID: 101, Action: action, AssetsAddress: w.assets[as], StakerAddress: w.stakers[st], OpAmount: amt})
	})
	var gev []string
	if res == "ok" {
		g := "GDep"
		if withdraw {
			g = "GWdr"
		}
		gev = []string{cApp(g, r.S(w.assetIDs[as]), cZbig(amt.BigInt()))}
	}
	r.record(c03Op{Kind: kind, Staker: st, Asset: as, Amt: amt.String(), Height: r.ctx.BlockHeight()},
		cApp(kind, r.S(w.stakerIDs[st]), r.S(w.assetIDs[as]), cZbig(amt.BigInt())), res, gev)
	return res
}

func (r *c03Runner) delegate(st, as, op int, amt sdkmath.Int) string {
	w := r.w
	tx := r.newTx()
	res := r.exec(func(ctx sdk.Context) error {
		return w.env.App.DelegationKeeper.DelegateTo(ctx, delegationtypes.NewDelegationOrUndelegationParams(
			101, assetstypes.DelegateTo, w.assets[as], w.ops[op], w.stakers[st], amt, r.nextNonce(), tx))
	})
	r.record(c03Op{Kind: "Delegate", Staker: st, Asset: as, Op: op, Amt: amt.String(), Height: r.ctx.BlockHeight()},
		cApp("Delegate", r.S(w.stakerIDs[st]), r.S(w.assetIDs[as]), r.S(w.opStrs[op]), cZbig(amt.BigInt())), res, nil)
	return res
}

func (r *c03Runner) undelegate(st, as, op int, amt sdkmath.Int, nonce uint64, tx common.Hash) string {
	w := r.w
	res := r.exec(func(ctx sdk.Context) error {
		return w.env.App.DelegationKeeper.UndelegateFrom(ctx, delegationtypes.NewDelegationOrUndelegationParams(
			101, assetstypes.UndelegateFrom, w.assets[as], w.ops[op], w.stakers[st], amt, nonce, tx))
	})
	r.record(c03Op{Kind: "Undelegate", Staker: st, Asset: as, Op: op, Amt: amt.String(), Nonce: nonce, Tx: tx.String(), Height: r.ctx.BlockHeight()},
		cApp("Undelegate", r.S(w.stakerIDs[st]), r.S(w.assetIDs[as]), r.S(w.opStrs[op]), cZbig(amt.BigInt()),
			cZbig(new(big.Int).SetUint64(nonce)), r.S(tx.String())), res, nil)
	return res
}

// native token: DelegateTo / UndelegateFrom with the native asset id (what the message server calls per operator):
// bank account -> escrow module account, and back at completion
func (r *c03Runner) delegateN(acc, op int, amt sdkmath.Int) string {
	w := r.w
	tx := r.newTx()
	res := r.exec(func(ctx sdk.Context) error {
		return w.env.App.DelegationKeeper.DelegateTo(ctx, delegationtypes.NewDelegationOrUndelegationParams(
			assetstypes.ExocoreChainLzID, assetstypes.DelegateTo, w.natAddr, w.ops[op], w.natAccs[acc], amt, r.nextNonce(), tx))
	})
	var gev []string
	if res == "ok" {
		gev = []string{cApp("GEscIn", r.S(w.natID), cZbig(amt.BigInt()))}
	}
	r.record(c03Op{Kind: "DelegateN", Staker: acc, Op: op, Amt: amt.String(), Height: r.ctx.BlockHeight()},
		cApp("Delegate", r.S(w.natIDs[acc]), r.S(w.natID), r.S(w.opStrs[op]), cZbig(amt.BigInt())), res, gev)
	return res
}

func (r *c03Runner) undelegateN(acc, op int, amt sdkmath.Int, nonce uint64, tx common.Hash) string {
	w := r.w
	res := r.exec(func(ctx sdk.Context) error {
		return w.env.App.DelegationKeeper.UndelegateFrom(ctx, delegationtypes.NewDelegationOrUndelegationParams(
			assetstypes.ExocoreChainLzID, assetstypes.UndelegateFrom, w.natAddr, w.ops[op], w.natAccs[acc], amt, nonce, tx))
	})
	r.record(c03Op{Kind: "UndelegateN", Staker: acc, Op: op, Amt: amt.String(), Nonce: nonce, Tx: tx.String(), Height: r.ctx.BlockHeight()},
		cApp("Undelegate", r.S(w.natIDs[acc]), r.S(w.natID), r.S(w.opStrs[op]), cZbig(amt.BigInt()),
			cZbig(new(big.Int).SetUint64(nonce)), r.S(tx.String())), res, nil)
	return res
}

func (r *c03Runner) positionN(acc, op int) sdkmath.Int {
	m, err := r.w.env.App.DelegationKeeper.AllDelegatedInfoForStakerAsset(r.ctx, r.w.natIDs[acc], r.w.natID)
	if err != nil {
		return sdkmath.ZeroInt()
	}
	if v, ok := m[r.w.opStrs[op]]; ok {
		return v
	}
	return sdkmath.ZeroInt()
}

// genesisLoad: a genesis file containing a deposit that is pending undelegation (see Ledger.v genesis_load)
func (r *c03Runner) genesisLoad(st, as, op int, amt sdkmath.Int, bn, cn, nonce uint64, tx common.Hash) string {
	w := r.w
	app := w.env.App
	rec := delegationtypes.UndelegationRecord{
		StakerID: w.stakerIDs[st], AssetID: w.assetIDs[as], OperatorAddr: w.opStrs[op], TxHash: tx.String(), IsPending: true,
		BlockNumber: bn, CompleteBlockNumber: cn, LzTxNonce: nonce, Amount: amt, ActualCompletedAmount: amt,
	}
	res := r.exec(func(ctx sdk.Context) error {
		if !amt.IsPositive() {
			return fmt.Errorf("amount")
		}
		if err := app.AssetsKeeper.PerformDepositOrWithdraw(ctx, &assetskeeper.DepositWithdrawParams{
			ClientChainLzID: 101, Action: assetstypes.DepositLST, AssetsAddress: w.assets[as], StakerAddress: w.stakers[st], OpAmount: amt}); err != nil {
			return err
		}
		if err := app.AssetsKeeper.UpdateStakerAssetState(ctx, rec.StakerID, rec.AssetID, assetstypes.DeltaStakerSingleAsset{
			TotalDepositAmount: sdkmath.ZeroInt(), WithdrawableAmount: amt.Neg(), PendingUndelegationAmount: amt}); err != nil {
			return err
		}
		if err := app.AssetsKeeper.UpdateOperatorAssetState(ctx, w.ops[op], rec.AssetID, assetstypes.DeltaOperatorSingleAsset{
			TotalAmount: sdkmath.ZeroInt(), PendingUndelegationAmount: amt, TotalShare: sdkmath.LegacyZeroDec(), OperatorShare: sdkmath.LegacyZeroDec()}); err != nil {
			return err
		}
		if _, err := app.DelegationKeeper.UpdateDelegationState(ctx, rec.StakerID, rec.AssetID, rec.OperatorAddr, &delegationtypes.DeltaDelegationAmounts{
			WaitUndelegationAmount: amt, UndelegatableShare: sdkmath.LegacyZeroDec()}); err != nil {
			return err
		}
		app.DelegationKeeper.InitGenesis(ctx, delegationtypes.GenesisState{Undelegations: []delegationtypes.UndelegationRecord{rec}})
		return nil
	})
	var gev []string
	if res == "ok" {
		gev = []string{cApp("GDep", r.S(rec.AssetID), cZbig(amt.BigInt()))}
	}
	r.record(c03Op{Kind: "GenesisLoad", Staker: st, Asset: as, Op: op, Amt: amt.String(), Nonce: nonce, Tx: tx.String(), BN: bn, CN: cn, Height: r.ctx.BlockHeight()},
		cApp("GenesisLoad", c03RecTerm(r.S, &rec)), res, gev)
	return res
}

func (r *c03Runner) slash(op int, eh int64, prop sdkmath.LegacyDec, power int64) string {
	w := r.w
	r.slashN++
	id := fmt.Sprintf("verif-slash-%d", r.slashN)
	var info *operatortypes.OperatorSlashInfo
	res := r.exec(func(ctx sdk.Context) error {
		err := w.env.App.OperatorKeeper.Slash(ctx, &operatortypes.SlashInputInfo{
			IsDogFood: true, Power: power, SlashType: 1, Operator: w.ops[op], AVSAddr: w.avs, SlashID: id,
			SlashEventHeight: eh, SlashProportion: prop})
		if err != nil {
			return err
		}
		info, err = w.env.App.OperatorKeeper.GetOperatorSlashInfo(ctx, w.avs, w.opStrs[op], id)
		return err
	})
	propTerm := "None"
	var gev []string
	o := c03Op{Kind: "Slash", Op: op, EH: eh, Prop: prop.String(), Power: power, Height: r.ctx.BlockHeight()}
	if res == "ok" && info != nil && info.ExecutionInfo != nil {
		propTerm = cOpt(true, cZbig(info.ExecutionInfo.SlashProportion.BigInt()))
		o.NewProp = info.ExecutionInfo.SlashProportion.String()
		for _, u := range info.ExecutionInfo.SlashUndelegations {
			gev = append(gev, cApp("GSl", r.S(u.AssetID), cZbig(u.Amount.BigInt())))
		}
		for _, p := range info.ExecutionInfo.SlashAssetsPool {
			gev = append(gev, cApp("GSl", r.S(p.AssetID), cZbig(p.Amount.BigInt())))
		}
	}
	coqRes := res
	if res != "ok" {
		coqRes = "err" // the part of Slash before the asset walk (parameter check, USD value) belongs to C04
		r.cw.Count("slash.rejected." + res)
	}
	r.record(o, cApp("Slash", r.S(w.opStrs[op]), cZ(eh), propTerm), coqRes, gev)
	return res
}

// nstBalance: DelegationKeeper.UpdateNSTBalance(stakerID, assetID, amount) - the balance adjustment the oracle reports for
// native restaking. The keeper function does not look at the kind of asset, so it is driven on the registered assets.
// Ghost: a positive change books its amount; for a negative change the amount the IMPLEMENTATION booked, i.e. the
// decrease of the staker's own TotalDepositAmount.
func (r *c03Runner) nstBalance(st, as int, amt sdkmath.Int) string {
	w := r.w
	total := func() sdkmath.Int {
		info, err := w.env.App.AssetsKeeper.GetStakerSpecifiedAssetInfo(r.ctx, w.stakerIDs[st], w.assetIDs[as])
		if err != nil {
			return sdkmath.ZeroInt()
		}
		return info.TotalDepositAmount
	}
	key := [2]int{st, as}
	def, okd := r.nstDeficit[key]
	if !okd {
		def = sdkmath.ZeroInt()
	}
	if amt.IsPositive() && amt.GT(def) {
		amt = def // never above what earlier decreases removed (may become 0: a no-op adjustment)
	}
	before := total()
	res := r.exec(func(ctx sdk.Context) error {
		return w.env.App.DelegationKeeper.UpdateNSTBalance(ctx, w.stakerIDs[st], w.assetIDs[as], amt)
	})
	var gev []string
	if res == "ok" && amt.IsPositive() {
		gev = []string{cApp("GNstP", r.S(w.assetIDs[as]), cZbig(amt.BigInt()))}
		r.nstDeficit[key] = def.Sub(amt)
	} else if res == "ok" && amt.IsNegative() {
		booked := before.Sub(total())
		gev = []string{cApp("GNstM", r.S(w.assetIDs[as]), cZbig(booked.BigInt()))}
		r.nstDeficit[key] = def.Add(booked)
	}
	r.record(c03Op{Kind: "NstBalance", Staker: st, Asset: as, Amt: amt.String(), Height: r.ctx.BlockHeight()},
		cApp("NstBalance", r.S(w.stakerIDs[st]), r.S(w.assetIDs[as]), cZbig(amt.BigInt())), res, gev)
	return res
}

// slashTo slashes the operator with an effective proportion (newSlashProportion of SlashAssets) as close to p as 18 decimals
// allow: it reads the USD value the real code will divide by (CalculateUSDValueForOperator, for-slash mode) and picks
// Power and SlashProportion with Power * SlashProportion = p * value, SlashProportion <= 1.
func (r *c03Runner) slashTo(op int, eh int64, p sdkmath.LegacyDec) string {
	info, err := r.w.env.App.OperatorKeeper.CalculateUSDValueForOperator(r.ctx, true, r.w.opStrs[op], nil, nil, nil)
	if err != nil || !info.StakingAndWaitUnbonding.IsPositive() {
		return r.slash(op, eh, p, 1)
	}
	target := p.Mul(info.StakingAndWaitUnbonding)
	power := target.Ceil().TruncateInt64() + 1
	return r.slash(op, eh, target.QuoInt64(power), power)
}

// tokenMeta: AssetsKeeper.UpdateStakingAssetMetaInfo (what the gateway's updateToken precompile call ends in) - rewrites the
// meta information of a registered staking asset; as < 0: an asset id that is not registered (rejected)
func (r *c03Runner) tokenMeta(as int, meta string) string {
	w := r.w
	id := "0x1111111111111111111111111111111111111111_0x65"
	if as >= 0 && as < len(w.assetIDs) {
		id = w.assetIDs[as]
	} else if as == len(w.assetIDs) {
		id = w.natID
	}
	res := r.exec(func(ctx sdk.Context) error {
		return w.env.App.AssetsKeeper.UpdateStakingAssetMetaInfo(ctx, id, meta)
	})
	r.record(c03Op{Kind: "UpdateTokenMeta", Asset: as, Tx: meta, Height: r.ctx.BlockHeight()}, cApp("UpdateTokenMeta", r.S(id)), res, nil)
	return res
}

func (r *c03Runner) holdOp(rk string, inc bool) string {
	k := r.w.env.App.DelegationKeeper
	kind := "HoldDec"
	if inc {
		kind = "HoldInc"
	}
	res := r.exec(func(ctx sdk.Context) error {
		if inc {
			return k.IncrementUndelegationHoldCount(ctx, []byte(rk))
		}
		return k.DecrementUndelegationHoldCount(ctx, []byte(rk))
	})
	r.record(c03Op{Kind: kind, RK: rk, Height: r.ctx.BlockHeight()}, cApp(kind, r.S(rk)), res, nil)
	return res
}

func (r *c03Runner) escrowBal() sdkmath.Int {
	return r.w.env.App.BankKeeper.GetBalance(r.ctx, r.w.poolAddr, utils.BaseDenom).Amount
}

func (r *c03Runner) endBlock() {
	before := r.escrowBal()
	res := "ok"
	func() {
		defer func() {
			if p := recover(); p != nil {
				res = "panic"
			}
		}()
		r.w.env.App.DelegationKeeper.EndBlock(r.ctx, abci.RequestEndBlock{Height: r.ctx.BlockHeight()})
	}()
	h := r.ctx.BlockHeight()
	r.ctx = r.ctx.WithBlockHeight(h + 1)
	// ghost: what x/bank says left the escrow account in this block end (native undelegations paid out)
	var gev []string
	if paid := before.Sub(r.escrowBal()); paid.IsPositive() {
		gev = []string{cApp("GEscOut", r.S(r.w.natID), cZbig(paid.BigInt()))}
	}
	r.record(c03Op{Kind: "EndBlock", Height: h}, "EndBlock", res, gev)
}

func (r *c03Runner) finish() {
	w := r.w
	S := func(xs []string) string {
		ys := make([]string, len(xs))
		for i, x := range xs {
			ys[i] = r.S(x)
		}
		return cList(ys)
	}
	// initial dump is rendered now (same name table)
	r.cs.NT = len(r.kinds) >= 2
	final := w.dumpTerm(r.prev, r.extra)
	term := cApp("mkCase", cZ(r.h0), S(w.opStrs), S(r.vals), r.init, cList(r.steps), final)
	var lets strings.Builder
	for _, n := range append(append([]c03Name{}, w.names...), r.extra...) {
		lets.WriteString("let " + n.short + " := " + strings.TrimSuffix(cStr(n.long), "%string") + " in ")
	}
	r.cw.Add("("+lets.String()+term+")", r.cs)
	r.cw.Count(fmt.Sprintf("case.ops=%02d-%02d", len(r.steps)/10*10, len(r.steps)/10*10+9))
}

// ---- state queries used by the generators -----------------------------------------------------------

func (r *c03Runner) withdrawable(st, as int) sdkmath.Int {
	info, err := r.w.env.App.AssetsKeeper.GetStakerSpecifiedAssetInfo(r.ctx, r.w.stakerIDs[st], r.w.assetIDs[as])
	if err != nil {
		return sdkmath.ZeroInt()
	}
	return info.WithdrawableAmount
}

func (r *c03Runner) position(st, as, op int) sdkmath.Int {
	m, err := r.w.env.App.DelegationKeeper.AllDelegatedInfoForStakerAsset(r.ctx, r.w.stakerIDs[st], r.w.assetIDs[as])
	if err != nil {
		return sdkmath.ZeroInt()
	}
	if v, ok := m[r.w.opStrs[op]]; ok {
		return v
	}
	return sdkmath.ZeroInt()
}

func (r *c03Runner) initDump() c03Dump { return r.init0 }

func (r *c03Runner) pendingOf(st, as int) sdkmath.Int {
	info, err := r.w.env.App.AssetsKeeper.GetStakerSpecifiedAssetInfo(r.ctx, r.w.stakerIDs[st], r.w.assetIDs[as])
	if err != nil {
		return sdkmath.ZeroInt()
	}
	return info.PendingUndelegationAmount
}

func (r *c03Runner) recordKeys() []string { return c03SortedKeys(r.prev[c03Ur]) }

// ---- generators ------------------------------------------------------------------------------------

func c03Amount(rng *rand.Rand, around sdkmath.Int) sdkmath.Int {
	switch rng.Intn(12) {
	case 0:
		return around
	case 1:
		return around.AddRaw(1)
	case 2:
		if around.IsPositive() {
			return around.SubRaw(1)
		}
		return sdkmath.OneInt()
	case 3:
		return sdkmath.OneInt()
	case 4:
		return sdkmath.ZeroInt()
	case 5:
		return sdkmath.NewInt(-1)
	case 6, 7:
		if around.IsPositive() {
			return sdkmath.NewIntFromBigInt(new(big.Int).Rand(rng, around.BigInt())).AddRaw(1)
		}
		return sdkmath.NewInt(int64(rng.Intn(1000) + 1))
	case 8:
		primes := []int64{3, 7, 997, 1000003, 999999937}
		return sdkmath.NewInt(primes[rng.Intn(len(primes))])
	default:
		if around.IsPositive() {
			return around.QuoRaw(int64(rng.Intn(4) + 2)).AddRaw(1)
		}
		return sdkmath.NewInt(int64(rng.Intn(5_000_000) + 1))
	}
}

func c03Run(a *Args, suite string) error {
	w := c03NewWorld()
	cw := NewCaseWriter(a.Out)
	defer cw.Close()
	rng := rand.New(rand.NewSource(a.Seed))
	n := 0
	start := func(h0 int64, tags []string) *c03Runner {
		return w.newRunner(cw, suite, h0, tags, nil)
	}
	startWith := func(h0 int64, tags []string, setup func(ctx sdk.Context) []string) *c03Runner {
		return w.newRunner(cw, suite, h0, tags, setup)
	}
	done := func(r *c03Runner) {
		r.init = w.dumpTerm(r.initDump(), r.extra)
		r.finish()
		n++
	}
	for _, sc := range c03Directed(w, rng, start, startWith) {
		if n >= a.N {
			break
		}
		done(sc)
	}
	for n < a.N {
		r := c03Random(w, rng, start, suite)
		done(r)
	}
	return nil
}
