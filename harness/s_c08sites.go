package main

// Suite c08sites: ties the per-site models of coq/C08/Model.v to the REAL functions that contain the map-range
// loops, wherever they are reachable through exported API without an application:
//   avstypes.Difference, avskeeper.Keeper.GroupTasksByIDAndAddress, common.BigIntList.Median (reportPrice.aggregate),
//   cache.Cache AddCache/GetCache(ItemV) (cacheValidator.add), AggregatorContext.SetValidatorPowers/GetValidators,
//   AggregatorContext.PrepareRoundEndBlock + SealRound (twice).
// The real code iterates its maps in whatever order the runtime picks; the model is evaluated on the canonical
// order; map-ordered outputs are sorted before comparison. Identifiers are encoded by order-preserving integers.

import (
	"fmt"
	"math/big"
	"math/rand"
	"sort"

	sdk "github.com/cosmos/cosmos-sdk/types"

	avskeeper "github.com/ExocoreNetwork/exocore/x/avs/keeper"
	avstypes "github.com/ExocoreNetwork/exocore/x/avs/types"
	"github.com/ExocoreNetwork/exocore/x/oracle/keeper/aggregator"
	"github.com/ExocoreNetwork/exocore/x/oracle/keeper/cache"
	oraclecommon "github.com/ExocoreNetwork/exocore/x/oracle/keeper/common"
	oracletypes "github.com/ExocoreNetwork/exocore/x/oracle/types"
)

func init() { register("c08sites", runC08Sites) }

func c08Code(i int64) string { return fmt.Sprintf("s%06d", i) } // order preserving for 0 <= i < 10^6

func c08Decode(s string) int64 {
	var i int64
	fmt.Sscanf(s, "s%d", &i)
	return i
}

func c08ZList(xs []int64) string {
	ss := make([]string, len(xs))
	for i, x := range xs {
		ss[i] = cZ(x)
	}
	return cList(ss)
}

func c08PairList(xs [][2]int64) string {
	ss := make([]string, len(xs))
	for i, x := range xs {
		ss[i] = cTuple(cZ(x[0]), cZ(x[1]))
	}
	return cList(ss)
}

func c08Dump(keys []int64, m map[string]*big.Int) string {
	ss := make([]string, len(keys))
	for i, k := range keys {
		v, ok := m[c08Code(k)]
		if ok {
			ss[i] = cTuple(cZ(k), cOpt(true, cZbig(v)))
		} else {
			ss[i] = cTuple(cZ(k), "None")
		}
	}
	return cList(ss)
}

func c08SortedI64(xs []int64) []int64 {
	ys := append([]int64{}, xs...)
	sort.Slice(ys, func(i, j int) bool { return ys[i] < ys[j] })
	return ys
}

func c08U64(xs []uint64) []int64 {
	ys := make([]int64, len(xs))
	for i, x := range xs {
		ys[i] = int64(x)
	}
	return c08SortedI64(ys)
}

type c08SiteDesc struct {
	Site string      `json:"site"`
	In   interface{} `json:"in"`
	Out  interface{} `json:"out"`
	NT   bool        `json:"nt"`
}

func runC08Sites(a *Args) error {
	w := NewCaseWriter(a.Out)
	defer w.Close()
	r := rand.New(rand.NewSource(a.Seed))
	small := func(n int) []int64 {
		k := r.Intn(n + 1)
		xs := make([]int64, k)
		for i := range xs {
			xs[i] = int64(r.Intn(12))
		}
		return xs
	}
	uniq := func(n, universe int) []int64 {
		p := r.Perm(universe)
		k := r.Intn(n + 1)
		if k > universe {
			k = universe
		}
		xs := make([]int64, k)
		for i := range xs {
			xs[i] = int64(p[i])
		}
		return xs
	}
	// one real application for the families that need a store (nonce rows); every case works on its own cache
	env := NewEnv(EnvCfg{})
	for ci := 0; ci < a.N; ci++ {
		switch ci % 7 {
		case 6: // RemoveNonceWithFeederIDForAll on ORDERED nonce lists, several feeders in a row
			ctx, _ := env.Ctx.CacheContext()
			k := env.App.OracleKeeper
			nv := 1 + r.Intn(4)
			var rows, outs []string
			type rowj struct {
				V  int64
				NL [][2]int64
			}
			var rjs []rowj
			vals := uniq(nv, 8)
			sort.Slice(vals, func(i, j int) bool { return vals[i] < vals[j] }) // store iteration order = key order
			for _, v := range vals {
				fl := uniq(6, 7)
				if len(fl) == 0 {
					fl = []int64{0}
				}
				vn := oracletypes.ValidatorNonce{Validator: "c08v" + c08Code(v)}
				var nl [][2]int64
				for _, f := range fl {
					val := int64(r.Intn(4))
					vn.NonceList = append(vn.NonceList, &oracletypes.Nonce{FeederID: uint64(100 + f), Value: uint32(val)})
					nl = append(nl, [2]int64{100 + f, val})
				}
				k.SetNonce(ctx, vn)
				rows = append(rows, cTuple(cZ(v), c08PairList(nl)))
				rjs = append(rjs, rowj{v, nl})
			}
			fs := uniq(4, 7)
			for i := range fs {
				fs[i] += 100
				k.RemoveNonceWithFeederIDForAll(ctx, uint64(fs[i]))
			}
			for _, v := range vals {
				var nl [][2]int64
				if n, found := k.GetNonce(ctx, "c08v"+c08Code(v)); found {
					for _, x := range n.NonceList {
						nl = append(nl, [2]int64{int64(x.FeederID), int64(x.Value)})
					}
				}
				outs = append(outs, cTuple(cZ(v), c08PairList(nl)))
			}
			w.Count("site/RemoveNonceForAll")
			w.Add(cApp("SCNonce", cList(rows), c08ZList(fs), cList(outs)),
				c08SiteDesc{"RemoveNonceWithFeederIDForAll", map[string]interface{}{"rows": rjs, "feeders": fs}, outs, len(fs) > 1})
		case 0: // types.Difference
			av, bv := small(8), small(8)
			as, bs := make([]string, len(av)), make([]string, len(bv))
			for i, x := range av {
				as[i] = c08Code(x)
			}
			for i, x := range bv {
				bs[i] = c08Code(x)
			}
			out := avstypes.Difference(as, bs)
			ov := make([]int64, len(out))
			for i, s := range out {
				ov[i] = c08Decode(s)
			}
			w.Count("site/Difference")
			w.Add(cApp("SCDifference", c08ZList(av), c08ZList(bv), c08ZList(ov)),
				c08SiteDesc{"Difference", map[string]interface{}{"a": av, "b": bv}, ov, len(av)+len(bv) > 0})
		case 1: // GroupTasksByIDAndAddress
			ng := 1 + r.Intn(4)
			var tasks []avstypes.TaskResultInfo
			var tcoq []string
			type tj struct {
				G, Op int64
				S     bool
			}
			var tjs []tj
			for g := 0; g < ng; g++ {
				for _, op := range uniq(6, 9) {
					signed := r.Intn(3) > 0
					var sig []byte
					if signed {
						sig = []byte{1}
					}
					tasks = append(tasks, avstypes.TaskResultInfo{OperatorAddress: c08Code(op), TaskContractAddress: "0xaa", TaskId: uint64(g + 1), BlsSignature: sig})
					tjs = append(tjs, tj{int64(g + 1), op, signed})
				}
			}
			r.Shuffle(len(tasks), func(i, j int) { tasks[i], tasks[j] = tasks[j], tasks[i]; tjs[i], tjs[j] = tjs[j], tjs[i] })
			for _, t := range tjs {
				tcoq = append(tcoq, cTuple(cZ(t.G), cZ(t.Op), cBool(t.S)))
			}
			groups := avskeeper.Keeper{}.GroupTasksByIDAndAddress(tasks)
			var gids []int64
			byID := map[int64][]int64{}
			for _, grp := range groups {
				if len(grp) == 0 {
					continue
				}
				id := int64(grp[0].TaskId)
				gids = append(gids, id)
				for _, t := range grp {
					byID[id] = append(byID[id], c08Decode(t.OperatorAddress))
				}
			}
			gids = c08SortedI64(gids)
			outs := make([]string, len(gids))
			for i, id := range gids {
				outs[i] = cTuple(cZ(id), c08ZList(byID[id]))
			}
			w.Count("site/GroupTasks")
			w.Add(cApp("SCGroup", cList(tcoq), cList(outs)), c08SiteDesc{"GroupTasksByIDAndAddress", tjs, byID, len(tasks) > 1})
		case 2: // BigIntList.Median  (reportPrice.aggregate)
			n := r.Intn(7)
			xs := make([]int64, n)
			bl := make([]*big.Int, n)
			for i := range xs {
				xs[i] = int64(r.Intn(41)) - 8
				bl[i] = big.NewInt(xs[i])
			}
			out := "None"
			var oj interface{}
			func() {
				defer func() {
					if rec := recover(); rec != nil {
						out = "None"
						oj = "panic"
					}
				}()
				m := oraclecommon.BigIntList(bl).Median()
				out = cOpt(true, cZbig(m))
				oj = m.String()
			}()
			w.Count("site/Median")
			w.Add(cApp("SCMedian", c08ZList(xs), out), c08SiteDesc{"Median", xs, oj, n > 0})
		case 3: // cacheValidator.add via Cache.AddCache / GetCache(ItemV)
			mk := func(keys []int64, zeroOK bool) ([][2]int64, map[string]*big.Int) {
				var ps [][2]int64
				m := map[string]*big.Int{}
				for _, k := range keys {
					p := int64(1 + r.Intn(5))
					if zeroOK && r.Intn(3) == 0 {
						p = 0
					}
					ps = append(ps, [2]int64{k, p})
					m[c08Code(k)] = big.NewInt(p)
				}
				return ps, m
			}
			initP, initM := mk(uniq(6, 8), false)
			addP, addM := mk(uniq(6, 8), true)
			c := cache.NewCache()
			c.AddCache(cache.ItemV(initM))
			c.AddCache(cache.ItemV(addM))
			got := map[string]*big.Int{}
			c.GetCache(cache.ItemV(got))
			keys := []int64{0, 1, 2, 3, 4, 5, 6, 7}
			w.Count("site/cacheValidator.add")
			w.Add(cApp("SCValCache", c08PairList(initP), c08PairList(addP), c08ZList(keys), c08Dump(keys, got)),
				c08SiteDesc{"cacheValidator.add", map[string]interface{}{"init": initP, "adds": addP}, fmt.Sprint(got), len(addP) > 0})
		case 4: // SetValidatorPowers / GetValidators
			var ps [][2]int64
			m := map[string]*big.Int{}
			for _, k := range uniq(7, 8) {
				p := int64(r.Intn(100))
				ps = append(ps, [2]int64{k, p})
				m[c08Code(k)] = big.NewInt(p)
			}
			agc := aggregator.NewAggregatorContext()
			agc.SetValidatorPowers(m)
			got := agc.GetValidatorPowers()
			var vals []int64
			for _, v := range agc.GetValidators() {
				vals = append(vals, c08Decode(v))
			}
			keys := []int64{0, 1, 2, 3, 4, 5, 6, 7}
			w.Count("site/SetValidatorPowers")
			w.Add(cApp("SCSetVP", c08PairList(ps), c08ZList(keys), c08Dump(keys, got), c08ZList(c08SortedI64(vals))),
				c08SiteDesc{"SetValidatorPowers", ps, fmt.Sprint(got), len(ps) > 0})
		case 5: // PrepareRoundEndBlock + SealRound twice
			maxNonce := int64(1 + r.Intn(4))
			nf := 1 + r.Intn(5)
			b1 := int64(5 + r.Intn(40))
			params := oracletypes.Params{TokenFeeders: []*oracletypes.TokenFeeder{{}}}
			var fcs []string
			type fj struct{ Token, Start, Interval, End, StartRound int64 }
			var fjs []fj
			for i := 0; i < nf; i++ {
				f := fj{Token: int64(1 + r.Intn(3)), Start: int64(1 + r.Intn(int(b1)+3)), Interval: int64(1 + r.Intn(12)), StartRound: int64(1 + r.Intn(3))}
				switch r.Intn(4) {
				case 0:
					f.End = b1 + int64(r.Intn(8)) - 2 // around the current block
				case 1:
					f.End = b1 + 1 + int64(r.Intn(3))
				}
				if f.End < 0 {
					f.End = 0
				}
				fjs = append(fjs, f)
				fcs = append(fcs, cApp("mkFC", cZ(f.Token), cZ(f.Start), cZ(f.Interval), cZ(f.End), cZ(f.StartRound)))
				params.TokenFeeders = append(params.TokenFeeders, &oracletypes.TokenFeeder{TokenID: uint64(f.Token), StartBaseBlock: uint64(f.Start),
					Interval: uint64(f.Interval), EndBlock: uint64(f.End), StartRoundID: uint64(f.StartRound)})
			}
			// boundary pool: exactly at / one off the window edge and the end block, before the based block (uint64 wrap)
			h1 := b1 + []int64{0, 1, maxNonce - 1, maxNonce, maxNonce + 1, -1, int64(r.Intn(14))}[r.Intn(7)]
			if h1 < 0 {
				h1 = 0
			}
			h2 := h1 + int64(r.Intn(6))
			force := r.Intn(5) == 0
			oldNonce := oraclecommon.MaxNonce
			oraclecommon.MaxNonce = int32(maxNonce)
			agc := aggregator.NewAggregatorContext()
			agc.SetParams(&params)
			agc.PrepareRoundEndBlock(uint64(b1))
			ctx := sdk.Context{}
			_, failed1, sealed1 := agc.SealRound(ctx.WithBlockHeight(h1), force)
			_, failed2, sealed2 := agc.SealRound(ctx.WithBlockHeight(h2), false)
			oraclecommon.MaxNonce = oldNonce
			w.Count("site/SealRound")
			if len(sealed1) > 1 {
				w.Count("site/SealRound/multi-sealed")
			}
			w.Add(cApp("SCSeal", cZ(maxNonce), cList(fcs), cZ(b1), cZ(h1), cBool(force), cZ(h2),
				c08ZList(c08U64(failed1)), c08ZList(c08U64(sealed1)), c08ZList(c08U64(failed2)), c08ZList(c08U64(sealed2))),
				c08SiteDesc{"SealRound", map[string]interface{}{"maxNonce": maxNonce, "feeders": fjs, "b1": b1, "h1": h1, "force": force, "h2": h2},
					map[string]interface{}{"failed1": failed1, "sealed1": sealed1, "failed2": failed2, "sealed2": sealed2}, len(sealed1)+len(sealed2) > 0})
		}
	}
	return nil
}
