package main

// C10 — oracle price-submission path: builds MsgCreatePrice transactions attributed to a validator and
// pushes them through the REAL ante handler of the application (read from BaseApp by reflection) and the
// real Msg service router, or through BaseApp.DeliverTx.

import (
	"fmt"
	"reflect"
	"unsafe"

	"github.com/cosmos/cosmos-sdk/client"
	clienttx "github.com/cosmos/cosmos-sdk/client/tx"
	codectypes "github.com/cosmos/cosmos-sdk/codec/types"
	cryptotypes "github.com/cosmos/cosmos-sdk/crypto/types"
	sdk "github.com/cosmos/cosmos-sdk/types"
	txtypes "github.com/cosmos/cosmos-sdk/types/tx"
	"github.com/cosmos/cosmos-sdk/types/tx/signing"
	authsigning "github.com/cosmos/cosmos-sdk/x/auth/signing"

	exocoreapp "github.com/ExocoreNetwork/exocore/app"
	"github.com/ExocoreNetwork/exocore/app/ante/utils"
	oraclekeeper "github.com/ExocoreNetwork/exocore/x/oracle/keeper"
	oracletypes "github.com/ExocoreNetwork/exocore/x/oracle/types"
)

// c10AnteHandler returns the ante handler actually installed in the BaseApp (unexported field).
func c10AnteHandler(app *exocoreapp.ExocoreApp) sdk.AnteHandler {
	f := reflect.ValueOf(app.BaseApp).Elem().FieldByName("anteHandler")
	if !f.IsValid() {
		panic("c10: BaseApp.anteHandler not found")
	}
	h := reflect.NewAt(f.Type(), unsafe.Pointer(f.UnsafeAddr())).Elem().Interface().(sdk.AnteHandler)
	if h == nil {
		panic("c10: nil ante handler")
	}
	return h
}

// how the price transaction is authenticated
type c10SigMode int

const (
	c10SigValid        c10SigMode = iota // signed by the consensus key of the validator the price is attributed to
	c10SigOtherKey                       // signer info carries the victim's public key, signature made by another key
	c10SigGarbage                        // victim's public key, 64 garbage bytes as signature
	c10SigEmptyBytes                     // victim's public key, zero-length signature
	c10SigNoSignerInfo                   // no signer info at all (no public key), one raw (garbage) signature
	c10SigNone                           // no signer info, no signature
	c10SigWrongPubKey                    // signer info carries another key (and a valid signature by it)
	c10SigWrongChain                     // valid key, signed for another chain id
)

var c10SigModeNames = []string{"valid", "otherkey", "garbage", "emptybytes", "nosignerinfo", "nosig", "wrongpubkey", "wrongchain"}

func c10PriceMsg(creator sdk.AccAddress, feederID, basedBlock uint64, nonce int32, ts string) *oracletypes.MsgCreatePrice {
	return &oracletypes.MsgCreatePrice{
		Creator:  creator.String(),
		FeederID: feederID,
		Prices: []*oracletypes.PriceSource{{
			SourceID: 1,
			Prices:   []*oracletypes.PriceTimeDetID{{Price: "12", Decimal: 18, Timestamp: ts, DetID: "2"}},
		}},
		BasedBlock: basedBlock,
		Nonce:      nonce,
	}
}

// c10BuildPriceTx builds the transaction the way a price feeder does (SIGN_MODE_DIRECT over chain id,
// account number 0, no fee) and then damages the authentication according to mode.
func c10BuildPriceTx(txCfg client.TxConfig, chainID string, msg sdk.Msg, victim cryptotypes.PrivKey, other cryptotypes.PrivKey, mode c10SigMode) (sdk.Tx, []byte, error) {
	b := txCfg.NewTxBuilder()
	if err := b.SetMsgs(msg); err != nil {
		return nil, nil, err
	}
	b.SetGasLimit(0)
	signMode := signing.SignMode_SIGN_MODE_DIRECT
	pubForInfo := victim.PubKey()
	signKey := victim
	signChain := chainID
	switch mode {
	case c10SigOtherKey:
		signKey = other
	case c10SigWrongPubKey:
		pubForInfo = other.PubKey()
		signKey = other
	case c10SigWrongChain:
		signChain = chainID + "x"
	}
	if mode == c10SigNoSignerInfo || mode == c10SigNone {
		anyMsg, err := codectypes.NewAnyWithValue(msg)
		if err != nil {
			return nil, nil, err
		}
		t := &txtypes.Tx{
			Body:     &txtypes.TxBody{Messages: []*codectypes.Any{anyMsg}},
			AuthInfo: &txtypes.AuthInfo{Fee: &txtypes.Fee{}},
		}
		if mode == c10SigNoSignerInfo {
			t.Signatures = [][]byte{make([]byte, 64)}
		}
		bz, err := t.Marshal()
		if err != nil {
			return nil, nil, err
		}
		dec, err := txCfg.TxDecoder()(bz)
		return dec, bz, err
	}
	sig := signing.SignatureV2{PubKey: pubForInfo, Data: &signing.SingleSignatureData{SignMode: signMode}, Sequence: 0}
	if err := b.SetSignatures(sig); err != nil {
		return nil, nil, err
	}
	sd := authsigning.SignerData{ChainID: signChain}
	sv2, err := clienttx.SignWithPrivKey(signMode, sd, b, signKey, txCfg, 0)
	if err != nil {
		return nil, nil, err
	}
	sv2.PubKey = pubForInfo
	switch mode {
	case c10SigGarbage:
		g := make([]byte, 64)
		for i := range g {
			g[i] = byte(i*7 + 1)
		}
		sv2.Data = &signing.SingleSignatureData{SignMode: signMode, Signature: g}
	case c10SigEmptyBytes:
		sv2.Data = &signing.SingleSignatureData{SignMode: signMode, Signature: []byte{}}
	}
	if err := b.SetSignatures(sv2); err != nil {
		return nil, nil, err
	}
	bz, err := txCfg.TxEncoder()(b.GetTx())
	if err != nil {
		return nil, nil, err
	}
	dec, err := txCfg.TxDecoder()(bz)
	return dec, bz, err
}

// c10RunTx mimics baseapp.runTx(deliver) on a cache of ctx: ante handler on a cache (written on success),
// then every message through the Msg service router on another cache (written when all succeed).
// returns stage: "ante" (rejected by ante), "msg" (rejected by the handler), "ok", or "panic".
func c10RunTx(app *exocoreapp.ExocoreApp, ante sdk.AnteHandler, ctx sdk.Context, tx sdk.Tx, txBytes []byte) (stage string, err error) {
	stage = "ante"
	defer func() {
		if r := recover(); r != nil {
			// baseapp.runTx recovers the panic into an error; what the ante handler wrote before stays written
			err = fmt.Errorf("panic: %v", r)
		}
	}()
	// as baseapp.getContextForTx does for DeliverTx
	ctx = ctx.WithTxBytes(txBytes).WithConsensusParams(app.GetConsensusParams(ctx)).WithBlockGasMeter(sdk.NewInfiniteGasMeter()).WithGasMeter(sdk.NewInfiniteGasMeter())
	// baseapp.runTx: validateBasicTxMsgs before the ante handler
	if len(tx.GetMsgs()) == 0 {
		return "ante", fmt.Errorf("must contain at least one message")
	}
	for _, m := range tx.GetMsgs() {
		if err := m.ValidateBasic(); err != nil {
			return "ante", err
		}
	}
	anteCtx, write := ctx.CacheContext()
	newCtx, err := ante(anteCtx, tx, false)
	if err != nil {
		return "ante", err
	}
	write()
	stage = "msg"
	// baseapp keeps the gas meter / priority of the context returned by the ante handler
	runCtx := ctx.WithGasMeter(newCtx.GasMeter())
	msgCtx, writeMsgs := runCtx.CacheContext()
	for _, m := range tx.GetMsgs() {
		h := app.MsgServiceRouter().Handler(m)
		if h == nil {
			return "msg", fmt.Errorf("no handler for %T", m)
		}
		if _, err := h(msgCtx, m); err != nil {
			return "msg", err
		}
	}
	writeMsgs()
	return "ok", nil
}

func c10ResetOracle() {
	oraclekeeper.ResetAggregatorContext()
	oraclekeeper.ResetAggregatorContextCheckTx()
	oraclekeeper.ResetCache()
	oraclekeeper.ResetUpdatedFeederIDs()
}

var _ = utils.IsOracleCreatePriceTx
