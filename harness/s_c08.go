package main

// Suite c08: state-machine determinism by replicated execution in SEPARATE PROCESSES.
//
//   exoharness c08 -seed S -n N -out DIR        parent: N cases; each case = (case seed, block script); the
//                                               parent re-execs itself (`os.Args[0] c08worker …`) P >= 3 times
//                                               per case with different GOMAXPROCS and collects, per process,
//                                               the per-block observations; the Coq monitor says "all equal".
//   exoharness c08worker -seed s -n blocks -out DIR   one process = one real ExocoreApp (the oracle module keeps
//                                               package-level singletons) executing the script derived
//                                               deterministically from (s, blocks); writes DIR/obs.json.
//
// Go randomises the iteration order of every `range` over a map per loop, so every process samples another
// schedule of every map-range loop in the consensus code; the theorems of coq/C08 cover the schedules no run
// sampled.  Observed per block (the consensus-visible outputs named by the property): ResponseCommit app hash,
// every ResponseDeliverTx {Code, Data, GasWanted, GasUsed}, ResponseEndBlock {ValidatorUpdates (in order),
// ConsensusParamUpdates}.  Keeper-level operations executed inside the DeliverTx state are recorded as
// pseudo-transactions (code 0 ok / 1 error / 2 panic, no gas).

import (
	"crypto/sha256"
	"encoding/hex"
	"encoding/json"
	"fmt"
	"math/big"
	"math/rand"
	"os"
	"os/exec"
	"path/filepath"
	"sort"
	"strconv"
	"strings"
	"sync"
	"time"

	sdkmath "cosmossdk.io/math"
	abci "github.com/cometbft/cometbft/abci/types"
	"github.com/cosmos/cosmos-sdk/client"
	clienttx "github.com/cosmos/cosmos-sdk/client/tx"
	cryptotypes "github.com/cosmos/cosmos-sdk/crypto/types"
	sdk "github.com/cosmos/cosmos-sdk/types"
	"github.com/cosmos/cosmos-sdk/types/tx/signing"
	authsigning "github.com/cosmos/cosmos-sdk/x/auth/signing"
	authtypes "github.com/cosmos/cosmos-sdk/x/auth/types"
	banktypes "github.com/cosmos/cosmos-sdk/x/bank/types"
	govtypes "github.com/cosmos/cosmos-sdk/x/gov/types"
	stakingtypes "github.com/cosmos/cosmos-sdk/x/staking/types"
	"github.com/ethereum/go-ethereum/common"
	"github.com/ethereum/go-ethereum/common/hexutil"
	"github.com/evmos/evmos/v16/encoding"
	evmtypes "github.com/evmos/evmos/v16/x/evm/types"

	exocoreapp "github.com/ExocoreNetwork/exocore/app"
	assetsprecompile "github.com/ExocoreNetwork/exocore/precompiles/assets"
	exotx "github.com/ExocoreNetwork/exocore/testutil/tx"
	"github.com/ExocoreNetwork/exocore/utils"
	assetskeeper "github.com/ExocoreNetwork/exocore/x/assets/keeper"
	assetstypes "github.com/ExocoreNetwork/exocore/x/assets/types"
	avstypes "github.com/ExocoreNetwork/exocore/x/avs/types"
	delegationtypes "github.com/ExocoreNetwork/exocore/x/delegation/types"
	dogfoodtypes "github.com/ExocoreNetwork/exocore/x/dogfood/types"
	operatortypes "github.com/ExocoreNetwork/exocore/x/operator/types"
	oraclemodule "github.com/ExocoreNetwork/exocore/x/oracle"
	oraclekeeper "github.com/ExocoreNetwork/exocore/x/oracle/keeper"
	oracletypes "github.com/ExocoreNetwork/exocore/x/oracle/types"
)

func init() {
	register("c08", runC08)
	register("c08worker", runC08Worker)
}

// ---- script ----------------------------------------------------------------------------------

type c08Op struct {
	Kind string `json:"k"`           // send | ethsend | price | oparams | dparams | avschallenge | regop | optin | deposit | delegate | undelegate | slash | avstask | avsresult
	A    int    `json:"a,omitempty"` // actor index (account / staker / validator)
	B    int    `json:"b,omitempty"` // second index (operator / asset / feeder)
	C    int    `json:"c,omitempty"` // third index (asset)
	Amt  int64  `json:"amt,omitempty"`
}

type c08Block struct {
	Dt  int64   `json:"dt"` // seconds to the next block
	Ops []c08Op `json:"ops"`
}

const (
	c08NAcc     = 6
	c08NStakers = 6
	c08NAssets  = 2
)

var c08AssetAddrs = []string{"0xdAC17F958D2ee523a2206206994597C13D831ec7", "0xa0b86991c6218b36c1d19d4a2e9eb0ce3606eb48"}

// c08GenScript is a pure function of (seed, nblocks): parent and every worker derive the same script.
func c08GenScript(seed int64, nblocks int) []c08Block {
	r := rand.New(rand.NewSource(seed))
	blocks := make([]c08Block, nblocks)
	dts := []int64{5, 5, 30, 61, 61, 90, 3600, 3601, 86400, 86401, 7 * 86400}
	silent := make([]bool, nblocks/10+2) // price rounds (heights 10k+1 … 10k+10) that nobody answers
	for i := range silent {
		silent[i] = r.Intn(3) == 0
	}
	for i := range blocks {
		b := &blocks[i]
		b.Dt = dts[r.Intn(len(dts))]
		if i < 4 {
			b.Dt = 61 // a few minute epochs first, so that deposits made in block 1 earn from early on
		}
		nops := 2 + r.Intn(6)
		if i == 0 {
			// block 1: several stakers deposit the SAME amount of both assets and delegate the SAME amount to
			// operator 0 (ties in staker power: sort.Slice in AllocateTokensToStakers sees equal keys)
			for s := 0; s < 4; s++ {
				for as := 0; as < c08NAssets; as++ {
					b.Ops = append(b.Ops, c08Op{Kind: "deposit", A: s, C: as, Amt: 50_000_000})
					b.Ops = append(b.Ops, c08Op{Kind: "delegate", A: s, B: 0, C: as, Amt: 20_000_000})
				}
			}
			// two small stakers with EQUAL power through DIFFERENT assets: they are the tail of the power-sorted staker
			// list of operator 0, and which of them comes last depends on the iteration order of the avsAssets map
			b.Ops = append(b.Ops, c08Op{Kind: "deposit", A: 4, C: 0, Amt: 5_000_000}, c08Op{Kind: "delegate", A: 4, B: 0, C: 0, Amt: 3_000_000})
			b.Ops = append(b.Ops, c08Op{Kind: "deposit", A: 5, C: 1, Amt: 5_000_000}, c08Op{Kind: "delegate", A: 5, B: 0, C: 1, Amt: 3_000_000})
			b.Ops = append(b.Ops, c08Op{Kind: "avstask", A: 0})
			continue
		}
		for j := 0; j < nops; j++ {
			x := r.Intn(100)
			switch {
			case x < 12:
				b.Ops = append(b.Ops, c08Op{Kind: "send", A: r.Intn(c08NAcc), B: r.Intn(c08NAcc), Amt: 1 + r.Int63n(1_000_000)})
			case x < 20:
				b.Ops = append(b.Ops, c08Op{Kind: "ethsend", A: r.Intn(c08NAcc), B: r.Intn(c08NAcc), Amt: 1 + r.Int63n(1_000_000)})
			case x < 45:
				// both validators (or only one) report a price for a feeder; rounds of both feeders start at heights
				// 1, 11, 21, … and accept submissions for MaxNonce = 3 blocks; outside the window the op is mostly
				// replaced by a deposit (a few stay, as the invalid stream)
				// … and one round in three gets no submission at all (silent[i/10]): it stays open until the window ends
				if h := i + 1; silent[(h-1)/10] || (!(h%10 >= 2 && h%10 <= 4) && r.Intn(6) > 0) {
					b.Ops = append(b.Ops, c08Op{Kind: "deposit", A: r.Intn(c08NStakers), C: r.Intn(c08NAssets), Amt: 1 + r.Int63n(90_000_000)})
					continue
				}
				f := 1 + r.Intn(2)
				price := int64(2 + (i/10)%3) // the same for both feeders in one round: equal-value ties survive price updates
				if r.Intn(8) == 0 {
					price = 1 + r.Int63n(5)
				}
				b.Ops = append(b.Ops, c08Op{Kind: "price", A: 0, B: f, Amt: price})
				if r.Intn(3) > 0 {
					p2 := price
					if r.Intn(5) == 0 {
						p2 = price + 1
					}
					b.Ops = append(b.Ops, c08Op{Kind: "price", A: 1, B: f, Amt: p2})
				}
			case x < 50:
				b.Ops = append(b.Ops, c08Op{Kind: "regop", A: r.Intn(c08NAcc)})
			case x < 56:
				b.Ops = append(b.Ops, c08Op{Kind: "optin", A: r.Intn(c08NAcc)})
			case x < 62:
				b.Ops = append(b.Ops, c08Op{Kind: "deposit", A: r.Intn(c08NStakers), C: r.Intn(c08NAssets), Amt: 1 + r.Int63n(90_000_000)})
			case x < 64:
				// oracle UpdateParams (authority = gov): new MaxSizePrices, or a new token with its own feeder (interval 7,
				// starting 3 blocks ahead): nobody reports for it, so every one of its rounds is sealed as failed
				b.Ops = append(b.Ops, c08Op{Kind: "oparams", A: r.Intn(4), Amt: 40 + r.Int63n(60)})
			case x < 66:
				b.Ops = append(b.Ops, c08Op{Kind: "dparams", A: r.Intn(3)})
			case x < 68:
				b.Ops = append(b.Ops, c08Op{Kind: "avschallenge", A: r.Intn(64), B: r.Intn(2), C: r.Intn(c08NAcc)})
			case x < 80:
				b.Ops = append(b.Ops, c08Op{Kind: "delegate", A: r.Intn(4), B: r.Intn(2 + c08NAcc), C: r.Intn(c08NAssets), Amt: 1 + r.Int63n(30_000_000)})
			case x < 88:
				b.Ops = append(b.Ops, c08Op{Kind: "undelegate", A: r.Intn(4), B: r.Intn(5) / 4, C: r.Intn(c08NAssets), Amt: 1 + r.Int63n(10_000_000)})
			case x < 91:
				b.Ops = append(b.Ops, c08Op{Kind: "slash", A: r.Intn(2), Amt: 1 + r.Int63n(20)})
			case x < 95:
				b.Ops = append(b.Ops, c08Op{Kind: "avstask", A: r.Intn(3)})
			default:
				b.Ops = append(b.Ops, c08Op{Kind: "avsresult", A: r.Intn(64), B: r.Intn(2), Amt: int64(r.Intn(2))})
			}
		}
	}
	return blocks
}

// c08DirectedScript: scenario "noprice" — the genesis lists a third LST asset in the assets module and in the
// dogfood AVS's asset list but binds no oracle token to it.  Every OptIntoAVS transaction then fails inside
// GetMultipleAssetsPrices, which leaves its `for assetID := range assets` loop at the first asset without a token:
// how many priced assets were read (and paid for in gas) before that depends on the map iteration order.
func c08DirectedScript(kind string, nblocks int) []c08Block {
	blocks := make([]c08Block, nblocks)
	for i := range blocks {
		b := &blocks[i]
		b.Dt = 61
		switch {
		case i == 0:
			for a := 0; a < c08NAcc; a++ {
				b.Ops = append(b.Ops, c08Op{Kind: "regop", A: a})
			}
		default:
			for a := 0; a < c08NAcc; a++ {
				b.Ops = append(b.Ops, c08Op{Kind: "optin", A: a})
			}
		}
	}
	return blocks
}

func c08Script(seed int64, nblocks int) []c08Block {
	if k := os.Getenv("C08_SCENARIO"); k != "" {
		return c08DirectedScript(k, nblocks)
	}
	return c08GenScript(seed, nblocks)
}

// ---- observations ----------------------------------------------------------------------------

type c08TxObs struct {
	Code      uint32 `json:"code"`
	Data      string `json:"data"` // sha256 of ResponseDeliverTx.Data (hex, first 16 chars)
	GasWanted int64  `json:"gw"`
	GasUsed   int64  `json:"gu"`
}

type c08BlockObs struct {
	Height  int64      `json:"h"`
	AppHash string     `json:"app_hash"`
	Txs     []c08TxObs `json:"txs"`
	ValUpd  string     `json:"val_updates"` // pubkey:power list in the order of the response
	CPU     string     `json:"cpu"`         // ConsensusParamUpdates rendering
}

func c08Short(b []byte) string {
	if len(b) == 0 {
		return ""
	}
	h := sha256.Sum256(b)
	return hex.EncodeToString(h[:8])
}

// ---- worker ----------------------------------------------------------------------------------

type c08World struct {
	env      *Env
	txCfg    client.TxConfig
	stakers  []common.Address
	assets   []string // asset addresses
	avsAddr  string   // dogfood AVS
	avss     []c08AVS
	tasks    []c08Task
	restarts []int64
	// localTraffic: this process serves Simulate + CheckTx for every signed tx before DeliverTx (C08_CHECKTX=1)
	localTraffic bool
	nLocal       int
	opOfAcc      map[int]bool
}

// two extra AVSs with different asset lists and different operator sets; their tasks are created together, so
// task groups of DIFFERENT AVSs reach the epoch hook in the same call (one map, several keys)
type c08AVS struct {
	Addr, TaskAddr string
	Assets         []int // indices into c08AssetAddrs
	Ops            []int // genesis operator indices opted in
}

type c08Task struct {
	AVS int
	ID  uint64
}

var c08AVSs = []c08AVS{
	{Addr: "0x00000000000000000000000000000000000c08a5", TaskAddr: "0x3e108c058e8066DA635321Dc3018294cA82ddEdf", Assets: []int{0}, Ops: []int{0}},
	{Addr: "0x00000000000000000000000000000000000c08b6", TaskAddr: "0x4f219d169f9177eb746432ed4129305db93eeFe0", Assets: []int{0, 1}, Ops: []int{0, 1}},
}

func c08MutGenesis(app *exocoreapp.ExocoreApp, gs map[string]json.RawMessage) {
	cdc := app.AppCodec()
	// second LST asset, accepted by the dogfood AVS as well: its avsAssets map then has two keys
	var ag assetstypes.GenesisState
	cdc.MustUnmarshalJSON(gs[assetstypes.ModuleName], &ag)
	ag.Tokens = append(ag.Tokens, assetstypes.StakingAssetInfo{
		AssetBasicInfo: assetstypes.AssetInfo{
			Name: "USD Coin", Symbol: "USDC", Address: c08AssetAddrs[1], Decimals: 6, LayerZeroChainID: 101, MetaInfo: "USDC",
		},
		StakingTotalAmount: sdkmath.ZeroInt(),
	})
	gs[assetstypes.ModuleName] = cdc.MustMarshalJSON(&ag)
	var dg dogfoodtypes.GenesisState
	cdc.MustUnmarshalJSON(gs[dogfoodtypes.ModuleName], &dg)
	_, a2 := assetstypes.GetStakerIDAndAssetIDFromStr(101, "", c08AssetAddrs[1])
	dg.Params.AssetIDs = append(dg.Params.AssetIDs, a2)
	// six more oracle tokens with staggered feeders that nobody answers (interval 10, starting at heights 2, 3, 3, 4, 4, 5;
	// two of them end at heights 26 / 27): several rounds are sealed in the same EndBlock through the map-ordered
	// path while other feeders still have entries behind them in every validator's (ordered) NonceList
	var og oracletypes.GenesisState
	cdc.MustUnmarshalJSON(gs[oracletypes.ModuleName], &og)
	for i, f := range []struct{ start, end uint64 }{{2, 0}, {3, 0}, {3, 26}, {4, 27}, {4, 0}, {5, 0}} {
		og.Params.Tokens = append(og.Params.Tokens, &oracletypes.Token{Name: fmt.Sprintf("C08G%d", i), ChainID: 1, ContractAddress: "0x", Decimal: 8, Active: true})
		og.Params.TokenFeeders = append(og.Params.TokenFeeders, &oracletypes.TokenFeeder{
			TokenID: uint64(len(og.Params.Tokens) - 1), RuleID: 1, StartRoundID: 1, StartBaseBlock: f.start, Interval: 10, EndBlock: f.end})
	}
	gs[oracletypes.ModuleName] = cdc.MustMarshalJSON(&og)
	if os.Getenv("C08_SCENARIO") == "noprice" {
		third := "0x6B175474E89094C44Da98b954EedeAC495271d0F"
		ag.Tokens = append(ag.Tokens, assetstypes.StakingAssetInfo{
			AssetBasicInfo:     assetstypes.AssetInfo{Name: "Dai", Symbol: "DAI", Address: third, Decimals: 18, LayerZeroChainID: 101, MetaInfo: "DAI"},
			StakingTotalAmount: sdkmath.ZeroInt(),
		})
		gs[assetstypes.ModuleName] = cdc.MustMarshalJSON(&ag)
		_, a3 := assetstypes.GetStakerIDAndAssetIDFromStr(101, "", third)
		dg.Params.AssetIDs = append(dg.Params.AssetIDs, a3)
	}
	gs[dogfoodtypes.ModuleName] = cdc.MustMarshalJSON(&dg)
}

// c08RestartHeights: heights H at which the restart process drops the oracle's in-memory singletons between
// Commit(H-1) and BeginBlock(H) (hook oracle.VerifC14Restart, build tag verif), so that BeginBlock(H) rebuilds them
// from the committed store (recacheAggregatorContext).  Pure function of the seed: every height with probability
// 1/4, the heights around the end of a price round's submission window (rounds start at heights 1, 11, 21, …;
// MaxNonce = 3: based+1 … based+4) with probability 0.7; the quiet-window filter below then decides.
func c08RestartHeights(seed int64, nblocks int) map[int64]bool {
	r := rand.New(rand.NewSource(seed ^ 0x5eed0c08))
	hs := map[int64]bool{}
	for h := int64(3); h <= int64(nblocks); h++ {
		p := 25
		if m := h % 10; m >= 2 && m <= 5 {
			p = 70 // boundary pool: around the last block of a submission window
		}
		if r.Intn(100) < p {
			hs[h] = true
		}
	}
	return hs
}

// c08QuietWindow: restart equivalence of the oracle is C14's property and has listed defects (replayed messages
// lose their nonce, a round finalised by a transaction re-opens, a validator-set change inside the replay window
// rebuilds the round table).  All of them need a price submission or a validator-set change in the blocks that
// the recache replays, so the restart variant of THIS suite restarts only when the MaxNonce blocks before H
// carried no price operation and returned no validator update: the open, unanswered rounds that remain are
// exactly the state whose recache must be invisible.
func c08QuietWindow(script []c08Block, obs []c08BlockObs, h int64) bool {
	for d := int64(1); d <= 4; d++ {
		i := h - d - 1 // index of block h-d
		if i < 0 {
			return false
		}
		for _, op := range script[i].Ops {
			if op.Kind == "price" {
				return false
			}
		}
		if int(i) >= len(obs) || obs[i].ValUpd != "" {
			return false
		}
	}
	return true
}

func runC08Worker(a *Args) error {
	script := c08Script(a.Seed, a.N)
	env := NewEnv(EnvCfg{ExtraAccs: c08NAcc, MutGenesis: c08MutGenesis})
	w := &c08World{env: env, txCfg: encoding.MakeConfig(exocoreapp.ModuleBasics).TxConfig, assets: c08AssetAddrs, opOfAcc: map[int]bool{}}
	for i := 0; i < c08NStakers; i++ {
		_, addr := DetEthKey("c08staker", i)
		w.stakers = append(w.stakers, addr)
	}
	w.avsAddr = avstypes.GenerateAVSAddr(avstypes.ChainIDWithoutRevision(env.ChainID))
	w.avss = c08AVSs
	w.localTraffic = os.Getenv("C08_CHECKTX") != ""
	var obs []c08BlockObs
	restartAt := map[int64]bool{}
	if os.Getenv("C08_RESTART") != "" && os.Getenv("C08_SCENARIO") == "" {
		restartAt = c08RestartHeights(a.Seed, a.N)
	}
	for _, blk := range script {
		bo := c08BlockObs{Height: env.Header.Height}
		if w.localTraffic {
			w.localOnlyTraffic(a.Seed)
		}
		for i, op := range blk.Ops {
			if w.localTraffic && i == len(blk.Ops)/2 {
				w.localOnlyTraffic(a.Seed + 1)
			}
			bo.Txs = append(bo.Txs, w.exec(op))
		}
		res := env.App.EndBlock(abci.RequestEndBlock{Height: env.Header.Height})
		var vus []string
		for _, vu := range res.ValidatorUpdates {
			bz, _ := vu.PubKey.Marshal()
			vus = append(vus, hex.EncodeToString(bz)+":"+strconv.FormatInt(vu.Power, 10))
		}
		bo.ValUpd = strings.Join(vus, ",")
		if res.ConsensusParamUpdates != nil {
			bo.CPU = res.ConsensusParamUpdates.String()
		}
		cm := env.App.Commit()
		bo.AppHash = hex.EncodeToString(cm.Data)
		obs = append(obs, bo)
		h := env.Header
		h.Height++
		if restartAt[h.Height] && c08QuietWindow(script, obs, h.Height) {
			oraclemodule.VerifC14Restart()
			w.restarts = append(w.restarts, h.Height)
		}
		h.Time = h.Time.Add(time.Duration(blk.Dt) * time.Second)
		h.AppHash = env.App.LastCommitID().Hash
		var votes []abci.VoteInfo
		for _, ck := range env.ConsKeys {
			votes = append(votes, abci.VoteInfo{Validator: abci.Validator{Address: ck.ToConsAddr(), Power: 100}, SignedLastBlock: true})
		}
		env.App.BeginBlock(abci.RequestBeginBlock{Header: h, LastCommitInfo: abci.CommitInfo{Votes: votes}})
		env.Header = h
		env.Ctx = env.App.BaseApp.NewContext(false, h)
	}
	if os.Getenv("C08_DEBUG") != "" {
		ctx := env.Ctx
		for i, st := range w.stakers {
			sid, _ := assetstypes.GetStakerIDAndAssetID(101, st.Bytes(), nil)
			fmt.Fprintf(os.Stderr, "staker %d rewards: %s\n", i, env.App.DistrKeeper.GetStakerRewards(ctx, sid).Rewards.String())
		}
		for _, t := range w.tasks {
			ti, err := env.App.AVSManagerKeeper.GetTaskInfo(ctx, strconv.FormatUint(t.ID, 10), w.avss[t.AVS].TaskAddr)
			if err == nil {
				fmt.Fprintf(os.Stderr, "task %d/%d: signed=%d nosigned=%d threshold=%d total=%s powers=%v\n", t.AVS, t.ID, len(ti.SignedOperators), len(ti.NoSignedOperators), ti.ActualThreshold, ti.TaskTotalPower, ti.OperatorActivePower)
			}
		}
	}
	b, err := json.Marshal(obs)
	if err != nil {
		return err
	}
	_ = os.WriteFile(filepath.Join(a.Out, "local.json"), []byte(strconv.Itoa(w.nLocal)), 0o644)
	rb, _ := json.Marshal(w.restarts)
	_ = os.WriteFile(filepath.Join(a.Out, "restarts.json"), rb, 0o644)
	return os.WriteFile(filepath.Join(a.Out, "obs.json"), b, 0o644)
}

// localOnlyTraffic: requests that ONLY this process serves and that are never delivered in a block — what a public
// RPC node sees all day: gas estimates / eth_call of gateway functions, simulations of governance and price
// messages.  All of it runs on query / check contexts whose store writes are thrown away; none of it may leave a
// trace in what the node computes for the next blocks.  Which requests are made is drawn from (seed, height).
func (w *c08World) localOnlyTraffic(seed int64) {
	env := w.env
	r := rand.New(rand.NewSource(seed*7919 + env.Header.Height))
	safe := func(f func()) {
		defer func() {
			if rec := recover(); rec != nil && os.Getenv("C08_DEBUG") != "" {
				fmt.Fprintf(os.Stderr, "h=%d local-only request panicked: %v\n", env.Header.Height, rec)
			}
		}()
		f()
		w.nLocal++
	}
	queryCtx := func() sdk.Context {
		c, _ := env.App.BaseApp.NewContext(true, env.Header).CacheContext()
		return c.WithGasMeter(sdk.NewInfiniteGasMeter()).WithBlockGasMeter(sdk.NewInfiniteGasMeter())
	}
	gov := authtypes.NewModuleAddress(govtypes.ModuleName).String()
	for n := 0; n < 2; n++ {
		switch r.Intn(5) {
		case 0: // eth_call / eth_estimateGas of the gateway's registerToken for a token name + chain the oracle knows
			safe(func() { w.ethCallAssets(queryCtx(), "registerToken", r) })
		case 1: // … and of updateToken
			safe(func() { w.ethCallAssets(queryCtx(), "updateToken", r) })
		case 2: // simulation of an oracle MsgUpdateParams (as runTx does in simulate mode: message executed on the check state)
			safe(func() {
				cur := env.App.OracleKeeper.GetParams(queryCtx())
				upd := oracletypes.Params{MaxSizePrices: int32(20 + r.Intn(30))}
				if r.Intn(2) == 0 {
					nt := len(cur.Tokens)
					upd.Tokens = []*oracletypes.Token{{Name: fmt.Sprintf("C08L%d", nt), ChainID: 1, ContractAddress: "0x", Decimal: 8, Active: true}}
					upd.TokenFeeders = []*oracletypes.TokenFeeder{{TokenID: uint64(nt), RuleID: 1, StartRoundID: 1,
						StartBaseBlock: uint64(env.Header.Height) + 2, Interval: 6}}
				}
				msg := &oracletypes.MsgUpdateParams{Authority: gov, Params: upd}
				if os.Getenv("C08_DIRECT_MSG") != "" {
					_, _ = oraclekeeper.NewMsgServerImpl(env.App.OracleKeeper).UpdateParams(sdk.WrapSDKContext(queryCtx()), msg)
					return
				}
				w.simulateMsgs(msg)
			})
		case 3: // simulation of a dogfood MsgUpdateParams
			safe(func() {
				c := queryCtx()
				p := env.App.StakingKeeper.GetDogfoodParams(c)
				p.MaxValidators = uint32(1 + r.Intn(7))
				w.simulateMsgs(&dogfoodtypes.MsgUpdateParams{Authority: gov, Params: p})
			})
		case 4: // Simulate + CheckTx of create-price transactions (both validators, any feeder) that no block will contain
			for v := 0; v < 2; v++ {
				v := v
				safe(func() {
					tx := w.priceTx(c08Op{Kind: "price", A: v, B: 1 + r.Intn(8), Amt: 7 + int64(r.Intn(3))})
					if tx == nil {
						return
					}
					bz, err := w.txCfg.TxEncoder()(tx)
					if err != nil {
						return
					}
					_, _, _ = env.App.Simulate(bz)
					_ = env.App.CheckTx(abci.RequestCheckTx{Tx: bz, Type: abci.CheckTxType_New})
				})
			}
		}
	}
}

// simulateMsgs sends the messages through BaseApp.Simulate in a transaction whose signer is whoever the messages
// name (here: the governance authority): a simulation request carries no usable signature, and none is verified.
func (w *c08World) simulateMsgs(msgs ...sdk.Msg) {
	tb := w.txCfg.NewTxBuilder()
	tb.SetGasLimit(2_000_000)
	tb.SetFeeAmount(sdk.Coins{{Denom: utils.BaseDenom, Amount: sdkmath.NewInt(2_000_000_000_000_000)}})
	if err := tb.SetMsgs(msgs...); err != nil {
		return
	}
	mode := w.txCfg.SignModeHandler().DefaultMode()
	_ = tb.SetSignatures(signing.SignatureV2{PubKey: w.env.AccPrivs[0].PubKey(), Data: &signing.SingleSignatureData{SignMode: mode}, Sequence: 0})
	bz, err := w.txCfg.TxEncoder()(tb.GetTx())
	if err != nil {
		return
	}
	_, res, err := w.env.App.Simulate(bz)
	if os.Getenv("C08_DEBUG") != "" {
		fmt.Fprintf(os.Stderr, "h=%d simulate %T: err=%v res=%v\n", w.env.Header.Height, msgs[0], err, res != nil)
	}
}

// ethCallAssets runs a call of the assets precompile through the EVM query path (EvmKeeper.EthCall, nothing committed),
// sent "from" the configured gateway address as an eth_call may claim.
func (w *c08World) ethCallAssets(ctx sdk.Context, method string, r *rand.Rand) {
	env := w.env
	pc, err := assetsprecompile.NewPrecompile(env.App.AssetsKeeper, env.App.AuthzKeeper)
	if err != nil {
		return
	}
	ap, err := env.App.AssetsKeeper.GetParams(ctx)
	if err != nil {
		return
	}
	oparams := env.App.OracleKeeper.GetParams(ctx)
	tok := oparams.Tokens[1+r.Intn(2)]
	var data []byte
	switch method {
	case "registerToken":
		addr := make([]byte, 32)
		copy(addr, seedBytes("c08phantom", r.Intn(4))[:20])
		data, err = pc.ABI.Pack("registerToken", uint32(101), addr, uint8(18), "Phantom", "phantom token of a simulated call",
			fmt.Sprintf("%s,%s,%d", tok.Name, oparams.Chains[tok.ChainID].Name, tok.Decimal))
	default:
		addr := make([]byte, 32)
		copy(addr, common.HexToAddress(w.assets[r.Intn(len(w.assets))]).Bytes())
		data, err = pc.ABI.Pack("updateToken", uint32(101), addr, fmt.Sprintf("meta %d", r.Intn(100)))
	}
	if err != nil {
		if os.Getenv("C08_DEBUG") != "" {
			fmt.Fprintf(os.Stderr, "pack %s: %v\n", method, err)
		}
		return
	}
	from := common.HexToAddress(ap.ExocoreLzAppAddress)
	to := pc.Address()
	hd := hexutil.Bytes(data)
	gas := hexutil.Uint64(3_000_000)
	args, _ := json.Marshal(evmtypes.TransactionArgs{From: &from, To: &to, Data: &hd, Gas: &gas})
	res, err := env.App.EvmKeeper.EthCall(sdk.WrapSDKContext(ctx), &evmtypes.EthCallRequest{Args: args, GasCap: 25_000_000, ChainId: env.App.EvmKeeper.ChainID().Int64()})
	if os.Getenv("C08_DEBUG") != "" {
		if err != nil {
			fmt.Fprintf(os.Stderr, "h=%d ethcall %s: error %v\n", env.Header.Height, method, err)
		} else {
			fmt.Fprintf(os.Stderr, "h=%d ethcall %s: vmerror=%q ret=%x\n", env.Header.Height, method, res.VmError, res.Ret)
		}
	}
}

// keeperOp runs f on a cache of the DeliverTx state and commits it only on success (what a transaction does).
func (w *c08World) keeperOp(f func(ctx sdk.Context) error) (res c08TxObs) {
	cctx, write := w.env.Ctx.CacheContext()
	defer func() {
		if r := recover(); r != nil {
			if os.Getenv("C08_DEBUG") != "" {
				fmt.Fprintf(os.Stderr, "h=%d keeper op panic: %v\n", w.env.Header.Height, r)
			}
			res = c08TxObs{Code: 2}
		}
	}()
	if err := f(cctx); err != nil {
		if os.Getenv("C08_DEBUG") != "" {
			fmt.Fprintf(os.Stderr, "h=%d keeper op error: %v\n", w.env.Header.Height, err)
		}
		return c08TxObs{Code: 1}
	}
	write()
	return c08TxObs{Code: 0}
}

func (w *c08World) deliver(tx sdk.Tx) c08TxObs {
	bz, err := w.txCfg.TxEncoder()(tx)
	if err != nil {
		return c08TxObs{Code: 99}
	}
	if w.localTraffic {
		// node-local traffic that must not matter: this process answers a Simulate request and a CheckTx for the
		// transaction before the block delivers it (mempool admission / gas estimation of a node that happens to
		// receive the tx first); the other processes never see either
		func() {
			defer func() { _ = recover() }()
			_, _, _ = w.env.App.Simulate(bz)
		}()
		func() {
			defer func() { _ = recover() }()
			_ = w.env.App.CheckTx(abci.RequestCheckTx{Tx: bz, Type: abci.CheckTxType_New})
		}()
		w.nLocal++
	}
	r := w.env.App.DeliverTx(abci.RequestDeliverTx{Tx: bz})
	if os.Getenv("C08_DEBUG") != "" {
		fmt.Fprintf(os.Stderr, "h=%d code=%d gas=%d/%d log=%s\n", w.env.Header.Height, r.Code, r.GasUsed, r.GasWanted, r.Log)
	}
	return c08TxObs{Code: r.Code, Data: c08Short(r.Data), GasWanted: r.GasWanted, GasUsed: r.GasUsed}
}

func (w *c08World) cosmosTx(priv cryptotypes.PrivKey, gas uint64, msgs ...sdk.Msg) (sdk.Tx, error) {
	ctx := w.env.Ctx
	app := w.env.App
	tb := w.txCfg.NewTxBuilder()
	tb.SetGasLimit(gas)
	price := sdkmath.NewInt(1_000_000_000) // well above any base fee the fee market asks for
	tb.SetFeeAmount(sdk.Coins{{Denom: utils.BaseDenom, Amount: price.MulRaw(int64(gas))}})
	if err := tb.SetMsgs(msgs...); err != nil {
		return nil, err
	}
	addr := sdk.AccAddress(priv.PubKey().Address().Bytes())
	acc := app.AccountKeeper.GetAccount(ctx, addr)
	if acc == nil {
		return nil, fmt.Errorf("no account")
	}
	seq := acc.GetSequence()
	mode := w.txCfg.SignModeHandler().DefaultMode()
	sig := signing.SignatureV2{PubKey: priv.PubKey(), Data: &signing.SingleSignatureData{SignMode: mode}, Sequence: seq}
	if err := tb.SetSignatures(sig); err != nil {
		return nil, err
	}
	sd := authsigning.SignerData{ChainID: w.env.ChainID, AccountNumber: acc.GetAccountNumber(), Sequence: seq}
	sig, err := clienttx.SignWithPrivKey(mode, sd, tb, priv, w.txCfg, seq)
	if err != nil {
		return nil, err
	}
	if err := tb.SetSignatures(sig); err != nil {
		return nil, err
	}
	return tb.GetTx(), nil
}

// oracleTx: create-price transaction signed with the validator's consensus key over SignerData{ChainID}
// (account number and sequence 0), exactly what the oracle branch of the ante handler reconstructs.
func (w *c08World) oracleTx(val int, msg *oracletypes.MsgCreatePrice) (sdk.Tx, error) {
	priv := w.env.ConsPrivs[val]
	tb := w.txCfg.NewTxBuilder()
	tb.SetGasLimit(200000)
	if err := tb.SetMsgs(msg); err != nil {
		return nil, err
	}
	mode := w.txCfg.SignModeHandler().DefaultMode()
	sig := signing.SignatureV2{PubKey: priv.PubKey(), Data: &signing.SingleSignatureData{SignMode: mode}, Sequence: 0}
	if err := tb.SetSignatures(sig); err != nil {
		return nil, err
	}
	sig, err := clienttx.SignWithPrivKey(mode, authsigning.SignerData{ChainID: w.env.ChainID}, tb, priv, w.txCfg, 0)
	if err != nil {
		return nil, err
	}
	if err := tb.SetSignatures(sig); err != nil {
		return nil, err
	}
	return tb.GetTx(), nil
}

// priceTx builds the signed create-price transaction of validator op.A for feeder op.B in the round that is current
// at this height (nil when the feeder does not exist / has not started)
func (w *c08World) priceTx(op c08Op) sdk.Tx {
	env := w.env
	params := env.App.OracleKeeper.GetParams(env.Ctx)
	if op.B >= len(params.TokenFeeders) {
		return nil
	}
	fd := params.TokenFeeders[op.B]
	h := uint64(env.Header.Height)
	prevH := h - 1
	if prevH < fd.StartBaseBlock {
		return nil
	}
	based := prevH - (prevH-fd.StartBaseBlock)%fd.Interval
	consAddr := env.ConsKeys[op.A].ToConsAddr()
	nonce := int32(1)
	if n, found := env.App.OracleKeeper.GetNonce(env.Ctx, consAddr.String()); found {
		for _, x := range n.NonceList {
			if x.FeederID == uint64(op.B) {
				nonce = int32(x.Value) + 1
			}
		}
	}
	dec := params.Tokens[fd.TokenID].Decimal
	msg := oracletypes.NewMsgCreatePrice(sdk.AccAddress(consAddr).String(), uint64(op.B), []*oracletypes.PriceSource{{
		SourceID: 1,
		Prices: []*oracletypes.PriceTimeDetID{{Price: strconv.FormatInt(op.Amt, 10), Decimal: dec,
			Timestamp: env.Header.Time.UTC().Format("2006-01-02 15:04:05"), DetID: strconv.FormatUint(based, 10)}},
	}}, based, nonce)
	tx, err := w.oracleTx(op.A, msg)
	if err != nil {
		return nil
	}
	return tx
}

func (w *c08World) operatorAddr(i int) sdk.AccAddress {
	if i < len(w.env.Operators) {
		return w.env.Operators[i]
	}
	return sdk.AccAddress(w.env.AccAddrs[(i-len(w.env.Operators))%len(w.env.AccAddrs)].Bytes())
}

func (w *c08World) exec(op c08Op) c08TxObs {
	env := w.env
	switch op.Kind {
	case "send":
		from := sdk.AccAddress(env.AccAddrs[op.A].Bytes())
		to := sdk.AccAddress(env.AccAddrs[op.B].Bytes())
		msg := banktypes.NewMsgSend(from, to, sdk.NewCoins(sdk.NewCoin(utils.BaseDenom, sdkmath.NewInt(op.Amt))))
		tx, err := w.cosmosTx(env.AccPrivs[op.A], 200000, msg)
		if err != nil {
			return c08TxObs{Code: 98}
		}
		return w.deliver(tx)
	case "ethsend":
		// plain EVM value transfer (dynamic-fee tx) between two funded accounts, through the EVM ante chain
		from := env.AccAddrs[op.A]
		to := env.AccAddrs[op.B]
		nonce := env.App.EvmKeeper.GetNonce(env.Ctx, from)
		msg := evmtypes.NewTx(&evmtypes.EvmTxArgs{
			ChainID: env.App.EvmKeeper.ChainID(), Nonce: nonce, To: &to, Amount: big.NewInt(op.Amt), GasLimit: 100000,
			GasFeeCap: big.NewInt(2_000_000_000), GasTipCap: big.NewInt(1), Accesses: nil,
		})
		msg.From = from.Hex()
		tx, err := exotx.PrepareEthTx(w.txCfg, env.App, env.AccPrivs[op.A], msg)
		if err != nil {
			return c08TxObs{Code: 98}
		}
		return w.deliver(tx)
	case "regop":
		from := sdk.AccAddress(env.AccAddrs[op.A].Bytes())
		msg := &operatortypes.RegisterOperatorReq{FromAddress: from.String(), Info: &operatortypes.OperatorInfo{
			EarningsAddr: from.String(), ApproveAddr: from.String(), OperatorMetaInfo: fmt.Sprintf("c08 operator %d", op.A),
			Commission: stakingtypes.NewCommission(sdk.NewDecWithPrec(1, 1), sdk.NewDecWithPrec(5, 1), sdk.NewDecWithPrec(1, 2)),
		}}
		tx, err := w.cosmosTx(env.AccPrivs[op.A], 400000, msg)
		if err != nil {
			return c08TxObs{Code: 98}
		}
		return w.deliver(tx)
	case "optin":
		from := sdk.AccAddress(env.AccAddrs[op.A].Bytes())
		_, ck := DetConsKey("c08cons", op.A)
		msg := &operatortypes.OptIntoAVSReq{FromAddress: from.String(), AvsAddress: w.avsAddr, PublicKeyJSON: ck.ToJSON()}
		tx, err := w.cosmosTx(env.AccPrivs[op.A], 800000, msg)
		if err != nil {
			return c08TxObs{Code: 98}
		}
		return w.deliver(tx)
	case "price":
		tx := w.priceTx(op)
		if tx == nil {
			return c08TxObs{Code: 97}
		}
		return w.deliver(tx)
	case "deposit":
		return w.keeperOp(func(ctx sdk.Context) error {
			return env.App.AssetsKeeper.PerformDepositOrWithdraw(ctx, &assetskeeper.DepositWithdrawParams{
				ClientChainLzID: 101, Action: assetstypes.DepositLST, StakerAddress: w.stakers[op.A].Bytes(),
				AssetsAddress: common.HexToAddress(w.assets[op.C]).Bytes(), OpAmount: sdkmath.NewInt(op.Amt),
			})
		})
	case "delegate", "undelegate":
		return w.keeperOp(func(ctx sdk.Context) error {
			p := &delegationtypes.DelegationOrUndelegationParams{
				ClientChainID: 101, Action: assetstypes.DelegateTo, AssetsAddress: common.HexToAddress(w.assets[op.C]).Bytes(),
				OperatorAddress: w.operatorAddr(op.B), StakerAddress: w.stakers[op.A].Bytes(), OpAmount: sdkmath.NewInt(op.Amt),
				LzNonce: uint64(env.Header.Height)*1000 + uint64(len(w.tasks)) + uint64(op.A*10+op.C),
				TxHash:  common.BytesToHash(seedBytes(fmt.Sprintf("c08tx/%d/%d/%d/%d", env.Header.Height, op.A, op.B, op.Amt), op.C)),
			}
			if op.Kind == "delegate" {
				return env.App.DelegationKeeper.DelegateTo(ctx, p)
			}
			p.Action = assetstypes.UndelegateFrom
			return env.App.DelegationKeeper.UndelegateFrom(ctx, p)
		})
	case "slash":
		return w.keeperOp(func(ctx sdk.Context) error {
			env.App.StakingKeeper.SlashWithInfractionReason(ctx, env.ConsKeys[op.A].ToConsAddr(), ctx.BlockHeight()-1, 100,
				sdk.NewDecWithPrec(op.Amt, 2), stakingtypes.Infraction_INFRACTION_DOWNTIME)
			return nil
		})
	case "oparams":
		return w.keeperOp(func(ctx sdk.Context) error {
			cur := env.App.OracleKeeper.GetParams(ctx)
			upd := oracletypes.Params{MaxSizePrices: int32(op.Amt)}
			if op.A == 0 && len(cur.Tokens) < 12 {
				n := len(cur.Tokens)
				upd.Tokens = []*oracletypes.Token{{Name: fmt.Sprintf("C08T%d", n), ChainID: 1, ContractAddress: "0x", Decimal: 8, Active: true}}
				upd.TokenFeeders = []*oracletypes.TokenFeeder{{TokenID: uint64(n), RuleID: 1, StartRoundID: 1,
					StartBaseBlock: uint64(ctx.BlockHeight()) + 3, Interval: 7}}
			}
			_, err := oraclekeeper.NewMsgServerImpl(env.App.OracleKeeper).UpdateParams(sdk.WrapSDKContext(ctx),
				&oracletypes.MsgUpdateParams{Authority: authtypes.NewModuleAddress(govtypes.ModuleName).String(), Params: upd})
			return err
		})
	case "dparams":
		return w.keeperOp(func(ctx sdk.Context) error {
			p := env.App.StakingKeeper.GetDogfoodParams(ctx)
			p.MaxValidators = []uint32{1, 2, 5}[op.A]
			_, err := env.App.StakingKeeper.UpdateParams(sdk.WrapSDKContext(ctx),
				&dogfoodtypes.MsgUpdateParams{Authority: authtypes.NewModuleAddress(govtypes.ModuleName).String(), Params: p})
			return err
		})
	case "avschallenge":
		return w.keeperOp(func(ctx sdk.Context) error {
			if len(w.tasks) == 0 {
				return fmt.Errorf("no task")
			}
			t := w.tasks[op.A%len(w.tasks)]
			a := w.avss[t.AVS]
			return env.App.AVSManagerKeeper.SetTaskChallengedInfo(ctx, t.ID, w.env.Operators[a.Ops[op.B%len(a.Ops)]].String(),
				sdk.AccAddress(env.AccAddrs[op.C].Bytes()).String(), common.HexToAddress(a.TaskAddr))
		})
	case "avstask":
		return w.keeperOp(func(ctx sdk.Context) error { return w.avsTask(ctx, op) })
	case "avsresult":
		return w.keeperOp(func(ctx sdk.Context) error { return w.avsResult(ctx, op) })
	}
	return c08TxObs{Code: 96}
}

// avsTask: registers (once) the two extra AVSs of c08AVSs (SetAVSInfo is the keeper's own raw setter) and opts the
// genesis operators into them through the real OptIn; then creates, in EVERY one of these AVSs, two tasks whose
// statistical period ends in the same minute-epoch, with result records of the opted-in operators.
func (w *c08World) avsTask(ctx sdk.Context, op c08Op) error {
	k := w.env.App.AVSManagerKeeper
	if len(w.tasks) == 0 {
		for i, a := range w.avss {
			var assetIDs []string
			for _, ai := range a.Assets {
				_, id := assetstypes.GetStakerIDAndAssetIDFromStr(101, "", w.assets[ai])
				assetIDs = append(assetIDs, id)
			}
			if err := k.SetAVSInfo(ctx, &avstypes.AVSInfo{
				Name: fmt.Sprintf("c08avs%d", i), AvsAddress: a.Addr, TaskAddr: a.TaskAddr, EpochIdentifier: "minute", AssetIDs: assetIDs,
				AvsUnbondingPeriod: 2, MinSelfDelegation: 0, StartingEpoch: 1, MinOptInOperators: 1, MinTotalStakeAmount: 1,
				AvsOwnerAddress: []string{w.env.Operators[0].String()},
				AvsSlash:        sdk.NewDecWithPrec(1, 1), AvsReward: sdk.NewDecWithPrec(1, 1),
			}); err != nil {
				return err
			}
			for _, oi := range a.Ops {
				if err := w.env.App.OperatorKeeper.OptIn(ctx, w.env.Operators[oi], a.Addr); err != nil {
					return err
				}
			}
		}
	}
	ep, found := w.env.App.EpochsKeeper.GetEpochInfo(ctx, "minute")
	if !found {
		return fmt.Errorf("no minute epoch")
	}
	for ai, a := range w.avss {
		// opted-in operators of the task: the AVS's operators plus three that never answer, so that
		// types.Difference has several leftovers in its map
		var ops []string
		for _, oi := range a.Ops {
			ops = append(ops, w.env.Operators[oi].String())
		}
		for i := 0; i < 3; i++ {
			ops = append(ops, sdk.AccAddress(w.env.AccAddrs[i].Bytes()).String())
		}
		for n := 0; n < 2; n++ {
			id := uint64(len(w.tasks) + 1)
			if err := k.SetTaskInfo(ctx, &avstypes.TaskInfo{
				TaskContractAddress: a.TaskAddr, Name: fmt.Sprintf("task%d", id), TaskId: id, Hash: []byte("c08"),
				TaskResponsePeriod: 1, TaskStatisticalPeriod: uint64(1 + op.A), TaskChallengePeriod: 1, ThresholdPercentage: 60,
				StartingEpoch: uint64(ep.CurrentEpoch), OptInOperators: ops, TaskTotalPower: sdk.ZeroDec(),
			}); err != nil {
				return err
			}
			w.tasks = append(w.tasks, c08Task{ai, id})
			for j := range a.Ops {
				if j == 0 || (int(id)+op.A)%3 != 0 { // the first operator always answers: every group has a signed result
					if err := w.avsResult(ctx, c08Op{A: len(w.tasks) - 1, B: j, Amt: int64(n)}); err != nil {
						return err
					}
				}
			}
		}
	}
	return nil
}

// avsResult stores a task result record for an operator of the task's AVS under the key the keeper uses
// (operator/taskAddr/taskID), with a non-empty signature (the epoch hook only looks at its presence).
func (w *c08World) avsResult(ctx sdk.Context, op c08Op) error {
	if len(w.tasks) == 0 {
		return fmt.Errorf("no task")
	}
	t := w.tasks[op.A%len(w.tasks)]
	a := w.avss[t.AVS]
	operator := w.env.Operators[a.Ops[op.B%len(a.Ops)]].String()
	info := &avstypes.TaskResultInfo{
		OperatorAddress: operator, TaskResponseHash: "", TaskResponse: nil, BlsSignature: []byte{1, 2, 3, byte(op.Amt)},
		TaskContractAddress: a.TaskAddr, TaskId: t.ID, Stage: avstypes.TwoPhaseCommitOne,
	}
	key := assetstypes.GetJoinedStoreKey(strings.ToLower(operator), strings.ToLower(a.TaskAddr), strconv.FormatUint(t.ID, 10))
	store := ctx.KVStore(w.env.App.GetKey(avstypes.StoreKey))
	bz := w.env.App.AppCodec().MustMarshal(info)
	store.Set(append(append([]byte{}, avstypes.KeyPrefixTaskResult...), key...), bz)
	return nil
}

// ---- parent ----------------------------------------------------------------------------------

type c08Case struct {
	Seed    int64           `json:"seed"`
	Blocks  int             `json:"blocks"`
	Script  []c08Block      `json:"script"`
	Procs   []string        `json:"procs"` // GOMAXPROCS of each process
	Obs     [][]c08BlockObs `json:"obs"`
	Local   string          `json:"local_traffic"`
	Restart []int64         `json:"restarts_of_last_process"` // heights before whose BeginBlock the LAST process re-created the oracle's memory from the store
	Tags    []string        `json:"tags,omitempty"`
	NT      bool            `json:"nt"`
	Diverge string          `json:"first_divergence,omitempty"`
}

func c08RunWorker(seed int64, blocks int, dir string, gomaxprocs string, scenario string, restart, localTraffic bool) ([]c08BlockObs, []int64, error) {
	if err := os.MkdirAll(dir, 0o755); err != nil {
		return nil, nil, err
	}
	cmd := exec.Command(os.Args[0], "c08worker", "-seed", strconv.FormatInt(seed, 10), "-n", strconv.Itoa(blocks), "-out", dir)
	cmd.Env = append(os.Environ(), "GOMAXPROCS="+gomaxprocs, "C08_SCENARIO="+scenario)
	if restart {
		cmd.Env = append(cmd.Env, "C08_RESTART=1")
	} else {
		cmd.Env = append(cmd.Env, "C08_RESTART=")
	}
	if localTraffic {
		cmd.Env = append(cmd.Env, "C08_CHECKTX=1")
	} else {
		cmd.Env = append(cmd.Env, "C08_CHECKTX=")
	}
	out, err := cmd.CombinedOutput()
	if err != nil {
		tail := string(out)
		if len(tail) > 3000 {
			tail = tail[len(tail)-3000:]
		}
		return nil, nil, fmt.Errorf("worker failed: %v\n%s", err, tail)
	}
	b, err := os.ReadFile(filepath.Join(dir, "obs.json"))
	if err != nil {
		return nil, nil, err
	}
	var obs []c08BlockObs
	if err := json.Unmarshal(b, &obs); err != nil {
		return nil, nil, err
	}
	var restarts []int64
	if rb, err := os.ReadFile(filepath.Join(dir, "restarts.json")); err == nil {
		_ = json.Unmarshal(rb, &restarts)
	}
	return obs, restarts, nil
}

func c08ObsCoq(o c08BlockObs) string {
	txs := make([]string, len(o.Txs))
	for i, t := range o.Txs {
		txs[i] = cTuple(cZ(int64(t.Code)), cStr(t.Data), cZ(t.GasWanted), cZ(t.GasUsed))
	}
	return cApp("mkBObs", cStr(o.AppHash), cList(txs), cStr(c08Short([]byte(o.ValUpd))), cStr(c08Short([]byte(o.CPU))))
}

// directed scenarios that run first (tagged kf-C08-<name>); see design/C08.md
var c08Directed = []string{"noprice"}

func runC08(a *Args) error {
	w := NewCaseWriter(a.Out)
	defer w.Close()
	blocks := 30
	procs := []string{"1", "2", "4"}
	if a.Tier == "thorough" {
		blocks = 120
		procs = []string{"1", "2", "3", "4", "8"}
	}
	if v := os.Getenv("C08_BLOCKS"); v != "" {
		blocks, _ = strconv.Atoi(v)
	}
	if v := os.Getenv("C08_PROCS"); v != "" {
		procs = strings.Split(v, ",")
	}
	// sentinel: when the site scan of this run (suite order: sitescan first) found a schedule-injection site
	// without a lemma, sample three times as many schedules before saying "no failing input found"
	if b, err := os.ReadFile(filepath.Join(filepath.Dir(a.Out), "sitescan", "cases.jsonl")); err == nil &&
		strings.Contains(string(b), `"covered":false`) && os.Getenv("C08_NO_DEEPEN") == "" {
		a.N *= 3
		w.Count("deepened-by-sitescan")
	}
	r := rand.New(rand.NewSource(a.Seed))
	par := 3
	nLocal := map[int]int{}
	directed := []string{}
	if os.Getenv("C08_NO_DIRECTED") == "" {
		directed = c08Directed
	}
	for ci := 0; ci < a.N+len(directed); ci++ {
		cs := c08Case{Seed: r.Int63n(1 << 40), Blocks: blocks, Procs: procs, NT: true,
			Local: "process 1 serves Simulate + CheckTx for every signed tx before its DeliverTx, and 4 requests per block that are never delivered (eth_call of the gateway's registerToken / updateToken, simulated oracle / dogfood UpdateParams, simulated create-price); the other processes serve none"}
		scenario := ""
		if ci < len(directed) {
			scenario = directed[ci]
			cs.Seed = 0
			cs.Blocks = 8
			cs.Tags = []string{"kf-C08-" + scenario}
			cs.Script = c08DirectedScript(scenario, cs.Blocks)
			w.Count("cases/directed-" + scenario)
		} else {
			cs.Script = c08GenScript(cs.Seed, blocks)
		}
		blocks := cs.Blocks
		cs.Obs = make([][]c08BlockObs, len(procs))
		errs := make([]error, len(procs))
		var wg sync.WaitGroup
		sem := make(chan struct{}, par)
		for pi := range procs {
			wg.Add(1)
			go func(pi int) {
				defer wg.Done()
				sem <- struct{}{}
				defer func() { <-sem }()
				restart := pi == len(procs)-1 && os.Getenv("C08_NO_RESTART") == ""
				var rs []int64
				local := pi == 1 && os.Getenv("C08_NO_LOCALTRAFFIC") == ""
				cs.Obs[pi], rs, errs[pi] = c08RunWorker(cs.Seed, blocks, filepath.Join(a.Out, fmt.Sprintf("w%d_%d", ci, pi)), procs[pi], scenario, restart, local)
				if local {
					if b, err := os.ReadFile(filepath.Join(a.Out, fmt.Sprintf("w%d_%d", ci, pi), "local.json")); err == nil {
						n, _ := strconv.Atoi(string(b))
						nLocal[ci] = n
					}
				}
				if restart {
					cs.Restart = rs
				}
			}(pi)
		}
		wg.Wait()
		for _, e := range errs {
			if e != nil {
				return e
			}
		}
		// distribution
		for _, b := range cs.Script {
			for _, op := range b.Ops {
				w.Count("op/" + op.Kind)
			}
		}
		for _, bo := range cs.Obs[0] {
			for _, t := range bo.Txs {
				w.Count(fmt.Sprintf("txcode/%d", t.Code))
			}
			if bo.ValUpd != "" {
				w.Count("block/validator-updates")
			}
		}
		w.CountN("blocks", blocks)
		w.CountN("restarts-in-last-process", len(cs.Restart))
		w.CountN("node-local-requests-served-by-process-1", nLocal[ci])
		w.CountN("processes", len(procs))
		// first divergence, for humans
		for bi := 0; bi < blocks && cs.Diverge == ""; bi++ {
			for pi := 1; pi < len(procs); pi++ {
				if bi < len(cs.Obs[pi]) && bi < len(cs.Obs[0]) && c08ObsCoq(cs.Obs[pi][bi]) != c08ObsCoq(cs.Obs[0][bi]) {
					cs.Diverge = fmt.Sprintf("block index %d (height %d): process %d differs from process 0", bi, cs.Obs[0][bi].Height, pi)
					break
				}
			}
		}
		if cs.Diverge != "" {
			w.Count("cases/diverged")
		}
		nops := make([]string, len(cs.Script))
		for i, b := range cs.Script {
			nops[i] = cNat(len(b.Ops))
		}
		pobs := make([]string, len(procs))
		for pi := range procs {
			bs := make([]string, len(cs.Obs[pi]))
			for i, o := range cs.Obs[pi] {
				bs[i] = c08ObsCoq(o)
			}
			pobs[pi] = cList(bs)
		}
		w.Add(cApp("mkDCase", cZ(cs.Seed), cList(nops), cList(pobs)), cs)
		for pi := range procs {
			_ = os.RemoveAll(filepath.Join(a.Out, fmt.Sprintf("w%d_%d", ci, pi)))
		}
	}
	_ = sort.Strings
	return nil
}
