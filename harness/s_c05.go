package main

// Suite c05: voting power at epoch end. Runs the REAL operator epoch hook (OperatorKeeper.EpochsHooks().AfterEpochEnd,
// and the real x/epochs BeginBlocker with every subscribed hook) on generated ledgers: several operators with pools in
// assets of decimals 0..18, oracle prices with 0..18 price decimals (>= 1, missing round, zero price, one asset unknown to
// the oracle), several AVSs with different asset lists / minimum self delegation / epoch identifiers / starting epochs,
// opt-ins and opt-outs, slashes and undelegations between epoch ends. Before and after every trigger all
// OperatorOptedUSDValue rows and AVS values are dumped from the raw operator store, together with the pools, prices,
// decimals and AVS registry the hook reads; GetOperatorOptedUSDValue is queried for every (AVS, operator) pair.

import (
	"fmt"
	"math/big"
	"math/rand"
	"sort"
	"os"
	"runtime/debug"
	"strings"
	"time"

	sdkmath "cosmossdk.io/math"
	"github.com/cosmos/cosmos-sdk/store/prefix"
	sdk "github.com/cosmos/cosmos-sdk/types"
	stakingtypes "github.com/cosmos/cosmos-sdk/x/staking/types"

	assetstypes "github.com/ExocoreNetwork/exocore/x/assets/types"
	avskeeper "github.com/ExocoreNetwork/exocore/x/avs/keeper"
	avstypes "github.com/ExocoreNetwork/exocore/x/avs/types"
	delegationtypes "github.com/ExocoreNetwork/exocore/x/delegation/types"
	operatortypes "github.com/ExocoreNetwork/exocore/x/operator/types"
	oracletypes "github.com/ExocoreNetwork/exocore/x/oracle/types"
)

func init() { register("c05", runC05) }

type c05Pool struct {
	Op, Asset             int
	Total, TShare, OShare string
}
type c05AInfo struct {
	ID    int
	Class string
	Price string
	PDec  int64
	Dec   int64
}
type c05Avs struct {
	ID       int
	Aliases  []int
	AliasStr []string
	Addr     string
	Epoch    int
	Start    int64
	Min      uint64
	Assets   []int
	AssetsOK bool
}
type c05Row struct {
	Avs, Op             int
	Self, Total, Active string
}
type c05State struct {
	Rows   []c05Row
	AvsVal [][2]string
}
type c05Env struct {
	Pools  []c05Pool
	Assets []c05AInfo
	Avss   []c05Avs
}
type c05Query struct {
	Avs, Op int
	Opted   bool
	Found   bool
	Res     [3]string
}
type c05Vote struct {
	Avs, Op int
	Opted   bool
	Found   bool
	Power   int64
}
type c05Step struct {
	Votes   []c05Vote
	Env     c05Env
	Calls   [][2]int64
	Before  c05State
	After   c05State
	Queries []c05Query
	Mode    string
}
type c05OptIn struct {
	Avss   []c05Avs
	Key    int
	KeyStr string
	Op     int
	OK     bool
	Before []c05Row
	After  []c05Row
}
type c05Case struct {
	OptIns []c05OptIn `json:"optins,omitempty"`
	Suite string    `json:"suite"`
	Tags  []string  `json:"tags,omitempty"`
	NT    bool      `json:"nt"`
	Steps []c05Step `json:"steps"`
}

var c05Epochs = map[string]int{"minute": 1, "hour": 2, "day": 3, "week": 4}
var c05EpochNames = []string{"minute", "hour", "day", "week"}

type c05Gen struct {
	*c04Gen
	avsIDs map[string]int
	optins []c05OptIn
}

// optIn calls the real OperatorKeeper.OptIn; when record is set the registry and the value rows before/after go into the case.
func (g *c05Gen) optIn(ctx sdk.Context, ids *c04IDs, oi int, addr string, record bool) error {
	app := g.w.Env.App
	var o c05OptIn
	if record {
		o.Avss = g.observe(ctx, ids).Avss
		o.Before = g.dumpState(ctx, ids).Rows
	}
	err := app.OperatorKeeper.OptIn(ctx, g.w.Env.Operators[oi], addr)
	if record {
		o.Key, o.KeyStr, o.Op, o.OK = g.avsID(addr), addr, oi, err == nil
		o.After = g.dumpState(ctx, ids).Rows
		g.optins = append(g.optins, o)
		if err == nil {
			g.cw.Count("optin.recorded.ok")
		} else {
			g.cw.Count("optin.recorded.err")
		}
	}
	return err
}

// otherSpelling returns another letter case of a hex address (or "" if it has no letters)
func otherSpelling(addr string) string {
	up := "0x" + strings.ToUpper(addr[2:])
	if up != addr {
		return up
	}
	lo := strings.ToLower(addr)
	if lo != addr {
		return lo
	}
	return ""
}

func c05AvssCoq(avss []c05Avs) string {
	var vs []string
	for _, a := range avss {
		var xs, al []string
		for _, x := range a.Assets {
			xs = append(xs, cZ(int64(x)))
		}
		for _, x := range a.Aliases {
			al = append(al, cZ(int64(x)))
		}
		vs = append(vs, cApp("mkAvs", cZ(int64(a.ID)), cZ(int64(a.Epoch)), cZ(a.Start), cZbig(new(big.Int).SetUint64(a.Min)), cList(xs), cBool(a.AssetsOK), cList(al)))
	}
	return cList(vs)
}

func c05RowsCoq(rows []c05Row) string {
	var rs []string
	for _, r := range rows {
		rs = append(rs, cApp("mkRow", cZ(int64(r.Avs)), cZ(int64(r.Op)), cZstr(r.Self), cZstr(r.Total), cZstr(r.Active)))
	}
	return cList(rs)
}

func (o c05OptIn) coq() string {
	return cApp("mkO", c05AvssCoq(o.Avss), cZ(int64(o.Key)), cZ(int64(o.Op)), cBool(o.OK), c05RowsCoq(o.Before), c05RowsCoq(o.After))
}

func c05OptInsCoq(os []c05OptIn) string {
	var xs []string
	for _, o := range os {
		xs = append(xs, o.coq())
	}
	return cList(xs)
}

// avsID: identity of an AVS KEY STRING as the operator module sees it (case sensitive).
func (g *c05Gen) avsID(addr string) int {
	k := addr
	if v, ok := g.avsIDs[k]; ok {
		return v
	}
	v := len(g.avsIDs) + 1
	g.avsIDs[k] = v
	return v
}

func (g *c05Gen) epochID(ids *c04IDs, s string) int {
	if v, ok := c05Epochs[s]; ok {
		return v
	}
	return ids.id("epoch", s)
}

func (g *c05Gen) observe(ctx sdk.Context, ids *c04IDs) c05Env {
	app := g.w.Env.App
	var e c05Env
	st := prefix.NewStore(ctx.KVStore(app.GetKey(assetstypes.StoreKey)), assetstypes.KeyPrefixOperatorAssetInfos)
	it := st.Iterator(nil, nil)
	for ; it.Valid(); it.Next() {
		keys := strings.Split(string(it.Key()), "/")
		var info assetstypes.OperatorAssetInfo
		app.AppCodec().MustUnmarshal(it.Value(), &info)
		e.Pools = append(e.Pools, c05Pool{g.w.opID(ids, keys[0]), g.w.asID(ids, keys[1]), intZ(info.TotalAmount), decZ(info.TotalShare), decZ(info.OperatorShare)})
	}
	it.Close()
	for i, a := range g.w.Assets {
		ai := c05AInfo{ID: i, Price: "0"}
		ai.Class, ai.Price, ai.PDec = g.w.oraclePrice(ctx, a.ID)
		dec, ok := g.w.assetDecimals(ctx, a.ID)
		if !ok {
			panic("asset not registered: " + a.ID)
		}
		ai.Dec = dec
		e.Assets = append(e.Assets, ai)
	}
	// key strings under which rows / opt-ins exist in the operator module
	keyStrs := map[string]bool{}
	for _, pfx := range [][]byte{operatortypes.KeyPrefixUSDValueForOperator, operatortypes.KeyPrefixUSDValueForAVS} {
		ks := prefix.NewStore(ctx.KVStore(app.GetKey(operatortypes.StoreKey)), pfx)
		kit := ks.Iterator(nil, nil)
		for ; kit.Valid(); kit.Next() {
			keyStrs[strings.Split(string(kit.Key()), "/")[0]] = true
		}
		kit.Close()
	}
	var keyList []string
	for k := range keyStrs {
		keyList = append(keyList, k)
	}
	sort.Strings(keyList)
	app.AVSManagerKeeper.IterateAVSInfo(ctx, func(_ int64, info avstypes.AVSInfo) bool {
		a := c05Avs{ID: g.avsID(info.AvsAddress), Addr: info.AvsAddress, Epoch: g.epochID(ids, info.EpochIdentifier), Start: int64(info.StartingEpoch), Min: info.MinSelfDelegation}
		for _, k := range keyList {
			if k != info.AvsAddress && strings.EqualFold(k, info.AvsAddress) {
				a.Aliases = append(a.Aliases, g.avsID(k))
				a.AliasStr = append(a.AliasStr, k)
			}
		}
		for _, x := range info.AssetIDs {
			a.Assets = append(a.Assets, g.w.asID(ids, x))
		}
		_, err := app.AVSManagerKeeper.GetAVSSupportedAssets(ctx, info.AvsAddress)
		a.AssetsOK = err == nil
		e.Avss = append(e.Avss, a)
		return false
	})
	return e
}

func (g *c05Gen) dumpState(ctx sdk.Context, ids *c04IDs) c05State {
	app := g.w.Env.App
	var s c05State
	st := prefix.NewStore(ctx.KVStore(app.GetKey(operatortypes.StoreKey)), operatortypes.KeyPrefixUSDValueForOperator)
	it := st.Iterator(nil, nil)
	for ; it.Valid(); it.Next() {
		keys := strings.Split(string(it.Key()), "/")
		var v operatortypes.OperatorOptedUSDValue
		app.AppCodec().MustUnmarshal(it.Value(), &v)
		s.Rows = append(s.Rows, c05Row{g.avsIDExact(keys[0]), g.w.opID(ids, keys[1]), decZ(v.SelfUSDValue), decZ(v.TotalUSDValue), decZ(v.ActiveUSDValue)})
	}
	it.Close()
	st = prefix.NewStore(ctx.KVStore(app.GetKey(operatortypes.StoreKey)), operatortypes.KeyPrefixUSDValueForAVS)
	it = st.Iterator(nil, nil)
	for ; it.Valid(); it.Next() {
		var v operatortypes.DecValueField
		app.AppCodec().MustUnmarshal(it.Value(), &v)
		s.AvsVal = append(s.AvsVal, [2]string{fmt.Sprint(g.avsIDExact(string(it.Key()))), decZ(v.Amount)})
	}
	it.Close()
	return s
}

// avsIDExact maps the avs string found in an operator-module key. Keys are case sensitive in the store; the
// registry id is case-insensitive (the AVS keeper looks AVSs up by address bytes), so a key that differs only in case
// from a registered AVS address denotes that AVS.
func (g *c05Gen) avsIDExact(s string) int { return g.avsID(s) }

func (s c05State) coq() string {
	var rs, vs []string
	for _, r := range s.Rows {
		rs = append(rs, cApp("mkRow", cZ(int64(r.Avs)), cZ(int64(r.Op)), cZstr(r.Self), cZstr(r.Total), cZstr(r.Active)))
	}
	for _, v := range s.AvsVal {
		vs = append(vs, cTuple(cZstr(v[0]), cZstr(v[1])))
	}
	return cApp("mkSt", cList(rs), cList(vs))
}

func (e c05Env) coq() string {
	var ps, as, vs []string
	for _, p := range e.Pools {
		ps = append(ps, cApp("mkPool", cZ(int64(p.Op)), cZ(int64(p.Asset)), cZstr(p.Total), cZstr(p.TShare), cZstr(p.OShare)))
	}
	for _, a := range e.Assets {
		cl := map[string]string{"ok": "PcOk", "default": "PcDefault", "missing": "PcMissing"}[a.Class]
		as = append(as, cApp("mkAI", cZ(int64(a.ID)), cl, cZstr(a.Price), cZ(a.PDec), cZ(a.Dec)))
	}
	for _, a := range e.Avss {
		var xs []string
		for _, x := range a.Assets {
			xs = append(xs, cZ(int64(x)))
		}
		var al []string
		for _, x := range a.Aliases {
			al = append(al, cZ(int64(x)))
		}
		vs = append(vs, cApp("mkAvs", cZ(int64(a.ID)), cZ(int64(a.Epoch)), cZ(a.Start), cZbig(new(big.Int).SetUint64(a.Min)), cList(xs), cBool(a.AssetsOK), cList(al)))
	}
	return cApp("mkEnv", cList(ps), cList(as), cList(vs))
}

func (t c05Step) coq() string {
	var cs, qs []string
	for _, c := range t.Calls {
		cs = append(cs, cTuple(cZ(c[0]), cZ(c[1])))
	}
	for _, q := range t.Queries {
		qs = append(qs, cApp("mkQ", cZ(int64(q.Avs)), cZ(int64(q.Op)), cBool(q.Opted), cOpt(q.Found, cTuple(cZstr(q.Res[0]), cZstr(q.Res[1]), cZstr(q.Res[2])))))
	}
	var vs []string
	for _, v := range t.Votes {
		vs = append(vs, cApp("mkVQ", cZ(int64(v.Avs)), cZ(int64(v.Op)), cBool(v.Opted), cOpt(v.Found, cZ(v.Power))))
	}
	return cApp("mkStep", t.Env.coq(), cList(cs), t.Before.coq(), t.After.coq(), cList(qs), cList(vs))
}

func (g *c05Gen) queries(ctx sdk.Context, ids *c04IDs, env c05Env) []c05Query {
	app := g.w.Env.App
	var qs []c05Query
	type kq struct {
		id  int
		str string
	}
	var keys []kq
	for _, a := range env.Avss {
		keys = append(keys, kq{a.ID, a.Addr})
		for i, x := range a.Aliases {
			keys = append(keys, kq{x, a.AliasStr[i]})
		}
	}
	for _, a := range keys {
		for oi, op := range g.w.Env.Operators {
			q := c05Query{Avs: a.id, Op: oi, Opted: app.OperatorKeeper.IsOptedIn(ctx, op.String(), a.str)}
			v, err := app.OperatorKeeper.GetOperatorOptedUSDValue(ctx, a.str, op.String())
			if err == nil {
				q.Found = true
				q.Res = [3]string{decZ(v.SelfUSDValue), decZ(v.TotalUSDValue), decZ(v.ActiveUSDValue)}
			} else {
				q.Res = [3]string{"0", "0", "0"}
			}
			qs = append(qs, q)
		}
	}
	return qs
}

// votes: GetVotePowerForChainID of every operator for the chain-type (dogfood) AVS
func (g *c05Gen) votes(ctx sdk.Context) []c05Vote {
	app := g.w.Env.App
	chainID := avstypes.ChainIDWithoutRevision(ctx.ChainID())
	ok, avs := app.AVSManagerKeeper.IsAVSByChainID(ctx, chainID)
	if !ok {
		return nil
	}
	var vs []c05Vote
	for oi, op := range g.w.Env.Operators {
		v := c05Vote{Avs: g.avsID(avs), Op: oi, Opted: app.OperatorKeeper.IsOptedIn(ctx, op.String(), avs)}
		func() {
			defer func() { _ = recover() }()
			pw, err := app.OperatorKeeper.GetVotePowerForChainID(ctx, []sdk.AccAddress{op}, chainID)
			if err == nil && len(pw) == 1 {
				v.Found = true
				v.Power = pw[0]
			}
		}()
		vs = append(vs, v)
	}
	return vs
}

func c05AvsAddr(i int) string { return fmt.Sprintf("0x00000000000000000000000000000000000c05%02x", i) }

// selfValue: the operator's self USD value over the given assets as the real code computes it (generator aim only)
func (g *c05Gen) selfValue(ctx sdk.Context, op int, assetIDs []string) (v sdkmath.LegacyDec, ok bool) {
	defer func() {
		if r := recover(); r != nil {
			ok = false
		}
	}()
	app := g.w.Env.App
	assets := map[string]interface{}{}
	for _, a := range assetIDs {
		assets[a] = nil
	}
	dec, err := app.AssetsKeeper.GetAssetsDecimal(ctx, assets)
	if err != nil {
		return sdkmath.LegacyZeroDec(), false
	}
	prices, err := app.OracleKeeper.GetMultipleAssetsPrices(ctx, assets)
	if err != nil && !oracletypes.ErrGetPriceRoundNotFound.Is(err) {
		return sdkmath.LegacyZeroDec(), false
	}
	info, err := app.OperatorKeeper.CalculateUSDValueForOperator(ctx, false, g.w.Env.Operators[op].String(), assets, dec, prices)
	if err != nil {
		return sdkmath.LegacyZeroDec(), false
	}
	return info.SelfStaking, true
}

func (g *c05Gen) mutateLedger(ctx sdk.Context) {
	app := g.w.Env.App
	rng := g.rng
	nOps := len(g.w.Env.Operators)
	switch rng.Intn(6) {
	case 4, 5:
		// an inconsistent pool (amount without shares): TokensFromShares fails for this operator, so the update of every
		// AVS that prices this asset and has this operator opted in must fail as a whole and keep the old values
		op := rng.Intn(nOps)
		ai := rng.Intn(4)
		info, err := app.AssetsKeeper.GetOperatorSpecifiedAssetInfo(ctx, g.w.Env.Operators[op], g.w.Assets[ai].ID)
		if err != nil || info.TotalShare.IsZero() {
			_ = app.AssetsKeeper.UpdateOperatorAssetState(ctx, g.w.Env.Operators[op], g.w.Assets[ai].ID, assetstypes.DeltaOperatorSingleAsset{
				TotalAmount: g.amount(g.w.Assets[ai].Dec), PendingUndelegationAmount: sdkmath.ZeroInt(), TotalShare: sdkmath.LegacyZeroDec(), OperatorShare: sdkmath.LegacyZeroDec(),
			})
			g.cw.Count("mut.inconsistent-pool")
		}
	case 0:
		op := rng.Intn(nOps)
		f := sdkmath.LegacyNewDecWithPrec(int64(1+rng.Intn(99)), 2)
		if rng.Intn(2) == 0 {
			// a full (100 %) slash: every pool of the operator is emptied and its shares must be cleared consistently, or the
			// next voting-power updates choke on the leftover share fields
			v, ok := g.opValue(ctx, op)
			if ok && v.TruncateInt().IsInt64() && v.TruncateInt().Int64() < (1<<61) {
				func() {
					defer func() { _ = recover() }()
					app.OperatorKeeper.SlashWithInfractionReason(ctx, g.w.Env.Operators[op], ctx.BlockHeight()-1, v.TruncateInt().Int64()*2+1, sdkmath.LegacyOneDec(), stakingtypes.Infraction_INFRACTION_DOUBLE_SIGN)
				}()
				g.cw.Count("mut.full-slash")
				return
			}
		}
		func() {
			defer func() { _ = recover() }()
			app.OperatorKeeper.SlashWithInfractionReason(ctx, g.w.Env.Operators[op], ctx.BlockHeight()-1, g.pickPower(ctx, op), f, stakingtypes.Infraction_INFRACTION_DOWNTIME)
		}()
		g.cw.Count("mut.slash")
	case 1:
		g.buildLedger(ctx, rng.Intn(nOps), []int64{ctx.BlockHeight()})
		g.cw.Count("mut.ledger")
	case 2:
		g.randomPrices(ctx)
		g.cw.Count("mut.prices")
	default:
	}
}

// changeAssetList replaces the supported-asset list of a registered AVS (empty list, or another random subset) after
// operators may already have acquired value under the old list; through the public UpdateAVSInfo(UpdateAction) or directly.
func (g *c05Gen) changeAssetList(ctx sdk.Context, addr string, empty bool) bool {
	app := g.w.Env.App
	res, err := app.AVSManagerKeeper.GetAVSInfo(ctx, addr)
	if err != nil {
		return false
	}
	info := res.Info
	list := []string{}
	if !empty {
		for ai, as := range g.w.Assets {
			if ai != 4 && g.rng.Intn(2) == 0 {
				list = append(list, as.ID)
			}
		}
	}
	if g.rng.Intn(2) == 0 {
		err := app.AVSManagerKeeper.UpdateAVSInfo(ctx, &avstypes.AVSRegisterOrDeregisterParams{
			AvsAddress: addr, AssetID: list, MinSelfDelegation: info.MinSelfDelegation, Action: avskeeper.UpdateAction,
		})
		if err == nil {
			g.cw.Count(fmt.Sprintf("avs.assets-changed-via-UpdateAVSInfo(len=%d)", len(list)))
			return true
		}
		g.cw.Count("avs.UpdateAVSInfo.err")
	}
	info.AssetIDs = list
	_ = app.AVSManagerKeeper.SetAVSInfo(ctx, info)
	g.cw.Count(fmt.Sprintf("avs.assets-changed-directly(len=%d)", len(list)))
	return true
}

func (g *c05Gen) pricesGE1(ctx sdk.Context) {
	// statement domain: prices >= 1; randomPrices already produces positive prices, zero and missing rounds (defaults)
	g.randomPrices(ctx)
}

func runC05(a *Args) error {
	w := c04NewWorld([]OperatorCfg{{Deposit: 101}, {Deposit: 100}, {Deposit: 150}, {Deposit: 0}, {Deposit: 0}, {Deposit: 0}})
	cw := NewCaseWriter(a.Out)
	defer cw.Close()
	g := &c05Gen{c04Gen: &c04Gen{w: w, rng: rand.New(rand.NewSource(a.Seed)), cw: cw}, avsIDs: map[string]int{}}
	app := w.Env.App
	base := w.Env.Ctx
	rng := g.rng

	// ---- directed regression scenario first: AVS registered with an EIP-55 (mixed case) address string, an operator opts in with
	// the lower-case spelling. This used to be accepted (the AVS keeper resolved by address bytes) and created a row that the
	// epoch hook never updates; the repaired IsAVS rejects it ----
	{
		ctx, _ := base.CacheContext()
		ids := &c04IDs{m: map[string]int{}}
		ctx = ctx.WithBlockHeight(5)
		mixed := "0x00000000000000000000000000000000000C05Aa"
		err := app.AVSManagerKeeper.UpdateAVSInfo(ctx, &avstypes.AVSRegisterOrDeregisterParams{
			AvsName: "mixedcase", AvsAddress: mixed, AssetID: []string{w.Assets[0].ID}, EpochIdentifier: "minute", UnbondingPeriod: 2, Action: avskeeper.RegisterAction,
		})
		if err != nil {
			panic(err)
		}
		g.optins = nil
		if err := g.optIn(ctx, ids, 0, mixed, true); err != nil {
			panic(err)
		}
		// the other spelling must be rejected (it used to be accepted and to create a row that no epoch end ever updates)
		if err := g.optIn(ctx, ids, 1, strings.ToLower(mixed), true); err == nil {
			cw.Count("directed.other-spelling-accepted")
		}
		st := c05Step{Mode: "hook"}
		st.Env = g.observe(ctx, ids)
		st.Before = g.dumpState(ctx, ids)
		info, _ := app.AVSManagerKeeper.GetAVSInfo(ctx, mixed)
		n := int64(info.Info.StartingEpoch)
		st.Calls = [][2]int64{{int64(c05Epochs["minute"]), n}}
		app.OperatorKeeper.EpochsHooks().AfterEpochEnd(ctx, "minute", n)
		st.After = g.dumpState(ctx, ids)
		st.Queries = g.queries(ctx, ids, st.Env)
		st.Votes = g.votes(ctx)
		g.stats(st)
		cw.Add(cApp("mkCase", cList([]string{st.coq()}), c05OptInsCoq(g.optins)), c05Case{Suite: "c05", NT: true, Steps: []c05Step{st}, OptIns: g.optins, Tags: []string{"regress-C05-avs-address-case"}})
		cw.Count("directed.avs-address-case")
	}

	// ---- directed scenario: operators acquire value under a non-empty asset list, the AVS then drops all its assets
	// (UpdateAVSInfo with an empty array): at the next epoch end the rows must still be there, with value 0 ----
	{
		ctx, _ := base.CacheContext()
		ids := &c04IDs{m: map[string]int{}}
		g.optins = nil
		ctx = ctx.WithBlockHeight(5)
		addr := c05AvsAddr(0x70)
		if err := app.AVSManagerKeeper.UpdateAVSInfo(ctx, &avstypes.AVSRegisterOrDeregisterParams{
			AvsName: "dropsassets", AvsAddress: addr, AssetID: []string{w.Assets[0].ID}, EpochIdentifier: "minute", UnbondingPeriod: 2, Action: avskeeper.RegisterAction,
		}); err != nil {
			panic(err)
		}
		for oi := 0; oi < 2; oi++ {
			if err := g.optIn(ctx, ids, oi, addr, true); err != nil {
				panic(err)
			}
		}
		info, _ := app.AVSManagerKeeper.GetAVSInfo(ctx, addr)
		n := int64(info.Info.StartingEpoch)
		var steps []c05Step
		for k := 0; k < 2; k++ {
			if k == 1 {
				if err := app.AVSManagerKeeper.UpdateAVSInfo(ctx, &avstypes.AVSRegisterOrDeregisterParams{AvsAddress: addr, AssetID: []string{}, Action: avskeeper.UpdateAction}); err != nil {
					panic(err)
				}
			}
			st := c05Step{Mode: "hook"}
			st.Env = g.observe(ctx, ids)
			st.Before = g.dumpState(ctx, ids)
			st.Calls = [][2]int64{{int64(c05Epochs["minute"]), n + int64(k)}}
			app.OperatorKeeper.EpochsHooks().AfterEpochEnd(ctx, "minute", n+int64(k))
			st.After = g.dumpState(ctx, ids)
			st.Queries = g.queries(ctx, ids, st.Env)
			st.Votes = g.votes(ctx)
			g.stats(st)
			steps = append(steps, st)
		}
		cw.Add(cApp("mkCase", cList([]string{steps[0].coq(), steps[1].coq()}), c05OptInsCoq(g.optins)), c05Case{Suite: "c05", NT: true, Steps: steps, OptIns: g.optins, Tags: []string{"directed-empty-asset-list"}})
		cw.Count("directed.empty-asset-list")
	}

	// ---- directed scenario: a self-staking operator is slashed 100 % (pools emptied, shares cleared), another operator receives a
	// new delegation, then the AVS's epoch ends: every operator's values must be fresh (the slashed one: 0) ----
	{
		ctx, _ := base.CacheContext()
		ids := &c04IDs{m: map[string]int{}}
		g.optins = nil
		ctx = ctx.WithBlockHeight(5)
		addr := c05AvsAddr(0x71)
		if err := app.AVSManagerKeeper.UpdateAVSInfo(ctx, &avstypes.AVSRegisterOrDeregisterParams{
			AvsName: "fullslash", AvsAddress: addr, AssetID: []string{w.Assets[0].ID}, EpochIdentifier: "minute", UnbondingPeriod: 2, Action: avskeeper.RegisterAction,
		}); err != nil {
			panic(err)
		}
		for oi := 0; oi < 3; oi++ {
			if err := g.optIn(ctx, ids, oi, addr, false); err != nil {
				panic(err)
			}
		}
		info, _ := app.AVSManagerKeeper.GetAVSInfo(ctx, addr)
		n := int64(info.Info.StartingEpoch)
		var steps []c05Step
		for k := 0; k < 2; k++ {
			if k == 1 {
				v, _ := g.opValue(ctx, 0)
				app.OperatorKeeper.SlashWithInfractionReason(ctx.WithBlockHeight(6), w.Env.Operators[0], 5, v.TruncateInt().Int64()*2+1, sdkmath.LegacyOneDec(), stakingtypes.Infraction_INFRACTION_DOUBLE_SIGN)
				g.buildLedger(ctx.WithBlockHeight(6), 1, nil)
			}
			st := c05Step{Mode: "hook"}
			st.Env = g.observe(ctx, ids)
			st.Before = g.dumpState(ctx, ids)
			st.Calls = [][2]int64{{int64(c05Epochs["minute"]), n + int64(k)}}
			app.OperatorKeeper.EpochsHooks().AfterEpochEnd(ctx, "minute", n+int64(k))
			st.After = g.dumpState(ctx, ids)
			st.Queries = g.queries(ctx, ids, st.Env)
			st.Votes = g.votes(ctx)
			g.stats(st)
			steps = append(steps, st)
		}
		cw.Add(cApp("mkCase", cList([]string{steps[0].coq(), steps[1].coq()}), c05OptInsCoq(g.optins)), c05Case{Suite: "c05", NT: true, Steps: steps, Tags: []string{"directed-full-slash-then-epoch-end"}})
		cw.Count("directed.full-slash-then-epoch-end")
	}

	for cw.n < a.N {
		ctx, _ := base.CacheContext()
		ids := &c04IDs{m: map[string]int{}}
		g.optins = nil
		ctx = ctx.WithBlockHeight(5)
		g.pricesGE1(ctx)
		// ledgers for several operators
		nL := 2 + rng.Intn(3)
		for i := 0; i < nL; i++ {
			var uhs []int64
			if rng.Intn(2) == 0 {
				uhs = []int64{5}
			}
			g.buildLedger(ctx, rng.Intn(len(w.Env.Operators)), uhs)
		}
		if rng.Intn(3) == 0 {
			g.mutateLedger(ctx)
		}
		// the epoch number that will end, per identifier, for hook-mode triggers
		num := int64(1 + rng.Intn(6))
		// AVSs
		nAvs := 1 + rng.Intn(3)
		type avsCfg struct {
			addr   string
			assets []string
			min    uint64
			ident  string
			start  uint64
		}
		var cfgs []avsCfg
		for i := 0; i < nAvs; i++ {
			c := avsCfg{addr: c05AvsAddr(i + 1), ident: c05EpochNames[rng.Intn(4)]}
			if rng.Intn(3) > 0 {
				c.ident = c05EpochNames[rng.Intn(2)]
			}
			for ai, as := range w.Assets {
				lim := 2
				if ai == 4 {
					lim = 8 // the oracle-less asset rarely
				}
				if rng.Intn(lim) == 0 {
					c.assets = append(c.assets, as.ID)
				}
			}
			if rng.Intn(25) == 0 {
				c.assets = append(c.assets, "0x9999999999999999999999999999999999999999_0x65") // not a staking asset
			}
			switch rng.Intn(5) {
			case 0:
				c.start = uint64(num) // num >= start-1
			case 1:
				c.start = uint64(num + 1) // boundary: num = start-1
			case 2:
				c.start = uint64(num + 2) // not yet
			default:
				c.start = uint64(1 + rng.Intn(int(num)+1))
			}
			cfgs = append(cfgs, c)
			info := &avstypes.AVSInfo{Name: fmt.Sprintf("avs%d", i), AvsAddress: c.addr, SlashAddr: "", AssetIDs: c.assets, MinSelfDelegation: 0,
				EpochIdentifier: c.ident, StartingEpoch: c.start, AvsUnbondingPeriod: 2, AvsSlash: sdkmath.LegacyZeroDec(), AvsReward: sdkmath.LegacyZeroDec()}
			if rng.Intn(4) == 0 && len(c.assets) > 0 && !strings.HasPrefix(c.assets[len(c.assets)-1], "0x9999") {
				// the public registration path (starting epoch = current epoch + 1 of that identifier)
				err := app.AVSManagerKeeper.UpdateAVSInfo(ctx, &avstypes.AVSRegisterOrDeregisterParams{
					AvsName: info.Name, AvsAddress: c.addr, AssetID: c.assets, EpochIdentifier: c.ident, UnbondingPeriod: 2, Action: avskeeper.RegisterAction,
				})
				if err != nil {
					panic(fmt.Sprintf("register avs: %v", err))
				}
				cw.Count("avs.registered-via-UpdateAVSInfo")
			} else {
				_ = app.AVSManagerKeeper.SetAVSInfo(ctx, info)
				cw.Count("avs.set-directly")
			}
		}
		// opt-ins (minimum self delegation still 0)
		allAvs := []string{w.DogAVS}
		for _, c := range cfgs {
			allAvs = append(allAvs, c.addr)
		}
		for _, c := range cfgs {
			for oi := range w.Env.Operators {
				if rng.Intn(3) > 0 {
					addr := c.addr
					rec := rng.Intn(4) == 0
					if rng.Intn(12) == 0 {
						if o := otherSpelling(c.addr); o != "" {
							addr, rec = o, true
							cw.Count("optin.other-spelling-attempt")
						}
					}
					if err := g.optIn(ctx, ids, oi, addr, rec); err != nil {
						cw.Count("optin.err")
					} else {
						cw.Count("optin.ok")
					}
				}
				_ = oi
			}
		}
		// final minimum self delegation: 0 / small / aimed at an operator's self value / large
		for _, c := range cfgs {
			if rng.Intn(3) == 0 {
				continue
			}
			res, err := app.AVSManagerKeeper.GetAVSInfo(ctx, c.addr)
			if err != nil {
				continue
			}
			info := res.Info
			switch rng.Intn(5) {
			case 0:
				info.MinSelfDelegation = uint64(1 + rng.Intn(100))
			case 1, 2, 3:
				sv, ok := g.selfValue(ctx, rng.Intn(len(w.Env.Operators)), c.assets)
				if ok && sv.TruncateInt().IsUint64() {
					t := sv.TruncateInt().Uint64()
					switch rng.Intn(3) {
					case 0:
						info.MinSelfDelegation = t
					case 1:
						info.MinSelfDelegation = t + 1
					default:
						if t > 0 {
							info.MinSelfDelegation = t - 1
						}
					}
					cw.Count("avs.min-aimed-at-self-value")
				}
			default:
				info.MinSelfDelegation = 1 << 40
			}
			_ = app.AVSManagerKeeper.SetAVSInfo(ctx, info)
		}

		nSteps := 1 + rng.Intn(3)
		var steps []c05Step
		nt := false
		for s := 0; s < nSteps; s++ {
			// between epoch ends: ledger / price changes, opt-in / opt-out
			ctx = ctx.WithBlockHeight(ctx.BlockHeight() + 1)
			if s > 0 || rng.Intn(2) == 0 {
				g.mutateLedger(ctx)
			}
			forceIdent := ""
			if s > 0 && rng.Intn(3) == 0 {
				// the AVS changes (half of the time: drops) its supported assets after values were recorded; make sure its
				// identifier ends next
				c := cfgs[rng.Intn(len(cfgs))]
				if g.changeAssetList(ctx, c.addr, rng.Intn(2) == 0) {
					forceIdent = c.ident
				}
			}
			if rng.Intn(2) == 0 {
				c := cfgs[rng.Intn(len(cfgs))]
				op := w.Env.Operators[rng.Intn(len(w.Env.Operators))]
				if app.OperatorKeeper.IsOptedIn(ctx, op.String(), c.addr) {
					if err := app.OperatorKeeper.OptOut(ctx, op, c.addr); err == nil {
						cw.Count("optout.ok")
					} else {
						cw.Count("optout.err")
					}
				} else if err := g.optIn(ctx, ids, w.opIdx(op.String()), func() string {
					if rng.Intn(6) == 0 {
						if o := otherSpelling(c.addr); o != "" {
							cw.Count("optin.other-spelling-attempt")
							return o
						}
					}
					return c.addr
				}(), true); err == nil {
					cw.Count("optin.ok")
				} else {
					cw.Count("optin.err")
				}
			}
			st := c05Step{}
			st.Env = g.observe(ctx, ids)
			st.Before = g.dumpState(ctx, ids)
			mode := rng.Intn(3)
			if forceIdent != "" {
				mode = 0
			}
			panicked := false
			if mode < 2 {
				// the operator module's epoch hook, directly
				st.Mode = "hook"
				ident := c05EpochNames[rng.Intn(2)]
				if rng.Intn(4) == 0 {
					ident = c05EpochNames[rng.Intn(4)]
				}
				if forceIdent != "" {
					ident = forceIdent
				}
				n := num + int64(s)
				st.Calls = [][2]int64{{int64(c05Epochs[ident]), n}}
				func() {
					defer func() {
						if r := recover(); r != nil {
							panicked = true
							if os.Getenv("VERIF_DEBUG") != "" {
								fmt.Fprintf(os.Stderr, "c05: hook panic: %v\n%s\n", r, debug.Stack())
							}
						}
					}()
					app.OperatorKeeper.EpochsHooks().AfterEpochEnd(ctx, ident, n)
				}()
			} else {
				// the real epochs BeginBlocker with every subscribed hook
				st.Mode = "beginblocker"
				before := app.EpochsKeeper.AllEpochInfos(ctx)
				var d time.Duration
				switch rng.Intn(3) {
				case 0:
					d = 61 * time.Second
				case 1:
					d = 3601 * time.Second
				default:
					d = 86401 * time.Second
				}
				ctx = ctx.WithBlockTime(ctx.BlockTime().Add(d))
				func() {
					defer func() {
						if r := recover(); r != nil {
							panicked = true
							if os.Getenv("VERIF_DEBUG") != "" {
								fmt.Fprintf(os.Stderr, "c05: BeginBlocker panic: %v\n%s\n", r, debug.Stack())
							}
						}
					}()
					app.EpochsKeeper.BeginBlocker(ctx)
				}()
				after := app.EpochsKeeper.AllEpochInfos(ctx)
				for i, b := range before {
					if i < len(after) && after[i].CurrentEpoch == b.CurrentEpoch+1 && b.EpochCountingStarted {
						st.Calls = append(st.Calls, [2]int64{int64(g.epochID(ids, b.Identifier)), b.CurrentEpoch})
					}
				}
			}
			if panicked {
				cw.Count("trigger.panic")
				break
			}
			st.After = g.dumpState(ctx, ids)
			st.Queries = g.queries(ctx, ids, st.Env)
			st.Votes = g.votes(ctx)
			cw.Count("mode=" + st.Mode)
			g.stats(st)
			if fmt.Sprint(st.Before) != fmt.Sprint(st.After) {
				nt = true
			}
			steps = append(steps, st)
		}
		if len(steps) == 0 {
			continue
		}
		var ss []string
		for _, s := range steps {
			ss = append(ss, s.coq())
		}
		cw.Add(cApp("mkCase", cList(ss), c05OptInsCoq(g.optins)), c05Case{Suite: "c05", NT: nt, Steps: steps, OptIns: g.optins})
		cw.Count(fmt.Sprintf("steps=%d", len(steps)))
	}
	return nil
}

// stats: which branches of the statement the observed step exercised
func (g *c05Gen) stats(st c05Step) {
	for _, a := range st.Env.Avss {
		sel := false
		for _, c := range st.Calls {
			if int(c[0]) == a.Epoch && a.Start-1 <= c[1] {
				sel = true
			}
			if int(c[0]) == a.Epoch && a.Start-1 == c[1] {
				g.cw.Count("obs.avs.selected-at-boundary(num=start-1)")
			}
			if int(c[0]) == a.Epoch && a.Start-2 == c[1] {
				g.cw.Count("obs.avs.not-yet(num=start-2)")
			}
		}
		if !sel {
			g.cw.Count("obs.avs.not-selected")
			continue
		}
		g.cw.Count("obs.avs.selected")
		if a.AssetsOK && len(a.Assets) == 0 {
			g.cw.Count("obs.avs.selected-with-empty-asset-list")
			for _, r := range st.Before.Rows {
				if r.Avs == a.ID && r.Total != "0" {
					g.cw.Count("obs.row.nonzero-before-empty-list-update")
				}
			}
		}
		if !a.AssetsOK {
			g.cw.Count("obs.avs.assets-error(wiped)")
			continue
		}
		missing := false
		for _, x := range a.Assets {
			if x < len(st.Env.Assets) && st.Env.Assets[x].Class == "missing" {
				missing = true
			}
		}
		if missing {
			g.cw.Count("obs.avs.price-missing(keeps old)")
			continue
		}
		shareFail := false
		for _, r := range st.Before.Rows {
			if r.Avs != a.ID {
				continue
			}
			for _, p := range st.Env.Pools {
				if p.Op == r.Op && p.TShare == "0" && p.Total != "0" {
					for _, x := range a.Assets {
						if x == p.Asset {
							shareFail = true
						}
					}
				}
			}
		}
		if shareFail {
			g.cw.Count("obs.avs.share-error(keeps old)")
			continue
		}
		for _, r := range st.After.Rows {
			if r.Avs != a.ID {
				continue
			}
			g.cw.Count("obs.row.updated")
			switch {
			case r.Total == "0":
				g.cw.Count("obs.row.total=0")
			case r.Active == "0":
				g.cw.Count("obs.row.inactive(self<min)")
			default:
				g.cw.Count("obs.row.active")
			}
			min := new(big.Int).Mul(new(big.Int).SetUint64(a.Min), pow10(18))
			self, _ := new(big.Int).SetString(r.Self, 10)
			if self.Cmp(min) == 0 && a.Min > 0 {
				g.cw.Count("obs.row.self=min exactly")
			}
		}
	}
	for _, p := range st.Env.Pools {
		if p.Total == "0" {
			g.cw.Count("obs.pool.empty(after full slash / exit)")
		}
	}
	for _, q := range st.Queries {
		if !q.Opted {
			g.cw.Count("obs.query.not-opted")
		} else {
			g.cw.Count("obs.query.opted")
		}
	}
	for _, a := range st.Env.Assets {
		g.cw.Count("obs.price." + a.Class)
	}
}

var _ = delegationtypes.StoreKey
