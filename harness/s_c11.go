package main

// Suite c11: chain liveness. recover() around the block-level paths of the REAL application; model-guided
// histories drive the state to the boundary of each guard invariant of coq/C11/Model.v:
//   * full undelegation, then Keeper.Slash (what dogfood's SlashWithInfractionReason calls from BeginBlock)
//   * task result with an empty / absent BLS signature, then the AVS statistics epoch end
//   * NST staker list shrink, then the stored balance-change bitmap is applied again (oracle EndBlock path
//     GrowRoundID -> AppendPriceTR -> UpdateNSTByBalanceChange), plus a random differential stream of bitmaps
//   * an operator opted into a second AVS, then the fee-distribution epoch end
//   * a byte-level malformed transaction stream through CheckTx / DeliverTx
// After every case the chain must still process further blocks (BeginBlock / EndBlock / Commit under recover).

import (
	"encoding/hex"
	"fmt"
	"math/big"
	"math/rand"
	"os"
	"runtime/debug"
	"strconv"
	"time"

	sdkmath "cosmossdk.io/math"
	abci "github.com/cometbft/cometbft/abci/types"
	cryptoenc "github.com/cometbft/cometbft/crypto/encoding"
	tmtypes "github.com/cometbft/cometbft/types"
	cryptocodec "github.com/cosmos/cosmos-sdk/crypto/codec"
	"github.com/cosmos/cosmos-sdk/store/prefix"
	sdk "github.com/cosmos/cosmos-sdk/types"
	authtypes "github.com/cosmos/cosmos-sdk/x/auth/types"
	stakingtypes "github.com/cosmos/cosmos-sdk/x/staking/types"
	"github.com/ethereum/go-ethereum/common"
	"github.com/ethereum/go-ethereum/common/hexutil"
	"github.com/prysmaticlabs/prysm/v4/crypto/bls/blst"

	"github.com/ExocoreNetwork/exocore/utils"
	assetskeeper "github.com/ExocoreNetwork/exocore/x/assets/keeper"
	assetstypes "github.com/ExocoreNetwork/exocore/x/assets/types"
	avskeeper "github.com/ExocoreNetwork/exocore/x/avs/keeper"
	avstypes "github.com/ExocoreNetwork/exocore/x/avs/types"
	delegationtypes "github.com/ExocoreNetwork/exocore/x/delegation/types"
	epochstypes "github.com/ExocoreNetwork/exocore/x/epochs/types"
	exominttypes "github.com/ExocoreNetwork/exocore/x/exomint/types"
	operatorkeeper "github.com/ExocoreNetwork/exocore/x/operator/keeper"
	operatortypes "github.com/ExocoreNetwork/exocore/x/operator/types"
	oracletypes "github.com/ExocoreNetwork/exocore/x/oracle/types"
)

func init() { register("c11", runC11) }

const (
	c11AVS   = "0x00000000000000000000000000000000000c11a1"
	c11Task  = "0x00000000000000000000000000000000000c11b1"
	c11AVS2  = "0x00000000000000000000000000000000000c11a2"
	c11Task2 = "0x00000000000000000000000000000000000c11b2"
	c11Task3 = "0x00000000000000000000000000000000000c11b3"
	c11AVS3  = "0x00000000000000000000000000000000000c11a3"
	c11PxTok = "0x00000000000000000000000000000000000c11f1"
)

type c11Env struct {
	env      *Env
	rng      *rand.Rand
	w        *CaseWriter
	n        int
	nstAsset string
	nstAddr  []byte
	opX      sdk.AccAddress
	taskID   uint64
	statEp   int64
	pxAsset  string
}

func c11Must(err error, what string) {
	if err != nil {
		panic("c11 setup " + what + ": " + err.Error())
	}
}

// ---- what the consensus engine does with the validator updates of EndBlock -------------------------------------------

// the validator set as CometBFT holds it, from the dogfood store
func (c *c11Env) cometSet(ctx sdk.Context) []*tmtypes.Validator {
	var out []*tmtypes.Validator
	for _, v := range c.env.App.StakingKeeper.GetAllExocoreValidators(ctx) {
		pk, err := v.ConsPubKey()
		if err != nil {
			continue
		}
		tm, err := cryptocodec.ToTmProtoPublicKey(pk)
		if err != nil {
			continue
		}
		tpk, err := cryptoenc.PubKeyFromProto(tm)
		if err != nil {
			continue
		}
		out = append(out, tmtypes.NewValidator(tpk, v.Power))
	}
	return out
}

// real cometbft types.ValidatorSet.UpdateWithChangeSet on (previous set, returned updates), as state.updateState does
func c11CometAccepts(prev []*tmtypes.Validator, upd []abci.ValidatorUpdate) (ok bool) {
	defer func() {
		if r := recover(); r != nil {
			ok = false
		}
	}()
	for _, u := range upd {
		if u.Power < 0 {
			return false
		}
	}
	if len(upd) == 0 {
		return true
	}
	changes, err := tmtypes.PB2TM.ValidatorUpdates(upd)
	if err != nil {
		return false
	}
	vs := tmtypes.NewValidatorSet(prev)
	return vs.UpdateWithChangeSet(changes) == nil
}

// ---- blocks under recover ------------------------------------------------------------------------------------

func (c *c11Env) blocks(n int, step time.Duration) (ok bool) {
	e := c.env
	for i := 0; i < n; i++ {
		good := func() (g bool) {
			defer func() {
				if r := recover(); r != nil {
					g = false
				}
			}()
			prev := c.cometSet(e.Ctx)
			res := e.App.EndBlock(abci.RequestEndBlock{Height: e.Header.Height})
			if !c11CometAccepts(prev, res.ValidatorUpdates) {
				c.w.Count("blocks.valset-refused")
				return false
			}
			e.App.Commit()
			h := e.Header
			h.Height++
			h.Time = h.Time.Add(step)
			h.AppHash = e.App.LastCommitID().Hash
			e.App.BeginBlock(abci.RequestBeginBlock{Header: h})
			e.Header = h
			e.Ctx = e.App.BaseApp.NewContext(false, h)
			return true
		}()
		if !good {
			return false
		}
	}
	return true
}

func c11Class(f func() error) (cls string) {
	defer func() {
		if r := recover(); r != nil {
			cls = "RPanic"
			if os.Getenv("VERIF_DEBUG") != "" {
				fmt.Fprintf(os.Stderr, "c11 recovered panic: %v\n%s\n", r, debug.Stack())
			}
		}
	}()
	if err := f(); err != nil {
		return "RErr"
	}
	return "ROk"
}

func (c *c11Env) emit(pathTerm string, obs string, later bool, desc map[string]interface{}, tags []string) {
	desc["suite"] = "c11"
	desc["obs"] = obs
	desc["later_blocks_ok"] = later
	desc["nt"] = true
	desc["tags"] = c09Tags(tags)
	c.w.Add(cApp("mkCase", pathTerm, obs, cBool(later)), desc)
	c.w.Count("obs=" + obs)
	c.n++
}

func c11ZList(xs []int64) string {
	ys := make([]string, len(xs))
	for i, x := range xs {
		ys[i] = cZ(x)
	}
	return cList(ys)
}

// ---- NST bitmap ------------------------------------------------------------------------------------------------

func (c *c11Env) stakerAddr(i int) []byte {
	_, a := DetEthKey("c11nst", i)
	return a.Bytes()
}

// deposit one validator (32 ETH) for staker i, as the assets precompile does (both keeper steps)
func (c *c11Env) nstDeposit(ctx sdk.Context, i int, v int) {
	app := c.env.App
	amt := sdkmath.NewIntWithDecimal(32, 18)
	st := c.stakerAddr(i)
	c11Must(app.AssetsKeeper.PerformDepositOrWithdraw(ctx, &assetskeeper.DepositWithdrawParams{ClientChainLzID: 101, Action: assetstypes.DepositNST, AssetsAddress: c.nstAddr, StakerAddress: st, OpAmount: amt}), "nst deposit")
	c11Must(app.OracleKeeper.UpdateNSTValidatorListForStaker(ctx, c.nstAsset, hexutil.Encode(st), hexutil.Encode(seedBytes("c11pub", i*10+v)), amt), "nst validator list")
}

func (c *c11Env) nstWithdraw(ctx sdk.Context, i int, v int) {
	app := c.env.App
	amt := sdkmath.NewIntWithDecimal(32, 18)
	st := c.stakerAddr(i)
	// the withdrawable amount may have been reduced by balance changes: withdraw what is there at most
	sid, _ := assetstypes.GetStakerIDAndAssetID(101, st, c.nstAddr)
	if info, err := app.AssetsKeeper.GetStakerSpecifiedAssetInfo(ctx, sid, c.nstAsset); err == nil && info.WithdrawableAmount.LT(amt) {
		_ = app.AssetsKeeper.PerformDepositOrWithdraw(ctx, &assetskeeper.DepositWithdrawParams{ClientChainLzID: 101, Action: assetstypes.WithdrawNST, AssetsAddress: c.nstAddr, StakerAddress: st, OpAmount: info.WithdrawableAmount})
	} else {
		_ = app.AssetsKeeper.PerformDepositOrWithdraw(ctx, &assetskeeper.DepositWithdrawParams{ClientChainLzID: 101, Action: assetstypes.WithdrawNST, AssetsAddress: c.nstAddr, StakerAddress: st, OpAmount: amt})
	}
	// the staker may already have left the list (balance reduced by an earlier change): then this is an error, not a setup failure
	_ = app.OracleKeeper.UpdateNSTValidatorListForStaker(ctx, c.nstAsset, hexutil.Encode(st), hexutil.Encode(seedBytes("c11pub", i*10+v)), amt.Neg())
}

// (validators, balance) of every staker of the list, in list order
func (c *c11Env) nstState(ctx sdk.Context) (nv []int64, bal []int64) {
	sl := c.env.App.OracleKeeper.GetStakerList(ctx, c.nstAsset)
	for _, a := range sl.StakerAddrs {
		si := c.env.App.OracleKeeper.GetStakerInfo(ctx, c.nstAsset, a)
		nv = append(nv, int64(len(si.ValidatorPubkeyList)))
		b := int64(0)
		if n := len(si.BalanceList); n > 0 {
			b = si.BalanceList[n-1].Balance
		}
		bal = append(bal, b)
	}
	return
}

func (c *c11Env) nstCase(ctx sdk.Context, raw []byte, round uint64, tags []string, what string) string {
	nv, bal := c.nstState(ctx)
	obs := c11Class(func() error { return c.env.App.OracleKeeper.UpdateNSTByBalanceChange(ctx, c.nstAsset, raw, round) })
	_, after := c.nstState(ctx)
	if obs == "RPanic" {
		after = bal
	}
	rawC := make([]string, len(raw))
	for i, b := range raw {
		rawC[i] = cZ(int64(b))
	}
	sts := make([]string, len(nv))
	for i := range nv {
		sts[i] = cTuple(cZ(nv[i]), cZ(bal[i]))
	}
	later := true
	c.emit(cApp("PNst", cList(rawC), cList(sts), c11ZList(after)), obs, later,
		map[string]interface{}{"kind": "nst-bitmap", "what": what, "raw": hex.EncodeToString(raw), "validators": nv, "balance_before": bal, "balance_after": after}, tags)
	c.w.Count("kind=nst")
	return obs
}

// the oracle EndBlock path itself: the stored "price" of the NST token is appended again by GrowRoundID
func (c *c11Env) growCase(ctx sdk.Context, tokenID uint64, tags []string, what string) {
	nv, bal := c.nstState(ctx)
	pTR, _ := c.env.App.OracleKeeper.GetPriceTRLatest(ctx, tokenID)
	raw := []byte(pTR.Price)
	obs := c11Class(func() error { c.env.App.OracleKeeper.GrowRoundID(ctx, tokenID); return nil })
	_, after := c.nstState(ctx)
	if obs == "RPanic" {
		after = bal
	}
	rawC := make([]string, len(raw))
	for i, b := range raw {
		rawC[i] = cZ(int64(b))
	}
	sts := make([]string, len(nv))
	for i := range nv {
		sts[i] = cTuple(cZ(nv[i]), cZ(bal[i]))
	}
	c.emit(cApp("PGrow", cList(rawC), cList(sts), c11ZList(after)), obs, true,
		map[string]interface{}{"kind": "oracle-grow-round", "what": what, "raw": hex.EncodeToString(raw), "validators": nv, "balance_before": bal, "balance_after": after}, tags)
	c.w.Count("kind=grow-round")
}

// bit writer for structured bitmaps
type c11Bits struct {
	b []byte
	n int
}

func (w *c11Bits) put(v uint, bits int) {
	for i := bits - 1; i >= 0; i-- {
		if w.n%8 == 0 {
			w.b = append(w.b, 0)
		}
		if (v>>uint(i))&1 == 1 {
			w.b[len(w.b)-1] |= 1 << uint(7-w.n%8)
		}
		w.n++
	}
}

func (c *c11Env) randomBitmap(nStakers int) []byte {
	rng := c.rng
	ind := make([]byte, 32)
	var bw c11Bits
	maxIdx := nStakers
	switch rng.Intn(6) {
	case 0:
		maxIdx = nStakers + 1 + rng.Intn(3) // beyond the list
	case 1:
		maxIdx = 256
	}
	if maxIdx == 0 {
		maxIdx = 1
	}
	k := rng.Intn(4)
	if rng.Intn(8) == 0 {
		k = rng.Intn(12)
	}
	for j := 0; j < k; j++ {
		idx := rng.Intn(maxIdx)
		if ind[idx/8]&(1<<uint(7-idx%8)) != 0 {
			continue
		}
		ind[idx/8] |= 1 << uint(7-idx%8)
	}
	// value fields in index order
	for idx := 0; idx < 256; idx++ {
		if ind[idx/8]&(1<<uint(7-idx%8)) == 0 {
			continue
		}
		abs := 1 + rng.Intn(40)
		if rng.Intn(4) == 0 {
			abs = 1 + rng.Intn(3)
		}
		v := uint(abs - 1)
		l := 0
		for x := v; x > 0; x >>= 1 {
			l++
		}
		if l == 0 {
			l = 1
		}
		if rng.Intn(15) == 0 {
			l = 0 // "length must be at least 1 bit"
		}
		if rng.Intn(15) == 0 {
			l = 15
		}
		bw.put(uint(l), 4)
		bw.put(uint(rng.Intn(2)), 1)
		bw.put(v, l)
	}
	raw := append(ind, bw.b...)
	switch rng.Intn(10) {
	case 0: // truncated value bytes
		if len(bw.b) > 0 {
			raw = raw[:32+rng.Intn(len(bw.b))]
		}
	case 1: // shorter than the indicator part
		raw = raw[:rng.Intn(32)]
	case 2: // random tail
		t := make([]byte, rng.Intn(6))
		rng.Read(t)
		raw = append(raw, t...)
	case 3: // fully random
		raw = make([]byte, 32+rng.Intn(8))
		rng.Read(raw[:2])
		rng.Read(raw[32:])
	}
	return raw
}

// ---- slash -----------------------------------------------------------------------------------------------------

func (c *c11Env) slashCase(ctx sdk.Context, op sdk.AccAddress, id string, tags []string, what string) string {
	app := c.env.App
	avsAddr := avstypes.GenerateAVSAddr(avstypes.ChainIDWithoutRevision(c.env.ChainID))
	val := sdkmath.LegacyZeroDec()
	if si, err := app.OperatorKeeper.CalculateUSDValueForOperator(ctx, true, op.String(), nil, nil, nil); err == nil {
		val = si.StakingAndWaitUnbonding
	}
	power := int64(10)
	frac := sdkmath.LegacyNewDecWithPrec(5, 2)
	contract, _ := app.AVSManagerKeeper.GetAVSSlashContract(ctx, avsAddr)
	param := &operatortypes.SlashInputInfo{IsDogFood: true, Power: power, SlashType: uint32(stakingtypes.Infraction_INFRACTION_DOUBLE_SIGN),
		Operator: op, AVSAddr: avsAddr, SlashContract: contract, SlashID: id, SlashEventHeight: ctx.BlockHeight() - 1, SlashProportion: frac}
	obs := c11Class(func() error { return app.OperatorKeeper.Slash(ctx, param) })
	// the BeginBlock entry itself (swallows errors): must not panic either
	obs2 := c11Class(func() error {
		cc, _ := ctx.CacheContext()
		app.OperatorKeeper.SlashWithInfractionReason(cc, op, ctx.BlockHeight()-1, power, frac, stakingtypes.Infraction_INFRACTION_DOWNTIME)
		return nil
	})
	if obs2 == "RPanic" {
		obs = "RPanic"
	}
	u := sdkmath.LegacyNewDec(power).Mul(frac)
	c.emit(cApp("PSlash", cZbig(u.BigInt()), cZbig(val.BigInt())), obs, true,
		map[string]interface{}{"kind": "slash", "what": what, "operator": op.String(), "value": val.String(), "slash_usd": u.String()}, tags)
	c.w.Count("kind=slash")
	return obs
}

// ---- AVS task statistics -------------------------------------------------------------------------------------------

func (c *c11Env) avsCase(sigKinds []int, inject bool, retarget bool, tags []string) {
	app := c.env.App
	ctx, _ := c.env.Ctx.CacheContext()
	ms := avskeeper.NewMsgServerImpl(app.AVSManagerKeeper)
	for i, k := range sigKinds {
		submitters := []sdk.AccAddress{c.env.Operators[0], c.env.Operators[1], c.opX}
		op := submitters[i%len(submitters)]
		if len(sigKinds) == 1 && c.rng.Intn(4) == 0 {
			op = c.opX // has a BLS key but is not in the task's opt-in snapshot
		}
		var sig []byte
		present := true
		switch k {
		case 0:
			sig, present = nil, false
		case 1:
			sig = []byte{}
		default:
			sig = seedBytes("c11sig", i)
			sig = append(sig, sig...)
			sig = append(sig, seedBytes("c11sig2", i)...)
		}
		info := &avstypes.TaskResultInfo{TaskContractAddress: c11Task, OperatorAddress: op.String(), TaskId: c.taskID, BlsSignature: sig, Stage: avstypes.TwoPhaseCommitOne}
		if inject {
			// state injection: a stored result whose signature field is absent (what an accepted empty signature becomes)
			store := prefix.NewStore(ctx.KVStore(app.GetKey(avstypes.StoreKey)), avstypes.KeyPrefixTaskResult)
			key := assetstypes.GetJoinedStoreKey(op.String(), c11Task, strconv.FormatUint(c.taskID, 10))
			info.BlsSignature = nil
			store.Set(key, app.AppCodec().MustMarshal(info))
			continue
		}
		obs := c11Class(func() error {
			_, err := ms.SubmitTaskResult(sdk.WrapSDKContext(ctx), &avstypes.SubmitTaskResultReq{FromAddress: op.String(), Info: info})
			return err
		})
		inSnapshot := false
		if ti, err := app.AVSManagerKeeper.GetTaskInfo(ctx, strconv.FormatUint(c.taskID, 10), c11Task); err == nil {
			for _, o := range ti.OptInOperators {
				if o == op.String() {
					inSnapshot = true
				}
			}
		}
		window := false
		if ep, found := app.EpochsKeeper.GetEpochInfo(ctx, epochstypes.HourEpochID); found {
			window = ep.CurrentEpoch <= c.statEp-1
		}
		c.emit(cApp("PSubmit", cBool(present), cZ(int64(len(sig))), cBool(window), cBool(inSnapshot)), obs, true,
			map[string]interface{}{"kind": "avs-submit", "operator": op.String(), "present": present, "siglen": len(sig), "in_response_window": window, "in_optin_snapshot": inSnapshot}, nil)
		c.w.Count("kind=avs-submit")
		if i >= 2 {
			break
		}
	}
	if retarget {
		// state injection: the AVS has no USD value entry when the statistics run (no transaction path to this state
		// was found; the guard in the hook is defensive)
		c11Must(app.OperatorKeeper.DeleteAVSUSDValue(ctx, c11AVS), "drop avs value")
	}
	owner := app.AVSManagerKeeper.GetAVSInfoByTaskAddress(ctx, c11Task).AvsAddress
	_, kerr := app.OperatorKeeper.GetAVSUSDValue(ctx, owner)
	known := kerr == nil
	// what is stored for the task now
	var group []int64
	app.AVSManagerKeeper.IterateResultInfo(ctx, func(_ int64, r avstypes.TaskResultInfo) bool {
		if r.TaskContractAddress == c11Task && r.TaskId == c.taskID {
			group = append(group, int64(len(r.BlsSignature)))
		}
		return false
	})
	obs := c11Class(func() error {
		app.AVSManagerKeeper.EpochsHooks().AfterEpochEnd(ctx, epochstypes.HourEpochID, c.statEp)
		return nil
	})
	c.emit(cApp("PAvsStat", c11ZList(group), cBool(known)), obs, true,
		map[string]interface{}{"kind": "avs-stat", "group_siglens": group, "injected": inject, "avs_value_dropped": retarget, "avs_value_known": known}, tags)
	c.w.Count("kind=avs-stat")
}

// ---- fee distribution ---------------------------------------------------------------------------------------------

func (c *c11Env) allocCase(optInSecond bool, fee int64, tags []string) {
	c.allocCaseN(optInSecond, fee, nil, tags)
}

// extra: further stakers delegating these amounts to operator 0 (its own staker holds 101 USDT): with three and more
// stakers the truncated fractions of the payout must still sum to at most 1
func (c *c11Env) allocCaseN(optInSecond bool, fee int64, extra []int64, tags []string) {
	app := c.env.App
	ctx, _ := c.env.Ctx.CacheContext()
	ctx = ctx.WithGasMeter(sdk.NewInfiniteGasMeter())
	op := c.env.Operators[0]
	for i, amt := range extra {
		st := c.stakerAddr(90 + i)
		asset := common.HexToAddress(c.env.AssetAddr).Bytes()
		c11Must(app.AssetsKeeper.PerformDepositOrWithdraw(ctx, &assetskeeper.DepositWithdrawParams{ClientChainLzID: 101, Action: assetstypes.DepositLST, AssetsAddress: asset, StakerAddress: st, OpAmount: sdkmath.NewInt(amt)}), "alloc deposit")
		c11Must(app.DelegationKeeper.DelegateTo(ctx, &delegationtypes.DelegationOrUndelegationParams{ClientChainID: 101, AssetsAddress: asset, StakerAddress: st, OperatorAddress: op, OpAmount: sdkmath.NewInt(amt),
			LzNonce: 500000 + uint64(c.n*10+i), TxHash: common.BytesToHash(seedBytes("c11al", c.n*10+i))}), "alloc delegate")
	}
	if optInSecond {
		_ = app.OperatorKeeper.OptIn(ctx, op, c11AVS2)
	}
	coins := sdk.NewCoins(sdk.NewCoin(utils.BaseDenom, sdkmath.NewInt(fee)))
	if fee > 0 {
		c11Must(app.BankKeeper.MintCoins(ctx, exominttypes.ModuleName, coins), "mint")
		c11Must(app.BankKeeper.SendCoinsFromModuleToModule(ctx, exominttypes.ModuleName, authtypes.FeeCollectorName, coins), "fees")
	}
	// appearances as AllocateTokensToStakers walks them
	var apps []string
	idx := map[string]int{}
	var appsJ [][2]string
	if avss, err := app.OperatorKeeper.GetOptedInAVSForOperator(ctx, op.String()); err == nil {
		for _, avs := range avss {
			assets, err := app.AVSManagerKeeper.GetAVSSupportedAssets(ctx, avs)
			if err != nil {
				continue
			}
			for assetID := range assets {
				sl, err := app.DelegationKeeper.GetStakersByOperator(ctx, op.String(), assetID)
				if err != nil {
					continue
				}
				for _, st := range sl.Stakers {
					v, err := app.OperatorKeeper.CalculateUSDValueForStaker(ctx, st, avs, op.Bytes())
					if err != nil {
						continue
					}
					if _, ok := idx[st]; !ok {
						idx[st] = len(idx)
					}
					apps = append(apps, cTuple(cNat(idx[st]), cZbig(v.BigInt())))
					appsJ = append(appsJ, [2]string{st, v.String()})
				}
			}
		}
	}
	id := app.DistrKeeper.GetParams(ctx).EpochIdentifier
	obs := c11Class(func() error {
		app.DistrKeeper.EpochsHooks().AfterEpochEnd(ctx, id, 1)
		return nil
	})
	c.emit(cApp("PAlloc", cZ(fee), cList(apps)), obs, true,
		map[string]interface{}{"kind": "fee-distribution", "second_avs": optInSecond, "fee": fee, "extra_stakers": extra, "appearances": appsJ}, tags)
	c.w.Count("kind=alloc")
}

// ---- a pending undelegation reached by several slashes, then its maturity ------------------------------------------

func (c *c11Env) slashUndelCase(native bool, fracs []sdkmath.LegacyDec, powers []int64, tags []string) {
	app := c.env.App
	cx := mustCache(c.env.Ctx)
	h0 := cx.BlockHeight()
	op := c.opX
	avsAddr := avstypes.GenerateAVSAddr(avstypes.ChainIDWithoutRevision(c.env.ChainID))
	var dp *delegationtypes.DelegationOrUndelegationParams
	var total, und sdkmath.Int
	if native {
		st := sdk.AccAddress(c.env.AccAddrs[1].Bytes())
		total, und = sdkmath.NewIntWithDecimal(2, 18), sdkmath.NewIntWithDecimal(1, 18)
		dp = &delegationtypes.DelegationOrUndelegationParams{ClientChainID: assetstypes.ExocoreChainLzID, AssetsAddress: common.HexToAddress(assetstypes.ExocoreAssetAddr).Bytes(),
			StakerAddress: st, OperatorAddress: op, OpAmount: total, LzNonce: 700000 + uint64(c.n), TxHash: common.BytesToHash(seedBytes("c11su", c.n))}
	} else {
		st := c.stakerAddr(80)
		asset := common.HexToAddress(c.env.AssetAddr).Bytes()
		total, und = sdkmath.NewInt(2_000_000), sdkmath.NewInt(int64(500_000+c.rng.Intn(1_000_000)))
		c11Must(app.AssetsKeeper.PerformDepositOrWithdraw(cx, &assetskeeper.DepositWithdrawParams{ClientChainLzID: 101, Action: assetstypes.DepositLST, AssetsAddress: asset, StakerAddress: st, OpAmount: total}), "deposit")
		dp = &delegationtypes.DelegationOrUndelegationParams{ClientChainID: 101, AssetsAddress: asset, StakerAddress: st, OperatorAddress: op, OpAmount: total,
			LzNonce: 700000 + uint64(c.n), TxHash: common.BytesToHash(seedBytes("c11su", c.n))}
	}
	stakerID, assetID := assetstypes.GetStakerIDAndAssetID(dp.ClientChainID, dp.StakerAddress, dp.AssetsAddress)
	if cls := c11Class(func() error { return app.DelegationKeeper.DelegateTo(cx, dp) }); cls != "ROk" {
		c.w.Count("slashundel.setup_delegate=" + cls)
		return
	}
	cx1 := cx.WithBlockHeight(h0 + 1)
	dp.OpAmount = und
	if cls := c11Class(func() error { return app.DelegationKeeper.UndelegateFrom(cx1, dp) }); cls != "ROk" {
		c.w.Count("slashundel.setup_undelegate=" + cls)
		return
	}
	recs, err := app.DelegationKeeper.GetStakerUndelegationRecords(cx1, stakerID, assetID)
	if err != nil || len(recs) == 0 {
		return
	}
	rec := recs[len(recs)-1]
	cx2 := cx.WithBlockHeight(h0 + 2)
	contract, _ := app.AVSManagerKeeper.GetAVSSlashContract(cx2, avsAddr)
	var props, actuals []string
	var propsJ, actualsJ []string
	for i, f := range fracs {
		id := fmt.Sprintf("0x%x_0x%x", i+1, 0x5000+c.n)
		param := &operatortypes.SlashInputInfo{IsDogFood: true, Power: powers[i], SlashType: uint32(i + 1), Operator: op, AVSAddr: avsAddr,
			SlashContract: contract, SlashID: id, SlashEventHeight: h0, SlashProportion: f}
		if cls := c11Class(func() error { return app.OperatorKeeper.Slash(cx2, param) }); cls != "ROk" {
			c.w.Count("slashundel.slash=" + cls)
			continue
		}
		info, err := app.OperatorKeeper.GetOperatorSlashInfo(cx2, avsAddr, op.String(), id)
		if err != nil || info.ExecutionInfo == nil {
			continue
		}
		rr, err := app.DelegationKeeper.GetStakerUndelegationRecords(cx2, stakerID, assetID)
		if err != nil || len(rr) == 0 {
			continue
		}
		cur := rr[len(rr)-1]
		props = append(props, cZbig(info.ExecutionInfo.SlashProportion.BigInt()))
		actuals = append(actuals, cZbig(cur.ActualCompletedAmount.BigInt()))
		propsJ = append(propsJ, info.ExecutionInfo.SlashProportion.String())
		actualsJ = append(actualsJ, cur.ActualCompletedAmount.String())
	}
	hctx := cx.WithBlockHeight(int64(rec.CompleteBlockNumber))
	key := delegationtypes.GetUndelegationRecordKey(rec.BlockNumber, rec.LzTxNonce, rec.TxHash, rec.OperatorAddr)
	for app.DelegationKeeper.GetUndelegationHoldCount(hctx, key) > 0 {
		if err := app.DelegationKeeper.DecrementUndelegationHoldCount(hctx, key); err != nil {
			break
		}
	}
	obs := c11Class(func() error {
		app.DelegationKeeper.EndBlock(hctx, abci.RequestEndBlock{Height: hctx.BlockHeight()})
		return nil
	})
	left, _ := app.DelegationKeeper.GetStakerUndelegationRecords(hctx, stakerID, assetID)
	c.emit(cApp("PSlashUndel", cBool(native), cZbig(rec.Amount.BigInt()), cList(props), cList(actuals)), obs, true,
		map[string]interface{}{"kind": "slashed-pending-undelegation", "native": native, "amount": rec.Amount.String(), "proportions": propsJ,
			"completable_after_each_slash": actualsJ, "records_left_after_maturity": len(left)}, tags)
	c.w.Count("kind=slash-undel")
	c.w.Count(fmt.Sprintf("slashundel.slashes=%d", len(props)))
}

// ---- operator commission: registration through the real message path, then a distribution epoch end ---------------

func (c *c11Env) commissionCase(rate, maxRate, maxChange sdkmath.LegacyDec, tags []string) {
	app := c.env.App
	cx := mustCache(c.env.Ctx)
	chainID := avstypes.ChainIDWithoutRevision(c.env.ChainID)
	avsAddr := avstypes.GenerateAVSAddr(chainID)
	_, a := DetEthKey("c11comm", c.n)
	op := sdk.AccAddress(a.Bytes())
	ms := operatorkeeper.NewMsgServerImpl(app.OperatorKeeper)
	msg := &operatortypes.RegisterOperatorReq{FromAddress: op.String(), Info: &operatortypes.OperatorInfo{
		EarningsAddr: op.String(), ApproveAddr: op.String(), OperatorMetaInfo: "c11",
		Commission: stakingtypes.Commission{CommissionRates: stakingtypes.CommissionRates{Rate: rate, MaxRate: maxRate, MaxChangeRate: maxChange}}}}
	// baseapp: ValidateBasic of every message, then the message server
	reg := c11Class(func() error {
		if err := msg.ValidateBasic(); err != nil {
			return err
		}
		_, err := ms.RegisterOperator(sdk.WrapSDKContext(cx), msg)
		return err
	})
	accepted := reg == "ROk"
	obs := "ROk"
	steps := []string{"MsgRegisterOperator=" + reg}
	if accepted {
		asset := common.HexToAddress(c.env.AssetAddr).Bytes()
		amt := sdkmath.NewInt(200_000_000)
		_, key := DetConsKey("c11commcons", c.n)
		setup := c11Class(func() error {
			if err := app.DelegationKeeper.AssociateOperatorWithStaker(cx, 101, op, op.Bytes()); err != nil {
				return err
			}
			if err := app.AssetsKeeper.PerformDepositOrWithdraw(cx, &assetskeeper.DepositWithdrawParams{ClientChainLzID: 101, Action: assetstypes.DepositLST, AssetsAddress: asset, StakerAddress: op.Bytes(), OpAmount: amt}); err != nil {
				return err
			}
			if err := app.DelegationKeeper.DelegateTo(cx, &delegationtypes.DelegationOrUndelegationParams{ClientChainID: 101, AssetsAddress: asset, StakerAddress: op.Bytes(), OperatorAddress: op, OpAmount: amt,
				LzNonce: 400000 + uint64(c.n), TxHash: common.BytesToHash(seedBytes("c11cm", c.n))}); err != nil {
				return err
			}
			return app.OperatorKeeper.OptInWithConsKey(cx, op, avsAddr, key)
		})
		steps = append(steps, "associate+deposit+delegate+optin="+setup)
		// block A: the dogfood epoch ends, the operator becomes a validator; block B: the next epoch ends with fees
		id := app.StakingKeeper.GetEpochIdentifier(cx)
		bx := cx
		for blk := 0; blk < 2 && obs == "ROk"; blk++ {
			ei, _ := app.EpochsKeeper.GetEpochInfo(bx, id)
			hd := bx.BlockHeader()
			hd.Height++
			hd.Time = ei.CurrentEpochStartTime.Add(ei.Duration + time.Second)
			if !hd.Time.After(bx.BlockTime()) {
				hd.Time = bx.BlockTime().Add(ei.Duration + time.Second)
			}
			bx = bx.WithBlockHeader(hd)
			if blk == 1 {
				coins := sdk.NewCoins(sdk.NewCoin(utils.BaseDenom, sdkmath.NewInt(1_000_000)))
				c11Must(app.BankKeeper.MintCoins(bx, exominttypes.ModuleName, coins), "mint")
				c11Must(app.BankKeeper.SendCoinsFromModuleToModule(bx, exominttypes.ModuleName, authtypes.FeeCollectorName, coins), "fees")
			}
			obs = c11Class(func() error {
				app.EpochsKeeper.BeginBlocker(bx)
				app.StakingKeeper.BeginBlock(bx)
				app.StakingKeeper.EndBlock(bx)
				return nil
			})
		}
		isVal := false
		if found, wk, err := app.OperatorKeeper.GetOperatorConsKeyForChainID(bx, op, chainID); err == nil && found && wk != nil {
			_, isVal = app.StakingKeeper.GetExocoreValidator(bx, wk.ToConsAddr())
		}
		steps = append(steps, fmt.Sprintf("validator=%v", isVal))
		c.w.Count(fmt.Sprintf("commission.validator=%v", isVal))
	}
	z := func(d sdkmath.LegacyDec) string { return cZbig(d.BigInt()) }
	c.emit(cApp("PCommission", z(rate), z(maxRate), z(maxChange), cBool(accepted)), obs, true,
		map[string]interface{}{"kind": "operator-commission", "rate": rate.String(), "max_rate": maxRate.String(), "max_change_rate": maxChange.String(), "accepted": accepted, "steps": steps}, tags)
	c.w.Count("kind=commission")
}

// ---- the validator set at a dogfood epoch end ------------------------------------------------------------------------

// route: 0 = every operator sends MsgOptOutOfAVS, 1 = every operator's own staker undelegates below the minimum self
// delegation, 2 = every validator is jailed; keep = number of operators left alone (0 = the whole set is emptied)
func (c *c11Env) valsetCase(route int, keep int, tags []string) {
	app := c.env.App
	cx := mustCache(c.env.Ctx)
	chainID := avstypes.ChainIDWithoutRevision(c.env.ChainID)
	avsAddr := avstypes.GenerateAVSAddr(chainID)
	ms := operatorkeeper.NewMsgServerImpl(app.OperatorKeeper)
	asset := common.HexToAddress(c.env.AssetAddr).Bytes()
	var steps []string
	for i, op := range c.env.Operators {
		if i < keep {
			continue
		}
		var cls string
		switch route {
		case 0:
			cls = c11Class(func() error {
				_, err := ms.OptOutOfAVS(sdk.WrapSDKContext(cx), &operatortypes.OptOutOfAVSReq{FromAddress: op.String(), AvsAddress: avsAddr})
				return err
			})
			steps = append(steps, fmt.Sprintf("MsgOptOutOfAVS(%d)=%s", i, cls))
		case 1:
			amt := (c.env.Cfg.Operators[i].Deposit - 99) * 1_000_000
			cls = c11Class(func() error {
				return app.DelegationKeeper.UndelegateFrom(cx, &delegationtypes.DelegationOrUndelegationParams{ClientChainID: 101, LzNonce: 600000 + uint64(c.n*10+i), AssetsAddress: asset,
					StakerAddress: op.Bytes(), OperatorAddress: op, OpAmount: sdkmath.NewInt(amt), TxHash: common.BytesToHash(seedBytes("c11vs", c.n*10+i))})
			})
			steps = append(steps, fmt.Sprintf("undelegate(self,%d,%d)=%s", i, amt, cls))
		default:
			cls = c11Class(func() error {
				found, wk, err := app.OperatorKeeper.GetOperatorConsKeyForChainID(cx, op, chainID)
				if err != nil || !found || wk == nil {
					return fmt.Errorf("no key")
				}
				app.OperatorKeeper.Jail(cx, wk.ToConsAddr(), chainID)
				return nil
			})
			steps = append(steps, fmt.Sprintf("jail(%d)=%s", i, cls))
		}
	}
	// the block in which the dogfood epoch ends: epochs BeginBlocker with all hooks, then the dogfood EndBlock
	id := app.StakingKeeper.GetEpochIdentifier(cx)
	ei, _ := app.EpochsKeeper.GetEpochInfo(cx, id)
	hd := cx.BlockHeader()
	hd.Height++
	hd.Time = ei.CurrentEpochStartTime.Add(ei.Duration + time.Second)
	if !hd.Time.After(cx.BlockTime()) {
		hd.Time = cx.BlockTime().Add(ei.Duration + time.Second)
	}
	bx := cx.WithBlockHeader(hd)
	prev := c.cometSet(bx)
	var upd []abci.ValidatorUpdate
	obs := c11Class(func() error {
		app.EpochsKeeper.BeginBlocker(bx)
		app.StakingKeeper.BeginBlock(bx)
		upd = app.StakingKeeper.EndBlock(bx)
		return nil
	})
	eligible := 0
	ops, _ := app.OperatorKeeper.GetActiveOperatorsForChainID(bx, chainID)
	if pw, err := app.OperatorKeeper.GetVotePowerForChainID(bx, ops, chainID); err == nil {
		for _, p := range pw {
			if p >= 1 {
				eligible++
			}
		}
	}
	accepted := obs == "ROk" && c11CometAccepts(prev, upd)
	c.emit(cApp("PValset", cNat(len(prev)), cNat(eligible)), obs, accepted,
		map[string]interface{}{"kind": "validator-set-epoch-end", "route": []string{"all-opt-out", "all-below-min-self-delegation", "all-jailed"}[route], "kept": keep,
			"steps": steps, "validators_before": len(prev), "eligible_now": eligible, "updates": len(upd), "cometbft_accepts": accepted}, tags)
	c.w.Count("kind=valset")
}

// ---- stored price strings and the voting-power update --------------------------------------------------------------------

// the price asset's latest round holds `price` ("" = the round was closed without submissions: GrowRoundID on a token
// without any price); an AVS lists the asset; the operator epoch hook recomputes the voting power
func (c *c11Env) priceStringCase(price string, viaGrow bool, tags []string) {
	app := c.env.App
	cx := mustCache(c.env.Ctx)
	tokenID := uint64(app.OracleKeeper.GetParams(cx).GetTokenIDFromAssetID(c.pxAsset))
	if tokenID == 0 {
		c.w.Count("pricestring.no_token")
		return
	}
	// the operator serves the AVS before the round closes (opt-in is transaction level: a panic there is recovered)
	if cls := c11Class(func() error { return app.OperatorKeeper.OptIn(cx, c.env.Operators[0], c11AVS3) }); cls != "ROk" {
		c.w.Count("pricestring.optin=" + cls)
		return
	}
	stored := c11Class(func() error {
		if viaGrow {
			app.OracleKeeper.GrowRoundID(cx, tokenID)
			return nil
		}
		if !app.OracleKeeper.AppendPriceTR(cx, tokenID, oracletypes.PriceTimeRound{Price: price, Decimal: 8, RoundID: app.OracleKeeper.GetNextRoundID(cx, tokenID)}) {
			return fmt.Errorf("round mismatch")
		}
		return nil
	})
	if stored != "ROk" {
		c.w.Count("pricestring.store=" + stored)
		return
	}
	latest, _ := app.OracleKeeper.GetPriceTRLatest(cx, tokenID)
	v, okNum := new(big.Int).SetString(latest.Price, 10)
	obs := c11Class(func() error { return app.OperatorKeeper.UpdateVotingPower(cx, c11AVS3) })
	val := "0%Z"
	if okNum {
		val = cZbig(v)
	}
	c.emit(cApp("PPriceString", cBool(okNum), val), obs, true,
		map[string]interface{}{"kind": "price-string-voting-power", "stored_price": latest.Price, "via_grow_round": viaGrow}, tags)
	c.w.Count("kind=price-string")
}

// ---- voting power with extreme amounts ----------------------------------------------------------------------------

func (c *c11Env) votingPowerCase(bits uint, tags []string) {
	app := c.env.App
	ctx := mustCache(c.env.Ctx)
	op := c.env.Operators[0]
	st := c.stakerAddr(70)
	asset := common.HexToAddress(c.env.AssetAddr).Bytes()
	amt := sdkmath.NewIntFromBigInt(new(big.Int).Lsh(big.NewInt(1), bits))
	// tx level: associate, deposit, delegate (a panic here would be recovered by runTx; then the state is not reached)
	setup := c11Class(func() error {
		if err := app.DelegationKeeper.AssociateOperatorWithStaker(ctx, 101, op, st); err != nil {
			return err
		}
		if err := app.AssetsKeeper.PerformDepositOrWithdraw(ctx, &assetskeeper.DepositWithdrawParams{ClientChainLzID: 101, Action: assetstypes.DepositLST, AssetsAddress: asset, StakerAddress: st, OpAmount: amt}); err != nil {
			return err
		}
		return app.DelegationKeeper.DelegateTo(ctx, &delegationtypes.DelegationOrUndelegationParams{ClientChainID: 101, AssetsAddress: asset, StakerAddress: st, OperatorAddress: op, OpAmount: amt, LzNonce: 5, TxHash: common.BytesToHash(seedBytes("c11vp", int(bits)))})
	})
	c.w.Count("votingpower.setup=" + setup)
	if setup != "ROk" {
		return
	}
	oa, err := app.AssetsKeeper.GetOperatorSpecifiedAssetInfo(ctx, op, c.env.AssetID)
	if err != nil {
		return
	}
	avsAddr := avstypes.GenerateAVSAddr(avstypes.ChainIDWithoutRevision(c.env.ChainID))
	obs := c11Class(func() error { return app.OperatorKeeper.UpdateVotingPower(ctx, avsAddr) })
	c.emit(cApp("PVotingPower", cZbig(oa.OperatorShare.BigInt()), cZbig(oa.TotalAmount.BigInt())), obs, true,
		map[string]interface{}{"kind": "voting-power", "deposit_bits": bits, "operator_share": oa.OperatorShare.String(), "total_amount": oa.TotalAmount.String()}, tags)
	c.w.Count("kind=voting-power")
}

// ---- delegation EndBlock with a record that fails ----------------------------------------------------------------

func (c *c11Env) delegEndCase(tags []string) {
	app := c.env.App
	base := mustCache(c.env.Ctx)
	n := 2 + c.rng.Intn(2)
	asset := common.HexToAddress(c.env.AssetAddr).Bytes()
	var height uint64
	var recs []delegationtypes.UndelegationRecord
	for i := 0; i < n; i++ {
		st := c.stakerAddr(60 + i)
		amt := sdkmath.NewInt(int64(1000 + c.rng.Intn(5000)))
		dp := &delegationtypes.DelegationOrUndelegationParams{ClientChainID: 101, AssetsAddress: asset, StakerAddress: st, OperatorAddress: c.opX, OpAmount: amt,
			LzNonce: 800000 + uint64(c.n*10+i), TxHash: common.BytesToHash(seedBytes("c11de", c.n*10+i))}
		c11Must(app.AssetsKeeper.PerformDepositOrWithdraw(base, &assetskeeper.DepositWithdrawParams{ClientChainLzID: 101, Action: assetstypes.DepositLST, AssetsAddress: asset, StakerAddress: st, OpAmount: amt}), "deposit")
		c11Must(app.DelegationKeeper.DelegateTo(base, dp), "delegate")
		c11Must(app.DelegationKeeper.UndelegateFrom(base, dp), "undelegate")
	}
	all, _ := app.DelegationKeeper.AllUndelegations(base)
	for _, r := range all {
		if r.LzTxNonce >= 800000+uint64(c.n*10) && r.LzTxNonce < 800000+uint64(c.n*10+n) {
			recs = append(recs, r)
			height = r.CompleteBlockNumber
		}
	}
	failing := c.rng.Intn(n)
	if len(recs) == n {
		fr := recs[failing]
		if dl, err := app.DelegationKeeper.GetSingleDelegationInfo(base, fr.StakerID, fr.AssetID, fr.OperatorAddr); err == nil {
			_, _ = app.DelegationKeeper.UpdateDelegationState(base, fr.StakerID, fr.AssetID, fr.OperatorAddr, &delegationtypes.DeltaDelegationAmounts{WaitUndelegationAmount: dl.WaitUndelegationAmount.Neg(), UndelegatableShare: sdkmath.LegacyZeroDec()})
		}
	}
	hctx := base.WithBlockHeight(int64(height))
	obs := c11Class(func() error {
		app.DelegationKeeper.EndBlock(hctx, abci.RequestEndBlock{Height: int64(height)})
		return nil
	})
	left, _ := app.DelegationKeeper.GetPendingUndelegationRecords(hctx, height)
	c.emit(cApp("PDelegEnd", cNat(n), cNat(failing)), obs, true,
		map[string]interface{}{"kind": "delegation-endblock", "records": n, "failing": failing, "records_left": len(left)}, tags)
	c.w.Count("kind=deleg-end")
}

// ---- malformed transaction stream --------------------------------------------------------------------------------

func (c *c11Env) txBytes() [][]byte {
	app := c.env.App
	cfg := app.GetTxConfig()
	var out [][]byte
	mk := func(msgs ...sdk.Msg) {
		b := cfg.NewTxBuilder()
		if err := b.SetMsgs(msgs...); err != nil {
			return
		}
		b.SetGasLimit(200000)
		if bz, err := cfg.TxEncoder()(b.GetTx()); err == nil {
			out = append(out, bz)
		}
	}
	creator := sdk.AccAddress(c.env.AccAddrs[0].Bytes()).String()
	for _, price := range []string{"abc", "", "-1", "1e400", "99999999999999999999999999999999999999999999", "12.5", "0x10", "\x00"} {
		mk(&oracletypes.MsgCreatePrice{Creator: creator, FeederID: 1, BasedBlock: uint64(c.env.Header.Height), Nonce: 1,
			Prices: []*oracletypes.PriceSource{{SourceID: 1, Prices: []*oracletypes.PriceTimeDetID{{Price: price, Decimal: 8, DetID: "1", Timestamp: "x"}}}}})
	}
	mk(&oracletypes.MsgCreatePrice{Creator: creator, FeederID: 0})
	mk(&oracletypes.MsgCreatePrice{Creator: "notbech32", FeederID: 1 << 62, Nonce: -5})
	mk(&avstypes.SubmitTaskResultReq{FromAddress: creator, Info: nil})
	mk(&avstypes.SubmitTaskResultReq{FromAddress: creator, Info: &avstypes.TaskResultInfo{TaskContractAddress: c11Task, OperatorAddress: creator, TaskId: 1, BlsSignature: []byte{}, Stage: avstypes.TwoPhaseCommitOne}})
	mk(&avstypes.RegisterAVSReq{FromAddress: creator})
	mk(&operatortypes.RegisterOperatorReq{FromAddress: creator, Info: nil})
	mk(&operatortypes.OptIntoAVSReq{FromAddress: creator, AvsAddress: "zz", PublicKeyJSON: "{"})
	mk(&delegationtypes.MsgDelegation{})
	return out
}

func (c *c11Env) abciCase(seeds [][]byte, tags []string) {
	rng := c.rng
	app := c.env.App
	n := 6 + rng.Intn(10)
	panicked := false
	var sample []string
	for i := 0; i < n; i++ {
		var tx []byte
		switch rng.Intn(7) {
		case 0:
			tx = make([]byte, rng.Intn(64))
			rng.Read(tx)
		case 1:
			tx = []byte{}
		case 2: // truncated
			s := seeds[rng.Intn(len(seeds))]
			tx = append([]byte{}, s[:rng.Intn(len(s)+1)]...)
		case 3: // bit flips
			s := seeds[rng.Intn(len(seeds))]
			tx = append([]byte{}, s...)
			for k := 0; k < 1+rng.Intn(4) && len(tx) > 0; k++ {
				tx[rng.Intn(len(tx))] ^= 1 << uint(rng.Intn(8))
			}
		case 4: // oversized / non-canonical: trailing garbage, repeated fields
			s := seeds[rng.Intn(len(seeds))]
			tx = append(append([]byte{}, s...), s...)
			if rng.Intn(3) == 0 {
				tx = append(tx, make([]byte, 200000)...)
			}
		case 5: // huge length prefixes
			tx = []byte{0x0a, 0xff, 0xff, 0xff, 0xff, 0x0f, 0x01, 0x02}
		default:
			tx = seeds[rng.Intn(len(seeds))]
		}
		if len(sample) < 3 {
			h := hex.EncodeToString(tx)
			if len(h) > 80 {
				h = h[:80] + "..."
			}
			sample = append(sample, h)
		}
		func() {
			defer func() {
				if r := recover(); r != nil {
					panicked = true
				}
			}()
			app.CheckTx(abci.RequestCheckTx{Tx: tx, Type: abci.CheckTxType_New})
			app.DeliverTx(abci.RequestDeliverTx{Tx: tx})
		}()
	}
	nb := 3
	later := c.blocks(nb, time.Duration(1+rng.Intn(90))*time.Second)
	obs := "ROk"
	if panicked {
		obs = "RPanic"
	}
	c.emit(cApp("PAbci", cNat(nb)), obs, later, map[string]interface{}{"kind": "malformed-tx-stream", "txs": n, "sample": sample}, tags)
	c.w.Count("kind=abci")
	c.w.CountN("malformed_txs", n)
}

// ---- suite ------------------------------------------------------------------------------------------------------------

func runC11(a *Args) error {
	env := NewEnv(EnvCfg{ExtraAccs: 2})
	w := NewCaseWriter(a.Out)
	defer w.Close()
	rng := rand.New(rand.NewSource(a.Seed))
	c := &c11Env{env: env, rng: rng, w: w}
	app := env.App
	ctx := env.Ctx.WithGasMeter(sdk.NewInfiniteGasMeter())

	// NST asset
	c.nstAddr = assetstypes.GenerateNSTAddr(20)
	c11Must(app.AssetsKeeper.SetStakingAssetInfo(ctx, &assetstypes.StakingAssetInfo{
		AssetBasicInfo:     assetstypes.AssetInfo{Name: "Native Restaking ETH", Symbol: "NSTETH", Address: hexutil.Encode(c.nstAddr), Decimals: 18, LayerZeroChainID: 101, MetaInfo: "nst"},
		StakingTotalAmount: sdkmath.NewInt(0)}), "nst asset")
	_, c.nstAsset = assetstypes.GetStakerIDAndAssetID(101, nil, c.nstAddr)
	// the native token as a staking asset (native restaking priced by the default price)
	c11Must(app.AssetsKeeper.SetStakingAssetInfo(ctx, &assetstypes.StakingAssetInfo{
		AssetBasicInfo:     assetstypes.AssetInfo{Name: "Exocore native token", Symbol: "EXO", Address: assetstypes.ExocoreAssetAddr, Decimals: 18, LayerZeroChainID: assetstypes.ExocoreChainLzID},
		StakingTotalAmount: sdkmath.NewInt(0)}), "native asset")
	// an operator without any opt-in
	_, xa := DetEthKey("c11opx", 0)
	c.opX = sdk.AccAddress(xa.Bytes())
	c11Must(app.OperatorKeeper.SetOperatorInfo(ctx, c.opX.String(), &operatortypes.OperatorInfo{EarningsAddr: c.opX.String(), OperatorMetaInfo: "x",
		Commission: stakingtypes.NewCommission(sdk.ZeroDec(), sdk.ZeroDec(), sdk.ZeroDec())}), "operator x")
	// a task AVS on the hour epoch, supporting USDT
	c11Must(app.AVSManagerKeeper.UpdateAVSInfo(ctx, &avstypes.AVSRegisterOrDeregisterParams{
		AvsName: "c11avs", Action: avskeeper.RegisterAction, EpochIdentifier: epochstypes.HourEpochID, AvsAddress: c11AVS,
		AssetID: []string{env.AssetID}, TaskAddr: c11Task, UnbondingPeriod: 7, MinSelfDelegation: 0}), "avs")
	c11Must(app.AVSManagerKeeper.UpdateAVSInfo(ctx, &avstypes.AVSRegisterOrDeregisterParams{
		AvsName: "c11avs2", Action: avskeeper.RegisterAction, EpochIdentifier: epochstypes.HourEpochID, AvsAddress: c11AVS2,
		AssetID: []string{env.AssetID}, TaskAddr: c11Task2, UnbondingPeriod: 7, MinSelfDelegation: 0}), "avs2")
	// operator 0 serves the task AVS and has voting power there
	c11Must(app.OperatorKeeper.OptIn(ctx, env.Operators[0], c11AVS), "opt in")
	c11Must(app.OperatorKeeper.UpdateVotingPower(ctx, c11AVS), "voting power")
	for i, op := range append(append([]sdk.AccAddress{}, env.Operators...), c.opX) {
		kb := make([]byte, 32)
		kb[31] = byte(7 + i)
		sk, err := blst.SecretKeyFromBytes(kb)
		c11Must(err, "bls key")
		c11Must(app.AVSManagerKeeper.SetOperatorPubKey(ctx, &avstypes.BlsPubKeyInfo{Operator: op.String(), PubKey: sk.PublicKey().Marshal()}), "bls pubkey")
	}
	c.taskID = app.AVSManagerKeeper.GetTaskID(ctx, common.HexToAddress(c11Task))
	ep, _ := app.EpochsKeeper.GetEpochInfo(ctx, epochstypes.HourEpochID)
	c11Must(app.AVSManagerKeeper.SetTaskInfo(ctx, &avstypes.TaskInfo{TaskContractAddress: c11Task, Name: "t", TaskId: c.taskID, Hash: []byte("h"),
		TaskResponsePeriod: 2, TaskStatisticalPeriod: 1, TaskChallengePeriod: 2, ThresholdPercentage: 60,
		StartingEpoch: uint64(ep.CurrentEpoch + 1), OptInOperators: []string{env.Operators[0].String(), env.Operators[1].String()}, TaskTotalPower: sdk.ZeroDec()}), "task")
	c.statEp = ep.CurrentEpoch + 1 + 2 + 1
	// a gateway-registered LST whose oracle token never gets a price, listed by a third AVS
	c11Must(app.AssetsKeeper.SetStakingAssetInfo(ctx, &assetstypes.StakingAssetInfo{
		AssetBasicInfo:     assetstypes.AssetInfo{Name: "PriceLess", Symbol: "PXL", Address: c11PxTok, Decimals: 6, LayerZeroChainID: 101, MetaInfo: "px"},
		StakingTotalAmount: sdkmath.NewInt(0)}), "px asset")
	_, c.pxAsset = assetstypes.GetStakerIDAndAssetIDFromStr(101, "", c11PxTok)
	pxi := &oracletypes.OracleInfo{AssetID: c.pxAsset}
	pxi.Token.Name, pxi.Token.Decimal, pxi.Chain.Name, pxi.Feeder.Interval = "PXL", "8", "Ethereum", "10"
	c11Must(app.OracleKeeper.RegisterNewTokenAndSetTokenFeeder(ctx, pxi), "px oracle token")
	c11Must(app.AVSManagerKeeper.UpdateAVSInfo(ctx, &avstypes.AVSRegisterOrDeregisterParams{
		AvsName: "c11avs3", Action: avskeeper.RegisterAction, EpochIdentifier: epochstypes.HourEpochID, AvsAddress: c11AVS3,
		AssetID: []string{env.AssetID, c.pxAsset}, TaskAddr: c11Task3, UnbondingPeriod: 7, MinSelfDelegation: 0}), "avs3")
	// the NST asset gets an oracle token and feeder, as registerToken of the assets precompile does
	oi := &oracletypes.OracleInfo{AssetID: c.nstAsset}
	oi.Token.Name, oi.Token.Decimal, oi.Chain.Name, oi.Feeder.Interval = "NSTETH", "0", "Ethereum", "10"
	c11Must(app.OracleKeeper.RegisterNewTokenAndSetTokenFeeder(ctx, oi), "oracle token")
	if !c.blocks(1, time.Second) {
		return fmt.Errorf("c11: first block panicked")
	}

	// ---------------- directed, model-guided histories ----------------
	// (0) a token registered with feeder interval "0" / "" (registerToken of the assets precompile passes the string
	//     through): the interval must be defaulted, otherwise PrepareRoundEndBlock computes delta % 0 in EndBlock
	for i, iv := range []string{"0", ""} {
		oi := &oracletypes.OracleInfo{AssetID: fmt.Sprintf("0x%040x_0x65", 0xc11000+i)}
		oi.Token.Name, oi.Token.Decimal, oi.Chain.Name, oi.Feeder.Interval = fmt.Sprintf("IV%d", i), "8", "Ethereum", iv
		obs := c11Class(func() error {
			return app.OracleKeeper.RegisterNewTokenAndSetTokenFeeder(env.Ctx.WithGasMeter(sdk.NewInfiniteGasMeter()), oi)
		})
		later := c.blocks(12, time.Second)
		if !later {
			obs = "RPanic"
		}
		c.emit(cApp("PAbci", cNat(12)), obs, later, map[string]interface{}{"kind": "feeder-interval", "interval": iv}, nil)
		c.w.Count("kind=feeder-interval")
		if !later {
			return nil
		}
	}
	// (1) h_slash: deposit, delegate to operator X, undelegate everything, wait for completion, slash
	{
		cx := env.Ctx.WithGasMeter(sdk.NewInfiniteGasMeter())
		st := c.stakerAddr(50)
		asset := common.HexToAddress(env.AssetAddr).Bytes()
		amt := sdkmath.NewInt(3_000_000)
		c11Must(app.AssetsKeeper.PerformDepositOrWithdraw(cx, &assetskeeper.DepositWithdrawParams{ClientChainLzID: 101, Action: assetstypes.DepositLST, AssetsAddress: asset, StakerAddress: st, OpAmount: amt}), "deposit")
		dp := &delegationtypes.DelegationOrUndelegationParams{ClientChainID: 101, AssetsAddress: asset, StakerAddress: st, OperatorAddress: c.opX, OpAmount: amt, LzNonce: 77, TxHash: common.BytesToHash(seedBytes("c11tx", 1))}
		c11Must(app.DelegationKeeper.DelegateTo(cx, dp), "delegate")
		c.slashCase(mustCache(cx), c.opX, "0x1_0xa1", nil, "operator X with delegated stake")
		c11Must(app.DelegationKeeper.UndelegateFrom(cx, dp), "undelegate")
		c.slashCase(mustCache(cx), c.opX, "0x1_0xa2", nil, "operator X, stake unbonding")
		later := c.blocks(14, time.Second)
		if !later {
			return fmt.Errorf("c11: blocks after undelegation panicked")
		}
		c.slashCase(mustCache(env.Ctx), c.opX, "0x1_0xa3", []string{"kf-C11-slash-zero-value"}, "operator X after full undelegation has completed (value 0)")
	}
	// (2) h_avs: a task result with an explicitly empty signature, then the statistics epoch end
	c.avsCase([]int{1}, false, false, []string{"kf-C11-avs-empty-signature"})
	c.avsCase([]int{1}, true, false, []string{"kf-C11-avs-empty-signature"})
	c.avsCase([]int{2, 1}, false, false, nil)
	// two signed results of the task's operators and a third one by an operator outside the opt-in snapshot (rejected)
	c.avsCase([]int{2, 2, 2}, false, false, nil)
	c.avsCase([]int{0}, false, false, nil)
	// (2b) h_avs_novalue: a regular signed result, the AVS value entry is gone when the statistics run
	c.avsCase([]int{2}, false, true, []string{"kf-C11-avs-no-usd-value"})
	// (3) h_nst: three stakers, bitmap for index 2, the third staker leaves, the same bitmap again
	{
		cx, _ := env.Ctx.CacheContext()
		cx = cx.WithGasMeter(sdk.NewInfiniteGasMeter())
		for i := 0; i < 3; i++ {
			c.nstDeposit(cx, i, 0)
		}
		bm := append(make([]byte, 32), 0x18)
		bm[0] = 0x20
		c.nstCase(cx, bm, 5, nil, "bitmap for staker index 2, list of 3")
		c.nstWithdraw(cx, 2, 0)
		c.nstCase(cx, bm, 6, []string{"kf-C11-nst-bitmap-stale"}, "same bitmap after the list has shrunk to 2")
		short := make([]byte, 32)
		short[0] = 0x80
		c.nstCase(cx, short, 7, []string{"kf-C11-nst-bitmap-short"}, "indicator bit set, no value bytes")
	}
	// (3b) the same history through the functions oracle EndBlock calls: AppendPriceTR stores and applies the bitmap,
	//      the list shrinks, GrowRoundID (failed round -> previous price again) re-applies it
	{
		cx := mustCache(env.Ctx)
		tokenID := uint64(app.OracleKeeper.GetParams(cx).GetTokenIDFromAssetID(c.nstAsset))
		if tokenID > 0 {
			for i := 0; i < 3; i++ {
				c.nstDeposit(cx, i, 0)
			}
			bm := append(make([]byte, 32), 0x18)
			bm[0] = 0x20
			okAppend := false
			c11Class(func() error {
				okAppend = app.OracleKeeper.AppendPriceTR(cx, tokenID, oracletypes.PriceTimeRound{Price: string(bm), Decimal: 0, RoundID: app.OracleKeeper.GetNextRoundID(cx, tokenID)})
				return nil
			})
			c.w.Count(fmt.Sprintf("grow.append_ok=%v", okAppend))
			c.growCase(cx, tokenID, nil, "GrowRoundID with the list unchanged")
			c.nstWithdraw(cx, 2, 0)
			c.growCase(cx, tokenID, []string{"kf-C11-nst-bitmap-stale"}, "GrowRoundID after the staker list has shrunk to 2")
		} else {
			c.w.Count("grow.no_token")
		}
	}
	// (4) h_alloc: operator 0 also opted into a second AVS, distribution epoch end with fees
	c.allocCase(true, 1_000_000, []string{"kf-C11-distribution-two-avs"})
	c.allocCase(false, 1_000_000, nil)
	c.allocCase(true, 0, nil)
	c.delegEndCase(nil)
	// (4b) two / three slashes reaching the same pending undelegation (cumulative proportion above 100 %), then maturity:
	//      native token (EndBlock builds a coin from the completable amount) and LST
	d6, d857 := sdkmath.LegacyNewDecWithPrec(6, 1), sdkmath.LegacyNewDecWithPrec(857, 3)
	c.slashUndelCase(true, []sdkmath.LegacyDec{d6, d857}, []int64{2, 2}, nil)
	c.slashUndelCase(false, []sdkmath.LegacyDec{d6, d857}, []int64{2, 2}, nil)
	c.slashUndelCase(true, []sdkmath.LegacyDec{d6, d6, d6}, []int64{1, 2, 3}, nil)
	c.slashUndelCase(false, []sdkmath.LegacyDec{sdkmath.LegacyOneDec(), d6}, []int64{5, 1}, nil)
	// (4c) stored price strings, then the voting-power update of an AVS that lists the asset: the round closed without
	//      any submission (GrowRoundID records an empty price), non-numeric, zero, negative, huge
	c.priceStringCase("", true, nil)
	for _, ps := range []string{"", "abc", "0", "-5", "12.5", "1", "99999999999999999999999999999999999999"} {
		c.priceStringCase(ps, false, nil)
	}
	// (4d) distribution epoch end with three and more stakers of one operator whose shares are 4:1:1, 1:1:1, ...
	c.allocCaseN(false, 1_000_000, []int64{25_250_000, 25_250_000}, nil)
	c.allocCaseN(false, 1_000_003, []int64{50_500_000, 33_666_667, 20_200_000}, nil)
	c.allocCaseN(true, 999, []int64{101_000_000, 101_000_000}, nil)
	// (5) extreme amounts: deposit 2^130 of the asset, delegate, operator epoch hook (known finding, not repaired)
	c.votingPowerCase(130, []string{"kf-C11-extreme-amount-overflow"})
	c.votingPowerCase(100, nil)
	seeds := c.txBytes()
	c.abciCase(seeds, nil)

	// (5b) boundary commissions through MsgRegisterOperator, then validator + distribution epoch end with fees
	{
		d := func(s string) sdkmath.LegacyDec { return sdkmath.LegacyMustNewDecFromStr(s) }
		for _, t := range [][3]string{{"0", "0", "0"}, {"0", "1", "1"}, {"1", "1", "0"}, {"0.5", "1", "0.1"}, {"1.000000000000000001", "1.000000000000000001", "0"},
			{"2", "2", "0"}, {"0.6", "0.5", "0"}, {"-0.1", "1", "0"}, {"0.1", "-1", "0"}, {"0.1", "1", "-0.1"}, {"0.1", "0.5", "0.6"}, {"1", "2", "0"}} {
			c.commissionCase(d(t[0]), d(t[1]), d(t[2]), nil)
		}
	}
	// (6) the validator set at the dogfood epoch end: the three routes that empty it (known finding) and the same routes
	//     with one operator left alone (accepted)
	for route := 0; route < 3; route++ {
		c.valsetCase(route, 1, nil)
		c.valsetCase(route, 0, []string{"kf-C11-empty-validator-set"})
	}

	// ---------------- random stream ----------------
	slashSeq := 0
	for c.n < a.N {
		switch k := rng.Intn(100); {
		case k < 62: // parser differential
			cx, _ := env.Ctx.CacheContext()
			cx = cx.WithGasMeter(sdk.NewInfiniteGasMeter())
			ns := rng.Intn(6)
			if rng.Intn(10) == 0 {
				ns = 8 + rng.Intn(3)
			}
			for i := 0; i < ns; i++ {
				c.nstDeposit(cx, i, 0)
				if i%2 == 1 {
					c.nstDeposit(cx, i, 1)
				}
			}
			raw := c.randomBitmap(ns)
			c.nstCase(cx, raw, uint64(10+rng.Intn(3)), nil, "random")
			if rng.Intn(3) == 0 && ns > 1 {
				// shrink, then the same bitmap again (what EndBlock does with a carried-forward price)
				last := ns - 1
				if last%2 == 1 {
					c.nstWithdraw(cx, last, 1)
				}
				c.nstWithdraw(cx, last, 0)
				c.nstCase(cx, raw, 20, nil, "same bitmap after shrink")
			}
		case k < 70:
			slashSeq++
			op := []sdk.AccAddress{c.opX, env.Operators[0], env.Operators[1]}[rng.Intn(3)]
			c.slashCase(mustCache(env.Ctx), op, fmt.Sprintf("0x1_0xb%x", slashSeq), nil, "random operator")
		case k < 77:
			n := 1 + rng.Intn(3)
			kinds := make([]int, n)
			for i := range kinds {
				kinds[i] = rng.Intn(3)
			}
			c.avsCase(kinds, rng.Intn(4) == 0, rng.Intn(4) == 0, nil)
		case k < 80:
			ns := 1 + rng.Intn(3)
			fr := make([]sdkmath.LegacyDec, ns)
			pw := make([]int64, ns)
			for i := range fr {
				fr[i] = []sdkmath.LegacyDec{sdkmath.LegacyNewDecWithPrec(5, 2), sdkmath.LegacyNewDecWithPrec(3, 1), sdkmath.LegacyNewDecWithPrec(6, 1), sdkmath.LegacyNewDecWithPrec(857, 3), sdkmath.LegacyOneDec()}[rng.Intn(5)]
				pw[i] = int64(1 + rng.Intn(4))
			}
			c.slashUndelCase(rng.Intn(2) == 0, fr, pw, nil)
		case k < 83:
			c.delegEndCase(nil)
		case k < 84:
			pool := []string{"0", "0.000000000000000001", "0.5", "1", "1.000000000000000001", "2", "-1", "0.999999999999999999"}
			d := func(s string) sdkmath.LegacyDec { return sdkmath.LegacyMustNewDecFromStr(s) }
			c.commissionCase(d(pool[rng.Intn(len(pool))]), d(pool[rng.Intn(len(pool))]), d(pool[rng.Intn(len(pool))]), nil)
		case k < 85:
			c.priceStringCase([]string{"", "x", "0", "-1", "7", "1e5", " 5"}[rng.Intn(7)], rng.Intn(4) == 0, nil)
		case k < 86:
			c.votingPowerCase([]uint{60, 100, 120, 126, 127}[rng.Intn(5)], nil)
		case k < 90:
			if rng.Intn(2) == 0 {
				ne := 2 + rng.Intn(3)
				extra := make([]int64, ne)
				for i := range extra {
					extra[i] = int64(1+rng.Intn(6)) * 25_250_000 / int64(1+rng.Intn(3))
				}
				c.allocCaseN(rng.Intn(3) == 0, []int64{1, 999, 1_000_003, 5_000_000_000}[rng.Intn(4)], extra, nil)
			} else {
				c.allocCase(rng.Intn(2) == 0, []int64{0, 1, 999, 1_000_003, 5_000_000_000}[rng.Intn(5)], nil)
			}
		default:
			c.abciCase(seeds, nil)
		}
	}
	_ = big.NewInt
	return nil
}

func mustCache(ctx sdk.Context) sdk.Context {
	cc, _ := ctx.CacheContext()
	return cc.WithGasMeter(sdk.NewInfiniteGasMeter())
}
