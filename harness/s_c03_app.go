package main

// Suite c03app ("fullapp"): REAL blocks of the application. One chain; every case is a segment of a few dozen consecutive
// blocks driven through env.NextBlock = app.EndBlock (the application's configured module order: operator, dogfood,
// delegation, ...) + Commit + BeginBlock (epochs hooks). Stakers delegate to / undelegate from the two genesis VALIDATORS, so
// the holds are placed by the real dogfood hook and released by the real dogfood EndBlock at the epoch end that matures them
// (epoch = day, 7 epochs until unbonded; the block time step of a segment decides whether the hold outlives the record's
// completion height = start height + 10). The raw stores are dumped after every keeper call and after every block; the
// monitors (mon_release_app, mon_index, mon_never_early, mon_aggregates) are evaluated on them. The dogfood scheduling itself
// is not part of the Coq ledger model, so this suite has no model correspondence.

import (
	"math/rand"
	"time"

	sdkmath "cosmossdk.io/math"
)

func init() { register("c03app", c03AppRun) }

func (w *c03World) newAppRunner(cw *CaseWriter, nonce uint64, txN int) *c03Runner {
	r := &c03Runner{w: w, cw: cw, ctx: w.env.Ctx, h0: w.env.Header.Height, kinds: map[string]bool{}, nonce: nonce, txN: txN,
		nstDeficit: map[[2]int]sdkmath.Int{}}
	r.vals = append([]string{}, w.opStrs[:w.nVals]...)
	r.cs = c03Case{Suite: "c03app", Height: r.h0}
	r.prev = w.dump(r.ctx, nil)
	r.init0 = r.prev
	return r
}

// appBlock: end the current block and begin the next one, d later - the whole application, not just x/delegation
func (r *c03Runner) appBlock(d time.Duration) {
	h := r.ctx.BlockHeight()
	res := "ok"
	func() {
		defer func() {
			if p := recover(); p != nil {
				res = "panic"
			}
		}()
		r.w.env.NextBlock(d)
	}()
	r.ctx = r.w.env.Ctx
	r.record(c03Op{Kind: "AppBlock", Height: h}, "EndBlock", res, nil)
}

func c03AppRun(a *Args) error {
	w := c03NewWorld()
	cw := NewCaseWriter(a.Out)
	defer cw.Close()
	rng := rand.New(rand.NewSource(a.Seed))
	nonce, txN := uint64(1000), 0
	steps := []time.Duration{6 * time.Hour, 8 * time.Hour, 12 * time.Hour, 12 * time.Hour, 24 * time.Hour, 5 * time.Hour}
	for c := 0; c < a.N; c++ {
		r := w.newAppRunner(cw, nonce, txN)
		d := steps[c%len(steps)] // 12 h: the hold (7 daily epochs) outlives the completion height (10 blocks)
		nBlocks := 24 + rng.Intn(14)
		for b := 0; b < nBlocks; b++ {
			for k := rng.Intn(3); k > 0; k-- {
				st, as, op := rng.Intn(4), rng.Intn(2), rng.Intn(2) // operators 0 and 1: the validators
				switch x := rng.Intn(10); {
				case x < 2:
					r.deposit(st, as, c03I(int64(rng.Intn(2_000_000)+1_000)), false)
				case x < 5:
					wd := r.withdrawable(st, as)
					if wd.IsPositive() {
						r.delegate(st, as, op, wd.QuoRaw(int64(rng.Intn(3)+1)).AddRaw(0))
					} else {
						r.deposit(st, as, c03I(int64(rng.Intn(2_000_000)+1_000)), false)
					}
				case x < 9:
					pos := r.position(st, as, op)
					if pos.IsPositive() {
						r.undelegate(st, as, op, c03Amount(rng, pos), r.nextNonce(), r.newTx())
					} else if wd := r.withdrawable(st, as); wd.IsPositive() {
						r.delegate(st, as, op, wd)
					} else {
						r.deposit(st, as, c03I(int64(rng.Intn(2_000_000)+1_000)), false)
					}
				default:
					r.deposit(st, as, c03Amount(rng, r.withdrawable(st, as)), true)
				}
			}
			r.appBlock(d)
		}
		nonce, txN = r.nonce, r.txN
		r.init = w.dumpTerm(r.initDump(), r.extra)
		r.finish()
	}
	return nil
}
