package main

// Suite c09mem: "…and the oracle's in-memory state". Oracle price transactions (1-3 MsgCreatePrice messages signed
// by a validator's consensus key) are delivered through the REAL BaseApp.DeliverTx of a running chain; around each
// transaction the digest of the module stores (oracle nonce rows and bank left out = "sequence/nonce and fee") AND a
// digest of the oracle's process memory (aggregator context, caches, updated feeder ids; verif hook VerifC14DumpMem)
// are taken. Model verdict: a failed transaction leaves the store untouched and keeps the memory effects of the
// messages that preceded the failing one (C09/Model.v oracle_tx under via_tx_mem).

import (
	"crypto/sha256"
	"encoding/json"
	"fmt"
	"math/rand"
	"os"
	"strings"
	"time"

	abci "github.com/cometbft/cometbft/abci/types"
	"github.com/cosmos/cosmos-sdk/client"
	sdk "github.com/cosmos/cosmos-sdk/types"
	"github.com/cosmos/cosmos-sdk/types/tx/signing"
	authsigning "github.com/cosmos/cosmos-sdk/x/auth/signing"
	banktypes "github.com/cosmos/cosmos-sdk/x/bank/types"

	exocoreapp "github.com/ExocoreNetwork/exocore/app"
	oraclekeeper "github.com/ExocoreNetwork/exocore/x/oracle/keeper"
	oracletypes "github.com/ExocoreNetwork/exocore/x/oracle/types"
)

func init() { register("c09mem", runC09Mem) }

const c09memLayout = "2006-01-02 15:04:05"

type c09memEnv struct {
	env      *Env
	rng      *rand.Rand
	w        *CaseWriter
	txCfg    client.TxConfig
	n        int
	pseq     int
	lastDump string
}

func (c *c09memEnv) memDigest() [32]byte {
	d := oraclekeeper.VerifC14DumpMem()
	b, err := json.Marshal(struct {
		A interface{}
		C interface{}
		U []string
	}{d.Agc, d.Cache, d.UpdatedFeederIDs})
	if err != nil {
		panic(err)
	}
	return sha256.Sum256(b)
}

// the memory dump in three parts: the aggregator context's own params (hash of their full marshalled contents), the
// rest of the aggregator context, the caches (+ updated feeder ids)
func (c *c09memEnv) memParts() [3][32]byte {
	d := oraclekeeper.VerifC14DumpMem()
	ph := d.Agc.ParamsHash
	d.Agc.ParamsHash = ""
	a, _ := json.Marshal(d.Agc)
	cc, _ := json.Marshal(struct {
		C interface{}
		U []string
	}{d.Cache, d.UpdatedFeederIDs})
	return [3][32]byte{sha256.Sum256([]byte(ph)), sha256.Sum256(a), sha256.Sum256(cc)}
}

// ---- MsgUpdateParams transactions ------------------------------------------------------------------------------------
// The messages are routed through the application's message service router inside a cache context that is written
// only when every message succeeded (what baseapp runTx does); the chain id of the context is a testnet id for the
// accepted-authority cases (on a mainnet id only the gov module may send the message, see C10).

func (c *c09memEnv) deliverParams(kind string, msgs []*oracletypes.MsgUpdateParams, mainnet bool, tags []string) string {
	ctx := c.env.App.BaseApp.NewContext(false, c.env.Header)
	sb := c.storeDigest(ctx)
	mb := c.memParts()
	res, failIdx := "ok", int64(-1)
	func() {
		defer func() {
			if r := recover(); r != nil {
				res = "panic"
			}
		}()
		txCtx, write := ctx.CacheContext()
		if !mainnet {
			txCtx = txCtx.WithChainID("exocoretestnet_233-1")
		}
		for i, m := range msgs {
			h := c.env.App.MsgServiceRouter().Handler(m)
			if _, err := h(txCtx, m); err != nil {
				res, failIdx = "fail", int64(i)
				if os.Getenv("VERIF_DEBUG") != "" {
					fmt.Fprintln(os.Stderr, "c09mem params:", kind, i, err)
				}
				return
			}
		}
		write()
	}()
	sa := c.storeDigest(ctx)
	ma := c.memParts()
	classes, keys := c09Diff(sb, sa)
	for i, name := range []string{"oracle-mem/agc-params", "oracle-mem/agc", "oracle-mem/cache"} {
		if mb[i] != ma[i] {
			classes = append(classes, name)
		}
	}
	var facts c09Facts
	facts.seti("ante.ok", 1)
	facts.seti("n", int64(len(msgs)))
	facts.seti("fail.idx", failIdx)
	r := map[string]string{"ok": "ROk", "fail": "RFail", "panic": "RPanic"}[res]
	term := cApp("CCall", cApp("mkCall", "OracleParamsTx", facts.coq(), r, c09Strs(classes)))
	c.w.Add(term, map[string]interface{}{"suite": "c09mem", "kind": "OracleParamsTx", "pattern": kind, "facts": facts.json(), "result": res,
		"failed_at_message": failIdx, "changed": classes, "changed_keys": keys, "height": c.env.Header.Height, "tags": c09Tags(tags), "nt": true})
	c.w.Count("pattern=" + kind)
	c.w.Count("result=" + res)
	c.n++
	return res
}

func (c *c09memEnv) paramsCase(usedKF *int) {
	rng := c.rng
	ctx := c.env.App.BaseApp.NewContext(false, c.env.Header)
	p := c.env.App.OracleKeeper.GetParams(ctx)
	auth := sdk.AccAddress(c.env.AccAddrs[0].Bytes()).String()
	h := uint64(c.env.Header.Height)
	c.pseq++
	// an existing token (index >= 1) whose asset id is changed: the only field of a started token that can change
	tokIdx := 1 + rng.Intn(len(p.Tokens)-1)
	tok := p.Tokens[tokIdx]
	tokenUpd := &oracletypes.Token{Name: tok.Name, ChainID: tok.ChainID, AssetID: fmt.Sprintf("0x%040x_0x65", 0xa55e7000+c.pseq)}
	goodChain := &oracletypes.Chain{Name: fmt.Sprintf("chain%d", c.pseq), Desc: "c09"}
	newTok := &oracletypes.Token{Name: fmt.Sprintf("TK%d", c.pseq), ChainID: 1, ContractAddress: "0x", Decimal: 8, Active: true, AssetID: ""}
	newFeeder := &oracletypes.TokenFeeder{TokenID: uint64(len(p.Tokens)), RuleID: 1, StartRoundID: 1, StartBaseBlock: h + 100000, Interval: 10}
	runningFeeder := uint64(1) // feeder 1 is running with EndBlock 0
	mk := func(pp oracletypes.Params) *oracletypes.MsgUpdateParams {
		return &oracletypes.MsgUpdateParams{Authority: auth, Params: pp}
	}
	good := []oracletypes.Params{
		{Chains: []*oracletypes.Chain{goodChain}},
		{Tokens: []*oracletypes.Token{tokenUpd}},
		{Tokens: []*oracletypes.Token{newTok}, TokenFeeders: []*oracletypes.TokenFeeder{newFeeder}},
		{MaxSizePrices: int32(100 + rng.Intn(5))},
	}
	// rejected at a LATER step, after the step that edits an existing token (or adds things) has run
	bad := []struct {
		name string
		p    oracletypes.Params
	}{
		{"token-update,then-negative-max-size", oracletypes.Params{Tokens: []*oracletypes.Token{tokenUpd}, MaxSizePrices: -1}},
		{"token-update,then-feeder-without-field", oracletypes.Params{Tokens: []*oracletypes.Token{tokenUpd}, TokenFeeders: []*oracletypes.TokenFeeder{{TokenID: p.TokenFeeders[runningFeeder].TokenID}}}},
		{"token-update,then-feeder-end-in-past", oracletypes.Params{Tokens: []*oracletypes.Token{tokenUpd}, TokenFeeders: []*oracletypes.TokenFeeder{{TokenID: p.TokenFeeders[runningFeeder].TokenID, EndBlock: 1}}}},
		{"token-update,then-invalid-new-token", oracletypes.Params{Tokens: []*oracletypes.Token{tokenUpd, {Name: fmt.Sprintf("BAD%d", c.pseq), ChainID: 99, Decimal: 8, Active: true}}}},
		{"token-update,then-bad-rule", oracletypes.Params{Tokens: []*oracletypes.Token{tokenUpd}, Rules: []*oracletypes.RuleSource{{SourceIDs: []uint64{99}}}}},
		{"new-chain,then-negative-max-size", oracletypes.Params{Chains: []*oracletypes.Chain{goodChain}, MaxSizePrices: -1}},
		{"new-token,then-feeder-start-in-past", oracletypes.Params{Tokens: []*oracletypes.Token{newTok}, TokenFeeders: []*oracletypes.TokenFeeder{{TokenID: uint64(len(p.Tokens)), RuleID: 1, StartRoundID: 1, StartBaseBlock: 1, Interval: 0}}}},
	}
	switch k := rng.Intn(10); {
	case *usedKF < 2 && k < 4:
		// the known variant: an ACCEPTED update pushes the params into the in-memory cache, a later message of the same
		// transaction is rejected, the store is rolled back, the cache keeps the params
		*usedKF++
		b := bad[rng.Intn(len(bad))]
		c.deliverParams("accepted,then-"+b.name, []*oracletypes.MsgUpdateParams{mk(good[0]), mk(b.p)}, false, []string{"kf-C09-oracle-params-cache-not-rolled-back"})
	case k < 3:
		c.deliverParams("accepted", []*oracletypes.MsgUpdateParams{mk(good[rng.Intn(len(good))])}, false, nil)
	case k < 8:
		b := bad[rng.Intn(len(bad))]
		c.deliverParams(b.name, []*oracletypes.MsgUpdateParams{mk(b.p)}, false, nil)
	case k < 9:
		b := bad[rng.Intn(len(bad))]
		c.deliverParams("rejected,then-accepted", []*oracletypes.MsgUpdateParams{mk(b.p), mk(good[0])}, false, nil)
	default:
		// wrong authority on the mainnet chain id: rejected before anything is read
		c.deliverParams("wrong-authority", []*oracletypes.MsgUpdateParams{mk(good[1])}, true, nil)
	}
}

func (c *c09memEnv) memJSON() string {
	d := oraclekeeper.VerifC14DumpMem()
	b, _ := json.Marshal(struct {
		A interface{}
		C interface{}
		U []string
	}{d.Agc, d.Cache, d.UpdatedFeederIDs})
	return string(b)
}

func (c *c09memEnv) storeDigest(ctx sdk.Context) c09Digest {
	d := c09Snapshot(c.env, ctx)
	noncePrefix := oracletypes.StoreKey + "|" + fmt.Sprintf("%x", []byte(oracletypes.NonceKeyPrefix))
	for k := range d {
		if strings.HasPrefix(k, banktypes.StoreKey+"|") || strings.HasPrefix(k, noncePrefix) {
			delete(d, k)
		}
	}
	return d
}

type c09memMsg struct {
	Val    int    `json:"validator"`
	Feeder uint64 `json:"feeder"`
	Base   uint64 `json:"based_block"`
	Nonce  int32  `json:"nonce"`
	Price  string `json:"price"`
	TS     string `json:"timestamp"`
	Det    string `json:"det_id"`
	Dec    int32  `json:"decimal"`
}

func (c *c09memEnv) acc(v int) string {
	return sdk.AccAddress(c.env.ConsPrivs[v].PubKey().Address()).String()
}

func (c *c09memEnv) buildTx(signer int, msgs []c09memMsg, chainID string) []byte {
	b := c.txCfg.NewTxBuilder()
	var ms []sdk.Msg
	for _, m := range msgs {
		ms = append(ms, &oracletypes.MsgCreatePrice{Creator: c.acc(m.Val), FeederID: m.Feeder, BasedBlock: m.Base, Nonce: m.Nonce,
			Prices: []*oracletypes.PriceSource{{SourceID: 1, Prices: []*oracletypes.PriceTimeDetID{{Price: m.Price, Decimal: m.Dec, Timestamp: m.TS, DetID: m.Det}}}}})
	}
	if err := b.SetMsgs(ms...); err != nil {
		panic(err)
	}
	b.SetGasLimit(0)
	priv := c.env.ConsPrivs[signer]
	sigData := signing.SingleSignatureData{SignMode: signing.SignMode_SIGN_MODE_DIRECT, Signature: nil}
	sig := signing.SignatureV2{PubKey: priv.PubKey(), Data: &sigData, Sequence: 0}
	if err := b.SetSignatures(sig); err != nil {
		panic(err)
	}
	bytesToSign, err := c.txCfg.SignModeHandler().GetSignBytes(signing.SignMode_SIGN_MODE_DIRECT, authsigning.SignerData{ChainID: chainID}, b.GetTx())
	if err != nil {
		panic(err)
	}
	sigBytes, err := priv.Sign(bytesToSign)
	if err != nil {
		panic(err)
	}
	sigData.Signature = sigBytes
	sig = signing.SignatureV2{PubKey: priv.PubKey(), Data: &sigData, Sequence: 0}
	if err := b.SetSignatures(sig); err != nil {
		panic(err)
	}
	bz, err := c.txCfg.TxEncoder()(b.GetTx())
	if err != nil {
		panic(err)
	}
	return bz
}

// nonce the validator has to use next for the feeder (stored nonce + 1)
func (c *c09memEnv) nextNonce(ctx sdk.Context, v int, feeder uint64) int32 {
	cons := sdk.ConsAddress(c.env.ConsPrivs[v].PubKey().Address()).String()
	if vn, ok := c.env.App.OracleKeeper.GetNonce(ctx, cons); ok {
		for _, n := range vn.NonceList {
			if n.FeederID == feeder {
				return int32(n.Value) + 1
			}
		}
	}
	return 1
}

func (c *c09memEnv) deliver(kind string, signer int, msgs []c09memMsg, tags []string) string {
	ctx := c.env.App.BaseApp.NewContext(false, c.env.Header)
	bz := c.buildTx(signer, msgs, ctx.ChainID())
	sb := c.storeDigest(ctx)
	mb := c.memDigest()
	c.lastDump = c.memJSON()
	resp := c.env.App.DeliverTx(abci.RequestDeliverTx{Tx: bz})
	sa := c.storeDigest(ctx)
	ma := c.memDigest()
	classes, keys := c09Diff(sb, sa)
	if mb != ma {
		classes = append(classes, "oracle-mem")
		if os.Getenv("VERIF_DEBUG") != "" && resp.Code != 0 {
			fmt.Fprintf(os.Stderr, "c09mem %s code=%d log=%.160s\n  before=%s\n  after =%s\n", kind, resp.Code, resp.Log, c.lastDump, c.memJSON())
		}
	}
	c.lastDump = c.memJSON()
	res := "ok"
	failIdx := int64(-1)
	anteOK := true
	ignored := false
	if resp.Code != 0 {
		res = "fail"
		switch {
		case strings.Contains(resp.Log, "recovered:"):
			res = "panic" // a panic inside DeliverTx, recovered by baseapp (liveness belongs to C11)
		case strings.Contains(resp.Log, "message index: "):
			i := strings.Index(resp.Log, "message index: ")
			fmt.Sscanf(resp.Log[i+len("message index: "):], "%d", &failIdx)
			ignored = strings.Contains(resp.Log, "price proposal ignored")
		default:
			anteOK = false
		}
	}
	var facts c09Facts
	facts.setb("ante.ok", anteOK)
	facts.seti("n", int64(len(msgs)))
	facts.seti("fail.idx", failIdx)
	facts.setb("fail.ignored", ignored)
	r := map[string]string{"ok": "ROk", "fail": "RFail", "panic": "RPanic"}[res]
	term := cApp("CCall", cApp("mkCall", "OracleTx", facts.coq(), r, c09Strs(classes)))
	c.w.Add(term, map[string]interface{}{"suite": "c09mem", "kind": "OracleTx", "pattern": kind, "msgs": msgs, "facts": facts.json(), "result": res,
		"failed_at_message": failIdx, "changed": classes, "changed_keys": keys, "height": c.env.Header.Height, "tags": c09Tags(tags), "nt": true})
	c.w.Count("pattern=" + kind)
	c.w.Count("result=" + res)
	if res == "fail" {
		c.w.Count(fmt.Sprintf("fail.idx=%d", failIdx))
	}
	if mb != ma {
		c.w.Count("memory-changed/" + res)
	}
	c.n++
	return res
}

func (c *c09memEnv) nextBlock() {
	e := c.env
	e.App.EndBlock(abci.RequestEndBlock{Height: e.Header.Height})
	e.App.Commit()
	h := e.Header
	h.Height++
	h.Time = h.Time.Add(time.Duration(1+c.rng.Intn(5)) * time.Second)
	h.AppHash = e.App.LastCommitID().Hash
	e.App.BeginBlock(abci.RequestBeginBlock{Header: h})
	e.Header = h
	e.Ctx = e.App.BaseApp.NewContext(false, h)
}

func runC09Mem(a *Args) error {
	env := NewEnv(EnvCfg{Operators: []OperatorCfg{{Deposit: 100}, {Deposit: 100}, {Deposit: 100}}, InitTime: time.Date(2024, 3, 1, 10, 0, 0, 0, time.UTC),
		MutGenesis: func(app *exocoreapp.ExocoreApp, gs map[string]json.RawMessage) {
			var og oracletypes.GenesisState
			app.AppCodec().MustUnmarshalJSON(gs[oracletypes.ModuleName], &og)
			// the genesis price lists hold round 1: the feeders continue with round 2 from block 1
			for i := range og.Params.TokenFeeders {
				if i > 0 {
					og.Params.TokenFeeders[i].StartRoundID = 2
					og.Params.TokenFeeders[i].StartBaseBlock = 1
				}
			}
			gs[oracletypes.ModuleName] = app.AppCodec().MustMarshalJSON(&og)
		}})
	w := NewCaseWriter(a.Out)
	defer w.Close()
	c := &c09memEnv{env: env, rng: rand.New(rand.NewSource(a.Seed)), w: w, txCfg: env.App.GetTxConfig()}
	rng := c.rng
	params := env.App.OracleKeeper.GetParams(env.Ctx)
	usedKF, usedKF2, usedKFP := 0, 0, 0
	reported := map[string]map[int]bool{}
	for c.n < a.N {
		ctx := env.App.BaseApp.NewContext(false, env.Header)
		dump, ok := oraclekeeper.VerifC12DumpAgc()
		now := env.Header.Time
		ts := now.Add(-2 * time.Second).UTC().Format(c09memLayout)
		if ok {
			for _, rd := range dump.Rounds {
				if rd.Status != 1 || int(rd.FeederID) >= len(params.TokenFeeders) || c.n >= a.N {
					continue
				}
				tok := params.TokenFeeders[rd.FeederID].TokenID
				dec := params.Tokens[tok].Decimal
				mk := func(v int, nonceOff int32, price, t string) c09memMsg {
					return c09memMsg{Val: v, Feeder: rd.FeederID, Base: rd.BasedBlock, Nonce: c.nextNonce(ctx, v, rd.FeederID) + nonceOff, Price: price, TS: t, Det: fmt.Sprint(70 + rd.NextRoundID%5), Dec: dec}
				}
				rk := fmt.Sprintf("%d/%d", rd.FeederID, rd.BasedBlock)
				if reported[rk] == nil {
					reported[rk] = map[int]bool{}
				}
				// a validator that has not reported in this round yet (its report will be counted) / one that has
				fresh, again := -1, -1
				for _, x := range rng.Perm(3) {
					if !reported[rk][x] && fresh < 0 {
						fresh = x
					}
					if reported[rk][x] && again < 0 {
						again = x
					}
				}
				price := fmt.Sprint(100 + rng.Intn(3))
				k := rng.Intn(10)
				switch {
				case usedKF < 2 && k < 4 && fresh >= 0:
					// the known defect: first message counted, second message (same validator, same feeder) rejected
					usedKF++
					c.deliver("counted,then-failing", fresh, []c09memMsg{mk(fresh, 0, price, ts), mk(fresh, 1, price, ts)}, []string{"kf-C09-oracle-memory-not-rolled-back"})
					reported[rk][fresh] = true // it stays reported IN MEMORY although the tx failed
				case usedKF2 < 2 && k < 6 && again >= 0:
					// the same defect inside ONE message: a second report of the same validator is "ignored" after the filter
					// stage has recorded its nonce
					usedKF2++
					c.deliver("second-report-ignored", again, []c09memMsg{mk(again, 0, price, ts)}, []string{"kf-C09-oracle-memory-not-rolled-back"})
				case k < 3 && fresh >= 0:
					if c.deliver("single-valid", fresh, []c09memMsg{mk(fresh, 0, price, ts)}, nil) == "ok" {
						reported[rk][fresh] = true
					}
				case k < 5 && fresh >= 0:
					bad := []c09memMsg{mk(fresh, 0, price, "not a timestamp"), mk(fresh, 0, price, ""), mk(fresh, 0, price, now.Add(time.Hour).UTC().Format(c09memLayout))}[rng.Intn(3)]
					c.deliver("single-failing", fresh, []c09memMsg{bad}, nil)
				case k < 7 && fresh >= 0:
					// failing message FIRST: nothing may stay, neither in the store nor in memory
					c.deliver("failing,then-valid", fresh, []c09memMsg{mk(fresh, 0, price, "bad"), mk(fresh, 1, price, ts)}, nil)
				case k < 8 && fresh >= 0:
					m := mk(fresh, 0, price, ts)
					m.Base += 3
					c.deliver("wrong-based-block", fresh, []c09memMsg{m}, nil)
				case k < 9 && fresh >= 0:
					m := mk(fresh, 5, price, ts)
					c.deliver("nonce-too-high", fresh, []c09memMsg{m}, nil)
				case fresh >= 0:
					// signer is not the creator: rejected before any message runs
					c.deliver("foreign-signer", (fresh+1)%3, []c09memMsg{mk(fresh, 0, price, ts)}, nil)
				}
			}
		}
		if rng.Intn(3) == 0 && c.n < a.N {
			c.paramsCase(&usedKFP)
		}
		c.nextBlock()
		w.Count("blocks")
		if env.Header.Height > int64(40*a.N+400) {
			break
		}
	}
	return nil
}
