package main

// Directed scenarios of the oracle suite. They come first in the case list and carry tags.

import (
	"time"

	sdk "github.com/cosmos/cosmos-sdk/types"
	authtypes "github.com/cosmos/cosmos-sdk/x/auth/types"
	govtypes "github.com/cosmos/cosmos-sdk/x/gov/types"

	oracletypes "github.com/ExocoreNetwork/exocore/x/oracle/types"
)

// c12DMsg builds a well-formed message for the feeder's currently observed round: one det-ID, one price.
func c12DMsg(p c12Params, st c12State, v int, fid uint64, nonceOff int32, det string, price int64, now time.Time) c12Msg {
	rd := st.rounds[fid]
	nonce := int32(1)
	if row, ok := st.nonces[v]; ok {
		if val, ok := row[fid]; ok {
			nonce = int32(val) + 1
		}
	}
	var tok uint64
	for _, f := range p.Feeders {
		if f.ID == fid {
			tok = f.Token
		}
	}
	return c12Msg{Creator: v, Feeder: fid, Base: rd.BasedBlock, Nonce: nonce + nonceOff,
		Prices: []c12Source{{ID: 1, Prices: []c12Item{{Det: det, Price: price, Dec: p.TokenDec[tok], TS: c12TSOf(now.Add(-2 * time.Second))}}}}}
}

func c12One(m c12Msg, kind string) c12Tx { return c12Tx{Msgs: []c12Msg{m}, PubKey: m.Creator, Kind: kind} }

func (h *c12H) directed() []c12Script {
	p := c12Params{MaxNonce: 3, ThrA: 2, ThrB: 3, MaxDetID: 5, MaxSize: 100, TokenDec: []int32{0, 8, 0, 18},
		Feeders: []c12Feeder{{ID: 1, Token: 1, Start: 10, Interval: 10, StartRound: 1}}}
	eq3 := []c12Upd{{0, 100}, {1, 100}, {2, 100}}
	var out []c12Script

	// (1) regression scenario for the repaired signature check: a validator's own public key, the next nonce,
	// a garbage signature. Must be rejected.
	out = append(out, c12Script{tags: []string{"kf-C13-forged-signature"}, params: &p, h0: 19, nb: 5, blocks: []c12ScriptBlock{
		{updates: eq3}, // block 19
		{},             // block 20: the round with base block 20 opens at EndBlock
		{txs: func(st c12State, now time.Time) []c12Tx {
			t := c12One(c12DMsg(p, st, 0, 1, 0, "1", 100, now), "forged-signature")
			t.BadSig = true
			return []c12Tx{t, c12One(c12DMsg(p, st, 0, 1, 0, "1", 100, now), "valid")}
		}},
		{}, {},
	}})

	// (2) a tx whose first message is counted and whose second message fails: the tx fails, the store is rolled
	// back, the aggregator memory is not.
	out = append(out, c12Script{tags: []string{"kf-C13-memory-not-rolled-back"}, params: &p, h0: 19, nb: 6, blocks: []c12ScriptBlock{
		{updates: eq3}, {},
		{txs: func(st c12State, now time.Time) []c12Tx {
			m1 := c12DMsg(p, st, 0, 1, 0, "1", 100, now)
			m2 := c12DMsg(p, st, 0, 1, 1, "1", 100, now) // same det-ID again: nothing new to fill, the handler returns an error
			return []c12Tx{{Msgs: []c12Msg{m1, m2}, PubKey: 0, Kind: "multi(counted,then-failing)"}}
		}},
		{}, {}, {},
	}})

	// (3) the last message needed for the price comes in a tx whose second message fails: the round is sealed in
	// memory, the price write is rolled back, EndBlock then neither writes nor carries a price: the round id is skipped.
	out = append(out, c12Script{tags: []string{"kf-C12-round-sealed-by-failed-tx"}, params: &p, h0: 19, nb: 18, blocks: []c12ScriptBlock{
		{updates: eq3}, {},
		{txs: func(st c12State, now time.Time) []c12Tx {
			return []c12Tx{
				c12One(c12DMsg(p, st, 0, 1, 0, "1", 100, now), "valid"),
				c12One(c12DMsg(p, st, 1, 1, 0, "1", 100, now), "valid"),
				{Msgs: []c12Msg{c12DMsg(p, st, 2, 1, 0, "1", 100, now), c12DMsg(p, st, 2, 1, 1, "2", 100, now)}, PubKey: 2, Kind: "multi(final,then-failing)"},
			}
		}},
		{}, {}, {}, {}, {}, {}, {}, {}, {},
		// next round (base block 30): an honest round
		{txs: func(st c12State, now time.Time) []c12Tx {
			return []c12Tx{
				c12One(c12DMsg(p, st, 0, 1, 0, "5", 120, now), "valid"),
				c12One(c12DMsg(p, st, 1, 1, 0, "5", 120, now), "valid"),
				c12One(c12DMsg(p, st, 2, 1, 0, "5", 120, now), "valid"),
			}
		}},
		{}, {}, {}, {}, {},
	}})

	// (4) regression scenario for the repaired stale-row defect: a validator that is removed while a round is open must
	// lose its nonce row with the forced seal and must not be admitted afterwards.
	eq4 := []c12Upd{{0, 100}, {1, 100}, {2, 100}, {3, 100}}
	out = append(out, c12Script{tags: []string{"dir-C13-removed-validator-keeps-no-row"}, params: &p, h0: 19, nb: 8, blocks: []c12ScriptBlock{
		{updates: eq4}, {},
		{updates: []c12Upd{{3, 0}}}, // block 21: validator 3 leaves while the round with base block 20 is open
		{txs: func(st c12State, now time.Time) []c12Tx {
			m := c12DMsg(p, st, 3, 1, 0, "1", 100, now)
			m.Base = 20
			return []c12Tx{c12One(m, "former-validator")}
		}},
		{txs: func(st c12State, now time.Time) []c12Tx {
			m := c12DMsg(p, st, 3, 1, 0, "1", 100, now)
			m.Base = 20
			return []c12Tx{c12One(m, "former-validator")}
		}},
		{}, {}, {},
	}})
	// (4b) exactly 2/3 of the NEW validator set plus a validator that was removed before the round opened: the removed
	// validator gets no nonce row, its report is not admitted, and {A, B} = 200 of 300 is not a super-majority.
	out = append(out, c12Script{tags: []string{"dir-C12-removed-validator-does-not-count"}, params: &p, h0: 19, nb: 17, blocks: []c12ScriptBlock{
		{updates: eq4}, {}, {}, {}, {}, {}, // blocks 19..24: the round with base block 20 expires at 23
		{updates: []c12Upd{{3, 0}}},       // block 25: validator 3 leaves, no round is open
		{}, {}, {}, {}, {},                // blocks 26..30: the round with base block 30 opens
		{txs: func(st c12State, now time.Time) []c12Tx {
			d := c12DMsg(p, st, 3, 1, 0, "1", 100, now)
			d.Base = 30
			return []c12Tx{
				c12One(c12DMsg(p, st, 0, 1, 0, "1", 100, now), "valid"),
				c12One(c12DMsg(p, st, 1, 1, 0, "1", 100, now), "valid"),
				c12One(d, "former-validator"),
			}
		}},
		{}, {}, {}, {},
	}})

	// (5) regression scenario for the repaired registration path: RegisterNewTokenAndSetTokenFeeder with interval 2
	// (< 2*MaxNonce) must be rejected by Params.Validate and leave the params alone. The case is recorded with the
	// params the chain really has afterwards: if the registration were accepted again, the new feeder is part of them
	// and the round-numbering statement fails on it (a round re-opened every 2 blocks is never sealed).
	p5 := c12Params{MaxNonce: 3, ThrA: 2, ThrB: 3, MaxDetID: 5, MaxSize: 100, TokenDec: []int32{0, 8, 6},
		Feeders: []c12Feeder{{ID: 1, Token: 1, Start: 10, Interval: 10, StartRound: 1}, {ID: 2, Token: 2, Start: 31, Interval: 2, StartRound: 1}}}
	p5pre := p5
	p5pre.Feeders = p5.Feeders[:1]
	p5pre.TokenDec = []int32{0, 8}
	registered := false
	out = append(out, c12Script{tags: []string{"dir-C12-registration-validates-interval"}, params: &p5pre, h0: 19, nb: 22,
		paramsAfter: func() c12Params {
			if registered {
				return p5
			}
			return p5pre
		},
		blocks: []c12ScriptBlock{
			{updates: eq3}, {},
			{pre: func(ctx sdk.Context) { // block 21: a new feeder would start at 21 + 10
				var oi oracletypes.OracleInfo
				oi.Chain.Name, oi.Chain.Desc = "Ethereum", "-"
				oi.Token.Name, oi.Token.Decimal, oi.Token.Contract = "NEWT", "6", "0x"
				oi.Feeder.Interval = "2"
				oi.AssetID = "0x00000000000000000000000000000000000000aa_0x65"
				oi.Token.AssetID = oi.AssetID
				cctx, write := ctx.CacheContext()
				if err := h.env.App.OracleKeeper.RegisterNewTokenAndSetTokenFeeder(cctx, &oi); err == nil {
					write()
					registered = true
					h.w.Count("directed.registration=accepted")
				} else {
					h.w.Count("directed.registration=rejected")
				}
			}},
			{}, {}, {}, {}, {}, {}, {}, {}, {}, {}, {}, {}, {}, {}, {}, {}, {}, {}, {},
		}})
	// (6) Params.Validate's rule "EndBlock not inside a round window" is relative to StartBaseBlock. Feeder 1 starts at 13
	// (not a multiple of the interval 10); MsgUpdateParams proposes EndBlock 33 = 13 + 2*10, exactly the base block of
	// round 3: it must be refused (and then the successor proposed later must be refused too, the feeder is still
	// running). If both were accepted the successor's StartRoundID (Validate's own continuity formula) counts a round that
	// never opened and the token's numbering is one ahead of the store for good. Recorded with the params the chain has.
	p6 := c12Params{MaxNonce: 3, ThrA: 2, ThrB: 3, MaxDetID: 5, MaxSize: 100, TokenDec: []int32{0, 8},
		Feeders: []c12Feeder{{ID: 1, Token: 1, Start: 13, Interval: 10, StartRound: 1}}}
	p6a := p6
	p6a.Feeders = []c12Feeder{{ID: 1, Token: 1, Start: 13, Interval: 10, StartRound: 1, End: 33}}
	p6b := p6
	p6b.Feeders = []c12Feeder{{ID: 1, Token: 1, Start: 13, Interval: 10, StartRound: 1, End: 33}, {ID: 2, Token: 1, Start: 36, Interval: 10, StartRound: 4}}
	acc1, acc2 := false, false
	upd := func(ctx sdk.Context, tf *oracletypes.TokenFeeder) bool {
		msg := &oracletypes.MsgUpdateParams{Authority: authtypes.NewModuleAddress(govtypes.ModuleName).String(),
			Params: oracletypes.Params{TokenFeeders: []*oracletypes.TokenFeeder{tf}}}
		cctx, write := ctx.CacheContext()
		if _, err := h.env.App.MsgServiceRouter().Handler(msg)(cctx, msg); err != nil {
			return false
		}
		write()
		return true
	}
	blocks6 := make([]c12ScriptBlock, 34) // blocks 12..45
	blocks6[0] = c12ScriptBlock{updates: eq3}
	blocks6[8] = c12ScriptBlock{pre: func(ctx sdk.Context) { // block 20
		acc1 = upd(ctx, &oracletypes.TokenFeeder{TokenID: 1, EndBlock: 33})
		if acc1 {
			h.w.Count("directed.end-on-boundary=accepted")
		} else {
			h.w.Count("directed.end-on-boundary=rejected")
		}
	}}
	blocks6[22] = c12ScriptBlock{pre: func(ctx sdk.Context) { // block 34
		acc2 = upd(ctx, &oracletypes.TokenFeeder{TokenID: 1, RuleID: 1, StartRoundID: 4, StartBaseBlock: 36, Interval: 10})
	}}
	out = append(out, c12Script{tags: []string{"dir-C12-validate-end-block-relative-to-start"}, params: &p6, h0: 12, nb: 34,
		paramsAfter: func() c12Params {
			switch {
			case acc1 && acc2:
				return p6b
			case acc1:
				return p6a
			}
			return p6
		}, blocks: blocks6})
	return out
}
