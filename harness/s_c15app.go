package main

// Suite c15app: the epoch clock as wired in app.go. One REAL ExocoreApp (all real epoch hooks: feedistribution,
// operator, dogfood, exomint, avs) is driven block by block through EndBlock/Commit/BeginBlock with block
// times that cross the boundaries of the identifiers registered in the app genesis (minute, hour, day, week)
// plus three extra genesis identifiers (future starts, mid-count, odd nanosecond duration, held until start). After every block
// the suite observes EpochsKeeper.AllEpochInfos, every invocation of the REAL hooks (each wrapped in place by a
// recorder that delegates to it) and the epoch_end / epoch_start ABCI events of BeginBlock.
// The long history is cut into cases of consecutive blocks (each case starts from the observed state).

import (
	"encoding/json"
	"math/rand"
	"strconv"
	"time"

	abci "github.com/cometbft/cometbft/abci/types"
	sdk "github.com/cosmos/cosmos-sdk/types"

	exocoreapp "github.com/ExocoreNetwork/exocore/app"
	epochstypes "github.com/ExocoreNetwork/exocore/x/epochs/types"
)

func init() { register("c15app", runC15App) }

type c15AppCase struct {
	Suite  string       `json:"suite"`
	Subs   []string     `json:"subscribers"`
	Init   []c15Info    `json:"init"`
	Blocks []c15Block   `json:"blocks"` // events = invocations of the real (wrapped) hooks
	ABCI   [][]c15Event `json:"abci_events"`
}

// c15Wrap records an invocation and then calls the REAL hook it wraps.
type c15Wrap struct {
	inner epochstypes.EpochHooks
	idx   int
	log   *[]c15Event
}

func (r c15Wrap) AfterEpochEnd(ctx sdk.Context, id string, n int64) {
	*r.log = append(*r.log, c15Event{"end", id, n, r.idx})
	r.inner.AfterEpochEnd(ctx, id, n)
}

func (r c15Wrap) BeforeEpochStart(ctx sdk.Context, id string, n int64) {
	*r.log = append(*r.log, c15Event{"start", id, n, r.idx})
	r.inner.BeforeEpochStart(ctx, id, n)
}

// c15NextBlock = env.NextBlock, but keeps the events of BeginBlock.
func c15NextBlock(e *Env, d time.Duration) []abci.Event {
	e.App.EndBlock(abci.RequestEndBlock{Height: e.Header.Height})
	e.App.Commit()
	h := e.Header
	h.Height++
	h.Time = h.Time.Add(d)
	h.AppHash = e.App.LastCommitID().Hash
	res := e.App.BeginBlock(abci.RequestBeginBlock{Header: h})
	e.Header = h
	e.Ctx = e.App.BaseApp.NewContext(false, h)
	return res.Events
}

func c15EpochEvents(evs []abci.Event) []c15Event {
	out := []c15Event{}
	for _, ev := range evs {
		var kind string
		switch ev.Type {
		case epochstypes.EventTypeEpochEnd:
			kind = "end"
		case epochstypes.EventTypeEpochStart:
			kind = "start"
		default:
			continue
		}
		id, num := "", int64(-1)
		for _, at := range ev.Attributes {
			switch at.Key {
			case epochstypes.AttributeEpochIdentifier:
				id = at.Value
			case epochstypes.AttributeEpochNumber:
				n, err := strconv.ParseInt(at.Value, 10, 64)
				if err == nil {
					num = n
				}
			}
		}
		out = append(out, c15Event{kind, id, num, 0})
	}
	return out
}

func runC15App(a *Args) error {
	rng := rand.New(rand.NewSource(a.Seed))
	initTime := time.Date(2024, 1, 1, 0, 0, 0, 0, time.UTC).Add(time.Duration(rng.Intn(86400)) * time.Second)
	env := NewEnv(EnvCfg{InitTime: initTime, MutGenesis: func(app *exocoreapp.ExocoreApp, gs map[string]json.RawMessage) {
		var eg epochstypes.GenesisState
		app.AppCodec().MustUnmarshalJSON(gs[epochstypes.ModuleName], &eg)
		fut := epochstypes.NewGenesisEpochInfo("c15-future", 45*time.Second)
		fut.StartTime = initTime.Add(150 * time.Second)
		mid := epochstypes.NewGenesisEpochInfo("c15-mid", 90*time.Second)
		mid.StartTime = initTime.Add(-6*90*time.Second - 30*time.Second)
		mid.EpochCountingStarted = true
		mid.CurrentEpoch = 7
		mid.CurrentEpochStartTime = mid.StartTime.Add(6 * 90 * time.Second)
		mid.CurrentEpochStartHeight = 1
		ns := epochstypes.NewGenesisEpochInfo("c15-ns", time.Duration(7_000_000_007))
		held := epochstypes.NewGenesisEpochInfo("c15-held", 50*time.Second)
		held.StartTime = initTime.Add(20 * time.Minute) // started, but StartTime still ahead: held until then
		held.EpochCountingStarted = true
		held.CurrentEpoch = 3
		held.CurrentEpochStartTime = initTime.Add(-100 * time.Second)
		held.CurrentEpochStartHeight = 1
		eg.Epochs = append(eg.Epochs, fut, mid, ns, held)
		// more identifiers whose FIRST tick happens inside the observed history
		for i, off := range []time.Duration{400 * time.Second, 1000 * time.Second, 2500 * time.Second, 2*time.Hour + 17*time.Second} {
			f := epochstypes.NewGenesisEpochInfo("c15-f"+strconv.Itoa(i), time.Duration(i+2)*37*time.Second)
			f.StartTime = initTime.Add(off)
			if i == 3 {
				f.CurrentEpoch = 5 // unstarted entry with a non-zero number: reset to 1 by the first tick
			}
			eg.Epochs = append(eg.Epochs, f)
		}
		gs[epochstypes.ModuleName] = app.AppCodec().MustMarshalJSON(&eg)
	}})
	w := NewCaseWriter(a.Out)
	defer w.Close()

	subs := c15Subs(env)
	subsC := make([]string, len(subs))
	for i, s := range subs {
		subsC[i] = cStr(s)
	}

	// Wrap every real hook IN PLACE: MultiEpochHooks is a slice, and the epochs AppModule's copy of the keeper
	// shares its backing array, so BeginBlock of the real app now goes through the recorders (which delegate).
	var hookLog []c15Event
	if mh, ok := env.App.EpochsKeeper.Hooks().(epochstypes.MultiEpochHooks); ok {
		for i := range mh {
			mh[i] = c15Wrap{inner: mh[i], idx: i, log: &hookLog}
		}
	}
	var abciC []string

	totalCases := a.N
	for c := 0; c < totalCases; c++ {
		cs := c15AppCase{Suite: "c15app", Subs: subs}
		for _, ei := range env.App.EpochsKeeper.AllEpochInfos(env.Ctx) {
			cs.Init = append(cs.Init, c15InfoOf(ei))
		}
		// big jumps (to the next day / week boundary) only in the last fifth of the run, so that the short
		// identifiers are exercised on their boundaries first and in permanent catch-up afterwards
		late := c >= 4*totalCases/5
		nBlocks := 6 + rng.Intn(9)
		var blocksC []string
		abciC = nil
		for b := 0; b < nBlocks; b++ {
			now := env.Header.Time
			infos := env.App.EpochsKeeper.AllEpochInfos(env.Ctx)
			boundary := func(ei epochstypes.EpochInfo) time.Time {
				if ei.EpochCountingStarted {
					return ei.CurrentEpochStartTime.Add(ei.Duration)
				}
				return ei.StartTime
			}
			var step time.Duration
			r := rng.Intn(100)
			switch {
			case r < 55:
				// the soonest boundary that is still ahead, exactly / 1ns before / 1ns after
				var best time.Time
				found := false
				for _, ei := range infos {
					bd := boundary(ei)
					if !bd.Before(now) && (!found || bd.Before(best)) {
						best, found = bd, true
					}
				}
				if found {
					tgt := best.Add(time.Duration(rng.Intn(3) - 1))
					if tgt.After(now) {
						step = tgt.Sub(now)
					}
				}
				w.Count("step=next-boundary")
			case r < 63:
				step = 0
				w.Count("step=0")
			case r < 75:
				step = time.Duration(rng.Int63n(int64(20 * time.Second)))
				w.Count("step<20s")
			case r < 85:
				step = time.Duration(rng.Int63n(int64(3 * time.Minute)))
				w.Count("step<3min")
			case r < 95:
				// boundary of a random identifier (hour: any time; day/week: late phase only)
				ei := infos[rng.Intn(len(infos))]
				if ei.Duration > time.Hour && !late {
					w.Count("step=skipped-big")
					break
				}
				tgt := boundary(ei).Add(time.Duration(rng.Intn(3) - 1))
				if tgt.After(now) {
					step = tgt.Sub(now)
				}
				w.Count("step=boundary-of-" + ei.Identifier)
			default:
				step = time.Duration(rng.Int63n(int64(10 * time.Minute)))
				w.Count("step=multi-minute-gap")
			}
			t := now.Add(step)
			for _, ei := range infos {
				w.Count("branch=" + c15Branch(ei, t))
			}
			hookLog = nil
			evs := c15EpochEvents(c15NextBlock(env, step))
			blk := c15Block{Height: env.Header.Height, Time: timeZ(env.Header.Time).String(), Events: append([]c15Event{}, hookLog...)}
			cs.ABCI = append(cs.ABCI, evs)
			abciC = append(abciC, c15Events(evs))
			w.CountN("hook-invocations", len(hookLog))
			for _, ei := range env.App.EpochsKeeper.AllEpochInfos(env.Ctx) {
				blk.Infos = append(blk.Infos, c15InfoOf(ei))
			}
			cs.Blocks = append(cs.Blocks, blk)
			w.CountN("events", len(evs))
			blocksC = append(blocksC, cApp("mkBlk", cZ(blk.Height), cZstr(blk.Time), c15Events(blk.Events), c15Infos(blk.Infos)))
		}
		w.Add(cApp("mkACase", cList(subsC), c15Infos(cs.Init), cList(blocksC), cList(abciC)), cs)
		w.CountN("blocks", nBlocks)
	}
	return nil
}
