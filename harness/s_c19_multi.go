package main

// Suite c19multi: ONE cosmos transaction carrying several MsgEthereumTx (same or different senders), through the real
// ABCI DeliverTx. Monitor only (coq/C19/Multi.v): the C19 accounting statement summed over the messages is evaluated
// on the observed balances / sequences / collector / store digest; no model transition exists for this shape.

import (
	"fmt"
	"math/big"
	"math/rand"
	"os"
	"sort"
	"time"

	sdkmath "cosmossdk.io/math"
	abci "github.com/cometbft/cometbft/abci/types"
	storetypes "github.com/cosmos/cosmos-sdk/store/types"
	sdk "github.com/cosmos/cosmos-sdk/types"
	authtypes "github.com/cosmos/cosmos-sdk/x/auth/types"
	"github.com/ethereum/go-ethereum/common"
	"github.com/ethereum/go-ethereum/core"
	ethtypes "github.com/ethereum/go-ethereum/core/types"
	"github.com/ethereum/go-ethereum/crypto"
	evmostypes "github.com/evmos/evmos/v16/types"
	evmtypes "github.com/evmos/evmos/v16/x/evm/types"

	assetsprecompile "github.com/ExocoreNetwork/exocore/precompiles/assets"
	exotx "github.com/ExocoreNetwork/exocore/testutil/tx"
	"github.com/ExocoreNetwork/exocore/utils"
)

func init() { register("c19multi", runC19Multi) }

type c19MMsg struct {
	Kind    string `json:"kind"`
	Type    int    `json:"type"`
	From    string `json:"from"`
	To      string `json:"to"`
	Nonce   uint64 `json:"nonce"`
	Gas     uint64 `json:"gas"`
	Price   string `json:"gas_price"`
	Cap     string `json:"fee_cap"`
	Tip     string `json:"tip_cap"`
	Value   string `json:"value"`
	Intr    uint64 `json:"intrinsic_gas"`
	HasResp bool   `json:"has_response"`
	GasUsed uint64 `json:"gas_used"`
	Failed  bool   `json:"vm_failed"`
	Create  bool   `json:"create"`
	Blocked bool   `json:"recipient_blocked"`
	OGas    uint64 `json:"oracle_evm_gas"`
	ORefund uint64 `json:"oracle_refund_counter"`
	OFailed bool   `json:"oracle_failed"`
	OWorld  string `json:"oracle_world"`
}

type c19Built struct {
	msg  *evmtypes.MsgEthereumTx
	from common.Address
	fees *big.Int
	gas  uint64
}

type c19MAcct struct {
	Addr   string `json:"addr"`
	Bal0   string `json:"balance_pre"`
	Nonce0 int64  `json:"sequence_pre"`
	Bal1   string `json:"balance_post"`
	Nonce1 int64  `json:"sequence_post"`
}

type c19MCase struct {
	Suite    string     `json:"suite"`
	Tags     []string   `json:"tags,omitempty"`
	NT       bool       `json:"nt"`
	Height   int64      `json:"height"`
	Proposer string     `json:"proposer"`
	Base     string     `json:"base_fee"`
	MGP      string     `json:"min_gas_price_dec"`
	Mult     string     `json:"min_gas_multiplier_dec"`
	Msgs     []c19MMsg  `json:"msgs"`
	Code     uint32     `json:"code"`
	Accts    []c19MAcct `json:"accounts"`
	Coll0    string     `json:"collector_pre"`
	Coll1    string     `json:"collector_post"`
	World0   string     `json:"world_pre"`
	World1   string     `json:"world_post"`
	Supply0  string     `json:"supply_pre"`
	Supply1  string     `json:"supply_post"`
	BLim     int64      `json:"block_gas_limit"`
	BGas0    uint64     `json:"block_gas_pre"`
	BGas1    uint64     `json:"block_gas_post"`
	CtxGas   int64      `json:"abci_gas_used"`
}

func runC19Multi(a *Args) error {
	env := NewEnv(EnvCfg{ExtraAccs: 6})
	w := NewCaseWriter(a.Out)
	defer w.Close()
	s := &c19S{env: env, w: w, rng: rand.New(rand.NewSource(a.Seed)), chainID: env.App.EvmKeeper.ChainID(),
		coll: authtypes.NewModuleAddress(authtypes.FeeCollectorName)}
	s.privs = append(s.privs, env.AccPrivs...)
	s.addrs = append(s.addrs, env.AccAddrs...)
	var err error
	if s.assetsP, err = assetsprecompile.NewPrecompile(env.App.AssetsKeeper, env.App.AuthzKeeper); err != nil {
		return err
	}
	env.NextBlock(time.Second)
	s.storer = s.deploy(0, c19Init(c19RtStorer))
	s.storer3 = s.deploy(0, c19Init(c19RtStorer3))
	s.reverter = s.deploy(0, c19Init(c19RtReverter))
	s.burner = s.deploy(0, c19Init(c19RtBurner))
	s.proxy = s.deploy(0, c19Init(c19RtProxy))
	ap, err := env.App.AssetsKeeper.GetParams(env.Ctx)
	if err != nil {
		return err
	}
	ap.ExocoreLzAppAddress = s.proxy.Hex()
	if err := env.App.AssetsKeeper.SetParams(env.Ctx, ap); err != nil {
		return err
	}
	if os.Getenv("C19_DEMO") != "" {
		return s.demoReplay()
	}
	// directed scenarios of the known finding come first and carry its tag: a contract creation followed by further
	// messages of the same sender in one cosmos transaction
	for c := 0; c < a.N; c++ {
		if err := s.oneMulti(c < c19MultiDirected, c); err != nil {
			return err
		}
	}
	return nil
}

const c19MultiDirected = 4

const c19TagCreateNonce = "regress-C19-multimsg-create-nonce-reset"

func (s *c19S) oneMulti(directed bool, directedVariant int) error {
	rng := s.rng
	env := s.env
	mult := c19Dec("0.5")
	switch rng.Intn(4) {
	case 0:
		mult = sdk.ZeroDec()
	case 1:
		mult = sdk.OneDec()
	case 2:
		mult = sdk.NewDecWithPrec(int64(rng.Intn(1001)), 3)
	}
	mgp := sdk.ZeroDec()
	if rng.Intn(4) == 0 {
		mgp = sdk.NewDec(int64(1 + rng.Intn(1_000_000_000)))
	}
	noBase := rng.Intn(5) == 0
	var base *big.Int
	if rng.Intn(2) == 0 {
		base = big.NewInt(int64(7 + rng.Intn(1_000_000_000)))
	}
	s.setFeeMarket(noBase, base, mgp, mult)
	blim := int64(-1)
	if rng.Intn(5) == 0 {
		blim = int64(150_000 + rng.Intn(500_000))
	}
	s.setBlockMaxGas(blim)
	s.topUp()
	proposer := s.nextBlockProposer()
	baseFee := s.baseFee()
	mgpInt := new(big.Int).Quo(mgp.BigInt(), big.NewInt(1_000_000_000_000_000_000))

	k := 2 + rng.Intn(3)
	sameSender := rng.Intn(3) != 0
	if directed {
		sameSender = true
	}
	sender0 := rng.Intn(6)
	nextNonce := map[int]uint64{}
	// plan senders and kinds first. The directed cases put a creation in front of further messages of the same sender
	// (the shape of the repaired sequence defect, fix e884872); since the repair the random stream produces it too.
	planSender := make([]int, k)
	planKind := make([]int, k)
	for i := 0; i < k; i++ {
		planSender[i] = sender0
		if !sameSender {
			planSender[i] = rng.Intn(6)
		}
		planKind[i] = rng.Intn(10)
	}
	if directed {
		planKind[0] = 7
		for i := 1; i < k; i++ {
			planKind[i] = rng.Intn(5)
		}
		if directedVariant == 3 {
			k = 2
			planSender, planKind = planSender[:2], []int{7, 7} // second creation gets too little gas and fails
		}
	}
	// case family "precompile write, then an error return": an early message deposits through the assets precompile and
	// succeeds, the LAST message of the transaction returns an error (gas limit below intrinsic gas, or value sent to a
	// blocked module account), so the whole cosmos transaction is dropped after the ante handler: the precompile's
	// restaking writes must be dropped with it
	dropFamily := !directed && rng.Intn(6) == 0
	dropHow := rng.Intn(2)
	if dropFamily {
		planKind[0] = 8 // precompile deposit
		planKind[k-1] = 0
		s.w.Count("family=precompile-write-then-error-return")
	}
	var msgs []sdk.Msg
	var tags []string
	if directed {
		tags = []string{c19TagCreateNonce}
		s.w.Count("directed=create-then-more-messages")
	}
	cs := c19MCase{Suite: "c19multi", Proposer: proposer, Tags: tags, Height: env.Header.Height, Base: baseFee.String(), MGP: mgp.BigInt().String(), Mult: mult.BigInt().String(), BLim: blim}
	var built []c19Built
	seen := map[string]bool{}
	var involved []common.Address
	note := func(a common.Address) {
		if !seen[c19Addr(a)] {
			seen[c19Addr(a)] = true
			involved = append(involved, a)
		}
	}
	signer := ethtypes.LatestSignerForChainID(s.chainID)
	for i := 0; i < k; i++ {
		sender := planSender[i]
		kindSel := planKind[i]
		from := s.addrs[sender]
		if _, ok := nextNonce[sender]; !ok {
			nextNonce[sender] = uint64(s.seq(env.Ctx, from.Bytes()))
		}
		nonce := nextNonce[sender]
		nextNonce[sender]++
		if rng.Intn(30) == 0 && !directed && !dropFamily {
			nonce++ // nonce gap: the whole transaction is refused
		}
		var to *common.Address
		var data []byte
		kind := ""
		value := big.NewInt(0)
		addrp := func(a common.Address) *common.Address { return &a }
		switch kindSel {
		case 0, 1:
			kind = "transfer-eoa"
			to = addrp(s.addrs[rng.Intn(6)])
			value = big.NewInt(int64(rng.Intn(1_000_000)))
			switch rng.Intn(20) {
			case 0: // more than the sender owns: refused by CanTransfer
				value = new(big.Int).Add(s.bal(env.Ctx, from.Bytes()), big.NewInt(1))
			case 1: // everything: passes CanTransfer (checked before any fee is deducted), fails inside the EVM
				value = s.bal(env.Ctx, from.Bytes())
			case 2: // a third: later messages of this sender may become unaffordable
				value = new(big.Int).Quo(s.bal(env.Ctx, from.Bytes()), big.NewInt(3))
			case 3: // to a module account the bank refuses to credit: stateDB.Commit error fails the whole tx
				to = addrp(common.BytesToAddress(authtypes.NewModuleAddress("gov")))
				value = big.NewInt(int64(1 + rng.Intn(1000)))
			}
		case 2:
			kind = "call-store-set"
			to = addrp(s.storer)
			data = c19Word(big.NewInt(int64(1 + rng.Intn(1000))).Bytes())
		case 3:
			kind = "call-store3-set"
			to = addrp(s.storer3)
			data = c19Word(big.NewInt(int64(1 + rng.Intn(1000))).Bytes())
		case 4:
			kind = "call-store3-clear"
			to = addrp(s.storer3)
			data = c19Word(nil)
		case 5:
			kind = "call-revert"
			to = addrp(s.reverter)
			value = big.NewInt(int64(rng.Intn(3)))
		case 6:
			kind = "call-out-of-gas"
			to = addrp(s.burner)
		case 7:
			kind = "create-ok"
			data = c19InitStoreReturn
		default:
			rev := rng.Intn(2) == 0
			if dropFamily && i == 0 {
				rev = false
			}
			kind = map[bool]string{true: "precompile-deposit-revert", false: "precompile-deposit-ok"}[rev]
			to = addrp(s.proxy)
			in, err := s.assetsP.Pack(assetsprecompile.MethodDepositLST, uint32(env.LzID), c19Pad32(common.FromHex(env.AssetAddr)),
				c19Pad32(s.addrs[rng.Intn(6)].Bytes()), big.NewInt(int64(1+rng.Intn(100000))))
			if err != nil {
				return err
			}
			data = append(c19Word(s.assetsP.Address().Bytes()), in...)
			if rev {
				value = big.NewInt(1)
			}
		}
		typ := rng.Intn(3)
		var al ethtypes.AccessList
		if typ == 0 {
			al = nil
		} else {
			al = ethtypes.AccessList{}
		}
		intr, _ := core.IntrinsicGas(data, al, to == nil, true, true)
		gas := uint64(s.pick(60_000, 100_000, 150_000, 200_000))
		switch rng.Intn(25) {
		case 0:
			if !directed {
				gas = intr - 1 // intrinsic gas error: the whole cosmos tx fails after the ante handler
			}
		case 1:
			if !directed {
				gas = intr
			}
		}
		if dropFamily {
			gas = uint64(s.pick(100_000, 150_000))
			if i == k-1 {
				if dropHow == 0 {
					gas = intr - 1
				} else {
					to = addrp(common.BytesToAddress(authtypes.NewModuleAddress("gov")))
					value = big.NewInt(int64(1 + rng.Intn(1000)))
				}
			}
		}
		if directed {
			gas = uint64(s.pick(150_000, 200_000)) // the creation must succeed for its nonce write to be kept
			if directedVariant == 3 {
				gas = map[int]uint64{0: 150_000, 1: 60_000}[i]
			}
		}
		price := new(big.Int).Add(baseFee, big.NewInt(int64(rng.Intn(2_000_000_000))))
		if price.Cmp(mgpInt) < 0 {
			price = new(big.Int).Add(mgpInt, big.NewInt(1))
		}
		if rng.Intn(30) == 0 && !directed && !dropFamily {
			price = new(big.Int).Sub(baseFee, big.NewInt(1))
			if price.Sign() < 0 {
				price = big.NewInt(0)
			}
		}
		if rng.Intn(40) == 0 && !directed && !dropFamily && gas > 0 {
			// one more than the sender can afford for this gas limit
			price = new(big.Int).Add(new(big.Int).Quo(s.bal(env.Ctx, from.Bytes()), new(big.Int).SetUint64(gas)), big.NewInt(1))
		}
		tip := new(big.Int).Set(price)
		if rng.Intn(2) == 0 {
			tip = big.NewInt(int64(rng.Intn(1000)))
		}
		args := &evmtypes.EvmTxArgs{ChainID: s.chainID, Nonce: nonce, To: to, Amount: value, GasLimit: gas, Input: data}
		rec := c19MMsg{Kind: kind, Type: typ, From: c19Addr(from), Nonce: nonce, Gas: gas, Value: value.String(), Intr: intr}
		switch typ {
		case 0:
			args.GasPrice = price
			rec.Price, rec.Cap, rec.Tip = price.String(), price.String(), price.String()
		case 1:
			args.GasPrice = price
			args.Accesses = &al
			rec.Price, rec.Cap, rec.Tip = price.String(), price.String(), price.String()
		default:
			args.GasFeeCap, args.GasTipCap = price, tip
			args.Accesses = &al
			rec.Price, rec.Cap, rec.Tip = "0", price.String(), tip.String()
		}
		var rcpt common.Address
		if to == nil {
			rcpt = crypto.CreateAddress(from, nonce)
		} else {
			rcpt = *to
		}
		rec.To = c19Addr(rcpt)
		rec.Create = to == nil
		note(from)
		note(rcpt)
		m := evmtypes.NewTx(args)
		m.From = from.String()
		if err := m.Sign(signer, exotx.NewSigner(s.privs[sender])); err != nil {
			return err
		}
		msgs = append(msgs, m)
		eff := new(big.Int).Set(price)
		if typ == 2 {
			eff = new(big.Int).Add(tip, baseFee)
			if eff.Cmp(price) > 0 {
				eff = new(big.Int).Set(price)
			}
		}
		built = append(built, c19Built{m, from, new(big.Int).Mul(eff, new(big.Int).SetUint64(gas)), gas})
		rec.Blocked = env.App.BankKeeper.BlockedAddr(rcpt.Bytes())
		cs.Msgs = append(cs.Msgs, rec)
		s.w.Count("kind=" + kind)
	}
	txCfg := env.App.GetTxConfig()
	tx, err := exotx.PrepareEthTx(txCfg, env.App, nil, msgs...)
	if err != nil {
		return err
	}
	bz, err := txCfg.TxEncoder()(tx)
	if err != nil {
		return err
	}
	sort.Slice(involved, func(i, j int) bool { return c19Addr(involved[i]) < c19Addr(involved[j]) })
	for _, a := range involved {
		cs.Accts = append(cs.Accts, c19MAcct{Addr: c19Addr(a), Bal0: s.bal(env.Ctx, a.Bytes()).String(), Nonce0: s.seq(env.Ctx, a.Bytes())})
	}
	s.oracleMulti(built, cs.Msgs)
	cs.Coll0, cs.World0, cs.Supply0, cs.BGas0 = s.bal(env.Ctx, s.coll).String(), s.world(env.Ctx), s.supply(), s.blockGas()
	res := env.App.DeliverTx(abci.RequestDeliverTx{Tx: bz})
	cs.Code, cs.CtxGas = res.Code, res.GasUsed
	if res.Code == 0 {
		var txr sdk.TxMsgData
		if err := txr.Unmarshal(res.Data); err == nil && len(txr.MsgResponses) == len(cs.Msgs) {
			for i := range cs.Msgs {
				var r evmtypes.MsgEthereumTxResponse
				if err := r.Unmarshal(txr.MsgResponses[i].Value); err == nil {
					cs.Msgs[i].HasResp, cs.Msgs[i].GasUsed, cs.Msgs[i].Failed = true, r.GasUsed, r.Failed()
				}
			}
		}
	}
	for i, a := range involved {
		cs.Accts[i].Bal1, cs.Accts[i].Nonce1 = s.bal(env.Ctx, a.Bytes()).String(), s.seq(env.Ctx, a.Bytes())
	}
	cs.Coll1, cs.World1, cs.Supply1, cs.BGas1 = s.bal(env.Ctx, s.coll).String(), s.world(env.Ctx), s.supply(), s.blockGas()
	changed := cs.Coll1 != cs.Coll0
	switch {
	case res.Code == 0:
		s.w.Count("result=executed")
		cs.NT = true
	case changed:
		s.w.Count("result=included-all-gas-burnt")
		cs.NT = true
	default:
		s.w.Count("result=rejected")
	}
	if res.Code != 0 {
		s.w.Count(fmt.Sprintf("code=%s/%d", res.Codespace, res.Code))
	}
	if res.Code != 0 && changed {
		for _, m := range cs.Msgs {
			if m.OWorld != cs.World0 && !m.OFailed && m.OWorld != "" {
				s.w.Count("dropped-tx-had-written-other-stores")
				if cs.World1 == cs.World0 {
					s.w.Count("dropped-tx-writes-gone")
				}
				break
			}
		}
	}
	if blim > 0 {
		s.w.Count("env.blockgas=limited")
	}
	if res.Code != 0 && cs.BGas1 != cs.BGas0 && !changed {
		s.w.Count("rejected-but-block-gas-consumed")
	}
	s.w.Count(fmt.Sprintf("msgs=%d", k))
	if sameSender {
		s.w.Count("senders=one")
	} else {
		s.w.Count("senders=mixed")
	}
	var ms, as, crs, ors []string
	for _, m := range cs.Msgs {
		crs = append(crs, cBool(m.Create))
		ors = append(ors, cApp("mkOr", c19U(m.OGas), c19U(m.ORefund), cBool(m.OFailed), cStr(m.OWorld), cZ(cs.CtxGas)))
		t := cApp("mkTx", cZ(int64(m.Type)), cStr(m.From), cStr(m.To), c19U(m.Nonce), c19U(m.Gas), cZstr(m.Price), cZstr(m.Cap), cZstr(m.Tip), cZstr(m.Value), c19U(m.Intr), cBool(m.Blocked))
		ms = append(ms, cTuple(t, cOpt(m.HasResp, cTuple(c19U(m.GasUsed), cBool(m.Failed)))))
	}
	for _, a := range cs.Accts {
		as = append(as, cApp("mkAO", cStr(a.Addr), cZstr(a.Bal0), cOpt(a.Nonce0 >= 0, cZ(a.Nonce0)), cZstr(a.Bal1), cOpt(a.Nonce1 >= 0, cZ(a.Nonce1))))
	}
	envC := cApp("mkEnv", cZstr(cs.Base), cZstr(cs.MGP), cZstr(cs.Mult), cZ(cs.BLim))
	term := cApp("mkMCase", envC, cList(ms), cBool(cs.Code == 0), cList(as), cZstr(cs.Coll0), cZstr(cs.Coll1), cStr(cs.World0), cStr(cs.World1), cZstr(cs.Supply0), cZstr(cs.Supply1), cList(crs),
		cList(ors), c19U(cs.BGas0), c19U(cs.BGas1), cZ(cs.CtxGas))
	s.w.Add(term, cs)
	return nil
}

// oracleMulti measures, message after message, what the interpreter reports, on a discarded branch of the deliver state
// that reproduces what the real run sees: all fees deducted and all sequences advanced first (ante), one shared gas meter
// reset to the running total after every message (ResetGasMeterAndConsumeGas), a cache context per message that is written
// only when the execution did not fail, and the gas refund moved back to the sender.
func (s *c19S) oracleMulti(built []c19Built, recs []c19MMsg) {
	defer func() {
		if r := recover(); r != nil {
			for i := range recs {
				recs[i].OWorld = "panic"
			}
		}
	}()
	app := s.env.App
	cctx, _ := app.GetContextForDeliverTx(nil).CacheContext()
	var sum uint64
	for _, b := range built {
		sum += b.gas
	}
	meter := evmostypes.NewInfiniteGasMeterWithLimit(sum)
	cctx = cctx.WithGasMeter(meter).WithKVGasConfig(storetypes.GasConfig{}).WithTransientKVGasConfig(storetypes.GasConfig{})
	w0 := s.world(cctx)
	for i := range recs {
		recs[i].OWorld = w0
	}
	for _, b := range built {
		acc := app.AccountKeeper.GetAccount(cctx, b.from.Bytes())
		if acc == nil {
			return
		}
		if b.fees.Sign() > 0 {
			coins := sdk.Coins{sdk.NewCoin(utils.BaseDenom, sdkmath.NewIntFromBigInt(b.fees))}
			if err := app.BankKeeper.SendCoinsFromAccountToModule(cctx, b.from.Bytes(), authtypes.FeeCollectorName, coins); err != nil {
				return
			}
		}
		_ = acc.SetSequence(acc.GetSequence() + 1)
		app.AccountKeeper.SetAccount(cctx, acc)
	}
	k := app.EvmKeeper
	total := uint64(0)
	for i, b := range built {
		tmp, write := cctx.CacheContext()
		cfg, err := k.EVMConfig(tmp, sdk.ConsAddress(tmp.BlockHeader().ProposerAddress), s.chainID)
		if err != nil {
			return
		}
		ethTx := b.msg.AsTransaction()
		cmsg, err := ethTx.AsMessage(ethtypes.MakeSigner(cfg.ChainConfig, big.NewInt(tmp.BlockHeight())), cfg.BaseFee)
		if err != nil {
			return
		}
		tr := &c19Tracer{}
		res, err := k.ApplyMessageWithConfig(tmp, cmsg, tr, true, cfg, k.TxConfig(tmp, ethTx.Hash()))
		if err != nil {
			return // the whole transaction fails here; later oracles are not consulted
		}
		recs[i].OGas, recs[i].ORefund, recs[i].OFailed, recs[i].OWorld = tr.gas, tr.refund, res.Failed(), s.world(tmp)
		if !res.Failed() {
			write()
		}
		if left := new(big.Int).Mul(new(big.Int).SetUint64(b.gas-res.GasUsed), cmsg.GasPrice()); left.Sign() > 0 {
			coins := sdk.Coins{sdk.NewCoin(utils.BaseDenom, sdkmath.NewIntFromBigInt(left))}
			if err := app.BankKeeper.SendCoinsFromModuleToAccount(cctx, authtypes.FeeCollectorName, b.from.Bytes(), coins); err != nil {
				return
			}
		}
		total += res.GasUsed
		meter.RefundGas(meter.GasConsumed(), "reset")
		meter.ConsumeGas(total, "running total")
	}
}

// demoReplay (C19_DEMO=1): evidence run for the finding "contract creation inside a multi-message transaction resets the
// sender's sequence": deliver [create(n), transfer(n+1), call(n+2)] from one sender, then re-deliver the already executed
// transfer(n+1) message on its own.
func (s *c19S) demoReplay() error {
	env := s.env
	s.setFeeMarket(false, nil, sdk.ZeroDec(), c19Dec("0.5"))
	env.NextBlock(time.Second)
	from, to := s.addrs[1], s.addrs[2]
	price := new(big.Int).Add(s.baseFee(), big.NewInt(1))
	n := uint64(s.seq(env.Ctx, from.Bytes()))
	signer := ethtypes.LatestSignerForChainID(s.chainID)
	mk := func(nonce uint64, to *common.Address, data []byte, value int64) *evmtypes.MsgEthereumTx {
		m := evmtypes.NewTx(&evmtypes.EvmTxArgs{ChainID: s.chainID, Nonce: nonce, To: to, Amount: big.NewInt(value), GasLimit: 150000, GasPrice: price, Input: data})
		m.From = from.String()
		if err := m.Sign(signer, exotx.NewSigner(s.privs[1])); err != nil {
			panic(err)
		}
		return m
	}
	deliver := func(label string, msgs ...sdk.Msg) {
		txCfg := env.App.GetTxConfig()
		tx, err := exotx.PrepareEthTx(txCfg, env.App, nil, msgs...)
		if err != nil {
			panic(err)
		}
		bz, _ := txCfg.TxEncoder()(tx)
		res := env.App.DeliverTx(abci.RequestDeliverTx{Tx: bz})
		fmt.Fprintf(os.Stderr, "%s: code=%d sender sequence=%d recipient balance=%s\n", label, res.Code, s.seq(env.Ctx, from.Bytes()), s.bal(env.Ctx, to.Bytes()))
	}
	fmt.Fprintf(os.Stderr, "before: sender sequence=%d recipient balance=%s\n", n, s.bal(env.Ctx, to.Bytes()))
	transfer := mk(n+1, &to, nil, 1_000_000)
	deliver("tx A = [create(n), transfer 1000000 (n+1), call(n+2)]", mk(n, nil, c19InitStoreReturn, 0), transfer, mk(n+2, &s.storer, c19Word([]byte{5}), 0))
	transfer2 := *transfer
	deliver("tx B = [the same signed transfer message (n+1) again]", &transfer2)
	return nil
}
