package main

// Suite kernels: validates the kernel TRANSLATOR (tools/kernel2v -> coq/Gen/Kernels.v). It calls the real,
// exported Go functions that the translator turns into Gallina (TokensFromShares, SharesFromTokens,
// CalculateUSDValue, SlashFromUndelegation, GasToRefund, ExceedsThreshold) on boundary-biased inputs and
// records what they returned (value / registered error name / panic). Gen/KernelsCheck.v evaluates the
// GENERATED definitions on the same inputs (check_kcase) and the pure C02 laws on the returned values
// (monitor_kcase). Composite calls (RoundTrip, BystanderD, BystanderU) chain the kernels the way the
// delegation keeper does.

import (
	"errors"
	"math/big"
	"math/rand"
	"time"

	sdkmath "cosmossdk.io/math"
	"github.com/cosmos/cosmos-sdk/store/prefix"
	sdk "github.com/cosmos/cosmos-sdk/types"
	stakingtypes "github.com/cosmos/cosmos-sdk/x/staking/types"

	keytypes "github.com/ExocoreNetwork/exocore/types/keys"
	"github.com/ExocoreNetwork/exocore/utils"
	epochskeeper "github.com/ExocoreNetwork/exocore/x/epochs/keeper"
	epochstypes "github.com/ExocoreNetwork/exocore/x/epochs/types"
	operatortypes "github.com/ExocoreNetwork/exocore/x/operator/types"

	delegationkeeper "github.com/ExocoreNetwork/exocore/x/delegation/keeper"
	delegationtypes "github.com/ExocoreNetwork/exocore/x/delegation/types"
	evmkeeper "github.com/ExocoreNetwork/exocore/x/evm/keeper"
	operatorkeeper "github.com/ExocoreNetwork/exocore/x/operator/keeper"
	oraclecommon "github.com/ExocoreNetwork/exocore/x/oracle/keeper/common"
)

func init() { register("kernels", runKernels) }

type kernCall struct {
	Fn   string   `json:"fn"`
	Args []string `json:"args"`
	Res  string   `json:"res"` // ok | err | panic
	Vals []string `json:"vals,omitempty"`
	Err  string   `json:"err,omitempty"`
}

type kernCase struct {
	Suite string     `json:"suite"`
	Calls []kernCall `json:"calls"`
	NT    bool       `json:"nt"`
}

var kernP = new(big.Int).Exp(big.NewInt(10), big.NewInt(18), nil)

func kernPow2(n uint) *big.Int { return new(big.Int).Lsh(big.NewInt(1), n) }

func kernBig(s string) *big.Int {
	b, ok := new(big.Int).SetString(s, 10)
	if !ok {
		panic("kernBig " + s)
	}
	return b
}

func kernMul(a *big.Int, b ...*big.Int) *big.Int {
	r := new(big.Int).Set(a)
	for _, x := range b {
		r.Mul(r, x)
	}
	return r
}

func kernAdd(a *big.Int, d int64) *big.Int { return new(big.Int).Add(a, big.NewInt(d)) }

// boundary pool for plain integers
func kernPickInt(rng *rand.Rand) *big.Int {
	switch rng.Intn(22) {
	case 0:
		return big.NewInt(0)
	case 1:
		return big.NewInt(1)
	case 2:
		return big.NewInt(2)
	case 3:
		return big.NewInt(int64(3 + rng.Intn(8)))
	case 4:
		return big.NewInt(1_000_003)
	case 5:
		return big.NewInt(1_000_000)
	case 6:
		return new(big.Int).Set(kernP)
	case 7:
		return kernAdd(kernP, int64(rng.Intn(3)-1))
	case 8:
		return new(big.Int).Div(kernP, big.NewInt(2))
	case 9:
		return kernMul(kernP, kernP)
	case 10:
		return kernAdd(kernPow2(63), int64(rng.Intn(3)-1))
	case 11:
		return kernAdd(kernPow2(64), int64(rng.Intn(3)-2))
	case 12:
		return kernPow2(128)
	case 13:
		return kernAdd(kernPow2(255), int64(rng.Intn(3)-1))
	case 14:
		return kernAdd(kernPow2(256), -1)
	case 15:
		return kernBig("2305843009213693951") // 2^61-1, prime
	case 16:
		return kernBig("1000000000000000009") // prime next to 10^18
	case 17:
		return new(big.Int).Rand(rng, kernPow2(64))
	case 18:
		return new(big.Int).Rand(rng, kernPow2(256))
	case 19:
		return new(big.Int).Rand(rng, kernPow2(uint(1+rng.Intn(200))))
	case 20:
		return big.NewInt(int64(rng.Intn(1000)))
	default:
		return new(big.Int).Neg(big.NewInt(int64(1 + rng.Intn(5))))
	}
}

// boundary pool for LegacyDec raw values (scaled by 10^18)
func kernPickDec(rng *rand.Rand) *big.Int {
	switch rng.Intn(12) {
	case 0:
		return kernMul(kernPickInt(rng), kernP) // whole number
	case 1:
		return kernAdd(kernMul(big.NewInt(int64(rng.Intn(50))), kernP), 0)
	case 2:
		half := new(big.Int).Div(kernP, big.NewInt(2))
		return new(big.Int).Add(kernMul(big.NewInt(int64(rng.Intn(9))), kernP), half) // k + 1/2
	case 3:
		return big.NewInt(int64(rng.Intn(4))) // dust 10^-18
	case 4:
		return kernAdd(kernMul(big.NewInt(int64(1+rng.Intn(9))), kernP), int64(rng.Intn(3)-1))
	case 5:
		return kernAdd(kernPow2(315), int64(-rng.Intn(2)))
	case 6:
		return kernAdd(kernPow2(314), int64(rng.Intn(3)-1))
	default:
		return kernPickInt(rng)
	}
}

func kernDec(b *big.Int) sdkmath.LegacyDec { return sdkmath.LegacyNewDecFromBigIntWithPrec(b, 18) }

func kernInt(b *big.Int) sdkmath.Int { return sdkmath.NewIntFromBigInt(b) }

func kernErrName(err error) string {
	switch {
	case errors.Is(err, delegationtypes.ErrInsufficientShares):
		return "ErrInsufficientShares"
	case errors.Is(err, delegationtypes.ErrDivisorIsZero):
		return "ErrDivisorIsZero"
	}
	return "Err?"
}

// kernRun executes f under recover and fills the observation of c.
func kernRun(c *kernCall, f func() ([]*big.Int, error)) {
	defer func() {
		if r := recover(); r != nil {
			c.Res, c.Vals, c.Err = "panic", nil, ""
		}
	}()
	vals, err := f()
	if err != nil {
		c.Res, c.Err = "err", kernErrName(err)
		return
	}
	c.Res = "ok"
	for _, v := range vals {
		c.Vals = append(c.Vals, v.String())
	}
}

func kernTFS(sh, s, t *big.Int) (*big.Int, error) {
	r, err := delegationkeeper.TokensFromShares(kernDec(sh), kernDec(s), kernInt(t))
	if err != nil {
		return nil, err
	}
	return r.BigInt(), nil
}

func kernSFT(s, x, t *big.Int) (*big.Int, error) {
	r, err := delegationkeeper.SharesFromTokens(kernDec(s), kernInt(x), kernInt(t))
	if err != nil {
		return nil, err
	}
	return r.BigInt(), nil
}

func kernStrs(xs ...*big.Int) []string {
	out := make([]string, len(xs))
	for i, x := range xs {
		out[i] = x.String()
	}
	return out
}

// a pool the way the ledger produces them: T tokens, S = shares scaled by 10^18, rate S/(T*10^18) >= 1 after slashes
func kernPool(rng *rand.Rand) (s, t *big.Int) {
	tPool := []*big.Int{big.NewInt(1), big.NewInt(2), big.NewInt(3), big.NewInt(7), big.NewInt(1_000_003), big.NewInt(1_000_000),
		kernBig("1000000000000"), kernBig("4000000000000000001"), kernBig("2305843009213693951"), new(big.Int).Rand(rng, kernPow2(100))}
	t = new(big.Int).Set(tPool[rng.Intn(len(tPool))])
	if t.Sign() == 0 {
		t = big.NewInt(1)
	}
	switch rng.Intn(8) {
	case 0: // 1:1
		s = kernMul(t, kernP)
	case 1: // 50 % slashed
		s = kernMul(t, kernP, big.NewInt(2))
	case 2: // 99.99 % slashed
		s = kernMul(t, kernP, big.NewInt(10000))
	case 3: // prime-ish ratio
		s = kernAdd(kernMul(t, kernP, big.NewInt(3)), int64(rng.Intn(1000)))
	case 4: // deep slash: ratio 10^18
		s = kernMul(t, kernP, kernP)
	case 5: // tie family: S = 2*P*T
		s = kernMul(t, kernP, big.NewInt(2))
	case 6: // guard violated: fewer share units than tokens
		s = new(big.Int).Div(t, big.NewInt(int64(1+rng.Intn(5))))
		if s.Sign() == 0 {
			s = big.NewInt(1)
		}
	default:
		s = kernAdd(kernMul(t, kernP), int64(rng.Intn(5)))
	}
	return s, t
}

func kernAmount(rng *rand.Rand, t *big.Int) *big.Int {
	switch rng.Intn(8) {
	case 0:
		return big.NewInt(1)
	case 1:
		return new(big.Int).Set(t)
	case 2:
		return kernAdd(t, 1)
	case 3:
		x := kernAdd(t, -1)
		if x.Sign() <= 0 {
			return big.NewInt(1)
		}
		return x
	case 4:
		return big.NewInt(1_000_003)
	case 5:
		return kernAdd(new(big.Int).Rand(rng, kernPow2(uint(1+rng.Intn(120)))), 1)
	case 6:
		return kernPow2(255)
	default:
		return big.NewInt(int64(1 + rng.Intn(100)))
	}
}

// a share amount below S, biased to ties and to "all but dust"
func kernShare(rng *rand.Rand, s *big.Int) *big.Int {
	switch rng.Intn(8) {
	case 0:
		return kernAdd(s, -1)
	case 1:
		return new(big.Int).Div(s, big.NewInt(2))
	case 2:
		return kernAdd(new(big.Int).Div(s, big.NewInt(2)), int64(rng.Intn(3)-1))
	case 3:
		return big.NewInt(int64(1 + rng.Intn(3)))
	case 4: // 2*P*k +- 1 : ties in the S = 2*P*T family
		k := big.NewInt(int64(1 + rng.Intn(3)))
		return kernAdd(kernMul(kernP, big.NewInt(2), k), int64(2*rng.Intn(2)-1))
	case 5:
		return new(big.Int).Set(s)
	default:
		if s.Sign() <= 0 {
			return big.NewInt(0)
		}
		return new(big.Int).Rand(rng, s)
	}
}

// kernEpochTick runs the REAL x/epochs BeginBlocker on a store that holds exactly one epoch info (written raw, so
// that invalid infos reach the validation branch too) with recording hooks, and returns what it left behind:
// [CurrentEpochStartHeight; EpochCountingStarted; CurrentEpoch; CurrentEpochStartTime; AfterEpochEnd number or -1;
//
//	BeforeEpochStart number or -1]
func kernEpochTick(env *Env, ei epochstypes.EpochInfo, h int64, t time.Time) []*big.Int {
	ctx, _ := env.Ctx.CacheContext()
	storeKey := env.App.GetKey(epochstypes.StoreKey)
	st := prefix.NewStore(ctx.KVStore(storeKey), epochstypes.KeyPrefixEpoch)
	it := st.Iterator(nil, nil)
	var keys [][]byte
	for ; it.Valid(); it.Next() {
		keys = append(keys, append([]byte{}, it.Key()...))
	}
	it.Close()
	for _, k := range keys {
		st.Delete(k)
	}
	st.Set([]byte(ei.Identifier), env.App.AppCodec().MustMarshal(&ei))
	var log []c15Event
	k := epochskeeper.NewKeeper(env.App.AppCodec(), storeKey)
	k.SetHooks(epochstypes.NewMultiEpochHooks(c15Rec{0, &log}))
	k.BeginBlocker(ctx.WithBlockHeight(h).WithBlockTime(t))
	var out epochstypes.EpochInfo
	env.App.AppCodec().MustUnmarshal(st.Get([]byte(ei.Identifier)), &out)
	after, before := int64(-1), int64(-1)
	for _, e := range log {
		if e.Kind == "end" {
			after = e.Num
		} else {
			before = e.Num
		}
	}
	b2i := int64(0)
	if out.EpochCountingStarted {
		b2i = 1
	}
	return []*big.Int{big.NewInt(out.CurrentEpochStartHeight), big.NewInt(b2i), big.NewInt(out.CurrentEpoch),
		timeZ(out.CurrentEpochStartTime), big.NewInt(after), big.NewInt(before)}
}

func runKernels(a *Args) error {
	w := NewCaseWriter(a.Out)
	defer w.Close()
	rng := rand.New(rand.NewSource(a.Seed))
	env := NewEnv(EnvCfg{}) // only for the kernels that live inside keepers (epoch tick, slash proportion)
	epochBase := time.Date(2024, 3, 1, 12, 0, 0, 0, time.UTC)
	perCase := 20
	for c := 0; c < a.N; c++ {
		kc := kernCase{Suite: "kernels", NT: true}
		for j := 0; j < perCase; j++ {
			var call kernCall
			switch k := rng.Intn(28); {
			case k < 3: // TokensFromShares, raw boundary inputs
				sh, s, t := kernPickDec(rng), kernPickDec(rng), kernPickInt(rng)
				if rng.Intn(3) == 0 {
					s, t = kernPool(rng)
					sh = kernShare(rng, s)
				}
				if sh.BitLen() > 315 || s.BitLen() > 315 || t.BitLen() > 256 {
					j--
					continue
				}
				call = kernCall{Fn: "TokensFromShares", Args: kernStrs(sh, s, t)}
				kernRun(&call, func() ([]*big.Int, error) {
					r, err := kernTFS(sh, s, t)
					return []*big.Int{r}, err
				})
			case k < 6: // SharesFromTokens
				s, x, t := kernPickDec(rng), kernPickInt(rng), kernPickInt(rng)
				if rng.Intn(3) == 0 {
					s, t = kernPool(rng)
					x = kernAmount(rng, t)
				}
				if s.BitLen() > 315 || x.BitLen() > 256 || t.BitLen() > 256 {
					j--
					continue
				}
				call = kernCall{Fn: "SharesFromTokens", Args: kernStrs(s, x, t)}
				kernRun(&call, func() ([]*big.Int, error) {
					r, err := kernSFT(s, x, t)
					return []*big.Int{r}, err
				})
			case k < 9: // RoundTrip S T x
				s, t := kernPool(rng)
				x := kernAmount(rng, t)
				call = kernCall{Fn: "RoundTrip", Args: kernStrs(s, t, x)}
				kernRun(&call, func() ([]*big.Int, error) {
					sh, err := kernSFT(s, x, t)
					if err != nil {
						return nil, err
					}
					tk, err := kernTFS(sh, new(big.Int).Add(s, sh), new(big.Int).Add(t, x))
					return []*big.Int{sh, tk}, err
				})
			case k < 11: // BystanderD S T x shB
				s, t := kernPool(rng)
				x := kernAmount(rng, t)
				shB := kernShare(rng, s)
				call = kernCall{Fn: "BystanderD", Args: kernStrs(s, t, x, shB)}
				kernRun(&call, func() ([]*big.Int, error) {
					sh, err := kernSFT(s, x, t)
					if err != nil {
						return nil, err
					}
					v, err := kernTFS(shB, s, t)
					if err != nil {
						return nil, err
					}
					v2, err := kernTFS(shB, new(big.Int).Add(s, sh), new(big.Int).Add(t, x))
					return []*big.Int{sh, v, v2}, err
				})
			case k < 13: // BystanderU S T r shB
				s, t := kernPool(rng)
				r := kernShare(rng, s)
				shB := new(big.Int).Sub(s, r)
				if rng.Intn(2) == 0 && shB.Sign() > 0 {
					shB = kernAdd(new(big.Int).Rand(rng, shB), 1)
				}
				if rng.Intn(10) == 0 {
					shB = kernShare(rng, s)
				}
				call = kernCall{Fn: "BystanderU", Args: kernStrs(s, t, r, shB)}
				kernRun(&call, func() ([]*big.Int, error) {
					out, err := kernTFS(r, s, t)
					if err != nil {
						return nil, err
					}
					v, err := kernTFS(shB, s, t)
					if err != nil {
						return nil, err
					}
					v2, err := kernTFS(shB, new(big.Int).Sub(s, r), new(big.Int).Sub(t, out))
					return []*big.Int{out, v, v2}, err
				})
			case k < 15: // CalculateUSDValue amount price assetDecimal priceDecimal
				am, pr := kernPickInt(rng), kernPickInt(rng)
				ad := uint32([]int{0, 6, 8, 18, 30, 60, 77, 78, 100}[rng.Intn(9)])
				pd := uint8([]int{0, 1, 8, 18, 255}[rng.Intn(5)])
				if am.BitLen() > 256 || pr.BitLen() > 256 {
					j--
					continue
				}
				call = kernCall{Fn: "CalculateUSDValue", Args: kernStrs(am, pr, big.NewInt(int64(ad)), big.NewInt(int64(pd)))}
				kernRun(&call, func() ([]*big.Int, error) {
					r := operatorkeeper.CalculateUSDValue(kernInt(am), kernInt(pr), ad, pd)
					return []*big.Int{r.BigInt()}, nil
				})
			case k < 17: // SlashFromUndelegation amount actualCompleted proportion
				am := kernPickInt(rng)
				ac := kernPickInt(rng)
				if rng.Intn(2) == 0 {
					ac = new(big.Int).Set(am)
				}
				pr := kernPickDec(rng)
				if rng.Intn(2) == 0 {
					pr = new(big.Int).Rand(rng, kernAdd(kernP, 1))
				}
				if am.BitLen() > 256 || ac.BitLen() > 256 || pr.BitLen() > 315 {
					j--
					continue
				}
				call = kernCall{Fn: "SlashFromUndelegation", Args: kernStrs(am, ac, pr)}
				kernRun(&call, func() ([]*big.Int, error) {
					rec := &delegationtypes.UndelegationRecord{StakerID: "s", AssetID: "a", Amount: kernInt(am), ActualCompletedAmount: kernInt(ac)}
					r := operatorkeeper.SlashFromUndelegation(rec, kernDec(pr))
					if r == nil {
						return []*big.Int{big.NewInt(0), rec.ActualCompletedAmount.BigInt()}, nil
					}
					return []*big.Int{big.NewInt(1), r.Amount.BigInt(), rec.ActualCompletedAmount.BigInt()}, nil
				})
			case k < 19: // GasToRefund available consumed quotient
				u := func() uint64 {
					switch rng.Intn(6) {
					case 0:
						return 0
					case 1:
						return 1
					case 2:
						return ^uint64(0)
					case 3:
						return uint64(rng.Intn(10))
					case 4:
						return rng.Uint64()
					default:
						return uint64(rng.Intn(1_000_000))
					}
				}
				av, co, qu := u(), u(), u()
				if rng.Intn(3) > 0 && qu == 0 {
					qu = 2
				}
				call = kernCall{Fn: "GasToRefund", Args: kernStrs(new(big.Int).SetUint64(av), new(big.Int).SetUint64(co), new(big.Int).SetUint64(qu))}
				kernRun(&call, func() ([]*big.Int, error) {
					return []*big.Int{new(big.Int).SetUint64(evmkeeper.GasToRefund(av, co, qu))}, nil
				})
			case k == 20 || k == 21: // sort_by_power_less through the real utils.SortByPower on two candidates
				mk := func() []byte {
					b := make([]byte, 20)
					switch rng.Intn(4) {
					case 0:
						rng.Read(b)
					case 1:
						b[19] = byte(rng.Intn(3))
					case 2:
						b[0] = byte(0x7f + rng.Intn(3)) // around the sign bit: the comparison is unsigned
					default:
						b[rng.Intn(20)] = byte(rng.Intn(256))
					}
					return b
				}
				a0, a1 := mk(), mk()
				if rng.Intn(6) == 0 {
					a1 = append([]byte{}, a0...)
				}
				pw := func() int64 {
					return []int64{0, 1, 2, 100, -1, 9223372036854775807, -9223372036854775808, int64(rng.Intn(5))}[rng.Intn(8)]
				}
				p0, p1 := pw(), pw()
				if rng.Intn(2) == 0 {
					p1 = p0
				}
				// the closure is called as less(1, 0): element 1 goes first iff less(cand1, cand0)
				call = kernCall{Fn: "sort_by_power_less", Args: kernStrs(new(big.Int).SetBytes(a1), new(big.Int).SetBytes(a0), big.NewInt(p1), big.NewInt(p0))}
				kernRun(&call, func() ([]*big.Int, error) {
					as, _, ps := utils.SortByPower([]sdk.AccAddress{a0, a1}, make([]keytypes.WrappedConsKey, 2), []int64{p0, p1})
					first1 := ps[0] == p1 && string(as[0]) == string(a1) && !(p0 == p1 && string(a0) == string(a1))
					if first1 {
						return []*big.Int{big.NewInt(1)}, nil
					}
					return []*big.Int{big.NewInt(0)}, nil
				})
			case k == 22 || k == 23: // epoch_tick_decision through the real BeginBlocker
				durs := []time.Duration{1, 2, 7, time.Second, time.Minute, 1_000_000_007}
				dur := durs[rng.Intn(len(durs))]
				ei := epochstypes.EpochInfo{Identifier: "k", Duration: dur, StartTime: epochBase.Add(time.Duration(rng.Int63n(int64(3*dur)+3)) - dur)}
				if rng.Intn(2) == 0 {
					ei.EpochCountingStarted = true
					ei.CurrentEpoch = rng.Int63n(40)
					ei.CurrentEpochStartTime = epochBase.Add(time.Duration(rng.Int63n(int64(2*dur)+2)) - dur)
					ei.CurrentEpochStartHeight = rng.Int63n(5)
				}
				switch rng.Intn(14) {
				case 0:
					ei.Duration = 0
				case 1:
					ei.CurrentEpoch = -1
				case 2:
					ei.CurrentEpochStartHeight = -1
				case 3:
					ei.Duration = -5
				}
				t := epochBase
				end := ei.CurrentEpochStartTime.Add(ei.Duration)
				switch rng.Intn(8) {
				case 0:
					t = ei.StartTime
				case 1:
					t = ei.StartTime.Add(-1)
				case 2:
					t = end
				case 3:
					t = end.Add(1)
				case 4:
					t = end.Add(-1)
				case 5:
					t = epochBase.Add(time.Duration(rng.Int63n(int64(4*dur) + 4)))
				}
				h := rng.Int63n(1000)
				valid, started := int64(0), int64(0)
				if ei.Validate() == nil {
					valid = 1
				}
				if ei.EpochCountingStarted {
					started = 1
				}
				call = kernCall{Fn: "epoch_tick_decision", Args: kernStrs(big.NewInt(h), timeZ(t), big.NewInt(valid), timeZ(ei.StartTime),
					big.NewInt(int64(ei.Duration)), big.NewInt(ei.CurrentEpoch), timeZ(ei.CurrentEpochStartTime), big.NewInt(started),
					big.NewInt(ei.CurrentEpochStartHeight))}
				kernRun(&call, func() ([]*big.Int, error) { return kernEpochTick(env, ei, h, t), nil })
			case k == 24 || k == 25: // slash_proportion through the real OperatorKeeper.SlashAssets
				ctx, _ := env.Ctx.CacheContext()
				ok := &env.App.OperatorKeeper
				op := env.Operators[rng.Intn(len(env.Operators))]
				slashOnce := func(power int64, sp sdkmath.LegacyDec) (*operatortypes.SlashExecutionInfo, error) {
					return ok.SlashAssets(ctx, &operatortypes.SlashInputInfo{IsDogFood: true, Power: power, Operator: op,
						SlashEventHeight: ctx.BlockHeight(), SlashProportion: sp, SlashID: "kern", SlashType: uint32(stakingtypes.Infraction_INFRACTION_DOWNTIME)})
				}
				if rng.Intn(2) == 0 { // change the operator's value first, so that the divisor is not always the genesis one
					func() {
						defer func() { _ = recover() }()
						_, _ = slashOnce(int64(1+rng.Intn(100)), kernDec(new(big.Int).Rand(rng, kernP)))
					}()
				}
				var usd sdkmath.LegacyDec
				func() {
					defer func() { _ = recover() }()
					if info, err := ok.CalculateUSDValueForOperator(ctx, true, op.String(), nil, nil, nil); err == nil {
						usd = info.StakingAndWaitUnbonding
					}
				}()
				if usd.IsNil() {
					j--
					continue
				}
				power := []int64{0, 1, 2, 100, 101, 1_000_000, 9223372036854775807, int64(rng.Intn(300))}[rng.Intn(8)]
				var sp *big.Int
				switch rng.Intn(6) {
				case 0: // exactly the whole value
					sp = usd.BigInt()
				case 1:
					sp = kernAdd(usd.BigInt(), int64(rng.Intn(3)-1))
				case 2:
					sp = new(big.Int).Div(usd.BigInt(), big.NewInt(2))
				case 3:
					sp = kernPickDec(rng)
				default:
					sp = new(big.Int).Rand(rng, kernAdd(kernP, 1))
				}
				if sp.Sign() < 0 || sp.BitLen() > 315 {
					sp = big.NewInt(0)
				}
				call = kernCall{Fn: "slash_proportion", Args: kernStrs(big.NewInt(power), sp, usd.BigInt())}
				var serr error
				kernRun(&call, func() ([]*big.Int, error) {
					info, err := slashOnce(power, kernDec(sp))
					if err != nil {
						serr = err
						return []*big.Int{big.NewInt(0)}, nil
					}
					return []*big.Int{info.SlashProportion.BigInt()}, nil
				})
				if serr != nil { // the keeper refused for a reason outside the kernel: not a kernel observation
					j--
					continue
				}
			case k == 26 || k == 27: // the method table: LegacyDec operations against Base/IntDec.v
				opn := []string{"Dec.QuoTruncate", "Dec.QuoRoundUp", "Dec.Quo", "Dec.MulTruncate", "Dec.Mul"}[rng.Intn(5)]
				x, y := kernPickDec(rng), kernPickDec(rng)
				if rng.Intn(3) == 0 {
					x = new(big.Int).Rand(rng, kernMul(kernP, big.NewInt(1000)))
					y = kernAdd(new(big.Int).Rand(rng, kernMul(kernP, big.NewInt(3))), 1)
				}
				if opn == "Dec.QuoRoundUp" && (x.Sign() < 0 || y.Sign() < 0) { // IntDec.v models QuoRoundUp for non-negative operands
					x.Abs(x)
					y.Abs(y)
				}
				if x.BitLen() > 315 || y.BitLen() > 315 {
					j--
					continue
				}
				call = kernCall{Fn: opn, Args: kernStrs(x, y)}
				kernRun(&call, func() ([]*big.Int, error) {
					dx, dy := kernDec(x), kernDec(y)
					var r sdkmath.LegacyDec
					switch opn {
					case "Dec.QuoTruncate":
						r = dx.QuoTruncate(dy)
					case "Dec.QuoRoundUp":
						r = dx.QuoRoundUp(dy)
					case "Dec.Quo":
						r = dx.Quo(dy)
					case "Dec.MulTruncate":
						r = dx.MulTruncate(dy)
					default:
						r = dx.Mul(dy)
					}
					return []*big.Int{r.BigInt()}, nil
				})
			default: // ExceedsThreshold thresholdA thresholdB power total
				ta := int32([]int{1, 2, 2, 2, 3, 5}[rng.Intn(6)])
				tb := int32([]int{1, 3, 3, 3, 4, 7}[rng.Intn(6)])
				total := kernPickInt(rng)
				power := kernPickInt(rng)
				if rng.Intn(2) == 0 && total.Sign() > 0 {
					// exactly on / next to the threshold: power = total*A/B (+-1)
					power = new(big.Int).Div(kernMul(total, big.NewInt(int64(ta))), big.NewInt(int64(tb)))
					power = kernAdd(power, int64(rng.Intn(3)-1))
				}
				call = kernCall{Fn: "ExceedsThreshold", Args: kernStrs(big.NewInt(int64(ta)), big.NewInt(int64(tb)), power, total)}
				kernRun(&call, func() ([]*big.Int, error) {
					oa, ob := oraclecommon.ThresholdA, oraclecommon.ThresholdB
					oraclecommon.ThresholdA, oraclecommon.ThresholdB = ta, tb
					defer func() { oraclecommon.ThresholdA, oraclecommon.ThresholdB = oa, ob }()
					if oraclecommon.ExceedsThreshold(power, total) {
						return []*big.Int{big.NewInt(1)}, nil
					}
					return []*big.Int{big.NewInt(0)}, nil
				})
			}
			w.Count("fn:" + call.Fn)
			w.Count("result:" + call.Fn + ":" + call.Res)
			kc.Calls = append(kc.Calls, call)
		}
		// Coq term
		terms := make([]string, len(kc.Calls))
		for i, cl := range kc.Calls {
			args := make([]string, len(cl.Args))
			for k, s := range cl.Args {
				args[k] = cZstr(s)
			}
			var obs string
			switch cl.Res {
			case "ok":
				vs := make([]string, len(cl.Vals))
				for k, s := range cl.Vals {
					vs[k] = cZstr(s)
				}
				obs = cApp("OOk", cList(vs))
			case "err":
				obs = cApp("OErr", cStr(cl.Err))
			default:
				obs = "OPanic"
			}
			terms[i] = cApp("mkKC", cStr(cl.Fn), cList(args), obs)
		}
		w.Add(cList(terms), kc)
	}
	return nil
}
