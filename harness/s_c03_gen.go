package main

import (
	"math/big"
	"math/rand"

	sdkmath "cosmossdk.io/math"
	sdk "github.com/cosmos/cosmos-sdk/types"
	"github.com/ethereum/go-ethereum/common"
	"github.com/ethereum/go-ethereum/common/hexutil"

	assetskeeper "github.com/ExocoreNetwork/exocore/x/assets/keeper"
	assetstypes "github.com/ExocoreNetwork/exocore/x/assets/types"
	delegationtypes "github.com/ExocoreNetwork/exocore/x/delegation/types"
)

var _ = hexutil.EncodeUint64

type c03Start func(h0 int64, tags []string) *c03Runner
type c03StartWith func(h0 int64, tags []string, setup func(ctx sdk.Context) []string) *c03Runner

func c03I(x int64) sdkmath.Int { return sdkmath.NewInt(x) }

// c03Directed: scenarios that come first. Tagged ones reproduce the known findings; untagged ones aim at the
// repaired prefix scan (fix F1) and at boundary heights.
func c03Directed(w *c03World, rng *rand.Rand, start c03Start, startWith c03StartWith) []*c03Runner {
	var out []*c03Runner
	// (0) regression scenario for the repaired opt-out-before-activation defect (fix commits e858c23, 34b4652, bf5df54, then
	// 927219b + 5d19657): operator 2 opts into the dogfood AVS with a consensus key and opts out again in the same epoch (the
	// key never becomes active). Before the repairs every later undelegation from it panicked in the dogfood hook ("key is
	// nil"). Now the opt-out completion is always scheduled at current epoch + unbonding, the operator counts as "removing
	// its key" until then, and an undelegation from it is ACCEPTED (mon_accept) and HELD by the dogfood hook (hold count 1,
	// correspondence: the operator is listed among those for which the hook places a hold) until the opt-out matures.
	// The epoch end that releases the hold is dogfood's (C16); here the release is the direct DecrementUndelegationHoldCount
	// call, made after the record's completion height has passed: the record is re-queued block by block and released in the
	// first EndBlock after the hold is gone, not at its completion height.
	{
		r := startWith(3, []string{"regress-C03-optout-before-activation"}, func(ctx sdk.Context) []string {
			app := w.env.App
			_, self := DetEthKey("selfstaker", 0)
			must := func(err error) {
				if err != nil {
					panic(err)
				}
			}
			must(app.DelegationKeeper.AssociateOperatorWithStaker(ctx, 101, w.ops[2], self.Bytes()))
			must(app.AssetsKeeper.PerformDepositOrWithdraw(ctx, &assetskeeper.DepositWithdrawParams{ClientChainLzID: 101, Action: assetstypes.DepositLST,
				AssetsAddress: w.assets[0], StakerAddress: self.Bytes(), OpAmount: sdkmath.NewInt(150_000_000)}))
			must(app.DelegationKeeper.DelegateTo(ctx, delegationtypes.NewDelegationOrUndelegationParams(101, assetstypes.DelegateTo,
				w.assets[0], w.ops[2], self.Bytes(), sdkmath.NewInt(150_000_000), 1, common.BigToHash(big.NewInt(0x6fff)))))
			_, ck := DetConsKey("cons-optout", 0)
			must(app.OperatorKeeper.OptInWithConsKey(ctx, w.ops[2], w.avs, ck))
			must(app.OperatorKeeper.OptOut(ctx, w.ops[2], w.avs))
			return []string{w.opStrs[2]} // operator 2 is removing its key: the hook holds undelegations from it
		})
		r.deposit(0, 0, c03I(1000), false)
		r.delegate(0, 0, 2, c03I(600))
		r.undelegate(0, 0, 2, c03I(100), r.nextNonce(), r.newTx()) // completes at 13, held
		for i := 0; i < 12; i++ {
			r.endBlock() // heights 3..14: at 13 and 14 the held record is re-queued
		}
		for _, rk := range r.recordKeys() {
			r.holdOp(rk, false) // the opt-out has matured: dogfood releases its hold
		}
		r.endBlock() // height 15: released now
		r.endBlock()
		r.undelegate(0, 0, 2, r.position(0, 0, 2), r.nextNonce(), r.newTx()) // the rest of the position: accepted, held again
		r.endBlock()
		out = append(out, r)
	}
	// (1) two stakers, different operators, same block, same nonce: one pending-index key for two records
	{
		r := start(3, []string{"kf-C03-pending-index-collision"})
		r.deposit(0, 0, c03I(1000), false)
		r.deposit(1, 0, c03I(2000), false)
		r.delegate(0, 0, 2, c03I(600))
		r.delegate(1, 0, 2, c03I(700))
		r.undelegate(0, 0, 2, c03I(100), 77, r.newTx())
		r.undelegate(1, 0, 2, c03I(200), 77, r.newTx())
		for i := 0; i < 13; i++ {
			r.endBlock()
		}
		out = append(out, r)
	}
	// (2) message-server shape: one staker, one nonce, two operators: staker-index AND pending-index key shared
	{
		r := start(5, []string{"kf-C03-staker-index-collision"})
		r.deposit(2, 1, c03I(5000), false)
		r.delegate(2, 1, 2, c03I(1500))
		r.delegate(2, 1, 0, c03I(1500))
		tx := r.newTx()
		r.undelegate(2, 1, 2, c03I(400), 9, tx)
		r.undelegate(2, 1, 0, c03I(300), 9, tx)
		for _, rk := range r.recordKeys() {
			r.holdOp(rk, false) // release the dogfood hold where one was placed
		}
		for i := 0; i < 12; i++ {
			r.endBlock()
		}
		out = append(out, r)
	}
	// (3) re-queue collision: a held record moves to height+1 where another record with the same nonce waits
	{
		r := start(7, []string{"kf-C03-pending-index-collision"})
		r.deposit(0, 0, c03I(9000), false)
		r.delegate(0, 0, 0, c03I(4000)) // operator 0 is a validator: hold placed
		r.delegate(0, 0, 2, c03I(4000))
		r.undelegate(0, 0, 0, c03I(1000), 31, r.newTx()) // completes at 17, held
		r.endBlock()                                       // height 8
		r.deposit(1, 0, c03I(100), false)
		r.undelegate(0, 0, 2, c03I(500), 31, r.newTx()) // completes at 18, same nonce
		for i := 0; i < 14; i++ {
			r.endBlock()
		}
		out = append(out, r)
	}
	// (3b) regression scenario for the repaired acceptance defect (fix 56b99a6): after two slashes the share needed for the
	// reported position (TokensFromShares rounds half-up at 10^-18, then truncates) exceeds the staker's share by rounding
	// dust; "undelegate my whole position" (56) must be accepted (mon_accept) and remove all of the staker's shares
	{
		r := start(4, []string{"regress-C03-accept-deep-slash"})
		r.deposit(0, 0, c03I(548170), false)
		r.delegate(0, 0, 2, c03I(548170))
		r.deposit(1, 0, c03I(25), false)
		r.delegate(1, 0, 2, c03I(25))
		r.slash(2, 4, sdkmath.LegacyMustNewDecFromStr("0.398533"), 1)
		r.slash(2, 4, sdkmath.LegacyMustNewDecFromStr("0.084351"), 1)
		r.deposit(2, 0, c03I(56), false)
		r.delegate(2, 0, 2, c03I(54))
		r.delegate(2, 0, 2, c03I(2))
		r.undelegate(2, 0, 2, r.position(2, 0, 2), r.nextNonce(), r.newTx())
		r.endBlock()
		out = append(out, r)
	}
	// (3c) a native-restaking balance decrease that eats the withdrawable balance, the whole first pending undelegation and
	// part of the second one, then one that reaches the delegated shares
	{
		r := start(6, nil)
		r.deposit(3, 1, c03I(10_000), false)
		r.delegate(3, 1, 2, c03I(6_000))
		r.delegate(3, 1, 1, c03I(2_000))
		r.undelegate(3, 1, 2, c03I(1_000), r.nextNonce(), r.newTx())
		r.undelegate(3, 1, 2, c03I(700), r.nextNonce(), r.newTx())
		r.undelegate(3, 1, 1, c03I(500), r.nextNonce(), r.newTx())
		r.nstBalance(3, 1, c03I(-(2_000 + 1_000 + 300))) // withdrawable 2000, first record 1000, 300 of the second
		r.nstBalance(3, 1, c03I(250))
		r.nstBalance(3, 1, c03I(-(250 + 400 + 500 + 1_234))) // through the rest of the records into the shares
		for i := 0; i < 12; i++ {
			r.endBlock()
		}
		out = append(out, r)
	}
	// (3d) native token: bank account -> escrow on delegation, slash of the native pool and of a native pending
	// undelegation (coins stay in escrow), completion paid from the escrow; a second account on another operator
	{
		r := start(2, nil)
		r.delegateN(0, 2, c03I(9_000))
		r.delegateN(1, 2, c03I(1_000))
		r.delegateN(1, 0, c03I(4_000))
		r.undelegateN(0, 2, c03I(3_000), r.nextNonce(), r.newTx())
		r.slash(2, 2, sdkmath.LegacyMustNewDecFromStr("0.002"), 1) // infraction height = current height: the record is slashed too
		r.undelegateN(1, 0, c03I(4_000), r.nextNonce(), r.newTx())
		for _, rk := range r.recordKeys() {
			r.holdOp(rk, false)
		}
		r.endBlock()
		r.undelegateN(0, 2, r.positionN(0, 2), r.nextNonce(), r.newTx())
		for i := 0; i < 12; i++ {
			r.endBlock()
		}
		out = append(out, r)
	}
	// (3e) repeated slashes of one operator while undelegations from it are pending, cumulative proportion above 100 %:
	// every slash takes floor(p * Amount) from a record but never more than what it still owes. Boundary pool of
	// proportions; LST and native token; records are then run to maturity.
	for i, ps := range [][]string{{"0.6", "0.6"}, {"0.5", "0.5"}, {"0.999999999999999999", "0.000000000000000001", "0.3"},
		{"0.4", "0.4", "0.4"}, {"0.6", "0.6"}} {
		r := start(int64(3+i), nil)
		native := i == 4
		if native {
			r.delegateN(0, 2, c03I(80_000))
			r.delegateN(1, 2, c03I(7_777))
			r.undelegateN(0, 2, c03I(30_000), r.nextNonce(), r.newTx())
			r.undelegateN(1, 2, c03I(1_001), r.nextNonce(), r.newTx())
		} else {
			r.deposit(0, 0, c03I(100_000), false)
			r.deposit(1, 0, c03I(9_999), false)
			r.delegate(0, 0, 2, c03I(90_000))
			r.delegate(1, 0, 2, c03I(9_999))
			r.undelegate(0, 0, 2, c03I(40_000), r.nextNonce(), r.newTx())
			r.undelegate(1, 0, 2, c03I(1_003), r.nextNonce(), r.newTx())
		}
		eh := r.ctx.BlockHeight()
		for k, p := range ps {
			if k == 1 {
				r.endBlock() // the later slashes arrive in later blocks, infraction height still the undelegation block
			}
			r.slashTo(2, eh, sdkmath.LegacyMustNewDecFromStr(p))
		}
		for j := 0; j < 12; j++ {
			r.endBlock()
		}
		out = append(out, r)
	}
	// (3f) the asset's meta information is updated (gateway updateToken) while stakers hold balances: nothing the ledger tracks
	// may move - in particular the published staking total - and a later withdrawal of the whole withdrawable balance is accepted
	{
		r := start(11, nil)
		r.deposit(0, 1, c03I(70_000), false)
		r.deposit(1, 1, c03I(5_000), false)
		r.delegate(0, 1, 2, c03I(20_000))
		r.tokenMeta(1, "USD Coin, bridged")
		r.tokenMeta(-1, "unknown token")
		r.deposit(1, 1, r.withdrawable(1, 1), true)
		r.undelegate(0, 1, 2, c03I(20_000), r.nextNonce(), r.newTx())
		r.tokenMeta(1, "")
		for i := 0; i < 11; i++ {
			r.endBlock()
		}
		r.deposit(0, 1, r.withdrawable(0, 1), true)
		out = append(out, r)
	}
	// (4..) repaired prefix scan: at height h a genesis-loaded record completes at a height whose hex starts with hex(h)
	for _, hc := range [][2]uint64{{1, 19}, {1, 16}, {2, 0x2f}, {1, 0x100}, {0xa, 0xa0}, {0x12, 0x123}, {3, 0x3f}, {0xff, 0xff0}} {
		r := start(int64(hc[0]), nil)
		r.deposit(0, 0, c03I(50), false)
		r.genesisLoad(1, 0, 2, c03I(777), hc[0], hc[1], 5, r.newTx())
		r.genesisLoad(2, 1, 1, c03I(333), hc[0], hc[0], 6, r.newTx()) // one that IS due now
		r.endBlock()
		r.endBlock()
		out = append(out, r)
	}
	return out
}

// c03Random: one random history
func c03Random(w *c03World, rng *rand.Rand, start c03Start, suite string) *c03Runner {
	heights := []int64{1, 1, 2, 3, 9, 15, 16, 17, 255, 256, 4095, 1_000_000}
	h0 := heights[rng.Intn(len(heights))]
	r := start(h0, nil)
	nSt := 2 + rng.Intn(3)
	nOps := 8 + rng.Intn(22)
	native := rng.Intn(5) < 2 // this history also uses the native token
	if native {
		for i := 0; i < 1+rng.Intn(2); i++ {
			r.delegateN(rng.Intn(3), rng.Intn(3), c03I(int64(rng.Intn(5_000_000)+1)))
		}
	}
	// warm-up: deposits and delegations so that the interesting ops have something to act on
	for i := 0; i < nSt; i++ {
		as := rng.Intn(2)
		r.deposit(i, as, c03I(int64(rng.Intn(3_000_000)+10)), false)
		if rng.Intn(4) > 0 {
			r.delegate(i, as, rng.Intn(3), c03Amount(rng, r.withdrawable(i, as)))
		}
	}
	for k := 0; k < nOps; k++ {
		st, as, op := rng.Intn(nSt), rng.Intn(2), rng.Intn(3)
		x := rng.Intn(100)
		if native && rng.Intn(4) == 0 {
			acc := rng.Intn(3)
			if rng.Intn(2) == 0 {
				r.delegateN(acc, op, c03Amount(rng, c03I(int64(rng.Intn(3_000_000)))))
			} else {
				pos := r.positionN(acc, op)
				for try := 0; try < 6 && pos.IsZero(); try++ {
					acc, op = rng.Intn(3), rng.Intn(3)
					pos = r.positionN(acc, op)
				}
				r.undelegateN(acc, op, c03Amount(rng, pos), r.nextNonce(), r.newTx())
			}
			continue
		}
		switch {
		case x < 10:
			r.deposit(st, as, c03Amount(rng, c03I(int64(rng.Intn(2_000_000)))), false)
		case x < 18:
			r.deposit(st, as, c03Amount(rng, r.withdrawable(st, as)), true)
		case x < 33:
			r.delegate(st, as, op, c03Amount(rng, r.withdrawable(st, as)))
		case x < 55:
			// aim at an existing position
			pos := r.position(st, as, op)
			if pos.IsZero() {
				for try := 0; try < 6 && pos.IsZero(); try++ {
					st, as, op = rng.Intn(nSt), rng.Intn(2), rng.Intn(3)
					pos = r.position(st, as, op)
				}
			}
			r.undelegate(st, as, op, c03Amount(rng, pos), r.nextNonce(), r.newTx())
		case x < 60:
			cur := uint64(r.ctx.BlockHeight())
			var cn uint64
			switch rng.Intn(6) {
			case 0:
				cn = cur
			case 1:
				cn = cur + 1
			case 2:
				cn = cur*16 + uint64(rng.Intn(16)) // hex(cur) is a proper prefix of hex(cn)
			case 3:
				cn = cur*256 + uint64(rng.Intn(256))
			case 4:
				if cur > 0 {
					cn = cur - 1 // rejected: InitGenesis panics
				}
			default:
				cn = cur + uint64(rng.Intn(12))
			}
			bn := cur
			if rng.Intn(2) == 0 && cur > 1 {
				bn = cur - uint64(rng.Intn(int(min64(int64(cur), 12))))
			}
			r.genesisLoad(st, as, op, c03Amount(rng, c03I(int64(rng.Intn(100_000)))), bn, cn, r.nextNonce(), r.newTx())
		case x < 63 && len(r.recordKeys()) > 0:
			// burst of 2-3 slashes of one operator with pending records, cumulative proportion around / above 100 %
			pool := [][]string{{"0.6", "0.6"}, {"0.5", "0.5"}, {"0.999999999999999999", "0.001"}, {"0.34", "0.33", "0.34"}, {"0.7", "0.2", "0.2"}, {"1", "0.5"}}
			ps := pool[rng.Intn(len(pool))]
			eh := r.ctx.BlockHeight() - int64(rng.Intn(6))
			if eh < 0 {
				eh = 0
			}
			for _, p := range ps {
				r.slashTo(op, eh, sdkmath.LegacyMustNewDecFromStr(p))
				if rng.Intn(3) == 0 {
					r.endBlock()
				}
			}
		case x < 68:
			props := []string{"0.1", "0.5", "1", "0.000001", "0.999999999999999999", "0", "0.25", "0.333333333333333333"}
			p := sdkmath.LegacyMustNewDecFromStr(props[rng.Intn(len(props))])
			powers := []int64{1, 10, 50, 100, 101, 1000, 1_000_000, 0}
			cur := r.ctx.BlockHeight()
			eh := cur - int64(rng.Intn(4))
			if rng.Intn(10) == 0 {
				eh = cur + 1
			}
			if eh < 0 {
				eh = 0
			}
			r.slash(op, eh, p, powers[rng.Intn(len(powers))])
		case x < 71:
			metas := []string{"", "updated", "Tether USD token", "a longer description of the token that the gateway forwards as-is"}
			which := as
			switch rng.Intn(6) {
			case 0:
				which = -1 // not registered
			case 1:
				which = 2 // the native token's entry
			}
			r.tokenMeta(which, metas[rng.Intn(len(metas))])
		case x < 76:
			rks := r.recordKeys()
			if len(rks) > 0 {
				r.holdOp(rks[rng.Intn(len(rks))], rng.Intn(3) == 0)
			} else {
				r.holdOp("no-such-record", false)
			}
		case x < 84:
			// native-restaking balance adjustment: mostly decreases sized around the three layers it eats through
			// (withdrawable, pending undelegations, delegated shares)
			wd := r.withdrawable(st, as)
			switch rng.Intn(8) {
			case 0:
				r.nstBalance(st, as, c03Amount(rng, c03I(int64(rng.Intn(10_000))))) // capped at the deficit inside nstBalance
			case 1:
				r.nstBalance(st, as, c03Amount(rng, wd).Neg())
			case 2, 3, 4:
				// ends inside the pending undelegations
				r.nstBalance(st, as, wd.Add(c03Amount(rng, r.pendingOf(st, as))).Neg())
			default:
				r.nstBalance(st, as, wd.Add(r.pendingOf(st, as)).Add(c03Amount(rng, r.position(st, as, op))).Neg())
			}
		default:
			nb := 1
			if rng.Intn(3) == 0 {
				nb = 1 + rng.Intn(11)
			}
			for i := 0; i < nb; i++ {
				r.endBlock()
			}
		}
	}
	// drain: release holds, run past every completion height that is near
	if rng.Intn(3) > 0 {
		for _, rk := range r.recordKeys() {
			if v, ok := r.prev[c03Hold][rk]; ok && v != "0%Z" {
				r.holdOp(rk, false)
			}
		}
		for i := 0; i < 12; i++ {
			r.endBlock()
		}
	}
	return r
}

func min64(a, b int64) int64 {
	if a < b {
		return a
	}
	return b
}

var _ = big.NewInt
