package main

// Suite c01: the same ledger driver as c03 (s_c03.go); the C01 monitors read the same observations.
func init() { register("c01", func(a *Args) error { return c03Run(a, "c01") }) }
