package main

// Suite c08scan: ties the inventory of schedule-injection sites (coq/C08/sites.txt: site -> lemma | benign)
// to the CURRENT source.  Builds (if stale) and runs tools/sitescan — go/packages + go/types over the consensus
// packages of $VERIF_REPO — and emits one case per site with the boolean "covered".  A site that is new, moved
// or whose statement / enclosing function changed is not covered: correspondence C08/<site> no longer checks.

import (
	"encoding/json"
	"fmt"
	"os"
	"os/exec"
	"path/filepath"
)

func init() { register("c08scan", runC08Scan) }

type c08Site struct {
	Kind        string   `json:"kind"`
	File        string   `json:"file"`
	Func        string   `json:"func"`
	Operand     string   `json:"operand"`
	FP          string   `json:"fp"`
	Line        int      `json:"line"`
	ID          string   `json:"id"`
	Key         string   `json:"key"`
	Status      string   `json:"status"`
	Covered     bool     `json:"covered"`
	Disposition string   `json:"disposition"`
	Tags        []string `json:"tags,omitempty"`
	NT          bool     `json:"nt"`
}

func c08VerifRoot() string {
	exe, err := os.Executable()
	if err != nil {
		exe = os.Args[0]
	}
	exe, _ = filepath.EvalSymlinks(exe)
	return filepath.Dir(filepath.Dir(exe)) // <verif>/build/exoharness
}

func c08GoEnv() []string {
	return append(os.Environ(), "GOFLAGS=-mod=mod", "GOPROXY=off", "GOSUMDB=off", "GOTOOLCHAIN=local")
}

func c08BuildSitescan(root string) (string, error) {
	src := filepath.Join(root, "tools", "sitescan")
	bin := filepath.Join(root, "build", "sitescan")
	stale := true
	if bi, err := os.Stat(bin); err == nil {
		stale = false
		for _, f := range []string{"main.go", "go.mod", "go.sum"} {
			if si, err := os.Stat(filepath.Join(src, f)); err != nil || si.ModTime().After(bi.ModTime()) {
				stale = true
			}
		}
	}
	if stale {
		cmd := exec.Command("go", "build", "-o", bin, ".")
		cmd.Dir = src
		cmd.Env = c08GoEnv()
		if out, err := cmd.CombinedOutput(); err != nil {
			if _, serr := os.Stat(bin); serr == nil {
				// fail soft: an older binary (e.g. the one corr/setup.sh built) is better than no inventory
				fmt.Fprintf(os.Stderr, "c08scan: rebuilding tools/sitescan failed (%v), using the existing build/sitescan\n", err)
				return bin, nil
			}
			return "", fmt.Errorf("building tools/sitescan: %v\n%s", err, out)
		}
	}
	return bin, nil
}

func runC08Scan(a *Args) error {
	root := c08VerifRoot()
	bin, err := c08BuildSitescan(root)
	if err != nil {
		return err
	}
	repo := os.Getenv("VERIF_REPO")
	if repo == "" {
		repo = "/repo"
	}
	cmd := exec.Command(bin, "-repo", repo, "-sites", filepath.Join(root, "coq", "C08", "sites.txt"),
		"-props", filepath.Join(root, "coq", "C08", "Props.v"), "-json")
	cmd.Env = c08GoEnv()
	cmd.Stderr = os.Stderr
	out, err := cmd.Output()
	if err != nil {
		return fmt.Errorf("sitescan failed: %v", err)
	}
	var sites []c08Site
	if err := json.Unmarshal(out, &sites); err != nil {
		return err
	}
	w := NewCaseWriter(a.Out)
	defer w.Close()
	for _, s := range sites {
		s.NT = true
		w.Count("kind/" + s.Kind)
		w.Count("status/" + s.Status)
		if s.Covered {
			if len(s.Disposition) >= 7 && s.Disposition[:7] == "benign:" {
				w.Count("disposition/benign")
			} else {
				w.Count("disposition/lemma")
			}
		}
		w.Add(cApp("mkSCase", cStr(s.ID), cStr(s.Kind), cStr(s.Status), cBool(s.Covered)), s)
	}
	return nil
}
