package main

// Suite c10: privileged entry points × caller identities on the REAL application.
//   * precompile methods: a real EVM (EvmKeeper.NewEVM + the application's own precompile instances) is asked
//     to Call the precompile address from the gateway / another contract / an EOA / an AVS contract ...;
//   * Cosmos messages: real ante handler (taken from BaseApp) + real Msg service router, the transaction built
//     and signed by the right key, another account, with a forged / missing signature ...;
//   * UpdateParams: through the router as the gov module does, and as signed transactions of ordinary
//     accounts, under mainnet-type and other chain ids.
// Every case runs on a cache of the same prepared block state, so cases are independent. Recorded: the
// authorization-relevant state read from the stores BEFORE the call (gateway parameter, AVS owner lists, oracle
// nonce table, gov authority), the call, the result class, and sha256 digests of all module stores before/after.

import (
	"bytes"
	"crypto/sha256"
	"encoding/hex"
	"encoding/json"
	"fmt"
	"math/big"
	"math/rand"
	"sort"
	"strings"
	"time"

	sdkmath "cosmossdk.io/math"
	"github.com/cosmos/cosmos-sdk/client"
	clienttx "github.com/cosmos/cosmos-sdk/client/tx"
	"github.com/cosmos/cosmos-sdk/crypto/keys/ed25519"
	cryptotypes "github.com/cosmos/cosmos-sdk/crypto/types"
	"github.com/cosmos/cosmos-sdk/store/prefix"
	sdk "github.com/cosmos/cosmos-sdk/types"
	txtypes "github.com/cosmos/cosmos-sdk/types/tx"
	"github.com/cosmos/cosmos-sdk/types/tx/signing"
	authsigning "github.com/cosmos/cosmos-sdk/x/auth/signing"
	authtx "github.com/cosmos/cosmos-sdk/x/auth/tx"
	authtypes "github.com/cosmos/cosmos-sdk/x/auth/types"
	govtypes "github.com/cosmos/cosmos-sdk/x/gov/types"
	stakingtypes "github.com/cosmos/cosmos-sdk/x/staking/types"
	"github.com/ethereum/go-ethereum/accounts/abi"
	"github.com/ethereum/go-ethereum/common"
	ethtypes "github.com/ethereum/go-ethereum/core/types"
	"github.com/ethereum/go-ethereum/core/vm"
	"github.com/evmos/evmos/v16/x/evm/statedb"
	"github.com/prysmaticlabs/prysm/v4/crypto/bls/blst"

	assetsprecompile "github.com/ExocoreNetwork/exocore/precompiles/assets"
	avsprecompile "github.com/ExocoreNetwork/exocore/precompiles/avs"
	delegationprecompile "github.com/ExocoreNetwork/exocore/precompiles/delegation"
	rewardprecompile "github.com/ExocoreNetwork/exocore/precompiles/reward"
	slashprecompile "github.com/ExocoreNetwork/exocore/precompiles/slash"
	"github.com/ExocoreNetwork/exocore/utils"
	assetstypes "github.com/ExocoreNetwork/exocore/x/assets/types"
	avstypes "github.com/ExocoreNetwork/exocore/x/avs/types"
	delegationtypes "github.com/ExocoreNetwork/exocore/x/delegation/types"
	dogfoodtypes "github.com/ExocoreNetwork/exocore/x/dogfood/types"
	exominttypes "github.com/ExocoreNetwork/exocore/x/exomint/types"
	feedisttypes "github.com/ExocoreNetwork/exocore/x/feedistribution/types"
	operatortypes "github.com/ExocoreNetwork/exocore/x/operator/types"
	oracletypes "github.com/ExocoreNetwork/exocore/x/oracle/types"
)

func init() { register("c10", runC10) }

// the harness's own notion of "mainnet chain id" (independent of utils.IsMainnet, which is code under test)
const c10MainnetPrefix = "exocore_233"

// ---------------------------------------------------------------------------------------------
// recorded data

type c10Avs struct {
	Addr   string   `json:"addr"`
	Owners []string `json:"owners"`
	Task   string   `json:"task"`
}

type c10NonceRow struct {
	Validator string      `json:"validator"` // as account bech32 (same bytes as the consensus address)
	Feeders   [][2]uint64 `json:"feeders"`
}

type c10State struct {
	Gateway   string        `json:"gateway"`
	Avs       []c10Avs      `json:"avs"`
	Authority string        `json:"authority"`
	Nonces    []c10NonceRow `json:"nonces"`
}

type c10Auth struct {
	RawSigs   int      `json:"raw_sigs"`
	Infos     []string `json:"infos"`     // "" = nil key
	SignedBy  string   `json:"signed_by"` // "" = nobody
	AccountOK bool     `json:"account_ok"`
}

type c10Call struct {
	Kind       string   `json:"kind"` // evm | tx | gov
	EP         string   `json:"ep"`
	Class      string   `json:"caller_class"`
	ChainID    string   `json:"chain_id"`
	Mainnet    bool     `json:"mainnet"`
	Caller     string   `json:"caller,omitempty"`
	IsContract bool     `json:"is_contract,omitempty"`
	Origin     string   `json:"origin,omitempty"`
	Sender     string   `json:"sender,omitempty"`
	NewOwners  []string `json:"new_owners,omitempty"`
	NewTask    string   `json:"new_task,omitempty"`
	Principal  string   `json:"principal,omitempty"`
	Subject    string   `json:"subject,omitempty"`
	Stage      uint64   `json:"stage,omitempty"`
	Feeder     uint64   `json:"feeder,omitempty"`
	Nonce      uint64   `json:"nonce,omitempty"`
	Auth       *c10Auth `json:"auth,omitempty"`
	NewGateway string   `json:"new_gateway,omitempty"`
	BizOK      bool     `json:"biz_ok"`
}

type c10Obs struct {
	Result          string   `json:"result"` // ok | ante | msg | false | evmerr
	Detail          string   `json:"detail,omitempty"`
	ModulesChanged  bool     `json:"modules_changed"`
	AccountsChanged bool     `json:"accounts_changed"`
	ChangedStores   []string `json:"changed_stores,omitempty"`
	GatewayAfter    string   `json:"gateway_after"`
	OwnersAfter     []string `json:"owners_after"`
	NonceAfter      uint64   `json:"nonce_after"`
}

type c10Case struct {
	State c10State `json:"state"`
	Call  c10Call  `json:"call"`
	Obs   c10Obs   `json:"obs"`
	Tags  []string `json:"tags,omitempty"`
	NT    bool     `json:"nt"`
}

func c10StrList(xs []string) string {
	ss := make([]string, len(xs))
	for i, x := range xs {
		ss[i] = cStr(x)
	}
	return cList(ss)
}

func (s c10State) coq() string {
	avs := make([]string, len(s.Avs))
	for i, a := range s.Avs {
		avs[i] = cApp("mkAvs", cStr(a.Addr), c10StrList(a.Owners), cStr(a.Task))
	}
	non := make([]string, len(s.Nonces))
	for i, r := range s.Nonces {
		fs := make([]string, len(r.Feeders))
		for j, f := range r.Feeders {
			fs[j] = cTuple(cN(f[0]), cN(f[1]))
		}
		non[i] = cTuple(cStr(r.Validator), cList(fs))
	}
	return cApp("mkState", cStr(s.Gateway), cList(avs), cStr(s.Authority), cList(non), "[]")
}

func (a *c10Auth) coq() string {
	infos := make([]string, len(a.Infos))
	for i, x := range a.Infos {
		infos[i] = cOpt(x != "", cStr(x))
	}
	return cApp("mkAuth", cNat(a.RawSigs), cList(infos), cOpt(a.SignedBy != "", cStr(a.SignedBy)), cBool(a.AccountOK))
}

func (c c10Call) coq() string {
	switch c.Kind {
	case "evm":
		return cApp("CallEvm", c.EP, cStr(c.Caller), cBool(c.IsContract), cStr(c.Origin), cStr(c.Sender),
			c10StrList(c.NewOwners), cStr(c.NewTask), cBool(c.BizOK))
	case "tx":
		return cApp("CallTx", c.EP, cStr(c.Principal), cStr(c.Subject), cN(c.Stage), cN(c.Feeder), cN(c.Nonce), c.Auth.coq(),
			cStr(c.NewGateway), cBool(c.BizOK))
	default:
		return cApp("CallGov", c.EP, cStr(c.NewGateway), cBool(c.BizOK))
	}
}

func (o c10Obs) coq() string {
	r := map[string]string{"ok": "OOk", "ante": "OAnteRejected", "msg": "OMsgRejected", "false": "OFalse", "evmerr": "OEvmError"}[o.Result]
	return cApp("mkObs", r, cBool(o.ModulesChanged), cBool(o.AccountsChanged), cStr(o.GatewayAfter),
		c10StrList(o.OwnersAfter), cN(o.NonceAfter))
}

func (k c10Case) coq() string {
	return cApp("mkCase", cApp("mkCfg", cBool(k.Call.Mainnet)), k.State.coq(), k.Call.coq(), k.Obs.coq())
}

// ---------------------------------------------------------------------------------------------
// world

type c10World struct {
	env   *Env
	ante  sdk.AnteHandler
	txCfg client.TxConfig
	rnd   *rand.Rand

	gateway, otherContract, avsContract, avsContract2, freshContract common.Address
	accs                                                             []common.Address // EOAs with funds (acc tag)
	accPrivs                                                         []cryptotypes.PrivKey
	owner, nonOwner                                                  int // indexes into accs
	opAcc                                                            int // account that is a registered operator
	newOpAcc                                                         int // account that is not an operator yet
	stakerAcc                                                        int
	genesisOpAcc                                                     int // genesis operator 0 (validator), with an account
	quickMatrix                                                      bool
	malformed                                                        bool              // payload builders produce a payload the business logic refuses
	cov                                                              map[string][2]int // per entry point: accepted, rejected
	govAddr                                                          sdk.AccAddress
	dogfoodAvs                                                       string

	assetsP     *assetsprecompile.Precompile
	delegationP *delegationprecompile.Precompile
	avsP        *avsprecompile.Precompile
	rewardP     *rewardprecompile.Precompile
	slashP      *slashprecompile.Precompile
	blsKey      blstKey
	moduleNames []string
	acctNames   []string
}

type blstKey struct {
	pub, sig []byte
	hash     [32]byte
	sign     func(msg []byte) []byte
}

func c10Hex(a common.Address) string  { return strings.ToLower(a.Hex()) }
func c10Bech(a common.Address) string { return sdk.AccAddress(a.Bytes()).String() }

var c10ModuleStores = []string{"assets", "delegation", "operator", "dogfood", "avs", "oracle", "epochs", "exomint",
	"feedistribution", "reward", "exoslash", "slash", "evm", "feemarket", "gov", "params", "slashing", "staking", "authz", "upgrade"}
var c10AccountStores = []string{"acc", "bank"}

func (w *c10World) storeDigests(ctx sdk.Context, names []string) map[string][32]byte {
	ctx = ctx.WithGasMeter(sdk.NewInfiniteGasMeter())
	out := map[string][32]byte{}
	for _, n := range names {
		key := w.env.App.GetKey(n)
		if key == nil {
			continue
		}
		h := sha256.New()
		it := ctx.KVStore(key).Iterator(nil, nil)
		for ; it.Valid(); it.Next() {
			k, v := it.Key(), it.Value()
			var l [8]byte
			big.NewInt(int64(len(k))).FillBytes(l[:])
			h.Write(l[:])
			h.Write(k)
			big.NewInt(int64(len(v))).FillBytes(l[:])
			h.Write(l[:])
			h.Write(v)
		}
		it.Close()
		var d [32]byte
		copy(d[:], h.Sum(nil))
		out[n] = d
	}
	return out
}

func c10DiffStores(a, b map[string][32]byte) []string {
	var ch []string
	for n, d := range a {
		if b[n] != d {
			ch = append(ch, n)
		}
	}
	sort.Strings(ch)
	return ch
}

func (w *c10World) readState(ctx sdk.Context) c10State {
	ctx = ctx.WithGasMeter(sdk.NewInfiniteGasMeter())
	app := w.env.App
	st := c10State{Authority: authtypes.NewModuleAddress(govtypes.ModuleName).String()}
	p, err := app.AssetsKeeper.GetParams(ctx)
	if err == nil {
		st.Gateway = c10Hex(common.HexToAddress(p.ExocoreLzAppAddress))
	}
	app.AVSManagerKeeper.IterateAVSInfo(ctx, func(_ int64, a avstypes.AVSInfo) bool {
		task := ""
		if a.TaskAddr != "" {
			task = strings.ToLower(a.TaskAddr)
		}
		st.Avs = append(st.Avs, c10Avs{Addr: strings.ToLower(a.AvsAddress), Owners: append([]string{}, a.AvsOwnerAddress...), Task: task})
		return false
	})
	// oracle nonce table, in store (key) order
	store := prefix.NewStore(ctx.KVStore(app.GetKey("oracle")), oracletypes.KeyPrefix(oracletypes.NonceKeyPrefix))
	it := store.Iterator(nil, nil)
	for ; it.Valid(); it.Next() {
		var vn oracletypes.ValidatorNonce
		app.AppCodec().MustUnmarshal(it.Value(), &vn)
		row := c10NonceRow{Validator: vn.Validator}
		if ca, err := sdk.ConsAddressFromBech32(vn.Validator); err == nil {
			row.Validator = sdk.AccAddress(ca).String()
		}
		for _, n := range vn.NonceList {
			row.Feeders = append(row.Feeders, [2]uint64{n.FeederID, uint64(n.Value)})
		}
		st.Nonces = append(st.Nonces, row)
	}
	it.Close()
	return st
}

func (s c10State) ownersAt(addr string) []string {
	for _, a := range s.Avs {
		if a.Addr == addr {
			return a.Owners
		}
	}
	return []string{}
}

func (s c10State) nonceOf(v string, feeder uint64) uint64 {
	for _, r := range s.Nonces {
		if r.Validator == v {
			for _, f := range r.Feeders {
				if f[0] == feeder {
					return f[1]
				}
			}
		}
	}
	return 0
}

// ---------------------------------------------------------------------------------------------
// EVM side

func (w *c10World) evmCall(ctx sdk.Context, caller, origin, to common.Address, input []byte, direct vm.PrecompiledContract) (ret []byte, err error) {
	defer func() {
		if r := recover(); r != nil {
			ret, err = nil, fmt.Errorf("panic: %v", r)
		}
	}()
	app := w.env.App
	// what x/evm ApplyMessageWithConfig puts into the context before running the EVM
	ctx = ctx.WithGasMeter(sdk.NewInfiniteGasMeter()).WithValue(delegationprecompile.CtxKeyTxHash, common.BytesToHash(ctx.HeaderHash().Bytes()))
	cfg, err := app.EvmKeeper.EVMConfig(ctx, ctx.BlockHeader().ProposerAddress, app.EvmKeeper.ChainID())
	if err != nil {
		return nil, err
	}
	sdb := statedb.New(ctx, app.EvmKeeper, statedb.NewEmptyTxConfig(common.BytesToHash(ctx.HeaderHash().Bytes())))
	msg := ethtypes.NewMessage(origin, &to, 0, big.NewInt(0), 5_000_000, big.NewInt(0), big.NewInt(0), big.NewInt(0), input, nil, true)
	evm := app.EvmKeeper.NewEVM(ctx, msg, cfg, nil, sdb)
	active := app.EvmKeeper.GetParams(ctx).GetActivePrecompilesAddrs()
	pm := app.EvmKeeper.Precompiles(active...)
	evm.WithPrecompiles(pm, active)
	if direct != nil {
		// precompile that the application does not install (slash): run it the way the EVM would
		contract := vm.NewPrecompile(vm.AccountRef(caller), direct, big.NewInt(0), 5_000_000)
		contract.Input = input
		ret, err = direct.Run(evm, contract, false)
	} else {
		ret, _, err = evm.Call(vm.AccountRef(caller), to, input, 5_000_000, big.NewInt(0))
	}
	if err != nil {
		return ret, err
	}
	return ret, sdb.Commit()
}

func c10ClassifyEvm(ret []byte, err error) (string, string) {
	if err != nil {
		return "evmerr", c10Short(err.Error())
	}
	if len(ret) >= 32 && new(big.Int).SetBytes(ret[:32]).Cmp(big.NewInt(1)) == 0 {
		return "ok", ""
	}
	if len(ret) == 0 {
		return "false", "empty output"
	}
	return "false", ""
}

func c10Short(s string) string {
	if len(s) > 160 {
		s = s[:160]
	}
	return s
}

// ---------------------------------------------------------------------------------------------
// Cosmos side

type c10TxMode int

const (
	c10TxValid        c10TxMode = iota // signer info = signer's key, signed by the signer
	c10TxNilPubKey                     // signer info without key (account already has one), signed by the signer
	c10TxOtherAccount                  // signer info = other account's key, signed by that other account
	c10TxOtherKeySig                   // signer info = signer's key, signature made by another key
	c10TxGarbage                       // signer info = signer's key, 65 garbage bytes
	c10TxWrongChain                    // valid key, signed for another chain id
	c10TxNoSignerInfo                  // no signer info, one raw garbage signature
	c10TxNoSig                         // nothing at all
	c10TxWrongSeq                      // right key, right signature over a wrong sequence number
)

var c10TxModeNames = []string{"signer", "signer-nilpubkey", "otheraccount", "forged-otherkey", "forged-garbage", "forged-wrongchain", "nosignerinfo", "nosig", "wrongsequence"}

// build a standard (fee paying) transaction for msg whose signer is `signer`
func (w *c10World) buildStdTx(ctx sdk.Context, msg sdk.Msg, signer cryptotypes.PrivKey, other cryptotypes.PrivKey, mode c10TxMode) (sdk.Tx, []byte, *c10Auth, error) {
	app := w.env.App
	signerAddr := sdk.AccAddress(signer.PubKey().Address())
	otherAddr := sdk.AccAddress(other.PubKey().Address())
	auth := &c10Auth{AccountOK: true}
	b := w.txCfg.NewTxBuilder()
	if err := b.SetMsgs(msg); err != nil {
		return nil, nil, nil, err
	}
	b.SetGasLimit(10_000_000)
	b.SetFeeAmount(sdk.Coins{sdk.NewCoin(utils.BaseDenom, sdkmath.NewInt(10_000_000_000_000_000))})
	if mode == c10TxNoSignerInfo || mode == c10TxNoSig {
		// no signer infos: go through the protobuf form
		bz0, err := w.txCfg.TxEncoder()(b.GetTx())
		if err != nil {
			return nil, nil, nil, err
		}
		raw, err := c10SetRawSigs(bz0, mode == c10TxNoSignerInfo)
		if err != nil {
			return nil, nil, nil, err
		}
		tx, err := w.txCfg.TxDecoder()(raw)
		if mode == c10TxNoSignerInfo {
			auth.RawSigs = 1
		}
		auth.Infos = []string{}
		return tx, raw, auth, err
	}
	signMode := signing.SignMode_SIGN_MODE_DIRECT
	infoKey := signer.PubKey()
	signKey := signer
	signAcc := signerAddr
	chainID := ctx.ChainID()
	switch mode {
	case c10TxOtherAccount:
		infoKey, signKey, signAcc = other.PubKey(), other, otherAddr
	case c10TxOtherKeySig:
		signKey = other
	case c10TxWrongChain:
		chainID += "x"
	}
	acc := app.AccountKeeper.GetAccount(ctx, signAcc)
	var accNum, seq uint64
	if acc != nil {
		accNum, seq = acc.GetAccountNumber(), acc.GetSequence()
	}
	if mode == c10TxWrongSeq {
		seq += 7
	}
	var infoPk cryptotypes.PubKey = infoKey
	if mode == c10TxNilPubKey {
		// signer info without a public key (allowed when the account already carries its key): built by hand
		if err := b.SetSignatures(signing.SignatureV2{PubKey: infoKey, Data: &signing.SingleSignatureData{SignMode: signMode}, Sequence: seq}); err != nil {
			return nil, nil, nil, err
		}
		bz0, err := w.txCfg.TxEncoder()(b.GetTx())
		if err != nil {
			return nil, nil, nil, err
		}
		var t txtypes.Tx
		if err := t.Unmarshal(bz0); err != nil {
			return nil, nil, nil, err
		}
		t.AuthInfo.SignerInfos[0].PublicKey = nil
		bodyBz, _ := t.Body.Marshal()
		authBz, _ := t.AuthInfo.Marshal()
		signBytes, err := authtx.DirectSignBytes(bodyBz, authBz, chainID, accNum)
		if err != nil {
			return nil, nil, nil, err
		}
		sig, err := signKey.Sign(signBytes)
		if err != nil {
			return nil, nil, nil, err
		}
		raw := &txtypes.TxRaw{BodyBytes: bodyBz, AuthInfoBytes: authBz, Signatures: [][]byte{sig}}
		bz, _ := raw.Marshal()
		tx, err := w.txCfg.TxDecoder()(bz)
		auth.RawSigs, auth.Infos, auth.SignedBy = 1, []string{""}, signerAddr.String()
		return tx, bz, auth, err
	}
	if err := b.SetSignatures(signing.SignatureV2{PubKey: infoPk, Data: &signing.SingleSignatureData{SignMode: signMode}, Sequence: seq}); err != nil {
		return nil, nil, nil, err
	}
	sd := authsigning.SignerData{ChainID: chainID, AccountNumber: accNum, Sequence: seq}
	if mode == c10TxOtherKeySig {
		// the forger signs exactly the bytes the verifier will recompute for the victim's account
		vacc := app.AccountKeeper.GetAccount(ctx, signerAddr)
		if vacc != nil {
			sd.AccountNumber, sd.Sequence = vacc.GetAccountNumber(), vacc.GetSequence()
		}
	}
	sv2, err := clienttx.SignWithPrivKey(signMode, sd, b, signKey, w.txCfg, seq)
	if err != nil {
		return nil, nil, nil, err
	}
	sv2.PubKey = infoPk
	if mode == c10TxGarbage {
		g := make([]byte, 65)
		w.rnd.Read(g)
		sv2.Data = &signing.SingleSignatureData{SignMode: signMode, Signature: g}
	}
	if err := b.SetSignatures(sv2); err != nil {
		return nil, nil, nil, err
	}
	bz, err := w.txCfg.TxEncoder()(b.GetTx())
	if err != nil {
		return nil, nil, nil, err
	}
	tx, err := w.txCfg.TxDecoder()(bz)
	auth.RawSigs = 1
	switch mode {
	case c10TxValid:
		auth.Infos, auth.SignedBy = []string{signerAddr.String()}, signerAddr.String()
	case c10TxNilPubKey:
		auth.Infos, auth.SignedBy = []string{""}, signerAddr.String()
	case c10TxOtherAccount:
		auth.Infos, auth.SignedBy = []string{otherAddr.String()}, otherAddr.String()
	case c10TxOtherKeySig:
		auth.Infos, auth.SignedBy = []string{signerAddr.String()}, otherAddr.String()
	case c10TxGarbage, c10TxWrongChain:
		auth.Infos, auth.SignedBy = []string{signerAddr.String()}, ""
	case c10TxWrongSeq:
		// the signature is the signer's, but over a sequence the chain does not expect
		auth.Infos, auth.SignedBy, auth.AccountOK = []string{signerAddr.String()}, signerAddr.String(), false
	}
	return tx, bz, auth, err
}

// ---------------------------------------------------------------------------------------------
// the case runner

type c10Prep func(ctx sdk.Context)

func (w *c10World) runEvmCase(cw *CaseWriter, call c10Call, to common.Address, input []byte, direct vm.PrecompiledContract, prep c10Prep, tags []string) {
	ctx, _ := w.env.Ctx.CacheContext()
	if prep != nil {
		prep(ctx)
	}
	call.Kind, call.ChainID, call.Mainnet = "evm", ctx.ChainID(), strings.HasPrefix(ctx.ChainID(), c10MainnetPrefix)
	st := w.readState(ctx)
	preM, preA := w.storeDigests(ctx, w.moduleNames), w.storeDigests(ctx, w.acctNames)
	ret, err := w.evmCall(ctx, common.HexToAddress(call.Caller), common.BytesToAddress(sdk.MustAccAddressFromBech32(call.Origin)), to, input, direct)
	res, detail := c10ClassifyEvm(ret, err)
	w.finish(cw, ctx, st, call, res, detail, preM, preA, tags)
}

func (w *c10World) finish(cw *CaseWriter, ctx sdk.Context, st c10State, call c10Call, res, detail string, preM, preA map[string][32]byte, tags []string) {
	postM, postA := w.storeDigests(ctx, w.moduleNames), w.storeDigests(ctx, w.acctNames)
	after := w.readState(ctx)
	chM, chA := c10DiffStores(preM, postM), c10DiffStores(preA, postA)
	obs := c10Obs{Result: res, Detail: detail, ModulesChanged: len(chM) > 0, AccountsChanged: len(chA) > 0,
		ChangedStores: append(chM, chA...), GatewayAfter: after.Gateway, OwnersAfter: []string{}}
	if call.Kind == "evm" {
		obs.OwnersAfter = after.ownersAt(call.Caller)
	}
	if call.EP == "M_oracle_CreatePrice" {
		obs.NonceAfter = after.nonceOf(call.Principal, call.Feeder)
	}
	k := c10Case{State: st, Call: call, Obs: obs, Tags: tags, NT: res == "ok" || obs.ModulesChanged}
	cw.Add(k.coq(), k)
	cw.Count("ep:" + call.EP)
	// coverage matrix: entry point x caller class x accepted/rejected
	ar := "rejected"
	if res == "ok" {
		ar = "accepted"
	}
	cw.Count("cov:" + call.EP + "|" + call.Class + "|" + ar)
	if w.cov == nil {
		w.cov = map[string][2]int{}
	}
	c := w.cov[call.EP]
	if res == "ok" {
		c[0]++
	} else {
		c[1]++
	}
	w.cov[call.EP] = c
	cw.Count("class:" + call.Class)
	cw.Count("result:" + res)
	cw.Count("kind:" + call.Kind + "/" + res)
	if !call.Mainnet {
		cw.Count("chain:non-mainnet")
	}
}

func (w *c10World) runTxCase(cw *CaseWriter, call c10Call, tx sdk.Tx, bz []byte, chainID string, prep c10Prep, tags []string, oracle bool) {
	ctx, _ := w.env.Ctx.CacheContext()
	if chainID != "" {
		ctx = ctx.WithChainID(chainID)
	}
	if prep != nil {
		prep(ctx)
	}
	if oracle {
		c10ResetOracle()
	}
	call.Kind, call.ChainID, call.Mainnet = "tx", ctx.ChainID(), strings.HasPrefix(ctx.ChainID(), c10MainnetPrefix)
	st := w.readState(ctx)
	preM, preA := w.storeDigests(ctx, w.moduleNames), w.storeDigests(ctx, w.acctNames)
	stage, err := c10RunTx(w.env.App, w.ante, ctx, tx, bz)
	res := map[string]string{"ok": "ok", "ante": "ante", "msg": "msg", "panic": "ante"}[stage]
	detail := ""
	if err != nil {
		detail = c10Short(err.Error())
	}
	w.finish(cw, ctx, st, call, res, detail, preM, preA, tags)
	if oracle {
		c10ResetOracle()
	}
}

func (w *c10World) runGovCase(cw *CaseWriter, call c10Call, msg sdk.Msg, chainID string) {
	ctx, _ := w.env.Ctx.CacheContext()
	if chainID != "" {
		ctx = ctx.WithChainID(chainID)
	}
	call.Kind, call.ChainID, call.Mainnet = "gov", ctx.ChainID(), strings.HasPrefix(ctx.ChainID(), c10MainnetPrefix)
	st := w.readState(ctx)
	preM, preA := w.storeDigests(ctx, w.moduleNames), w.storeDigests(ctx, w.acctNames)
	res, detail := "ok", ""
	func() {
		defer func() {
			if r := recover(); r != nil {
				res, detail = "msg", fmt.Sprintf("panic: %v", r)
			}
		}()
		// the way x/gov executes a passed proposal: handler from the Msg service router on a cache context
		h := w.env.App.MsgServiceRouter().Handler(msg)
		mctx, write := ctx.CacheContext()
		if _, err := h(mctx, msg); err != nil {
			res, detail = "msg", c10Short(err.Error())
			return
		}
		write()
	}()
	w.finish(cw, ctx, st, call, res, detail, preM, preA, nil)
}

// ---------------------------------------------------------------------------------------------
// setup

func c10Must(err error) {
	if err != nil {
		panic(err)
	}
}

func c10NewWorld(a *Args) *c10World {
	env := NewEnv(EnvCfg{ExtraAccs: 8})
	for i := 0; i < 2; i++ {
		env.NextBlock(time.Second)
	}
	w := &c10World{env: env, rnd: rand.New(rand.NewSource(a.Seed))}
	w.ante = c10AnteHandler(env.App)
	w.txCfg = env.App.GetTxConfig()
	for i := range env.AccAddrs {
		w.accs = append(w.accs, env.AccAddrs[i])
		w.accPrivs = append(w.accPrivs, env.AccPrivs[i])
	}
	w.owner, w.nonOwner, w.opAcc, w.newOpAcc, w.stakerAcc = 3, 4, 1, 2, 5
	_, w.gateway = DetEthKey("c10gateway", 0)
	_, w.otherContract = DetEthKey("c10contract", 0)
	_, w.avsContract = DetEthKey("c10avs", 0)
	_, w.avsContract2 = DetEthKey("c10avs", 1)
	_, w.freshContract = DetEthKey("c10avs", 2)
	w.govAddr = authtypes.NewModuleAddress(govtypes.ModuleName)
	w.dogfoodAvs = avstypes.GenerateAVSAddr(avstypes.ChainIDWithoutRevision(env.ChainID))
	for _, n := range c10ModuleStores {
		if env.App.GetKey(n) != nil {
			w.moduleNames = append(w.moduleNames, n)
		}
	}
	for _, n := range c10AccountStores {
		if env.App.GetKey(n) != nil {
			w.acctNames = append(w.acctNames, n)
		}
	}
	app, ctx := env.App, env.Ctx
	// gateway parameter
	p, err := app.AssetsKeeper.GetParams(ctx)
	c10Must(err)
	p.ExocoreLzAppAddress = w.gateway.Hex()
	c10Must(app.AssetsKeeper.SetParams(ctx, p))
	// contracts get code
	sdb := statedb.New(ctx, app.EvmKeeper, statedb.NewEmptyTxConfig(common.BytesToHash(ctx.HeaderHash().Bytes())))
	for _, c := range []common.Address{w.gateway, w.otherContract, w.avsContract, w.avsContract2, w.freshContract} {
		sdb.SetCode(c, []byte{0x60, 0x00, 0x60, 0x00, 0xfd})
	}
	c10Must(sdb.Commit())
	// the application's own precompile instances
	active := app.EvmKeeper.GetParams(ctx).GetActivePrecompilesAddrs()
	for _, pc := range app.EvmKeeper.Precompiles(active...) {
		switch t := pc.(type) {
		case *assetsprecompile.Precompile:
			w.assetsP = t
		case *delegationprecompile.Precompile:
			w.delegationP = t
		case *avsprecompile.Precompile:
			w.avsP = t
		case *rewardprecompile.Precompile:
			w.rewardP = t
		case assetsprecompile.Precompile:
			w.assetsP = &t
		case delegationprecompile.Precompile:
			w.delegationP = &t
		case avsprecompile.Precompile:
			w.avsP = &t
		case rewardprecompile.Precompile:
			w.rewardP = &t
		}
	}
	if w.assetsP == nil || w.delegationP == nil || w.avsP == nil || w.rewardP == nil {
		panic("c10: precompile instances not found")
	}
	sp, err := slashprecompile.NewPrecompile(app.AssetsKeeper, app.ExoSlashKeeper, app.AuthzKeeper)
	c10Must(err)
	w.slashP = sp
	// an operator with an account (acc[opAcc])
	opAddr := sdk.AccAddress(w.accs[w.opAcc].Bytes())
	c10Must(app.OperatorKeeper.SetOperatorInfo(ctx, opAddr.String(), &operatortypes.OperatorInfo{
		EarningsAddr: opAddr.String(), OperatorMetaInfo: "c10 operator",
		Commission: stakingtypes.NewCommission(sdk.ZeroDec(), sdk.ZeroDec(), sdk.ZeroDec()),
	}))
	// a registered AVS at avsContract (task address = itself), owned by accs[owner]; registered through the
	// real precompile by the contract itself
	in, err := w.avsP.ABI.Pack("registerAVS", w.registerAvsArgs(w.accs[w.owner], "c10avs", w.avsContract, []string{c10Bech(w.accs[w.owner])})...)
	c10Must(err)
	ret, err := w.evmCall(ctx, w.avsContract, w.accs[w.owner], w.avsP.Address(), in, nil)
	if r, d := c10ClassifyEvm(ret, err); r != "ok" {
		panic("c10 setup: registerAVS failed: " + r + " " + d)
	}
	// the native-restaking pseudo asset of client chain 101, so that depositNST / withdrawNST have something to act on
	nstAddr := common.BytesToAddress(assetstypes.GenerateNSTAddr(20))
	c10Must(app.AssetsKeeper.SetStakingAssetInfo(ctx, &assetstypes.StakingAssetInfo{
		AssetBasicInfo: assetstypes.AssetInfo{Name: "native ETH", Symbol: "NSTETH", Address: nstAddr.Hex(), Decimals: 18,
			LayerZeroChainID: 101, MetaInfo: "c10"},
		StakingTotalAmount: sdkmath.ZeroInt(),
	}))
	// genesis operator 0 gets an account with funds, so that it can sign Cosmos transactions (SetConsKey)
	op0 := w.env.Operators[0]
	acc0 := app.AccountKeeper.NewAccountWithAddress(ctx, op0)
	c10Must(acc0.SetPubKey(w.env.OpPrivs[0].PubKey()))
	app.AccountKeeper.SetAccount(ctx, acc0)
	c10Must(app.BankKeeper.SendCoins(ctx, sdk.AccAddress(w.accs[6].Bytes()), op0, sdk.NewCoins(sdk.NewCoin(utils.BaseDenom, sdkmath.NewIntWithDecimal(1, 18)))))
	w.accs = append(w.accs, common.BytesToAddress(op0.Bytes()))
	w.accPrivs = append(w.accPrivs, w.env.OpPrivs[0])
	w.genesisOpAcc = len(w.accs) - 1
	// BLS material
	skb := seedBytes("c10bls", 0)
	skb[0] &= 0x3f // below the group order
	sk, err := blst.SecretKeyFromBytes(skb)
	c10Must(err)
	w.blsKey.hash = sha256.Sum256([]byte("c10 bls registration"))
	w.blsKey.pub = sk.PublicKey().Marshal()
	w.blsKey.sig = sk.Sign(w.blsKey.hash[:]).Marshal()
	w.blsKey.sign = func(msg []byte) []byte { return sk.Sign(msg).Marshal() }
	return w
}

func (w *c10World) registerAvsArgs(sender common.Address, name string, task common.Address, owners []string) []interface{} {
	return []interface{}{sender, name, uint64(3), task, common.HexToAddress("0x00000000000000000000000000000000000000a1"),
		common.HexToAddress("0x00000000000000000000000000000000000000a2"), owners, []string{w.env.AssetID},
		uint64(3), uint64(0), "hour", []uint64{2, 3, 4, 4}}
}

// ---------------------------------------------------------------------------------------------
// protobuf surgery: raw signatures without signer infos
func c10SetRawSigs(txBytes []byte, oneSig bool) ([]byte, error) {
	var t txtypes.Tx
	if err := t.Unmarshal(txBytes); err != nil {
		return nil, err
	}
	t.AuthInfo.SignerInfos = nil
	t.Signatures = nil
	if oneSig {
		t.Signatures = [][]byte{make([]byte, 65)}
	}
	return t.Marshal()
}

var _ = bytes.Equal
var _ = hex.EncodeToString
var _ = json.Marshal
var _ = abi.JSON
var _ = ed25519.GenPrivKey
var _ = delegationtypes.ModuleName
var _ = dogfoodtypes.ModuleName
var _ = exominttypes.ModuleName
var _ = feedisttypes.ModuleName
var _ = assetstypes.ModuleName
